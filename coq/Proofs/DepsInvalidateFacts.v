(* C16 -> C09: a consumer of a derived object (tasklet, slice of a mapped sequence, wrapper,
   container ...) is invalidated together with every task underneath that object.
   Kept apart from Proofs/DepsFacts.v so that C03 does not depend on the invalidation proofs. *)
From Coq Require Import List PArith Bool.
From JugV Require Import Model.Deps Proofs.DepsFacts.
From JugV Require Model.Dag Model.Invalidate Proofs.InvalidateFacts.
Import ListNotations.

(* the shell's invalidate(u) also invalidates the consumer t *)
Theorem consumer_invalidated_by_shell (d : Dag.dag) name t u :
  In (dag_node name t) d -> task_occurs u t -> In (t_id t) (Invalidate.shell_invalid d u).
Proof.
  intros Hin Hocc. apply InvalidateFacts.shell_invalid_spec.
  eapply consumer_depends_on_underlying; eassumption.
Qed.

(* `jug invalidate --target T` with T matching the underlying task's name removes the consumer's result *)
Theorem consumer_invalidated_by_cli (d : Dag.dag) (m : Invalidate.matcher) name t nu (st : Dag.store) :
  Dag.wf_dag d -> In (dag_node name t) d -> In nu d -> m (Dag.n_name nu) = true ->
  task_occurs (Dag.n_tid nu) t ->
  In (t_id t) (Invalidate.cli_invalid d m) /\ Invalidate.cli_store d m st (t_id t) = false.
Proof.
  intros W Hin Hnu Hm Hocc.
  assert (Hs : InvalidateFacts.invalid_spec d m (t_id t)).
  { exists nu. repeat split; try assumption. eapply consumer_depends_on_underlying; eassumption. }
  split.
  - apply (InvalidateFacts.cli_invalid_spec' d m W). exact Hs.
  - apply (InvalidateFacts.cli_store_spec d m W st (t_id t)). exact Hs.
Qed.

(* an opaque object with declared inner tasks (namedtuple / OrderedDict / ... holding tasks): its consumer goes with them *)
Theorem opaque_declared_invalidated_by_shell (d : Dag.dag) name t ts v u :
  In (dag_node name t) d -> In (AOpaque ts v) (t_args t) -> In u ts -> In (t_id t) (Invalidate.shell_invalid d u).
Proof.
  intros Hin Ha Hu. apply (consumer_invalidated_by_shell d name t u Hin).
  left. exists (AOpaque ts v). split; [exact Ha | apply occ_opaque; exact Hu].
Qed.
