(* Facts about Model/Keepalive.v: refresh gap of a live holder, a dead holder's lock,
   termination of the monitor, cleanup --failed-only followed by get(). *)
From Coq Require Import List ZArith Bool Lia.
From JugV Require Import Model.Keepalive.
Import ListNotations.
Local Open Scope Z_scope.

(* ---------------------------------------------------------------- generic run lemmas *)
Lemma exec_app : forall p evs1 evs2 w, exec p w (evs1 ++ evs2) = exec p (exec p w evs1) evs2.
Proof. induction evs1 as [|te r IH]; intros evs2 w; simpl; [reflexivity | apply IH]. Qed.

Lemma outs_app : forall p evs1 evs2 w,
  outs p w (evs1 ++ evs2) = outs p w evs1 ++ outs p (exec p w evs1) evs2.
Proof.
  induction evs1 as [|te r IH]; intros evs2 w; simpl; [reflexivity|].
  rewrite IH, app_assoc. reflexivity.
Qed.

Lemma valid_app : forall p drift evs1 evs2 w,
  valid p drift w (evs1 ++ evs2) = valid p drift w evs1 && valid p drift (exec p w evs1) evs2.
Proof.
  induction evs1 as [|te r IH]; intros evs2 w; simpl; [reflexivity|].
  rewrite IH, andb_assoc. reflexivity.
Qed.

(* an invariant preserved by every admissible step (of an allowed kind) holds after every valid run *)
Lemma valid_invariant : forall p drift (I : world -> Prop) (allowed : event -> Prop),
  (forall w te, I w -> allowed (snd te) -> ev_ok p drift w te = true -> I (fst (step p w te))) ->
  forall evs w, I w -> Forall (fun te => allowed (snd te)) evs -> valid p drift w evs = true -> I (exec p w evs).
Proof.
  intros p drift I allowed Hstep. induction evs as [|te r IH]; intros w Hw Hall Hv; simpl in *; [exact Hw|].
  apply andb_true_iff in Hv. destruct Hv as [Hok Hv]. inversion Hall as [|x l Hx Hl]; subst.
  apply IH; [apply Hstep; assumption | exact Hl | exact Hv].
Qed.

Lemma Forall_any : forall (evs : list (Z * event)), Forall (fun te => (fun _ : event => True) (snd te)) evs.
Proof. induction evs; constructor; auto. Qed.

Definition not_get (e : event) : Prop := e <> EGet.

(* case analysis on everything a step looks at, then linear arithmetic *)
Ltac crush :=
  simpl in *;
  repeat match goal with
         | H : _ /\ _ |- _ => destruct H
         | H : _ \/ _ |- _ => destruct H
         | H : False |- _ => destruct H
         | H : context [?a <=? ?b] |- _ => destruct (Z.leb_spec a b); simpl in *
         | |- context [?a <=? ?b] => destruct (Z.leb_spec a b); simpl in *
         | H : context [match ?x with _ => _ end] |- _ => destruct x eqn:?; simpl in *
         | |- context [match ?x with _ => _ end] => destruct x eqn:?; simpl in *
         | H : Some _ = Some _ |- _ => inversion H; subst; clear H
         | H : MRun _ _ _ = MRun _ _ _ |- _ => inversion H; subst; clear H
         | H : ?b = true |- _ => is_var b; subst b; simpl in *
         | H : ?b = false |- _ => is_var b; subst b; simpl in *
         | H : true = true -> _ |- _ => specialize (H eq_refl)
         | H : true = false |- _ => discriminate H
         | H : false = true |- _ => discriminate H
         | H : None = Some _ |- _ => discriminate H
         | H : Some _ = None |- _ => discriminate H
         | H : MDone = MRun _ _ _ |- _ => discriminate H
         | H : MRun _ _ _ = MDone |- _ => discriminate H
         end;
  repeat split; auto; try discriminate; try lia; try nia.

Section Facts.
  Variable p : params.
  Variables drift startup t0 : Z.

  Hypothesis HD : 0 <= p_period p + drift.
  Hypothesis Hstartup : 0 <= startup.
  Hypothesis Hrounds : 1 <= p_rounds p.

  (* D: longest round; B: longest time a live holder's lock stays untouched *)
  Definition longest_round : Z := p_period p + drift.
  Definition longest_gap : Z := p_rounds p * (p_period p + drift) + startup.

  (* ------------------------------------------------------------ general invariant *)
  Definition ginv (w : world) : Prop :=
    t0 <= w_now w /\
    match w_lock w with Some m => m <= w_now w | None => True end /\
    match w_mon w with
    | MRun c lw slack => 1 <= c <= p_rounds p /\ 0 <= slack <= startup /\ lw <= w_now w
    | MDone => True
    end.

  (* live holder whose lock file nobody else removes: the monitor runs, the file exists, and
     the distance between the monitor's last wake-up and the file's mtime is bounded *)
  Definition ainv (w : world) : Prop :=
    w_alive w = true -> w_held w = true ->
    match w_mon w, w_lock w with
    | MRun c lw slack, Some m => lw - m <= (p_rounds p - c) * (p_period p + drift) + startup - slack
    | _, _ => False
    end.

  Definition not_unlink (e : event) : Prop := e <> EUnlink.

  Hypothesis Hfts : p_failed_ts p <= t0.

  Lemma ginv_init : ginv (init p t0 startup).
  Proof. unfold ginv, init. crush. Qed.

  Lemma ainv_init : ainv (init p t0 startup).
  Proof. unfold ainv, init. crush. Qed.

  Lemma ginv_step : forall w te, ginv w -> ev_ok p drift w te = true -> ginv (fst (step p w te)).
  Proof.
    intros [now lock alive held m] [t e] G Hok.
    unfold ginv, ev_ok, step, mon_step in *. apply andb_true_iff in Hok.
    destruct e; crush.
  Qed.

  (* the side condition *)
  Hypothesis Hside : p_rounds p * (p_period p + drift) + startup < p_expiry p.

  (* a live holder's lock, seen at any admissible time, is not reported failed *)
  Lemma ainv_not_failed : forall w te, ginv w -> ainv w -> ev_ok p drift w te = true ->
    w_alive w = true -> w_held w = true -> lock_failed p (w_lock w) (fst te) = false.
  Proof.
    intros [now lock alive held m] [t e] G A Hok Ha Hh.
    unfold ginv, ainv, ev_ok, lock_failed, is_failed_ka in *. apply andb_true_iff in Hok.
    crush.
  Qed.

  Lemma ainv_step : forall w te, ginv w -> ainv w -> not_unlink (snd te) -> ev_ok p drift w te = true ->
    ainv (fst (step p w te)).
  Proof.
    intros w te G A Hnu Hok. pose proof (ainv_not_failed w te G A Hok) as NF.
    destruct w as [now lock alive held m]. destruct te as [t e].
    unfold ginv, ainv, ev_ok, step, mon_step, not_unlink in *. apply andb_true_iff in Hok.
    destruct e; simpl in *; try congruence; intros Ha Hh; crush.
  Qed.

  Lemma ginv_reach : forall evs, valid p drift (init p t0 startup) evs = true ->
    ginv (exec p (init p t0 startup) evs).
  Proof.
    intros evs Hv.
    apply (valid_invariant p drift ginv (fun _ => True)); auto using ginv_init, Forall_any.
    intros w te G _ Hok. apply ginv_step; assumption.
  Qed.

  Lemma ainv_reach : forall evs, Forall (fun te => not_unlink (snd te)) evs ->
    valid p drift (init p t0 startup) evs = true ->
    ginv (exec p (init p t0 startup) evs) /\ ainv (exec p (init p t0 startup) evs).
  Proof.
    intros evs Hall Hv.
    apply (valid_invariant p drift (fun w => ginv w /\ ainv w) not_unlink); auto.
    - intros w te [G A] Hnu Hok. split; [apply ginv_step | apply ainv_step]; assumption.
    - split; [apply ginv_init | apply ainv_init].
  Qed.

  (* (a) a live holder's lock is never reported failed, whatever else happens (other clients
     may query, try get(), run cleanup --failed-only), as long as nobody removes the file *)
  Theorem alive_never_failed : forall evs t e,
    Forall (fun te => not_unlink (snd te)) evs ->
    valid p drift (init p t0 startup) (evs ++ [(t, e)]) = true ->
    let w := exec p (init p t0 startup) evs in
    w_alive w = true -> w_held w = true ->
    (exists m, w_lock w = Some m) /\ lock_failed p (w_lock w) t = false.
  Proof.
    intros evs t e Hall Hv w Ha Hh. rewrite valid_app in Hv. apply andb_true_iff in Hv.
    destruct Hv as [Hv1 Hv2]. simpl in Hv2. rewrite andb_true_r in Hv2. fold w in Hv2.
    destruct (ainv_reach evs Hall Hv1) as [G A]. fold w in G, A. split.
    - unfold ainv in A. specialize (A Ha Hh). destruct (w_mon w); [|contradiction].
      destruct (w_lock w) as [m|]; [exists m; reflexivity | contradiction].
    - exact (ainv_not_failed w (t, e) G A Hv2 Ha Hh).
  Qed.

  (* ... hence is_failed() answers False and cleanup --failed-only leaves the lock alone *)
  Corollary alive_query_and_cleanup : forall evs t,
    Forall (fun te => not_unlink (snd te)) evs ->
    let w := exec p (init p t0 startup) evs in
    w_alive w = true -> w_held w = true ->
    (valid p drift (init p t0 startup) (evs ++ [(t, EQuery)]) = true ->
       snd (step p w (t, EQuery)) = [OLocked t true; OFailed t false]) /\
    (valid p drift (init p t0 startup) (evs ++ [(t, ECleanup)]) = true ->
       snd (step p w (t, ECleanup)) = [OCleaned t false] /\ w_lock (fst (step p w (t, ECleanup))) = w_lock w) /\
    (valid p drift (init p t0 startup) (evs ++ [(t, EGet)]) = true ->
       snd (step p w (t, EGet)) = [OGet t false]).
  Proof.
    intros evs t Hall w Ha Hh. split; [|split]; intros Hv.
    - destruct (alive_never_failed evs t EQuery Hall Hv Ha Hh) as [[m Hm] NF]. fold w in NF, Hm.
      unfold step; simpl. rewrite NF, Hm. reflexivity.
    - destruct (alive_never_failed evs t ECleanup Hall Hv Ha Hh) as [_ NF]. fold w in NF.
      unfold step; simpl. rewrite NF. split; reflexivity.
    - destruct (alive_never_failed evs t EGet Hall Hv Ha Hh) as [[m Hm] _]. fold w in Hm.
      unfold step; simpl. rewrite Hm. reflexivity.
  Qed.

  (* ------------------------------------------------------------ (b) a dead holder *)
  Lemma dead_stays_dead : forall evs w, w_alive w = false -> w_alive (exec p w evs) = false.
  Proof.
    induction evs as [|[t e] r IH]; intros w Ha; simpl; [exact Ha|]. apply IH.
    destruct w as [now lock alive held m]. unfold step, mon_step. destruct e; crush.
  Qed.

  Lemma dead_no_refresh : forall evs w, w_alive w = false -> forall t, ~ In (ORefresh t) (outs p w evs).
  Proof.
    induction evs as [|[t e] r IH]; intros w Ha u Hin; simpl in *; [exact Hin|].
    apply in_app_or in Hin. destruct Hin as [Hin|Hin].
    - destruct w as [now lock alive held m]. unfold step, mon_step, kill_out in Hin.
      destruct e; crush; try discriminate.
    - refine (IH _ _ u Hin). apply (dead_stays_dead [(t, e)] w Ha).
  Qed.

  (* after the death at td: the lock file (if any) carries an mtime <= td *)
  Definition dlinv (td : Z) (w : world) : Prop :=
    w_alive w = false /\ match w_lock w with Some m => m <= td | None => True end.

  (* after the death at td: a monitor still running last woke up no later than td *)
  Definition dminv (td : Z) (w : world) : Prop :=
    w_alive w = false /\
    match w_mon w with MRun c lw slack => lw <= td /\ slack <= startup | MDone => True end.

  Lemma dlinv_step : forall td w te, dlinv td w -> not_get (snd te) -> dlinv td (fst (step p w te)).
  Proof.
    intros td [now lock alive held m] [t e] Dl Hng. unfold dlinv, step, mon_step, not_get in *.
    destruct e; simpl in *; try congruence; crush.
  Qed.

  Lemma dminv_step : forall td w te, dminv td w -> dminv td (fst (step p w te)).
  Proof.
    intros td [now lock alive held m] [t e] Dm. unfold dminv, step, mon_step in *.
    destruct e; crush.
  Qed.

  Lemma die_establishes : forall w td, ginv w -> ev_ok p drift w (td, EDie) = true ->
    dlinv td (fst (step p w (td, EDie))) /\ dminv td (fst (step p w (td, EDie))).
  Proof.
    intros [now lock alive held m] td G Hok. unfold ginv, dlinv, dminv, ev_ok, step in *.
    apply andb_true_iff in Hok. crush.
  Qed.

  Lemma split_valid_at : forall pre te post,
    valid p drift (init p t0 startup) (pre ++ te :: post) = true ->
    let w := exec p (init p t0 startup) pre in
    ginv w /\ ev_ok p drift w te = true /\ valid p drift (fst (step p w te)) post = true /\
    exec p (init p t0 startup) (pre ++ te :: post) = exec p (fst (step p w te)) post.
  Proof.
    intros pre te post Hv w. rewrite valid_app in Hv. apply andb_true_iff in Hv. destruct Hv as [Hv1 Hv2].
    simpl in Hv2. apply andb_true_iff in Hv2. destruct Hv2 as [Hok Hv2].
    repeat split; auto.
    - apply ginv_reach; assumption.
    - apply ginv_reach; assumption.
    - apply ginv_reach; assumption.
    - rewrite exec_app. reflexivity.
  Qed.

  Theorem dead_lock_reported : forall pre td post,
    valid p drift (init p t0 startup) (pre ++ (td, EDie) :: post) = true ->
    (* the lock is never refreshed after the death *)
    (forall t, ~ In (ORefresh t) (outs p (exec p (init p t0 startup) (pre ++ [(td, EDie)])) post)) /\
    (* and, unless another client re-acquired it, it is absent or reported failed from td + expiry on *)
    (Forall (fun te => not_get (snd te)) post ->
     forall t, td + p_expiry p <= t ->
       let w := exec p (init p t0 startup) (pre ++ (td, EDie) :: post) in
       w_lock w = None \/ lock_failed p (w_lock w) t = true).
  Proof.
    intros pre td post Hv. destruct (split_valid_at pre (td, EDie) post Hv) as (G & Hok & Hv2 & Hex).
    split.
    - intros t. apply dead_no_refresh. rewrite exec_app. simpl.
      destruct (exec p (init p t0 startup) pre); reflexivity.
    - intros Hng t Ht w. unfold w. rewrite Hex.
      destruct (die_establishes _ td G Hok) as [Dl _].
      assert (Dl' : dlinv td (exec p (fst (step p (exec p (init p t0 startup) pre) (td, EDie))) post)).
      { clear Hv Hex Hv2. revert Dl Hng. generalize (fst (step p (exec p (init p t0 startup) pre) (td, EDie))).
        induction post as [|te r IH]; intros w0 Dl Hng; simpl; [exact Dl|].
        inversion Hng; subst. apply IH; [apply dlinv_step; assumption | assumption]. }
      destruct Dl' as [_ Dl']. unfold lock_failed, is_failed_ka.
      destruct (w_lock _) as [m|]; [right | left; reflexivity]. apply Z.leb_le. lia.
  Qed.

  (* ------------------------------------------------------------ (c) the monitor ends *)
  (* release() / fail() by the (live) holder kill it on the spot, and it stays ended *)
  Lemma kill_ends_monitor : forall w t e, e = ERelease \/ e = EFail -> w_alive w = true ->
    w_mon (fst (step p w (t, e))) = MDone /\
    w_held (fst (step p w (t, e))) = false /\
    (forall c lw slack, w_mon w = MRun c lw slack -> snd (step p w (t, e)) = [OExit t CKilled]).
  Proof.
    intros [now lock alive held m] t e [He|He] Ha; subst e; simpl in Ha; subst alive;
      unfold step; simpl; repeat split; intros c lw slack Hm; rewrite Hm; reflexivity.
  Qed.

  Lemma done_stays_done : forall evs w, w_mon w = MDone -> w_mon (exec p w evs) = MDone.
  Proof.
    induction evs as [|[t e] r IH]; intros w Hm; simpl; [exact Hm|]. apply IH.
    destruct w as [now lock alive held m]. simpl in Hm. subst m. unfold step, mon_step. destruct e; crush.
  Qed.

  (* the holder died at td: the monitor cannot be running at any admissible time later than
     td + one round (+ the start-up allowance if it had not completed its first round) *)
  Theorem dead_monitor_ends : forall pre td post t e,
    valid p drift (init p t0 startup) (pre ++ (td, EDie) :: post ++ [(t, e)]) = true ->
    td + (p_period p + drift) + startup < t ->
    w_mon (exec p (init p t0 startup) (pre ++ (td, EDie) :: post)) = MDone.
  Proof.
    intros pre td post t e Hv Ht.
    destruct (split_valid_at pre (td, EDie) (post ++ [(t, e)]) Hv) as (G & Hok & Hv2 & _).
    rewrite exec_app. simpl.
    destruct (die_establishes _ td G Hok) as [_ Dm].
    rewrite valid_app in Hv2. apply andb_true_iff in Hv2. destruct Hv2 as [_ Hv3].
    simpl in Hv3. rewrite andb_true_r in Hv3.
    assert (Dm' : dminv td (exec p (fst (step p (exec p (init p t0 startup) pre) (td, EDie))) post)).
    { clear Hv Hv3. revert Dm. generalize (fst (step p (exec p (init p t0 startup) pre) (td, EDie))).
      induction post as [|te r IH]; intros w0 Dm; simpl; [exact Dm|]. apply IH. apply dminv_step. exact Dm. }
    destruct Dm' as [_ Dm']. unfold ev_ok in Hv3. apply andb_true_iff in Hv3. destruct Hv3 as [_ Hv3].
    destruct (w_mon _) as [c lw slack|]; [|reflexivity]. simpl in Hv3. apply Z.leb_le in Hv3. lia.
  Qed.

  (* the lock file was removed by somebody else at tu (and not re-created): the monitor cannot
     be running later than tu + one refresh interval (+ start-up allowance) *)
  Definition uinv (tu : Z) (w : world) : Prop :=
    w_lock w = None /\
    match w_mon w with
    | MRun c lw slack => 1 <= c /\ 0 <= slack /\
        lw + slack + c * (p_period p + drift) <= tu + p_rounds p * (p_period p + drift) + startup
    | MDone => True
    end.

  Lemma uinv_step : forall tu w te, uinv tu w -> not_get (snd te) -> ev_ok p drift w te = true ->
    uinv tu (fst (step p w te)).
  Proof.
    intros tu [now lock alive held m] [t e] U Hng Hok. unfold uinv, ev_ok, step, mon_step, not_get in *.
    apply andb_true_iff in Hok. destruct e; simpl in *; try congruence; crush.
  Qed.

  Lemma unlink_establishes : forall w tu, ginv w -> ev_ok p drift w (tu, EUnlink) = true ->
    uinv tu (fst (step p w (tu, EUnlink))).
  Proof.
    intros [now lock alive held m] tu G Hok. unfold ginv, uinv, ev_ok, step in *.
    apply andb_true_iff in Hok. crush.
  Qed.

  Theorem unlinked_monitor_ends : forall pre tu post t e,
    valid p drift (init p t0 startup) (pre ++ (tu, EUnlink) :: post ++ [(t, e)]) = true ->
    Forall (fun te => not_get (snd te)) post ->
    tu + p_rounds p * (p_period p + drift) + startup < t ->
    w_mon (exec p (init p t0 startup) (pre ++ (tu, EUnlink) :: post)) = MDone.
  Proof.
    intros pre tu post t e Hv Hng Ht.
    destruct (split_valid_at pre (tu, EUnlink) (post ++ [(t, e)]) Hv) as (G & Hok & Hv2 & _).
    rewrite exec_app. simpl.
    pose proof (unlink_establishes _ tu G Hok) as U.
    rewrite valid_app in Hv2. apply andb_true_iff in Hv2. destruct Hv2 as [Hv2 Hv3].
    simpl in Hv3. rewrite andb_true_r in Hv3.
    pose proof (valid_invariant p drift (uinv tu) not_get
                  (fun w te I a ok => uinv_step tu w te I a ok) post _ U Hng Hv2) as U'.
    destruct U' as [_ U']. unfold ev_ok in Hv3. apply andb_true_iff in Hv3. destruct Hv3 as [_ Hv3].
    destruct (w_mon _) as [c lw slack|]; [|reflexivity]. simpl in Hv3. apply Z.leb_le in Hv3.
    destruct U' as (Hc & Hs & Hb). nia.
  Qed.

  (* ------------------------------------------------------------ (d) cleanup --failed-only, then get() *)
  Lemma get_succeeds_iff_absent : forall w t,
    (snd (step p w (t, EGet)) = [OGet t true] <-> w_lock w = None) /\
    (snd (step p w (t, EGet)) = [OGet t true] -> w_lock (fst (step p w (t, EGet))) = Some t).
  Proof.
    intros [now lock alive held m] t. unfold step; simpl. destruct lock; simpl; repeat split; intros H;
      try reflexivity; try discriminate.
  Qed.

  Lemma cleanup_failed_then_get : forall w tc tg, lock_failed p (w_lock w) tc = true ->
    let w1 := fst (step p w (tc, ECleanup)) in
    snd (step p w (tc, ECleanup)) = [OCleaned tc true] /\ w_lock w1 = None /\
    snd (step p w1 (tg, EGet)) = [OGet tg true].
  Proof.
    intros [now lock alive held m] tc tg Hf. unfold step; simpl in *. rewrite Hf. simpl. repeat split.
  Qed.

  Lemma outs_two : forall w a b,
    outs p w [a; b] = snd (step p w a) ++ snd (step p (fst (step p w a)) b).
  Proof. intros w a b. simpl. rewrite app_nil_r. reflexivity. Qed.

  (* end to end: holder dies at td; any admissible continuation in which nobody else re-acquires
     the lock; cleanup --failed-only at tc >= td + expiry; then get() succeeds *)
  Theorem dead_worker_task_can_run_again : forall pre td mid tc tg,
    valid p drift (init p t0 startup) (pre ++ (td, EDie) :: mid) = true ->
    Forall (fun te => not_get (snd te)) mid ->
    td + p_expiry p <= tc ->
    let w := exec p (init p t0 startup) (pre ++ (td, EDie) :: mid) in
    exists b, outs p w [(tc, ECleanup); (tg, EGet)] = [OCleaned tc b; OGet tg true] /\
              (b = false -> w_lock w = None).
  Proof.
    intros pre td mid tc tg Hv Hng Ht w.
    destruct (dead_lock_reported pre td mid Hv) as [_ H]. specialize (H Hng tc Ht). fold w in H.
    destruct H as [H|H].
    - exists false. destruct w as [now lock alive held m]. simpl in H. subst lock.
      unfold outs, step; simpl. split; reflexivity.
    - exists true. destruct (cleanup_failed_then_get w tc tg H) as (H1 & H2 & H3).
      rewrite outs_two. fold (fst (step p w (tc, ECleanup))). rewrite H1, H3. split; [reflexivity | discriminate].
  Qed.

  (* a lock marked by fail() is reported failed from failed_ts + expiry on (i.e. always, on a
     real clock) *)
  Lemma failed_mark_reported : forall w tf t m, w_alive w = true -> w_lock w = Some m ->
    p_failed_ts p + p_expiry p <= t ->
    lock_failed p (w_lock (fst (step p w (tf, EFail)))) t = true.
  Proof.
    intros [now lock alive held mo] tf t m Ha Hl Ht. simpl in *. subst. unfold step; simpl.
    unfold is_failed_ka. apply Z.leb_le. lia.
  Qed.

  (* positive form of (b): the holder died holding the lock, nobody touches the file afterwards
     (only monitor wake-ups and is_failed() queries): the file is still there and every query at
     t >= td + expiry answers True *)
  Definition quiet (e : event) : Prop := e = EWake \/ e = EQuery.

  Definition dpinv (td : Z) (w : world) : Prop :=
    w_alive w = false /\ match w_lock w with Some m => m <= td | None => False end.

  Lemma dpinv_step : forall td w te, dpinv td w -> quiet (snd te) -> dpinv td (fst (step p w te)).
  Proof.
    intros td [now lock alive held m] [t e] Dp [Hq|Hq]; simpl in Hq; subst e;
      unfold dpinv, step, mon_step in *; crush.
  Qed.

  Theorem dead_held_lock_reported_failed : forall pre td post,
    Forall (fun te => not_unlink (snd te)) pre ->
    valid p drift (init p t0 startup) (pre ++ (td, EDie) :: post) = true ->
    w_alive (exec p (init p t0 startup) pre) = true ->
    w_held (exec p (init p t0 startup) pre) = true ->
    Forall (fun te => quiet (snd te)) post ->
    forall t, td + p_expiry p <= t ->
      lock_failed p (w_lock (exec p (init p t0 startup) (pre ++ (td, EDie) :: post))) t = true.
  Proof.
    intros pre td post Hnu Hv Ha Hh Hq t Ht.
    destruct (split_valid_at pre (td, EDie) post Hv) as (G & Hok & Hv2 & Hex). rewrite Hex.
    assert (Hv1 : valid p drift (init p t0 startup) pre = true).
    { rewrite valid_app in Hv. apply andb_true_iff in Hv. tauto. }
    destruct (ainv_reach pre Hnu Hv1) as [_ A]. specialize (A Ha Hh).
    assert (Dp : dpinv td (fst (step p (exec p (init p t0 startup) pre) (td, EDie)))).
    { pose proof (ev_ok_now_aux := Hok). unfold ev_ok in Hok. apply andb_true_iff in Hok. destruct Hok as [Hn _].
      apply Z.leb_le in Hn. simpl in Hn.
      destruct G as (_ & Gl & _). destruct (exec p (init p t0 startup) pre) as [now lock alive held m].
      unfold dpinv, step; simpl in *. destruct m; [|contradiction]. destruct lock; [|contradiction].
      split; [reflexivity | lia]. }
    assert (Dp' : dpinv td (exec p (fst (step p (exec p (init p t0 startup) pre) (td, EDie))) post)).
    { clear Hv Hex Hv2. revert Dp Hq. generalize (fst (step p (exec p (init p t0 startup) pre) (td, EDie))).
      induction post as [|te r IH]; intros w0 Dp Hq; simpl; [exact Dp|].
      inversion Hq; subst. apply IH; [apply dpinv_step; assumption | assumption]. }
    destruct Dp' as [_ Dp']. unfold lock_failed, is_failed_ka. revert Dp'.
    match goal with |- context [w_lock ?x] => destruct (w_lock x) as [m|] end; intros Dp'; [|destruct Dp'].
    apply Z.leb_le. lia.
  Qed.
End Facts.

(* ------------------------------------------------------------------------------------------
   fail() as its two primitives (stop the helper ; write the failed stamp) with the helper as a
   concurrent process, and the start of the helper.  No assumption on time stamps is needed. *)
Section FailOrder.
  Variable p : params.

  (* events after which the lock file, once marked, still carries the failed stamp: everything
     except its removal (release(), rm / cleanup --locks-only, cleanup --failed-only) *)
  Definition keeps_lock (e : event) : Prop := e <> ERelease /\ e <> EUnlink /\ e <> ECleanup.

  Lemma mon_done_stays : forall evs w, w_mon w = MDone -> w_mon (exec p w evs) = MDone.
  Proof.
    induction evs as [|[t e] r IH]; intros w Hm; simpl; [exact Hm|]. apply IH.
    destruct w as [now lock alive held m]. simpl in Hm. subst m. unfold step, mon_step. destruct e; crush.
  Qed.

  (* an ended helper never touches the lock again *)
  Lemma mon_done_no_refresh : forall evs w, w_mon w = MDone -> forall t, ~ In (ORefresh t) (outs p w evs).
  Proof.
    induction evs as [|[t e] r IH]; intros w Hm u Hin; simpl in *; [exact Hin|].
    apply in_app_or in Hin. destruct Hin as [Hin|Hin].
    - destruct w as [now lock alive held m]. simpl in Hm. subst m. unfold step, mon_step, kill_out in Hin.
      destruct e; crush; try discriminate.
    - refine (IH _ _ u Hin). apply (mon_done_stays [(t, e)] w Hm).
  Qed.

  (* the lock file carries the failed stamp and the helper has ended *)
  Definition minv (w : world) : Prop := w_lock w = Some (p_failed_ts p) /\ w_mon w = MDone.

  Lemma minv_step : forall w te, minv w -> keeps_lock (snd te) -> minv (fst (step p w te)).
  Proof.
    intros [now lock alive held m] [t e] [Hl Hm] (H1 & H2 & H3). simpl in *. subst lock m.
    unfold minv, step, mon_step. destruct e; simpl in *; try congruence; crush.
  Qed.

  Lemma minv_exec : forall evs w, minv w -> Forall (fun te => keeps_lock (snd te)) evs -> minv (exec p w evs).
  Proof.
    induction evs as [|te r IH]; intros w M Hall; simpl; [exact M|].
    inversion Hall; subst. apply IH; [apply minv_step; assumption | assumption].
  Qed.

  Lemma stop_ends_monitor : forall w t, w_alive w = true -> w_mon (fst (step p w (t, EFailStop))) = MDone.
  Proof. intros [now lock alive held m] t Ha. simpl in Ha. subst alive. reflexivity. Qed.

  (* EFail is its two primitives with nothing in between *)
  Lemma fail_is_stop_then_mark : forall w t, w_alive w = true ->
    exec p w [(t, EFailStop); (t, EFailMark)] = fst (step p w (t, EFail)) /\
    outs p w [(t, EFailStop); (t, EFailMark)] =
      snd (step p w (t, EFail)) ++ [OMarked t (match w_lock w with Some _ => true | None => false end)].
  Proof.
    intros [now lock alive held m] t Ha. simpl in Ha. subst alive.
    destruct m, lock; split; reflexivity.
  Qed.

  (* fail() in the order of the source: stop the helper at t1; ANY events in between (wake-ups of the
     helper, other clients, ...); write the failed stamp at t2; ANY events afterwards.
     (i) the helper never refreshes the lock after the first primitive;
     (ii) if the stamp was written (fail() returns True) then, as long as nobody removes the lock
     file, it keeps the failed stamp: is_locked() and is_failed() answer True at every
     t >= failed stamp + expiry, whatever the helper or anybody else does. *)
  Theorem fail_in_order_sticky : forall w t1 mid t2 post,
    w_alive w = true ->
    let w1 := exec p w ((t1, EFailStop) :: mid) in
    let w2 := fst (step p w1 (t2, EFailMark)) in
    (forall t, ~ In (ORefresh t) (outs p (fst (step p w (t1, EFailStop))) (mid ++ (t2, EFailMark) :: post))) /\
    (snd (step p w1 (t2, EFailMark)) = [OMarked t2 true] ->
     forall post1 post2, post = post1 ++ post2 ->
       Forall (fun te => keeps_lock (snd te)) post1 ->
       w_lock (exec p w2 post1) = Some (p_failed_ts p) /\
       forall t, p_failed_ts p + p_expiry p <= t ->
         snd (step p (exec p w2 post1) (t, EQuery)) = [OLocked t true; OFailed t true] /\
         snd (step p (exec p w2 post1) (t, EGet)) = [OGet t false]).
  Proof.
    intros w t1 mid t2 post Ha w1 w2. split.
    - intros t. apply mon_done_no_refresh. apply stop_ends_monitor. exact Ha.
    - intros Hout post1 post2 Hpost Hall.
      assert (Hm1 : w_mon w1 = MDone).
      { unfold w1. simpl. apply mon_done_stays. apply stop_ends_monitor. exact Ha. }
      assert (M : minv w2).
      { unfold w2. destruct w1 as [now lock alive held m]. simpl in Hm1. subst m.
        unfold minv, step in *. simpl in *. destruct alive; simpl in *; [|discriminate Hout].
        destruct lock; simpl in *; [split; reflexivity | discriminate Hout]. }
      destruct (minv_exec post1 w2 M Hall) as [Hl _]. split; [exact Hl|].
      intros t Ht. unfold step; simpl. rewrite Hl. simpl. unfold is_failed_ka.
      assert (E : (p_failed_ts p <=? t - p_expiry p) = true) by (apply Z.leb_le; lia).
      rewrite E. split; reflexivity.
  Qed.

  (* ---- the start of the helper *)
  Lemma zlist_eqb_refl : forall a, zlist_eqb a a = true.
  Proof. induction a as [|x a IH]; simpl; [reflexivity|]. rewrite Z.eqb_refl. exact IH. Qed.

  (* started as start_monitor() does (inherited cwd, self.fullname unchanged) the helper addresses
     the holder's lock file, for relative and absolute jugdirs alike *)
  Lemma start_monitor_addresses_the_lock : forall (wcwd : list Z) (fullname : path),
    helper_target wcwd (start_monitor_launch fullname) = lock_file wcwd fullname.
  Proof. reflexivity. Qed.

  (* in general: passing self.fullname unchanged is right iff the path is absolute or the helper's
     working directory is the holder's *)
  Lemma unchanged_argument_iff : forall (wcwd : list Z) (c : option path) (fullname : path),
    helper_target wcwd {| l_cwd := c; l_arg := fullname |} = lock_file wcwd fullname <->
    (fst fullname = true \/ helper_cwd wcwd {| l_cwd := c; l_arg := fullname |} = wcwd).
  Proof.
    intros wcwd c [a comps]. unfold helper_target, lock_file, resolve; simpl. destruct a; simpl.
    - split; intros _; [left; reflexivity | reflexivity].
    - split.
      + intros H. right. apply app_inv_tail in H. exact H.
      + intros [H|H]; [discriminate H | rewrite H; reflexivity].
  Qed.
End FailOrder.
