(* C08: collision witnesses for the undelimited hash stream; injectivity of the delimited stream
   (prefix-code argument); the real stream as its erasure; digests under A1/A2. *)
From Coq Require Import List Arith PArith NArith Bool Permutation Lia.
From JugV Require Import Model.Hash Proofs.HashFacts.
Import ListNotations.

Local Open Scope positive_scope.
(* f([1], 2)  /  f([1, 2]) ;  ids: 5000 = pickle(b'mod.f'), 1001 = pickle(1), 1002 = pickle(2) *)
Definition w1 : pv := mkTask 5000 [PSeq KList [Leaf 1001]; Leaf 1002] [].
Definition w2 : pv := mkTask 5000 [PSeq KList [Leaf 1001; Leaf 1002]] [].

Lemma collision_witness :
  exists v v' : pv,
    stream v = stream v' /\
    (forall (D : Type) (leD : D -> D -> bool) (H : list (atom D) -> D), fl D leD H v = fl D leD H v') /\
    (forall (D : Type) (leD : D -> D -> bool) (H : list (atom D) -> D), ~ pv_perm D leD H v v') /\
    dstream v <> dstream v'.
Proof.
  exists w1, w2. split; [vm_compute; reflexivity|]. split; [intros; reflexivity|]. split.
  - intros D leD H Hp. unfold w1, w2, mkTask in Hp.
    inversion Hp as [| | | | | |m fs fs' Hf]; subst.
    inversion Hf as [|? ? ? ? _ Hf1]; subst. inversion Hf1 as [|? ? ? ? [_ Hargs] _]; subst.
    cbn [snd] in Hargs. inversion Hargs as [|k xs ys Hxy| | | | |]; subst.
    inversion Hxy as [|? ? ? ? _ Ht]; subst. inversion Ht.
  - vm_compute. discriminate.
Qed.

(* g(a={'b':1}, c=2) / g(a={'b':1,'c':2}), in the (possible) case that the digests of the keys sort
   a < c and b < c: ids 5001='a' 5002='b' 5003='c' *)
Definition k1 : pv := mkTask 5000 [] [(5001, PDict [(Leaf 5002, Leaf 1001)]); (5003, Leaf 1002)].
Definition k2 : pv := mkTask 5000 [] [(5001, PDict [(Leaf 5002, Leaf 1001); (Leaf 5003, Leaf 1002)])].

Lemma collision_witness_kwargs :
  exists v v' : pv, stream v = stream v' /\ v <> v' /\ dstream v <> dstream v'.
Proof.
  exists k1, k2. split; [vm_compute; reflexivity|]. split; [discriminate|]. vm_compute. discriminate.
Qed.
Local Close Scope positive_scope.

(* ---- "the same invocation": equal up to the memory layout of arrays ---------------------- *)
Inductive pv_equiv : pv -> pv -> Prop :=
| PE_leaf l : pv_equiv (Leaf l) (Leaf l)
| PE_raw l : pv_equiv (RawB l) (RawB l)
| PE_seq k xs ys : Forall2 pv_equiv xs ys -> pv_equiv (PSeq k xs) (PSeq k ys)
| PE_set k xs ys : Forall2 pv_equiv xs ys -> pv_equiv (PSet k xs) (PSet k ys)
| PE_dict kvs kvs' :
    Forall2 (fun a b => pv_equiv (fst a) (fst b) /\ pv_equiv (snd a) (snd b)) kvs kvs' ->
    pv_equiv (PDict kvs) (PDict kvs')
| PE_arr d s c l l' : pv_equiv (PArr d s c l) (PArr d s c l')
| PE_objarr d s xs ys l l' : Forall2 pv_equiv xs ys -> pv_equiv (PObjArr d s xs l) (PObjArr d s ys l')
| PE_hashed m fs fs' : Forall2 (fun a b => fst a = fst b /\ pv_equiv (snd a) (snd b)) fs fs' ->
    pv_equiv (PHashed m fs) (PHashed m fs').

Lemma Forall_Forall2_diag {A} (R : A -> A -> Prop) l : Forall (fun a => R a a) l -> Forall2 R l l.
Proof. induction 1; constructor; auto. Qed.
Lemma pv_equiv_refl : forall v, pv_equiv v v.
Proof.
  induction v using pv_ind'; constructor; apply Forall_Forall2_diag; try assumption.
  eapply Forall_impl; [|exact H]. intros a Ha. split; [reflexivity | exact Ha].
Qed.

Lemma int_id_inj i j : int_id i = int_id j -> i = j.
Proof. unfold int_id. intro E. apply Nat2Pos.inj in E; lia. Qed.
Lemma cmark_int i : cmark (int_id i) = false.
Proof. unfold cmark, int_id. apply Pos.leb_gt. lia. Qed.
Lemma cmark_seq k : cmark (seq_mark k) = true.
Proof. destruct k; reflexivity. Qed.
Lemma cmark_set k : cmark (set_mark k) = true.
Proof. destruct k; reflexivity. Qed.
Lemma seq_mark_inj k k' : seq_mark k = seq_mark k' -> k = k'.
Proof. destruct k, k'; simpl; intro E; try reflexivity; discriminate. Qed.
Lemma set_mark_inj k k' : set_mark k = set_mark k' -> k = k'.
Proof. destruct k, k'; simpl; intro E; try reflexivity; discriminate. Qed.
Lemma seq_set_mark k k' : seq_mark k <> set_mark k'.
Proof. destruct k, k'; discriminate. Qed.

Lemma tb_cons_inj a b (l l' : list tok) : TB a :: l = TB b :: l' -> a = b /\ l = l'.
Proof. intro E. injection E. auto. Qed.

Section Prefix.
  Variable isobj : positive -> bool.
  Variable delim : bool.
  Notation code := (stream_elem delim).
  Notation lns := (lensd delim).
  Notation wf := (wfb isobj).

  (* the code of a value is prefix-free (jointly with its extents when they are not in the stream) *)
  Definition PF (v : pv) : Prop :=
    wf v = true -> forall v' r r' l l', wf v' = true ->
      code v ++ r = code v' ++ r' -> lns v ++ l = lns v' ++ l' ->
      pv_equiv v v' /\ r = r' /\ l = l'.

  Lemma len_both n n' (a a' : list tok) (b b' : list nat) :
    len_tok delim n ++ a = len_tok delim n' ++ a' -> len_l delim n ++ b = len_l delim n' ++ b' ->
    n = n' /\ a = a' /\ b = b'.
  Proof.
    unfold len_tok, len_l. destruct delim; cbn [app]; intros E1 E2.
    - injection E1 as E1 E1'. apply int_id_inj in E1. auto.
    - injection E2 as E2 E2'. auto.
  Qed.

  Lemma enum_pf : forall xs, Forall PF xs -> forallb wf xs = true ->
    forall xs' i r r' l l', forallb wf xs' = true -> length xs = length xs' ->
      enumT i (map code xs) ++ r = enumT i (map code xs') ++ r' ->
      flat_map lns xs ++ l = flat_map lns xs' ++ l' ->
      Forall2 pv_equiv xs xs' /\ r = r' /\ l = l'.
  Proof.
    induction 1 as [|x xs Hx _ IH]; intros Hw xs' i r r' l l' Hw' Hlen E EL.
    - destruct xs'; [|discriminate]. cbn in E, EL. auto.
    - destruct xs' as [|x' xs']; [discriminate|].
      cbn [forallb] in Hw, Hw'. apply andb_true_iff in Hw as [Hwx Hw]. apply andb_true_iff in Hw' as [Hwx' Hw'].
      cbn [map enumT flat_map] in E, EL. injection Hlen as Hlen.
      rewrite <- !app_comm_cons, <- !app_assoc in E. injection E as E.
      rewrite <- !app_assoc in EL.
      destruct (Hx Hwx _ _ _ _ _ Hwx' E EL) as (Hxx & E' & EL').
      destruct (IH Hw _ _ _ _ _ _ Hw' Hlen E' EL') as (Hrest & ? & ?).
      split; [constructor; assumption | auto].
  Qed.

  Lemma set_pf : forall xs, Forall PF xs -> forallb wf xs = true ->
    forall xs' i r r' l l', forallb wf xs' = true -> length xs = length xs' ->
      enumTD i (map (fun x => TB L_hash1 :: code x) xs) ++ r = enumTD i (map (fun x => TB L_hash1 :: code x) xs') ++ r' ->
      flat_map lns xs ++ l = flat_map lns xs' ++ l' ->
      Forall2 pv_equiv xs xs' /\ r = r' /\ l = l'.
  Proof.
    induction 1 as [|x xs Hx _ IH]; intros Hw xs' i r r' l l' Hw' Hlen E EL.
    - destruct xs'; [|discriminate]. cbn in E, EL. auto.
    - destruct xs' as [|x' xs']; [discriminate|].
      cbn [forallb] in Hw, Hw'. apply andb_true_iff in Hw as [Hwx Hw]. apply andb_true_iff in Hw' as [Hwx' Hw'].
      cbn [map enumTD flat_map] in E, EL. injection Hlen as Hlen.
      rewrite <- !app_comm_cons in E. injection E as Ex E.
      rewrite <- !app_assoc in EL.
      assert (Ex' : code x ++ [] = code x' ++ []) by (rewrite !app_nil_r; exact Ex).
      destruct (Hx Hwx _ _ _ _ _ Hwx' Ex' EL) as (Hxx & _ & EL').
      destruct (IH Hw _ _ _ _ _ _ Hw' Hlen E EL') as (Hrest & ? & ?).
      split; [constructor; assumption | auto].
  Qed.

  Lemma dict_pf : forall kvs, Forall (fun kv => PF (fst kv) /\ PF (snd kv)) kvs ->
    forallb (fun kv => wf (fst kv) && wf (snd kv)) kvs = true ->
    forall kvs' r r' l l', forallb (fun kv => wf (fst kv) && wf (snd kv)) kvs' = true -> length kvs = length kvs' ->
      itemsT (map (fun kv => (TB L_hash1 :: code (fst kv), code (snd kv))) kvs) ++ r =
      itemsT (map (fun kv => (TB L_hash1 :: code (fst kv), code (snd kv))) kvs') ++ r' ->
      flat_map (fun kv => lns (fst kv) ++ lns (snd kv)) kvs ++ l = flat_map (fun kv => lns (fst kv) ++ lns (snd kv)) kvs' ++ l' ->
      Forall2 (fun a b => pv_equiv (fst a) (fst b) /\ pv_equiv (snd a) (snd b)) kvs kvs' /\ r = r' /\ l = l'.
  Proof.
    unfold itemsT.
    induction 1 as [|[k v] kvs [Hk Hv] _ IH]; intros Hw kvs' r r' l l' Hw' Hlen E EL.
    - destruct kvs'; [|discriminate]. cbn in E, EL. auto.
    - destruct kvs' as [|[k' v'] kvs']; [discriminate|].
      cbn [forallb fst snd] in Hw, Hw', Hk, Hv.
      apply andb_true_iff in Hw as [Hwx Hw]. apply andb_true_iff in Hw' as [Hwx' Hw'].
      apply andb_true_iff in Hwx as [Hwk Hwv]. apply andb_true_iff in Hwx' as [Hwk' Hwv'].
      cbn [map flat_map fst snd] in E, EL. injection Hlen as Hlen.
      rewrite <- !app_comm_cons, <- !app_assoc in E. injection E as Ek E.
      rewrite <- !app_assoc in EL.
      assert (Ek' : code k ++ [] = code k' ++ []) by (rewrite !app_nil_r; exact Ek).
      destruct (Hk Hwk _ _ _ _ _ Hwk' Ek' EL) as (Hkk & _ & EL').
      destruct (Hv Hwv _ _ _ _ _ Hwv' E EL') as (Hvv & E' & EL'').
      destruct (IH Hw _ _ _ _ _ Hw' Hlen E' EL'') as (Hrest & ? & ?).
      split; [constructor; [split; assumption | assumption] | auto].
  Qed.

  Lemma fields_pf : forall fs, Forall (fun f => PF (snd f)) fs ->
    forallb (fun f => is_label (fst f) && wf (snd f)) fs = true ->
    forall fs' l l', forallb (fun f => is_label (fst f) && wf (snd f)) fs' = true ->
      flat_map (fun f => TB (fst f) :: code (snd f)) fs = flat_map (fun f => TB (fst f) :: code (snd f)) fs' ->
      flat_map (fun f => lns (snd f)) fs ++ l = flat_map (fun f => lns (snd f)) fs' ++ l' ->
      Forall2 (fun a b => fst a = fst b /\ pv_equiv (snd a) (snd b)) fs fs' /\ l = l'.
  Proof.
    induction 1 as [|[n x] fs Hx _ IH]; intros Hw fs' l l' Hw' E EL.
    - destruct fs'; [|discriminate]. cbn in EL. auto.
    - destruct fs' as [|[n' x'] fs']; [discriminate|].
      cbn [forallb fst snd] in Hw, Hw', Hx.
      apply andb_true_iff in Hw as [Hwx Hw]. apply andb_true_iff in Hw' as [Hwx' Hw'].
      apply andb_true_iff in Hwx as [_ Hwx]. apply andb_true_iff in Hwx' as [_ Hwx'].
      cbn [flat_map fst snd] in E, EL.
      rewrite <- !app_comm_cons in E. injection E as En E.
      rewrite <- !app_assoc in EL.
      destruct (Hx Hwx _ _ _ _ _ Hwx' E EL) as (Hxx & E' & EL').
      destruct (IH Hw _ _ _ Hw' E' EL') as (Hrest & ?).
      split; [constructor; [split; assumption | assumption] | auto].
  Qed.

  Lemma fields_head_label fs : forallb (fun f => is_label (fst f) && wf (snd f)) fs = true ->
    forall b rest, flat_map (fun f => TB (fst f) :: code (snd f)) fs = TB b :: rest -> is_label b = true.
  Proof.
    destruct fs as [|[n x] fs]; intros Hw b rest E; [discriminate|].
    cbn [forallb flat_map fst snd] in Hw, E. apply andb_true_iff in Hw as [Hw _]. apply andb_true_iff in Hw as [Hw _].
    rewrite <- app_comm_cons in E. injection E as E _. subst. exact Hw.
  Qed.

  Ltac kill :=
    exfalso;
    repeat match goal with
    | H : negb _ = true |- _ => apply negb_true_iff in H
    | H : _ && _ = true |- _ => apply andb_true_iff in H; destruct H
    end; subst;
    try discriminate;
    try (match goal with H : cmark (seq_mark _) = false |- _ => rewrite cmark_seq in H; discriminate end);
    try (match goal with H : cmark (set_mark _) = false |- _ => rewrite cmark_set in H; discriminate end);
    try (match goal with H : seq_mark _ = set_mark _ |- _ => exact (seq_set_mark _ _ H) end);
    try (match goal with H : set_mark _ = seq_mark _ |- _ => exact (seq_set_mark _ _ (eq_sym H)) end);
    try (match goal with H : seq_mark ?k = _ |- _ => destruct k; discriminate end);
    try (match goal with H : _ = seq_mark ?k |- _ => destruct k; discriminate end);
    try (match goal with H : set_mark ?k = _ |- _ => destruct k; discriminate end);
    try (match goal with H : _ = set_mark ?k |- _ => destruct k; discriminate end);
    try congruence.

  Theorem code_prefix_free : forall v, PF v.
  Proof.
    induction v using pv_ind'; intros Hw v' r r' l0 l0' Hw' E EL.
    - (* Leaf *)
      cbn [wfb] in Hw.
      destruct v'; cbn [stream_elem lensd wfb] in E, EL, Hw'; try discriminate;
        rewrite <- ?app_comm_cons in E; apply tb_cons_inj in E as [E1 E2]; try solve [kill].
      subst. cbn [app] in EL, E2. split; [constructor | auto].
    - discriminate.
    - (* PSeq *)
      cbn [wfb] in Hw.
      destruct v'; cbn [stream_elem lensd wfb] in E, EL, Hw'; try discriminate;
        rewrite <- ?app_comm_cons in E; apply tb_cons_inj in E as [E1 E2]; try solve [kill].
      apply seq_mark_inj in E1. subst k0.
      rewrite <- !app_assoc in E2, EL.
      destruct (len_both _ _ _ _ _ _ E2 EL) as (Hlen & E' & EL').
      destruct (enum_pf xs H Hw _ _ _ _ _ _ Hw' Hlen E' EL') as (Hf & ? & ?).
      split; [constructor; exact Hf | auto].
    - (* PSet *)
      cbn [wfb] in Hw.
      destruct v'; cbn [stream_elem lensd wfb] in E, EL, Hw'; try discriminate;
        rewrite <- ?app_comm_cons in E; apply tb_cons_inj in E as [E1 E2]; try solve [kill].
      apply set_mark_inj in E1. subst k0.
      rewrite <- !app_assoc in E2, EL.
      destruct (len_both _ _ _ _ _ _ E2 EL) as (Hlen & E' & EL').
      destruct (set_pf xs H Hw _ _ _ _ _ _ Hw' Hlen E' EL') as (Hf & ? & ?).
      split; [constructor; exact Hf | auto].
    - (* PDict *)
      cbn [wfb] in Hw.
      destruct v'; cbn [stream_elem lensd wfb] in E, EL, Hw'; try discriminate;
        rewrite <- ?app_comm_cons in E; apply tb_cons_inj in E as [E1 E2]; try solve [kill].
      rewrite <- !app_assoc in E2, EL.
      destruct (len_both _ _ _ _ _ _ E2 EL) as (Hlen & E' & EL').
      destruct (dict_pf kvs H Hw _ _ _ _ _ Hw' Hlen E' EL') as (Hf & ? & ?).
      split; [constructor; exact Hf | auto].
    - (* PArr *)
      cbn [wfb] in Hw. apply negb_true_iff in Hw.
      destruct v'; cbn [stream_elem lensd wfb] in E, EL, Hw'; try discriminate;
        rewrite <- ?app_comm_cons in E; apply tb_cons_inj in E as [E1 E2]; try solve [kill].
      cbn [app] in E2. injection E2 as Ed Es Ec Er. subst. cbn [app] in EL.
      split; [constructor | auto].
    - (* PObjArr *)
      cbn [wfb] in Hw. apply andb_true_iff in Hw as [Hd Hw].
      destruct v'; cbn [stream_elem lensd wfb] in E, EL, Hw'; try discriminate;
        rewrite <- ?app_comm_cons in E; apply tb_cons_inj in E as [E1 E2]; try solve [kill].
      apply andb_true_iff in Hw' as [Hd' Hw'].
      rewrite <- ?app_comm_cons in E2. apply tb_cons_inj in E2 as [Ed E2]. apply tb_cons_inj in E2 as [Es E2]. subst.
      rewrite <- !app_assoc in E2, EL.
      destruct (len_both _ _ _ _ _ _ E2 EL) as (Hlen & E' & EL').
      destruct (enum_pf xs H Hw _ _ _ _ _ _ Hw' Hlen E' EL') as (Hf & ? & ?).
      split; [constructor; exact Hf | auto].
    - (* PHashed *)
      cbn [wfb] in Hw. apply andb_true_iff in Hw as [Hm Hw].
      destruct v'; cbn [stream_elem lensd wfb] in E, EL, Hw'; try discriminate.
      apply andb_true_iff in Hw' as [Hm' Hw'].
      cbn [app] in E. injection E as E Er.
      assert (Em : m = mark /\ flat_map (fun f => TB (fst f) :: code (snd f)) fs =
                                flat_map (fun f => TB (fst f) :: code (snd f)) fields).
      { destruct m as [b|], mark as [b'|]; cbn [opt_mark app] in E.
        - injection E as E1 E2. subst. auto.
        - symmetry in E. apply (fields_head_label _ Hw') in E.
          cbn [mark_ok] in Hm. rewrite E in Hm. discriminate.
        - apply (fields_head_label _ Hw) in E.
          cbn [mark_ok] in Hm'. rewrite E in Hm'. discriminate.
        - auto. }
      destruct Em as [-> E'].
      destruct (fields_pf fs H Hw _ _ _ Hw' E' EL) as (Hf & ?).
      split; [constructor; exact Hf | auto].
  Qed.
End Prefix.

Lemma flat_map_nil {A B} (f : A -> list B) (l : list A) : Forall (fun x => f x = []) l -> flat_map f l = [].
Proof. induction 1 as [|x t E _ IH]; simpl; [reflexivity|]. rewrite E, IH. reflexivity. Qed.

Lemma lensd_true_nil : forall v, lensd true v = [].
Proof.
  induction v using pv_ind'; cbn [lensd len_l app]; try reflexivity;
    try (apply flat_map_nil; assumption).
  - apply flat_map_nil. eapply Forall_impl; [|exact H]. intros kv [E1 E2]. simpl. rewrite E1, E2. reflexivity.
Qed.

(* the delimited stream is injective on the universe *)
Theorem dstream_injective : forall isobj v v',
  wfb isobj v = true -> wfb isobj v' = true -> dstream v = dstream v' -> pv_equiv v v'.
Proof.
  intros isobj v v' Hw Hw' E.
  apply (code_prefix_free isobj true v Hw v' [] [] [] [] Hw').
  - unfold dstream in E. rewrite E. reflexivity.
  - rewrite !lensd_true_nil. reflexivity.
Qed.

(* ... and a prefix code: a value's chunks can be told from whatever follows them *)
Theorem dstream_prefix_free : forall isobj v v' r r',
  wfb isobj v = true -> wfb isobj v' = true -> dstream v ++ r = dstream v' ++ r' -> pv_equiv v v' /\ r = r'.
Proof.
  intros isobj v v' r r' Hw Hw' E.
  destruct (code_prefix_free isobj true v Hw v' r r' [] [] Hw' E) as (He & Hr & _).
  - rewrite !lensd_true_nil. reflexivity.
  - auto.
Qed.

(* identifiers of the real (undelimited) stream collide only by disagreeing on container extents *)
Theorem stream_lens_injective : forall isobj v v',
  wfb isobj v = true -> wfb isobj v' = true -> stream v = stream v' -> lens v = lens v' -> pv_equiv v v'.
Proof.
  intros isobj v v' Hw Hw' E EL.
  apply (code_prefix_free isobj false v Hw v' [] [] [] [] Hw').
  - unfold stream in E. rewrite E. reflexivity.
  - unfold lens in EL. rewrite EL. reflexivity.
Qed.

(* ---- converse: equivalent values have the same stream and the same extents -------------- *)
Lemma Forall2_length {A B} (R : A -> B -> Prop) l l' : Forall2 R l l' -> length l = length l'.
Proof. induction 1; simpl; congruence. Qed.

Lemma Forall2_flat_map_eq {A B C} (f : A -> list C) (g : B -> list C) l l' :
  Forall2 (fun a b => f a = g b) l l' -> flat_map f l = flat_map g l'.
Proof. induction 1 as [|a b l l' E _ IH]; simpl; [reflexivity|]. rewrite E, IH. reflexivity. Qed.

Lemma Forall2_mp {A B} (R R' : A -> B -> Prop) l l' :
  Forall (fun a => forall b, R a b -> R' a b) l -> Forall2 R l l' -> Forall2 R' l l'.
Proof.
  intros Hf H2. induction H2 as [|a b l l' Hab _ IH]; [constructor|].
  inversion Hf; subst. constructor; auto.
Qed.

Theorem pv_equiv_stream : forall delim v v', pv_equiv v v' ->
  stream_elem delim v = stream_elem delim v' /\ lensd delim v = lensd delim v'.
Proof.
  intro delim. induction v using pv_ind'; intros v' Hv; inversion Hv; subst; cbn [stream_elem lensd].
  - auto.
  - auto.
  - assert (Hf : Forall2 (fun a b => stream_elem delim a = stream_elem delim b /\ lensd delim a = lensd delim b) xs ys).
    { eapply Forall2_mp; [|eassumption]. exact H. }
    assert (Em : map (stream_elem delim) xs = map (stream_elem delim) ys).
    { apply Forall2_map_eq. eapply Forall2_imp; [|exact Hf]. intros a b [E _]. exact E. }
    assert (El : flat_map (lensd delim) xs = flat_map (lensd delim) ys).
    { apply Forall2_flat_map_eq. eapply Forall2_imp; [|exact Hf]. intros a b [_ E]. exact E. }
    rewrite (Forall2_length _ _ _ Hf), Em, El. auto.
  - assert (Hf : Forall2 (fun a b => stream_elem delim a = stream_elem delim b /\ lensd delim a = lensd delim b) xs ys).
    { eapply Forall2_mp; [|eassumption]. exact H. }
    assert (Em : map (fun x => TB L_hash1 :: stream_elem delim x) xs = map (fun x => TB L_hash1 :: stream_elem delim x) ys).
    { apply Forall2_map_eq. eapply Forall2_imp; [|exact Hf]. intros a b [E _]. rewrite E. reflexivity. }
    assert (El : flat_map (lensd delim) xs = flat_map (lensd delim) ys).
    { apply Forall2_flat_map_eq. eapply Forall2_imp; [|exact Hf]. intros a b [_ E]. exact E. }
    rewrite (Forall2_length _ _ _ Hf), Em, El. auto.
  - assert (Hf : Forall2 (fun a b : pv * pv =>
                   (stream_elem delim (fst a) = stream_elem delim (fst b) /\ lensd delim (fst a) = lensd delim (fst b)) /\
                   (stream_elem delim (snd a) = stream_elem delim (snd b) /\ lensd delim (snd a) = lensd delim (snd b))) kvs kvs').
    { eapply Forall2_mp; [|eassumption]. eapply Forall_impl; [|exact H].
      intros a [IH1 IH2] b [E1 E2]. split; auto. }
    assert (Em : map (fun kv : pv * pv => (TB L_hash1 :: stream_elem delim (fst kv), stream_elem delim (snd kv))) kvs =
                 map (fun kv : pv * pv => (TB L_hash1 :: stream_elem delim (fst kv), stream_elem delim (snd kv))) kvs').
    { apply Forall2_map_eq. eapply Forall2_imp; [|exact Hf]. intros a b [[E1 _] [E2 _]]. rewrite E1, E2. reflexivity. }
    assert (El : flat_map (fun kv : pv * pv => lensd delim (fst kv) ++ lensd delim (snd kv)) kvs =
                 flat_map (fun kv : pv * pv => lensd delim (fst kv) ++ lensd delim (snd kv)) kvs').
    { apply Forall2_flat_map_eq. eapply Forall2_imp; [|exact Hf]. intros a b [[_ E1] [_ E2]]. rewrite E1, E2. reflexivity. }
    rewrite (Forall2_length _ _ _ Hf), Em, El. auto.
  - auto.
  - assert (Hf : Forall2 (fun a b => stream_elem delim a = stream_elem delim b /\ lensd delim a = lensd delim b) xs ys).
    { eapply Forall2_mp; [|eassumption]. exact H. }
    assert (Em : map (stream_elem delim) xs = map (stream_elem delim) ys).
    { apply Forall2_map_eq. eapply Forall2_imp; [|exact Hf]. intros a b [E _]. exact E. }
    assert (El : flat_map (lensd delim) xs = flat_map (lensd delim) ys).
    { apply Forall2_flat_map_eq. eapply Forall2_imp; [|exact Hf]. intros a b [_ E]. exact E. }
    rewrite (Forall2_length _ _ _ Hf), Em, El. auto.
  - assert (Hf : Forall2 (fun a b : positive * pv => fst a = fst b /\
                   (stream_elem delim (snd a) = stream_elem delim (snd b) /\ lensd delim (snd a) = lensd delim (snd b))) fs fs').
    { eapply Forall2_mp; [|eassumption]. eapply Forall_impl; [|exact H].
      intros a IH1 b [E1 E2]. split; auto. }
    assert (Em : flat_map (fun f : positive * pv => TB (fst f) :: stream_elem delim (snd f)) fs =
                 flat_map (fun f : positive * pv => TB (fst f) :: stream_elem delim (snd f)) fs').
    { apply Forall2_flat_map_eq. eapply Forall2_imp; [|exact Hf]. intros a b [E1 [E2 _]]. rewrite E1, E2. reflexivity. }
    assert (El : flat_map (fun f : positive * pv => lensd delim (snd f)) fs = flat_map (fun f : positive * pv => lensd delim (snd f)) fs').
    { apply Forall2_flat_map_eq. eapply Forall2_imp; [|exact Hf]. intros a b [_ [_ E]]. exact E. }
    rewrite Em, El. auto.
Qed.

(* ---- the real stream is the delimited stream with the length chunks erased --------------- *)
Section Erase.
  Variable isobj : positive -> bool.
  Notation er := (erase isobj).

  Lemma erase_plain m rest : cmark m = false -> er (TB m :: rest) = TB m :: er rest.
  Proof. intro Hm. unfold erase. cbn [erase_list]. rewrite Hm. reflexivity. Qed.
  Lemma erase_cm m x rest : cmark m = true -> (m =? M_ndarray)%positive = false ->
    er (TB m :: x :: rest) = TB m :: er rest.
  Proof. intros Hm Hn. unfold erase. cbn [erase_list]. rewrite Hm, Hn. reflexivity. Qed.
  Lemma erase_arr d s x rest :
    er (TB M_ndarray :: TB d :: TB s :: x :: rest) =
    TB M_ndarray :: TB d :: TB s :: (if isobj d then er rest else erase_tok isobj x :: er rest).
  Proof. reflexivity. Qed.
  Lemma erase_dig sub rest : er (TDigest sub :: rest) = TDigest (er sub) :: er rest.
  Proof. reflexivity. Qed.
  Lemma erase_pdig sub rest : er (TPDigest sub :: rest) = TPDigest (er sub) :: er rest.
  Proof. reflexivity. Qed.
  Lemma erase_nil : er [] = [].
  Proof. reflexivity. Qed.

  Lemma label_not_cmark l : is_label l = true -> cmark l = false.
  Proof.
    unfold is_label, cmark. intro Hl. apply andb_true_iff in Hl as [H1 _].
    apply Pos.leb_le in H1. apply Pos.leb_gt. lia.
  Qed.

  Definition ER (v : pv) : Prop :=
    wfb isobj v = true -> forall r, er (dstream v ++ r) = stream v ++ er r.

  Lemma erase_enum : forall xs, Forall ER xs -> forallb (wfb isobj) xs = true ->
    forall i r, er (enumT i (map dstream xs) ++ r) = enumT i (map stream xs) ++ er r.
  Proof.
    induction 1 as [|x xs Hx _ IH]; intros Hw i r; [reflexivity|].
    cbn [forallb] in Hw. apply andb_true_iff in Hw as [Hwx Hw].
    cbn [map enumT]. rewrite <- !app_comm_cons, <- !app_assoc.
    rewrite erase_plain by apply cmark_int. rewrite (Hx Hwx), (IH Hw). reflexivity.
  Qed.

  Lemma erase_enumTD : forall xs, Forall ER xs -> forallb (wfb isobj) xs = true ->
    forall i r, er (enumTD i (map (fun x => TB L_hash1 :: dstream x) xs) ++ r) =
                enumTD i (map (fun x => TB L_hash1 :: stream x) xs) ++ er r.
  Proof.
    induction 1 as [|x xs Hx _ IH]; intros Hw i r; [reflexivity|].
    cbn [forallb] in Hw. apply andb_true_iff in Hw as [Hwx Hw].
    cbn [map enumTD]. rewrite <- !app_comm_cons.
    rewrite erase_plain by apply cmark_int. rewrite erase_pdig.
    rewrite erase_plain by reflexivity.
    rewrite <- (app_nil_r (dstream x)), (Hx Hwx), erase_nil, app_nil_r, (IH Hw). reflexivity.
  Qed.

  Lemma erase_items : forall kvs, Forall (fun kv => ER (fst kv) /\ ER (snd kv)) kvs ->
    forallb (fun kv => wfb isobj (fst kv) && wfb isobj (snd kv)) kvs = true ->
    forall r, er (itemsT (map (fun kv => (TB L_hash1 :: dstream (fst kv), dstream (snd kv))) kvs) ++ r) =
              itemsT (map (fun kv => (TB L_hash1 :: stream (fst kv), stream (snd kv))) kvs) ++ er r.
  Proof.
    unfold itemsT.
    induction 1 as [|[k v] kvs [Hk Hv] _ IH]; intros Hw r; [reflexivity|].
    cbn [forallb fst snd] in Hw, Hk, Hv. apply andb_true_iff in Hw as [Hwx Hw]. apply andb_true_iff in Hwx as [Hwk Hwv].
    cbn [map flat_map fst snd]. rewrite <- !app_comm_cons, <- !app_assoc.
    rewrite erase_pdig. rewrite erase_plain by reflexivity.
    rewrite <- (app_nil_r (dstream k)), (Hk Hwk), erase_nil, app_nil_r, (Hv Hwv), (IH Hw). reflexivity.
  Qed.

  Lemma erase_fields : forall fs, Forall (fun f => ER (snd f)) fs ->
    forallb (fun f => is_label (fst f) && wfb isobj (snd f)) fs = true ->
    forall r, er (flat_map (fun f => TB (fst f) :: dstream (snd f)) fs ++ r) =
              flat_map (fun f => TB (fst f) :: stream (snd f)) fs ++ er r.
  Proof.
    induction 1 as [|[n x] fs Hx _ IH]; intros Hw r; [reflexivity|].
    cbn [forallb fst snd] in Hw, Hx. apply andb_true_iff in Hw as [Hwx Hw]. apply andb_true_iff in Hwx as [Hn Hwx].
    cbn [flat_map fst snd]. rewrite <- !app_comm_cons, <- !app_assoc.
    rewrite erase_plain by (apply label_not_cmark; exact Hn).
    rewrite (Hx Hwx), (IH Hw). reflexivity.
  Qed.

  Lemma erase_app_code : forall v, ER v.
  Proof.
    unfold ER, dstream, stream.
    induction v using pv_ind'; intros Hw r; cbn [wfb] in Hw; cbn [stream_elem len_tok].
    - apply negb_true_iff in Hw. cbn [app]. apply erase_plain. exact Hw.
    - discriminate.
    - rewrite <- !app_comm_cons. cbn [app].
      rewrite erase_cm by (destruct k; reflexivity).
      rewrite (erase_enum xs H Hw). reflexivity.
    - rewrite <- !app_comm_cons. cbn [app].
      rewrite erase_cm by (destruct k; reflexivity).
      rewrite (erase_enumTD xs H Hw). reflexivity.
    - rewrite <- !app_comm_cons. cbn [app].
      rewrite erase_cm by reflexivity.
      rewrite (erase_items kvs H Hw). reflexivity.
    - apply negb_true_iff in Hw. cbn [app]. rewrite erase_arr, Hw. reflexivity.
    - apply andb_true_iff in Hw as [Hd Hw]. rewrite <- !app_comm_cons. cbn [app].
      rewrite erase_arr, Hd. rewrite (erase_enum xs H Hw). reflexivity.
    - apply andb_true_iff in Hw as [Hm Hw]. cbn [app]. rewrite erase_dig. f_equal. f_equal.
      rewrite <- (app_nil_r (flat_map _ fs)) at 1.
      destruct m as [b|]; cbn [opt_mark app].
      + cbn [mark_ok] in Hm. apply andb_true_iff in Hm as [_ Hm]. apply negb_true_iff in Hm.
        rewrite erase_plain by exact Hm. rewrite (erase_fields fs H Hw), erase_nil, app_nil_r. reflexivity.
      + rewrite (erase_fields fs H Hw), erase_nil, app_nil_r. reflexivity.
  Qed.

  Theorem stream_erases : forall v, wfb isobj v = true -> stream v = er (dstream v).
  Proof.
    intros v Hw. rewrite <- (app_nil_r (dstream v)), (erase_app_code v Hw), erase_nil, app_nil_r. reflexivity.
  Qed.
End Erase.

(* ---- from token streams to digests: A1 (the hash is injective) and A2 (the byte rendering of
        a chunk sequence is uniquely decodable) as explicit hypotheses ------------------------ *)
Section TokInd.
  Variable P : tok -> Prop.
  Hypothesis HB : forall id, P (TB id).
  Hypothesis HD : forall sub, Forall P sub -> P (TDigest sub).
  Hypothesis HP : forall sub, Forall P sub -> P (TPDigest sub).
  Fixpoint tok_ind' (t : tok) : P t :=
    match t with
    | TB id => HB id
    | TDigest sub => HD sub ((fix go (l : list tok) : Forall P l :=
                                match l with [] => Forall_nil _ | x :: r => Forall_cons _ (tok_ind' x) (go r) end) sub)
    | TPDigest sub => HP sub ((fix go (l : list tok) : Forall P l :=
                                match l with [] => Forall_nil _ | x :: r => Forall_cons _ (tok_ind' x) (go r) end) sub)
    end.
End TokInd.

Section Ident.
  Variables D B : Type.
  Variable render : atom D -> list B.     (* the bytes of one chunk *)
  Variable Hb : list B -> D.              (* sha1 of a byte string, as a hexdigest *)
  Hypothesis A1 : forall x y, Hb x = Hb y -> x = y.
  Hypothesis A2 : forall l l' : list (atom D), flat_map render l = flat_map render l' -> l = l'.

  (* the hash object: fed chunks, it digests their concatenation *)
  Definition Hr (l : list (atom D)) : D := Hb (flat_map render l).

  Lemma Hr_inj l l' : Hr l = Hr l' -> l = l'.
  Proof. unfold Hr. intro E. apply A2, A1, E. Qed.

  Lemma atoms_inj_list : forall ts, Forall (fun t => forall t', atom_of D Hr t = atom_of D Hr t' -> t = t') ts ->
    forall ts', atoms D Hr ts = atoms D Hr ts' -> ts = ts'.
  Proof.
    induction 1 as [|t ts Ht _ IH]; intros ts' E; destruct ts' as [|t' ts']; try discriminate; [reflexivity|].
    cbn [atoms] in E. injection E as E1 E2. f_equal; auto.
  Qed.

  Lemma atom_of_inj : forall t t', atom_of D Hr t = atom_of D Hr t' -> t = t'.
  Proof.
    induction t using tok_ind'; intros t' E; destruct t' as [id'|sub'|sub'];
      rewrite ?atom_of_TB, ?atom_of_TDigest, ?atom_of_TPDigest in E; try discriminate.
    - congruence.
    - injection E as E. apply Hr_inj in E. f_equal. apply atoms_inj_list; assumption.
    - injection E as E. apply Hr_inj in E. f_equal. apply atoms_inj_list; assumption.
  Qed.

  Lemma atoms_inj ts ts' : atoms D Hr ts = atoms D Hr ts' -> ts = ts'.
  Proof. apply atoms_inj_list. apply Forall_forall. intros t _. apply atom_of_inj. Qed.

  Variable isobj : positive -> bool.

  (* with a length chunk after each container marker, the chunk sequence - for a task or tasklet
     this is its digest - determines the invocation *)
  Theorem dident_injective : forall v v', wfb isobj v = true -> wfb isobj v' = true ->
    atoms D Hr (dstream v) = atoms D Hr (dstream v') -> pv_equiv v v'.
  Proof. intros v v' Hw Hw' E. apply atoms_inj in E. eapply dstream_injective; eassumption. Qed.

  Theorem dhash_one_injective : forall v v', wfb isobj v = true -> wfb isobj v' = true ->
    Hr (atoms D Hr (hash_one_stream true v)) = Hr (atoms D Hr (hash_one_stream true v')) -> pv_equiv v v'.
  Proof.
    intros v v' Hw Hw' E. apply Hr_inj, atoms_inj in E. unfold hash_one_stream in E. injection E as E.
    eapply dstream_injective; eassumption.
  Qed.

  (* the real identifiers (sort of set/dict items by digest included) *)
  Variable leD : D -> D -> bool.
  Hypothesis leD_total : forall a b, leD a b = true \/ leD b a = true.
  Hypothesis leD_antisym : forall a b, leD a b = true -> leD b a = true -> a = b.
  Hypothesis leD_trans : forall a b c, leD a b = true -> leD b c = true -> leD a c = true.

  Theorem ident_partial : forall v v', wfb isobj v = true -> wfb isobj v' = true ->
    hsorted D leD Hr v -> hsorted D leD Hr v' ->
    fl D leD Hr v = fl D leD Hr v' -> lens v = lens v' -> pv_equiv v v'.
  Proof.
    intros v v' Hw Hw' Hs Hs' E EL.
    rewrite <- !(stream_is_fl D leD leD_total leD_antisym leD_trans Hr) in E by assumption.
    apply atoms_inj in E. eapply stream_lens_injective; eassumption.
  Qed.

  Theorem hash_one_partial : forall v v', wfb isobj v = true -> wfb isobj v' = true ->
    hsorted D leD Hr v -> hsorted D leD Hr v' ->
    hash_one_dig D leD Hr v = hash_one_dig D leD Hr v' -> lens v = lens v' -> pv_equiv v v'.
  Proof.
    intros v v' Hw Hw' Hs Hs' E EL. unfold hash_one_dig in E. apply Hr_inj in E. injection E as E.
    eapply ident_partial; eassumption.
  Qed.
End Ident.

(* ---- the hypotheses A1, A2 and the order hypotheses are jointly satisfiable -------------- *)
Module Instance.
  Definition D0 := list nat.
  Definition render0 (a : atom D0) : list nat :=
    match a with
    | AB _ id => [0; Pos.to_nat id]
    | ADig _ d => 1 :: length d :: d
    | APDig _ d => 2 :: length d :: d
    end.
  Definition Hb0 (x : list nat) : D0 := x.

  Lemma app_inj_len {A} (a a' r r' : list A) : length a = length a' -> a ++ r = a' ++ r' -> a = a' /\ r = r'.
  Proof.
    revert a'. induction a as [|x a IH]; intros [|x' a'] Hl E; try discriminate; [auto|].
    cbn in Hl, E. injection Hl as Hl. injection E as Ex E. destruct (IH _ Hl E). subst. auto.
  Qed.

  Lemma A1_0 : forall x y, Hb0 x = Hb0 y -> x = y.
  Proof. auto. Qed.

  Lemma A2_0 : forall l l' : list (atom D0), flat_map render0 l = flat_map render0 l' -> l = l'.
  Proof.
    induction l as [|a l IH]; intros [|a' l'] E.
    - reflexivity.
    - destruct a'; discriminate.
    - destruct a; discriminate.
    - cbn [flat_map] in E.
      destruct a as [i|d|d], a' as [i'|d'|d']; cbn [render0 app] in E; try discriminate.
      + injection E as Ei E. apply Pos2Nat.inj in Ei. subst. f_equal. auto.
      + injection E as El E. destruct (app_inj_len _ _ _ _ El E) as [-> E']. f_equal. auto.
      + injection E as El E. destruct (app_inj_len _ _ _ _ El E) as [-> E']. f_equal. auto.
  Qed.

  Fixpoint lle (a b : list nat) : bool :=
    match a, b with
    | [], _ => true
    | _ :: _, [] => false
    | x :: a', y :: b' => Nat.ltb x y || (Nat.eqb x y && lle a' b')
    end.

  Lemma lle_total : forall a b, lle a b = true \/ lle b a = true.
  Proof.
    induction a as [|x a IH]; intros [|y b]; cbn [lle]; auto.
    destruct (lt_eq_lt_dec x y) as [[Hlt|Heq]|Hgt].
    - left. apply Nat.ltb_lt in Hlt. rewrite Hlt. reflexivity.
    - subst. rewrite Nat.ltb_irrefl, Nat.eqb_refl. cbn [orb andb]. apply IH.
    - right. apply Nat.ltb_lt in Hgt. rewrite Hgt. reflexivity.
  Qed.

  Lemma lle_cases x y a b : lle (x :: a) (y :: b) = true -> x < y \/ (x = y /\ lle a b = true).
  Proof.
    cbn [lle]. intro E. apply orb_true_iff in E as [E|E].
    - left. apply Nat.ltb_lt. exact E.
    - right. apply andb_true_iff in E as [E1 E2]. apply Nat.eqb_eq in E1. auto.
  Qed.

  Lemma lle_antisym : forall a b, lle a b = true -> lle b a = true -> a = b.
  Proof.
    induction a as [|x a IH]; intros [|y b] H1 H2; try discriminate; [reflexivity|].
    apply lle_cases in H1. apply lle_cases in H2.
    destruct H1 as [H1|[H1 H1']], H2 as [H2|[H2 H2']]; try lia.
    subst. f_equal. auto.
  Qed.

  Lemma lle_trans : forall a b c, lle a b = true -> lle b c = true -> lle a c = true.
  Proof.
    induction a as [|x a IH]; intros [|y b] [|z c] H1 H2; try discriminate; try reflexivity.
    apply lle_cases in H1. apply lle_cases in H2. cbn [lle].
    destruct H1 as [H1|[H1 H1']], H2 as [H2|[H2 H2']].
    - assert (E : x < z) by lia. apply Nat.ltb_lt in E. rewrite E. reflexivity.
    - subst. apply Nat.ltb_lt in H1. rewrite H1. reflexivity.
    - subst. apply Nat.ltb_lt in H2. rewrite H2. reflexivity.
    - subst. rewrite Nat.eqb_refl, (IH _ _ H1' H2'). apply orb_true_r.
  Qed.
End Instance.

Local Open Scope positive_scope.
Definition isobj0 (d : positive) : bool := (d =? 5010).
(* f([1, <array, layout l>], {'a'}, <object array [1, ()]>, k={'b': f()[0]}) *)
Definition exv (l : nat) : pv :=
  mkTask 5000 [PSeq KList [Leaf 1001; PArr 5012 5011 5013 l]; PSet KSet [Leaf 5001];
               PObjArr 5010 5011 [Leaf 1001; PSeq KTuple []] l]
              [(5002, PDict [(Leaf 5003, mkTasklet (mkTask 5000 [] []) (mkGetitem (Leaf 1000)))])].

Lemma hypotheses_satisfiable :
  (exists (D B : Type) (render : atom D -> list B) (Hb : list B -> D) (leD : D -> D -> bool),
     (forall x y, Hb x = Hb y -> x = y) /\
     (forall l l' : list (atom D), flat_map render l = flat_map render l' -> l = l') /\
     (forall a b, leD a b = true \/ leD b a = true) /\
     (forall a b, leD a b = true -> leD b a = true -> a = b) /\
     (forall a b c, leD a b = true -> leD b c = true -> leD a c = true) /\
     hsorted D leD (Hr D B render Hb) (exv 0) /\ hsorted D leD (Hr D B render Hb) (exv 1)) /\
  wfb isobj0 (exv 0) = true /\ wfb isobj0 (exv 1) = true /\ exv 0 <> exv 1 /\
  dstream (exv 0) = dstream (exv 1) /\ stream (exv 0) = stream (exv 1) /\ lens (exv 0) = lens (exv 1) /\
  lens (exv 0) = [3; 2; 1; 2; 0; 1; 1; 0; 0; 2]%nat /\
  wfb isobj0 w1 = true /\ wfb isobj0 w2 = true /\ lens w1 <> lens w2.
Proof.
  split.
  { exists Instance.D0, nat, Instance.render0, Instance.Hb0, Instance.lle.
    split; [exact Instance.A1_0|]. split; [exact Instance.A2_0|].
    split; [exact Instance.lle_total|]. split; [exact Instance.lle_antisym|]. split; [exact Instance.lle_trans|].
    split; cbn; repeat split; repeat constructor; intros []. }
  repeat split; try (vm_compute; reflexivity); try (vm_compute; discriminate).
Qed.
