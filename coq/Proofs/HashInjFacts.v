(* Collision witnesses for the undelimited hash stream (C08). *)
From Coq Require Import List PArith Bool Permutation.
From JugV Require Import Model.Hash Proofs.HashFacts.
Import ListNotations.
Local Open Scope positive_scope.

(* f([1], 2)  /  f([1, 2]) ;  ids: 5000 = pickle(b'mod.f'), 1001 = pickle(1), 1002 = pickle(2) *)
Definition w1 : pv := mkTask 5000 [PSeq KList [Leaf 1001]; Leaf 1002] [].
Definition w2 : pv := mkTask 5000 [PSeq KList [Leaf 1001; Leaf 1002]] [].

Lemma collision_witness :
  exists v v' : pv,
    stream v = stream v' /\
    (forall (D : Type) (leD : D -> D -> bool) (H : list (atom D) -> D), fl D leD H v = fl D leD H v') /\
    (forall (D : Type) (leD : D -> D -> bool) (H : list (atom D) -> D), ~ pv_perm D leD H v v') /\
    dstream v <> dstream v'.
Proof.
  exists w1, w2. split; [vm_compute; reflexivity|]. split; [intros; reflexivity|]. split.
  - intros D leD H Hp. unfold w1, w2, mkTask in Hp.
    inversion Hp as [| | | | | |m fs fs' Hf]; subst.
    inversion Hf as [|? ? ? ? _ Hf1]; subst. inversion Hf1 as [|? ? ? ? [_ Hargs] _]; subst.
    cbn [snd] in Hargs. inversion Hargs as [|k xs ys Hxy| | | | |]; subst.
    inversion Hxy as [|? ? ? ? _ Ht]; subst. inversion Ht.
  - vm_compute. discriminate.
Qed.

(* g(a={'b':1}, c=2) / g(a={'b':1,'c':2}), in the (possible) case that the digests of the keys sort
   a < c and b < c: ids 5001='a' 5002='b' 5003='c' *)
Definition k1 : pv := mkTask 5000 [] [(5001, PDict [(Leaf 5002, Leaf 1001)]); (5003, Leaf 1002)].
Definition k2 : pv := mkTask 5000 [] [(5001, PDict [(Leaf 5002, Leaf 1001); (Leaf 5003, Leaf 1002)])].

Lemma collision_witness_kwargs :
  exists v v' : pv, stream v = stream v' /\ v <> v' /\ dstream v <> dstream v'.
Proof.
  exists k1, k2. split; [vm_compute; reflexivity|]. split; [discriminate|]. vm_compute. discriminate.
Qed.
