(* C20: the side conditions of Proofs/OptionsFacts.v discharged for the option table GENERATED
   from /repo (Gen/OptionTable.v), and the theorems instantiated on it.  The table is a finite
   list; each side condition is a [forallb ... = true] over it, decided by [vm_compute] and
   lifted to the quantified statement by [forallb_forall] (inside the general lemmas). *)
From Coq Require Import List ZArith Bool String.
From JugV Require Import Model.Options Gen.OptionTable Proofs.OptionsFacts.
Import ListNotations.
Local Open Scope string_scope.

(* explicit values are never None; nothing is stored under "subcommand"; configuration booleans go
   through _str_to_bool, whose false strings are '', '0', 'false', 'off' *)
Lemma gen_table_ok : table_ok table = true.
Proof. vm_compute. reflexivity. Qed.

(* every argument of every subparser except the positional remainder "user_args" leaves None in the
   namespace when it does not occur on the command line *)
Lemma gen_absent_none : absent_none_except "user_args" table = true.
Proof. vm_compute. reflexivity. Qed.

(* every subparser: optional positional jugfile, then user_args = all remaining words *)
Lemma gen_positional_shape : positional_shape_all table = true.
Proof. vm_compute. reflexivity. Qed.

Theorem gen_resolve_correct : forall c cfg ns ini k,
  k <> "user_args" ->
  namespace table c = Some ns ->
  read_config table cfg [] = Some ini ->
  impl_resolve table ns ini k = spec_resolve table c cfg k.
Proof.
  intros c cfg ns ini k Hk Hns Hini.
  exact (resolve_correct table c cfg ns ini k gen_table_ok Hns Hini
           (absent_none_except_for table "user_args" (c_sub c) k gen_absent_none Hk)).
Qed.

Theorem gen_run_is_spec : forall c cfg date keys,
  ~ In "user_args" keys ->
  run table c cfg date keys = spec_run table c cfg date keys.
Proof.
  intros c cfg date keys Hk. apply run_is_spec.
  - exact gen_table_ok.
  - exact (positional_shape_all_sub table c gen_positional_shape).
  - intros k Hin. apply (absent_none_except_for table "user_args"); [exact gen_absent_none|].
    intros E. subst k. destruct Hin as [H|[H|H]]; [discriminate H|discriminate H|exact (Hk H)].
Qed.

Theorem gen_jugfile_given : forall c,
  explicit table c <> None -> cmd_given table c "jugfile" = option_map VStr (hd_error (c_pos c)).
Proof.
  intros c H. destruct (explicit table c) as [ex|] eqn:E; [|congruence].
  refine (jugfile_given table c ex _ _ E).
  - exact (proj1 (proj2 (table_ok_parts table gen_table_ok))).
  - apply (positional_shape_all_sub table c gen_positional_shape). congruence.
Qed.

Theorem gen_store_location : forall c1 c2 cfg date,
  explicit table c1 <> None -> explicit table c2 <> None ->
  cmd_given table c1 "jugdir" = cmd_given table c2 "jugdir" ->
  cmd_given table c1 "jugfile" = cmd_given table c2 "jugfile" ->
  store_location table c1 cfg date = store_location table c2 cfg date.
Proof.
  intros c1 c2 cfg date H1 H2 Hd Hf.
  apply store_location_depends_on; try assumption.
  - exact gen_table_ok.
  - intros c. exact (positional_shape_all_sub table c gen_positional_shape).
  - intros c k Hin. apply (absent_none_except_for table "user_args"); [exact gen_absent_none|].
    intros E. subst k. destruct Hin as [H|[H|[]]]; discriminate H.
Qed.

(* the candidate configuration files of the current source are the documented ones, in the
   documented order (and pairwise different) *)
Lemma gen_rc_candidates : rc_candidates = spec_rc_candidates.
Proof. vm_compute. reflexivity. Qed.

(* options.parse(args) in a home directory [h] for the current source: the specification applied to
   the contents of the first existing candidate *)
Theorem gen_run_home_is_spec : forall c h date keys,
  ~ In "user_args" keys ->
  run_home table c rc_candidates h date keys
  = spec_run table c (discovered_config (candidates_in spec_rc_candidates h)) date keys.
Proof.
  intros c h date keys Hk. unfold run_home, run_discovered. rewrite gen_rc_candidates.
  exact (gen_run_is_spec c _ date keys Hk).
Qed.

Theorem gen_lower_rc_file_ignored : forall c higher p lower h h' date keys,
  rc_candidates = (higher ++ p :: lower)%list ->
  (forall q, In q higher -> home_at h q = CAbsent) ->
  home_at h p <> CAbsent ->
  (forall q, In q (higher ++ [p])%list -> home_at h' q = home_at h q) ->
  run_home table c rc_candidates h date keys = run_home table c rc_candidates h' date keys.
Proof.
  intros c higher p lower h h' date keys E Hh Hp Hagree. rewrite E.
  exact (run_home_ignores_lower table c higher p lower h h' date keys Hh Hp Hagree).
Qed.
