(* Facts about the execution protocol (Model/Exec.v): safety invariants of every reachable state,
   for any number of workers and every interleaving. *)
From Coq Require Import List Arith Bool PArith Lia.
From JugV Require Import Model.Exec.
Import ListNotations.

Ltac break_match_hyp H :=
  match type of H with
  | context [match ?x with _ => _ end] => destruct x eqn:?; try discriminate H
  end.
Ltac break_step H := unfold step0 in H; repeat break_match_hyp H; inversion H; subst; clear H.
Ltac norm :=
  repeat match goal with
  | H : _ && _ = true |- _ => apply andb_true_iff in H; destruct H
  | H : Pos.eqb _ _ = true |- _ => apply Pos.eqb_eq in H; subst
  | H : Pos.eqb _ _ = false |- _ => apply Pos.eqb_neq in H
  | H : negb _ = true |- _ => apply negb_true_iff in H
  | H : Bool.eqb _ _ = true |- _ => apply eqb_prop in H
  end.
Ltac splitupd :=
  unfold upd in *;
  repeat match goal with
  | |- context [Pos.eqb ?a ?b] => destruct (Pos.eqb a b) eqn:?; norm
  | H : context [Pos.eqb ?a ?b] |- _ => destruct (Pos.eqb a b) eqn:?; norm
  end.

Section Facts.
  Context {V : Type}.
  Variable C : cfg V.

  (* the only assumption on task functions: calling one reads the store at its dependencies only
     (proved for the programs of Model/ExecCase.v in Proofs/DepsFacts.v) *)
  Hypothesis sem_frame : forall t r r',
    (forall d, In d (c_deps C t) -> r d = r' d) -> c_sem C t r = c_sem C t r'.

  Notation pcw s w := (w_pc (ws s w)).

  (* ------------------------------------------------------------------ small lemmas *)
  Lemma upd_same : forall A (f : positive -> A) k x, upd f k x k = x.
  Proof. intros. unfold upd. now rewrite Pos.eqb_refl. Qed.
  Lemma upd_other : forall A (f : positive -> A) k x k', k' <> k -> upd f k x k' = f k'.
  Proof. intros. unfold upd. destruct (Pos.eqb k' k) eqn:E; auto. apply Pos.eqb_eq in E. contradiction. Qed.
  Lemma updw_same : forall A (f : nat -> A) k x, updw f k x k = x.
  Proof. intros. unfold updw. now rewrite Nat.eqb_refl. Qed.
  Lemma updw_other : forall A (f : nat -> A) k x k', k' <> k -> updw f k x k' = f k'.
  Proof. intros. unfold updw. destruct (Nat.eqb k' k) eqn:E; auto. apply Nat.eqb_eq in E. contradiction. Qed.

  Lemma stored_true : forall (s : st V) t, stored s t = true <-> results s t <> None.
  Proof. intros. unfold stored. destruct (results s t); split; intros; congruence. Qed.
  Lemma stored_false : forall (s : st V) t, stored s t = false <-> results s t = None.
  Proof. intros. unfold stored. destruct (results s t); split; intros; congruence. Qed.

  Lemma forallb_stored : forall (s : st V) l, forallb (stored s) l = true <-> (forall d, In d l -> results s d <> None).
  Proof. intros. rewrite forallb_forall. split; intros H d Hd; apply stored_true; auto. Qed.

  Lemma mem_In : forall t l, mem t l = true <-> In t l.
  Proof.
    intros. unfold mem. rewrite existsb_exists. split.
    - intros [x [Hx E]]. apply Pos.eqb_eq in E. now subst.
    - intros H. exists t. split; auto. apply Pos.eqb_refl.
  Qed.

  (* ------------------------------------------------------------------ the safety invariant *)
  Definition running (s : st V) (w : wid) (t : tid) : Prop :=
    pcw s w = PRunning t \/ exists v, pcw s w = PRan t v.

  Definition deps_stored (r : tid -> option V) (t : tid) : Prop := forall d, In d (c_deps C t) -> r d <> None.

  (* every stored value is what the task's function returns on the stored values of its dependencies *)
  Definition Sound (r : tid -> option V) : Prop :=
    forall t v, r t = Some v -> deps_stored r t /\ c_sem C t r = Ret v.

  Record Inv (s : st V) : Prop := {
    I_lock : forall w t, holding (pcw s w) = Some t -> locks s t = LHeld w;
    I_held : forall w t, locks s t = LHeld w -> holding (pcw s w) = Some t \/ pcw s w = PDead;
    I_none : forall w t, (pcw s w = PCleared t \/ running s w t) -> results s t = None;
    I_deps : forall w t, running s w t -> deps_stored (results s) t;
    I_ran : forall w t v, pcw s w = PRan t v -> c_sem C t (results s) = Ret v;
    I_done : forall w t, (pcw s w = PStored t \/ pcw s w = PSkip t) -> results s t <> None;
    I_sound : Sound (results s);
    I_intr : forall w, w_intr (ws s w) = true ->
                       (exists t, pcw s w = PUnwind t) \/ pcw s w = PExiting \/ (exists c, pcw s w = PDone c) \/ pcw s w = PDead;
    I_task : forall t, locks s t <> LFree -> In t (c_tasks C)
  }.

  Lemma Inv_init : forall r0, Sound r0 -> Inv (init r0).
  Proof.
    intros r0 H. constructor; simpl; intros; try discriminate; try congruence; auto.
    - destruct H0 as [H0 | [H0 | [v H0]]]; discriminate.
    - destruct H0 as [H0 | [v H0]]; discriminate.
    - destruct H0; discriminate.
  Qed.

  (* monotone stores and the frame property *)
  Lemma sem_upd_fresh : forall r t t' x,
    deps_stored r t -> r t' = None -> c_sem C t (upd r t' x) = c_sem C t r.
  Proof.
    intros r t t' x Hd Hn. apply sem_frame. intros d Hin.
    apply upd_other. intros E. subst. apply (Hd t' Hin). exact Hn.
  Qed.

  Lemma deps_stored_upd : forall r t t' x, deps_stored r t -> deps_stored (upd r t' (Some x)) t.
  Proof.
    intros r t t' x Hd d Hin. unfold upd. destruct (Pos.eqb d t'); [discriminate | auto].
  Qed.

  Lemma Sound_upd : forall r t v, Sound r -> r t = None -> deps_stored r t -> c_sem C t r = Ret v ->
    Sound (upd r t (Some v)).
  Proof.
    intros r t v Hs Hn Hd Hv t2 v2 H2. unfold upd in H2. destruct (Pos.eqb t2 t) eqn:E.
    - apply Pos.eqb_eq in E. subst t2. inversion H2; subst. split.
      + now apply deps_stored_upd.
      + rewrite sem_upd_fresh; auto.
    - destruct (Hs t2 v2 H2) as [Hd2 Hv2]. split.
      + now apply deps_stored_upd.
      + rewrite sem_upd_fresh; auto.
  Qed.

  (* ------------------------------------------------------------------ preservation, one field at a time *)
  Ltac casew a b :=
    destruct (Nat.eq_dec a b) as [?E|?E];
    [ subst; rewrite ?updw_same in * | rewrite ?updw_other in * by assumption ].

  (* forward chaining with the old invariant *)
  Ltac fwd I :=
    repeat match goal with
    | Hp : pcw ?s ?w = ?p |- _ =>
        lazymatch goal with
        | _ : holding (pcw s w) = _ |- _ => fail
        | _ => let Hh := fresh "Hh" in
               assert (Hh : holding (pcw s w) = holding p) by (rewrite Hp; reflexivity); simpl in Hh
        end
    end;
    repeat match goal with
    | Hh : holding (pcw ?s ?w) = Some ?t |- _ =>
        lazymatch goal with
        | _ : locks s t = LHeld w |- _ => fail
        | _ => pose proof (I_lock _ I w t Hh)
        end
    end.

  Lemma holding_live : forall (p : pc V) t, holding p = Some t -> live p = true.
  Proof. destruct p; simpl; intros; congruence. Qed.

  Lemma I_lock_step : forall (s s' : st V) e, Inv s -> step0 C s e = Some s' ->
    forall w t, holding (pcw s' w) = Some t -> locks s' t = LHeld w.
  Proof.
    intros s s' e I H. destruct e; break_step H; norm; simpl; intros wq tq Hq.
    all: try (casew wq w).
    all: try solve [eapply I_lock; eauto].
    all: try solve [simpl in *; discriminate].
    all: repeat match goal with
         | H : holding (w_pc (if ?b then _ else _)) = _ |- _ => destruct b
         end; simpl in Hq; try discriminate.
    all: try match type of Hq with Some _ = Some _ => inversion Hq; subst; clear Hq end.
    all: fwd I.
    all: try solve [splitupd; congruence].
    - unfold after_failure in *. destruct (c_keep_going C); discriminate.
    - unfold after_failure in *. destruct (c_keep_going C); discriminate.
    - exfalso. rewrite forallb_forall in Heqb.
      assert (Hin : In tq (c_tasks C)) by (apply (I_task _ I); congruence).
      specialize (Heqb tq Hin). rewrite H in Heqb. apply negb_true_iff in Heqb.
      rewrite (holding_live _ _ Hq) in Heqb. discriminate.
    - now rewrite H.
  Qed.
  Ltac useheld I :=
    repeat match goal with
    | Hl : locks ?s ?t = LHeld ?w |- _ =>
        lazymatch goal with
        | _ : holding (pcw s w) = Some t \/ _ |- _ => fail
        | _ => pose proof (I_held _ I _ _ Hl)
        end
    end;
    repeat match goal with
    | Hp : pcw ?s ?w = _, X : holding (pcw ?s ?w) = Some _ \/ pcw ?s ?w = PDead |- _ =>
        rewrite Hp in X; simpl in X; destruct X as [X|X]; [inversion X; subst; clear X | discriminate X]
    end.

  Lemma I_held_step : forall (s s' : st V) e, Inv s -> step0 C s e = Some s' ->
    forall w t, locks s' t = LHeld w -> holding (pcw s' w) = Some t \/ pcw s' w = PDead.
  Proof.
    intros s s' e I H. destruct e; break_step H; norm; simpl; intros wq tq Hq.
    all: try (casew wq w).
    all: try solve [eapply I_held; eauto].
    all: fwd I.
    all: try solve [splitupd; try congruence; simpl; auto; useheld I; simpl; auto; try congruence].
    all: try solve [splitupd; try congruence; simpl; auto; eapply I_held; eauto].
    destruct (locks s tq) eqn:El; try discriminate. inversion Hq; subst. eapply I_held; eauto.
  Qed.

  Lemma results_step : forall (s s' : st V) e, step0 C s e = Some s' ->
    results s' = results s \/
    exists w t v, e = EDump w t v /\ exists v', pcw s w = PRan t v' /\ results s' = upd (results s) t (Some v').
  Proof.
    intros s s' e H. destruct e; break_step H; norm; simpl; auto.
    all: try solve [destruct b; auto].
    right. exists w, t0, v. split; auto. exists v0. auto.
  Qed.

  (* results only grow *)
  Lemma results_mono_step0 : forall (s s' : st V) e, Inv s -> step0 C s e = Some s' ->
    forall t v, results s t = Some v -> results s' t = Some v.
  Proof.
    intros s s' e I H t v Hr. destruct (results_step _ _ _ H) as [E | [w [t' [v0 [E [v' [Hp E']]]]]]].
    - now rewrite E.
    - rewrite E'. unfold upd. destruct (Pos.eqb t t') eqn:Et; auto. apply Pos.eqb_eq in Et. subst.
      assert (results s t' = None) by (apply (I_none _ I w); right; right; eauto). congruence.
  Qed.

  Ltac pcs := repeat match goal with
    | H : _ \/ _ |- _ => destruct H
    | H : exists _, _ |- _ => destruct H
    end.
  Ltac casew2 a b :=
    unfold updw in *; destruct (Nat.eqb a b) eqn:?E;
    [ apply Nat.eqb_eq in E; subst | apply Nat.eqb_neq in E ].

  Lemma I_none_step : forall (s s' : st V) e, Inv s -> step0 C s e = Some s' ->
    forall w t, (pcw s' w = PCleared t \/ running s' w t) -> results s' t = None.
  Proof.
    intros s s' e I H. destruct e; break_step H; norm; simpl; intros wq tq Hq.
    all: unfold running in *; simpl in *.
    all: try (casew2 wq w).
    all: try solve [eapply I_none; eauto].
    all: try solve [pcs; discriminate].
    all: try solve [destruct b; simpl in *; try solve [pcs; discriminate]; eapply I_none; unfold running; rewrite Heqp; eauto].
    all: simpl in Hq; try match goal with Hp : pcw ?s ?w = _ |- _ => rewrite Hp in Hq end.
    all: try solve [pcs; discriminate].
    - pcs; try discriminate. inversion H1; subst. symmetry in H0. now apply stored_false in H0.
    - pcs; try discriminate. inversion H; subst. eapply I_none; eauto.
    - pcs; try discriminate. inversion H; subst. eapply I_none; unfold running; eauto.
    - assert (Hn : results s tq = None) by (eapply I_none; eauto).
      assert (Hl : holding (pcw s wq) = Some tq) by (pcs; rewrite H; reflexivity).
      unfold upd. destruct (Pos.eqb tq t0) eqn:Et; auto. apply Pos.eqb_eq in Et; subst.
      apply (I_lock _ I) in Hl. assert (Hl2 : locks s t0 = LHeld w) by (apply (I_lock _ I); rewrite Heqp; reflexivity).
      congruence.
    - unfold after_failure in Hq. destruct (c_keep_going C); pcs; discriminate.
    - unfold after_failure in Hq. destruct (c_keep_going C); pcs; discriminate.
  Qed.

  Lemma deps_stored_mono : forall (r r' : tid -> option V) t,
    (forall d v, r d = Some v -> r' d = Some v) -> deps_stored r t -> deps_stored r' t.
  Proof.
    intros r r' t Hm Hd d Hin. specialize (Hd d Hin). destruct (r d) eqn:E; [| congruence].
    rewrite (Hm d v E). discriminate.
  Qed.

  Lemma I_deps_step : forall (s s' : st V) e, Inv s -> step0 C s e = Some s' ->
    forall w t, running s' w t -> deps_stored (results s') t.
  Proof.
    intros s s' e I H.
    assert (Hmono := results_mono_step0 _ _ _ I H).
    destruct e; break_step H; norm; simpl in *; intros wq tq Hq.
    all: unfold running in *; simpl in *.
    all: try (casew2 wq w).
    all: try solve [eapply I_deps; unfold running; eauto].
    all: try solve [pcs; discriminate].
    all: try solve [destruct b; simpl in *; try solve [pcs; discriminate]; eapply I_deps; unfold running; rewrite Heqp; eauto].
    all: simpl in Hq; try match goal with Hp : pcw ?s ?w = _ |- _ => rewrite Hp in Hq end.
    all: try solve [pcs; discriminate].
    - pcs; try discriminate. inversion H; subst. exact (proj1 (forallb_stored _ _) H0).
    - pcs; try discriminate. inversion H; subst. eapply I_deps; unfold running; eauto.
    - apply deps_stored_upd. eapply I_deps; unfold running; eauto.
    - unfold after_failure in Hq. destruct (c_keep_going C); pcs; discriminate.
    - unfold after_failure in Hq. destruct (c_keep_going C); pcs; discriminate.
  Qed.

  Lemma I_ran_step : forall (s s' : st V) e, Inv s -> step0 C s e = Some s' ->
    forall w t v, pcw s' w = PRan t v -> c_sem C t (results s') = Ret v.
  Proof.
    intros s s' e I H.
    destruct e; break_step H; norm; simpl in *; intros wq tq vq Hq.
    all: try (casew2 wq w).
    all: try solve [eapply I_ran; eauto].
    all: try solve [simpl in *; discriminate].
    all: try solve [destruct b; simpl in *; try discriminate; eapply I_ran; rewrite Heqp; eauto].
    all: simpl in Hq; try rewrite Heqp in Hq.
    all: try discriminate.
    - inversion Hq; subst. assumption.
    - rewrite sem_upd_fresh.
      + eapply I_ran; eauto.
      + eapply I_deps; unfold running; eauto.
      + eapply I_none; unfold running; eauto.
    - unfold after_failure in Hq. destruct (c_keep_going C); discriminate.
    - unfold after_failure in Hq. destruct (c_keep_going C); discriminate.
  Qed.

  Lemma I_done_step : forall (s s' : st V) e, Inv s -> step0 C s e = Some s' ->
    forall w t, (pcw s' w = PStored t \/ pcw s' w = PSkip t) -> results s' t <> None.
  Proof.
    intros s s' e I H.
    assert (Hmono := results_mono_step0 _ _ _ I H).
    assert (Hm : forall t, results s t <> None -> results s' t <> None).
    { intros t Ht. destruct (results s t) eqn:E; [|congruence]. rewrite (Hmono _ _ E). discriminate. }
    clear Hmono.
    destruct e; break_step H; norm; simpl in *; intros wq tq Hq.
    all: try (casew2 wq w).
    all: try solve [apply Hm; eapply I_done; eauto].
    all: try solve [pcs; discriminate].
    all: try solve [destruct b; simpl in *; try solve [pcs; discriminate]; eapply I_done; rewrite Heqp; eauto].
    all: simpl in Hq; try rewrite Heqp in Hq.
    all: try solve [pcs; discriminate].
    - pcs; try discriminate. inversion H1; subst. apply stored_true. auto.
    - pcs; try discriminate. inversion H; subst. rewrite upd_same. discriminate.
    - unfold after_failure in Hq. destruct (c_keep_going C); pcs; discriminate.
    - unfold after_failure in Hq. destruct (c_keep_going C); pcs; discriminate.
  Qed.

  Lemma I_sound_step : forall (s s' : st V) e, Inv s -> step0 C s e = Some s' -> Sound (results s').
  Proof.
    intros s s' e I H. destruct (results_step _ _ _ H) as [E | [w [t [v0 [E [v' [Hp E']]]]]]].
    - rewrite E. apply (I_sound _ I).
    - rewrite E'. apply Sound_upd.
      + apply (I_sound _ I).
      + eapply I_none; unfold running; eauto.
      + eapply I_deps; unfold running; eauto.
      + eapply I_ran; eauto.
  Qed.

  Lemma I_intr_step : forall (s s' : st V) e, Inv s -> step0 C s e = Some s' ->
    forall w, w_intr (ws s' w) = true ->
      (exists t, pcw s' w = PUnwind t) \/ pcw s' w = PExiting \/ (exists c, pcw s' w = PDone c) \/ pcw s' w = PDead.
  Proof.
    intros s s' e I H.
    destruct e; break_step H; norm; simpl in *; intros wq Hq.
    all: try (casew2 wq w).
    all: try solve [eapply I_intr; eauto].
    all: try solve [destruct b; simpl in *; eapply I_intr; eauto].
    all: simpl in *; eauto 6.
    all: try solve [apply (I_intr _ I) in Hq; rewrite Heqp in Hq; pcs; discriminate].
  Qed.

  Lemma I_task_step : forall (s s' : st V) e, Inv s -> step0 C s e = Some s' ->
    forall t, locks s' t <> LFree -> In t (c_tasks C).
  Proof.
    intros s s' e I H.
    destruct e; break_step H; norm; simpl in *; intros tq Hq.
    all: try solve [eapply I_task; eauto].
    all: try solve [splitupd; try congruence; try (apply mem_In; assumption); eapply I_task; eauto].
    - fwd I. unfold upd in Hq. destruct (Pos.eqb tq t0) eqn:Et.
      + apply Pos.eqb_eq in Et; subst. eapply I_task; eauto. congruence.
      + eapply I_task; eauto.
    - destruct (locks s tq) eqn:El; try congruence; eapply I_task; eauto; congruence.
  Qed.

  Theorem Inv_step0 : forall (s s' : st V) e, Inv s -> step0 C s e = Some s' -> Inv s'.
  Proof.
    intros s s' e I H. constructor.
    - eapply I_lock_step; eauto.
    - eapply I_held_step; eauto.
    - eapply I_none_step; eauto.
    - eapply I_deps_step; eauto.
    - eapply I_ran_step; eauto.
    - eapply I_done_step; eauto.
    - eapply I_sound_step; eauto.
    - eapply I_intr_step; eauto.
    - eapply I_task_step; eauto.
  Qed.

  Lemma Inv_tick : forall s : st V, Inv s -> Inv (tick s).
  Proof. intros s I. destruct I. constructor; simpl; auto. Qed.

  Theorem Inv_step : forall (s s' : st V) e, Inv s -> step C s e = Some s' -> Inv s'.
  Proof.
    intros s s' e I H. unfold step in H. destruct (step0 C s e) eqn:E; simpl in H; inversion H; subst.
    apply Inv_tick. eapply Inv_step0; eauto.
  Qed.

  Theorem Inv_run : forall tr (s s' : st V), Inv s -> run C s tr = Some s' -> Inv s'.
  Proof.
    induction tr as [|e tr IH]; simpl; intros s s' I H.
    - inversion H; subst; auto.
    - destruct (step C s e) eqn:E; [|discriminate]. eapply IH; [|eauto]. eapply Inv_step; eauto.
  Qed.

  (* ------------------------------------------------------------------ consequences *)
  Lemma step_inv_some : forall (s s' : st V) e, step C s e = Some s' -> exists s0, step0 C s e = Some s0 /\ s' = tick s0.
  Proof. intros s s' e H. unfold step in H. destruct (step0 C s e); simpl in H; inversion H; eauto. Qed.

  Lemma results_mono_step : forall (s s' : st V) e, Inv s -> step C s e = Some s' ->
    forall t v, results s t = Some v -> results s' t = Some v.
  Proof.
    intros s s' e I H t v Hr. destruct (step_inv_some _ _ _ H) as [s0 [H0 E]]. subst. simpl.
    eapply results_mono_step0; eauto.
  Qed.

  Lemma results_mono_run : forall tr (s s' : st V), Inv s -> run C s tr = Some s' ->
    forall t v, results s t = Some v -> results s' t = Some v.
  Proof.
    induction tr as [|e tr IH]; simpl; intros s s' I H t v Hr.
    - inversion H; subst; auto.
    - destruct (step C s e) eqn:E; [|discriminate].
      eapply IH; [eapply Inv_step; eauto | eauto | eapply results_mono_step; eauto].
  Qed.

  (* C02 (a): two workers are never inside the function of the same task *)
  Theorem mutex : forall (s : st V) w w' t, Inv s -> running s w t -> running s w' t -> w = w'.
  Proof.
    intros s w w' t I H H'.
    assert (L : locks s t = LHeld w) by (apply (I_lock _ I); destruct H as [H | [v H]]; rewrite H; reflexivity).
    assert (L' : locks s t = LHeld w') by (apply (I_lock _ I); destruct H' as [H' | [v H']]; rewrite H'; reflexivity).
    congruence.
  Qed.

  (* C02 (b): once a result is stored the function is never started again *)
  Theorem no_start_when_stored : forall (s : st V) w t, Inv s -> results s t <> None -> step C s (EStart w t) = None.
  Proof.
    intros s w t I Hr. unfold step, step0. destruct (pcw s w) eqn:Ep; auto.
    destruct (Pos.eqb t t0) eqn:Et; simpl; auto. apply Pos.eqb_eq in Et; subst.
    exfalso. apply Hr. eapply I_none; eauto.
  Qed.

  (* ... and it is never overwritten *)
  Theorem no_dump_when_stored : forall (s : st V) w t v, Inv s -> results s t <> None -> step C s (EDump w t v) = None.
  Proof.
    intros s w t v I Hr. unfold step, step0. destruct (pcw s w) eqn:Ep; auto.
    destruct (Pos.eqb t t0) eqn:Et; simpl; auto. apply Pos.eqb_eq in Et; subst.
    exfalso. apply Hr. eapply I_none; unfold running; eauto.
  Qed.

  (* C03 (a): when the function of t is started, every dependency has its result *)
  Theorem start_needs_deps : forall (s s' : st V) w t, step C s (EStart w t) = Some s' -> deps_stored (results s) t.
  Proof.
    intros s s' w t H. destruct (step_inv_some _ _ _ H) as [s0 [H0 _]]. unfold step0 in H0.
    destruct (pcw s w); try discriminate. destruct (Pos.eqb t t0 && forallb (stored s) (c_deps C t)) eqn:E; [|discriminate].
    apply andb_true_iff in E. destruct E as [_ E]. exact (proj1 (forallb_stored _ _) E).
  Qed.

  (* a worker that has left holds no lock *)
  Theorem done_holds_nothing : forall (s : st V) w c t, Inv s -> pcw s w = PDone c -> locks s t <> LHeld w.
  Proof.
    intros s w c t I Hp Hl. destruct (I_held _ I _ _ Hl) as [H | H]; rewrite Hp in H; simpl in H; discriminate.
  Qed.

  (* the value returned and stored is the function applied to the stored dependencies *)
  Theorem dump_is_sem : forall (s s' : st V) w t v, Inv s -> step C s (EDump w t v) = Some s' ->
    exists v', results s' t = Some v' /\ c_sem C t (results s') = Ret v' /\ c_sem C t (results s) = Ret v'.
  Proof.
    intros s s' w t v I H. assert (I' := Inv_step _ _ _ I H).
    destruct (step_inv_some _ _ _ H) as [s0 [H0 E]]. subst. unfold step0 in H0.
    destruct (pcw s w) eqn:Ep; try discriminate.
    destruct (Pos.eqb t t0 && c_eqb C v v0) eqn:Eb; [|discriminate]. inversion H0; subst; clear H0. simpl in *.
    apply andb_true_iff in Eb. destruct Eb as [Eb _]. apply Pos.eqb_eq in Eb. subst.
    exists v0. rewrite upd_same. split; auto. split.
    - destruct (I_sound _ I' t0 v0) as [_ X]; simpl; [apply upd_same | exact X].
    - eapply I_ran; eauto.
  Qed.

  (* ------------------------------------------------------------------ uniqueness of sound stores *)
  Variable rank : tid -> nat.
  Hypothesis rank_deps : forall t d, In d (c_deps C t) -> rank d < rank t.

  Theorem sound_unique : forall r r', Sound r -> Sound r' ->
    forall t v v', r t = Some v -> r' t = Some v' -> v = v'.
  Proof.
    intros r r' Hs Hs'.
    assert (G : forall n t, rank t < n -> forall v v', r t = Some v -> r' t = Some v' -> v = v').
    { induction n as [|n IH]; intros t Hn v v' Hr Hr'; [lia|].
      destruct (Hs _ _ Hr) as [Hd Hv]. destruct (Hs' _ _ Hr') as [Hd' Hv'].
      assert (E : c_sem C t r = c_sem C t r').
      { apply sem_frame. intros d Hin. specialize (Hd d Hin). specialize (Hd' d Hin).
        destruct (r d) eqn:E1; [|congruence]. destruct (r' d) eqn:E2; [|congruence].
        f_equal. eapply IH; eauto. specialize (rank_deps _ _ Hin). lia. }
      rewrite E in Hv. rewrite Hv in Hv'. now inversion Hv'. }
    intros t v v'. apply (G (S (rank t))). lia.
  Qed.

  (* sequential evaluation yields a sound store *)
  Lemma seq_eval_sound : forall order r, Sound r -> Sound (seq_eval C order r).
  Proof.
    induction order as [|t order IH]; simpl; intros r Hs; auto.
    destruct (r t) eqn:Er; auto.
    destruct (forallb _ (c_deps C t)) eqn:Ef; auto.
    destruct (c_sem C t r) eqn:Ev; auto.
    apply IH. apply Sound_upd; auto.
    intros d Hin. rewrite forallb_forall in Ef. specialize (Ef d Hin). destruct (r d); congruence.
  Qed.

  (* C01 (a): whatever a distributed run stores is what sequential evaluation computes *)
  Theorem results_are_sequential : forall r0 tr (s : st V) order, Sound r0 ->
    run C (init r0) tr = Some s ->
    forall t v v', results s t = Some v -> seq_eval C order r0 t = Some v' -> v = v'.
  Proof.
    intros r0 tr s order Hs Hr t v v' H1 H2.
    assert (I : Inv s) by (eapply Inv_run; [apply Inv_init; eauto | eauto]).
    eapply sound_unique; [apply (I_sound _ I) | apply seq_eval_sound; eauto | eauto | eauto].
  Qed.

  (* ------------------------------------------------------------------ exactly once *)
  Definition quiet (e : ev V) : bool :=
    match e with ERaise _ _ | EInterrupt _ | ECrash _ => false | _ => true end.

  Lemma running_new : forall (s s' : st V) e, step0 C s e = Some s' ->
    forall w t, running s' w t -> running s w t \/ e = EStart w t.
  Proof.
    intros s s' e H. destruct e; break_step H; norm; simpl in *; intros wq tq Hq.
    all: unfold running in *; simpl in *.
    all: try (casew2 wq w).
    all: auto.
    all: try solve [pcs; discriminate].
    all: try solve [destruct b; simpl in *; try solve [pcs; discriminate]; rewrite Heqp in *; auto].
    all: simpl in Hq; try rewrite Heqp in *.
    all: try solve [pcs; discriminate].
    - pcs; try discriminate. inversion H; subst. auto.
    - pcs; try discriminate. inversion H; subst. auto.
    - unfold after_failure in Hq. destruct (c_keep_going C); pcs; discriminate.
    - unfold after_failure in Hq. destruct (c_keep_going C); pcs; discriminate.
  Qed.

  Lemma running_kept : forall (s s' : st V) e, step0 C s e = Some s' -> quiet e = true ->
    forall w t, running s w t -> running s' w t \/ exists v, e = EDump w t v.
  Proof.
    intros s s' e H Q. destruct e; try discriminate Q; break_step H; norm; simpl in *; intros wq tq Hq.
    all: unfold running in *; simpl in *.
    all: try (casew2 wq w).
    all: auto.
    all: try solve [rewrite Heqp in Hq; pcs; discriminate].
    all: try solve [destruct b; simpl in *; auto; rewrite Heqp in Hq; pcs; discriminate].
    - rewrite Heqp in Hq. pcs; try discriminate. inversion H; subst. simpl. eauto.
    - rewrite Heqp in Hq. pcs; try discriminate. inversion H; subst. right. eauto.
  Qed.

  (* [r0]: the results present at the start *)
  Definition Once (r0 : tid -> option V) (s : st V) : Prop :=
    (forall t v, r0 t = Some v -> results s t = Some v) /\
    forall t,
      (execs s t = 0 /\ (forall w, ~ running s w t) /\ (results s t <> None -> r0 t <> None)) \/
      (execs s t = 1 /\ r0 t = None /\ (results s t <> None \/ exists w, running s w t)).

  Lemma execs_step : forall (s s' : st V) e, step0 C s e = Some s' ->
    forall t, execs s' t = execs s t \/ (exists w, e = EStart w t /\ execs s' t = S (execs s t)).
  Proof.
    intros s s' e H. destruct e; break_step H; norm; simpl in *; intros tq; auto.
    all: try solve [destruct b; auto].
    unfold upd. destruct (Pos.eqb tq t0) eqn:E; auto. apply Pos.eqb_eq in E; subst. right. eauto.
  Qed.


  Definition starts (e : ev V) (t : tid) : bool :=
    match e with EStart _ t' => Pos.eqb t' t | _ => false end.

  Lemma execs_step_eq : forall (s s' : st V) e, step0 C s e = Some s' ->
    forall t, execs s' t = if starts e t then S (execs s t) else execs s t.
  Proof.
    intros s s' e H. destruct e; break_step H; norm; simpl in *; intros tq; auto.
    all: try solve [destruct b; auto].
    unfold upd. rewrite Pos.eqb_sym. destruct (Pos.eqb t0 tq) eqn:E; auto. apply Pos.eqb_eq in E; subst. auto.
  Qed.

  Lemma start_runs : forall (s s' : st V) w t, step0 C s (EStart w t) = Some s' ->
    pcw s w = PCleared t /\ running s' w t.
  Proof.
    intros s s' w t H. break_step H; norm. split; auto. left. simpl. now rewrite updw_same.
  Qed.

  Lemma results_new : forall (s s' : st V) e, step0 C s e = Some s' ->
    forall t, results s' t <> None -> results s t <> None \/ exists w v, e = EDump w t v /\ running s w t.
  Proof.
    intros s s' e H t Hr. destruct (results_step _ _ _ H) as [E | [w [t' [v0 [E [v' [Hp E']]]]]]].
    - rewrite E in Hr. auto.
    - rewrite E' in Hr. unfold upd in Hr. destruct (Pos.eqb t t') eqn:Et; auto.
      apply Pos.eqb_eq in Et. subst. right. exists w, v0. split; auto. right. eauto.
  Qed.

  Lemma dump_stores : forall (s s' : st V) w t v, step0 C s (EDump w t v) = Some s' -> results s' t <> None.
  Proof. intros s s' w t v H. break_step H; norm. simpl. rewrite upd_same. discriminate. Qed.

  Lemma Once_step0 : forall r0 (s s' : st V) e, Inv s -> Once r0 s -> quiet e = true ->
    step0 C s e = Some s' -> Once r0 s'.
  Proof.
    intros r0 s s' e I [Hm Ho] Q H. split.
    - intros t v Hr. eapply results_mono_step0; eauto.
    - intros t. rewrite (execs_step_eq _ _ _ H t). destruct (starts e t) eqn:Es.
      + destruct e; try discriminate Es. simpl in Es. apply Pos.eqb_eq in Es. subst t0.
        destruct (start_runs _ _ _ _ H) as [Hp Hr].
        assert (Hn : results s t = None) by (eapply I_none; eauto).
        destruct (Ho t) as [[He [Hnr Hi]] | [He [Hr0 [Hs | [w' Hw']]]]].
        * right. rewrite He. split; auto. split; eauto.
          destruct (r0 t) eqn:Er; auto. rewrite (Hm _ _ Er) in Hn. discriminate.
        * congruence.
        * exfalso. assert (L : locks s t = LHeld w) by (apply (I_lock _ I); rewrite Hp; reflexivity).
          assert (L' : locks s t = LHeld w') by (apply (I_lock _ I); destruct Hw' as [X | [v X]]; rewrite X; reflexivity).
          assert (w = w') by congruence. subst. destruct Hw' as [X | [v X]]; rewrite Hp in X; discriminate.
      + destruct (Ho t) as [[He [Hnr Hi]] | [He [Hr0 Hs]]].
        * left. split; auto. split.
          -- intros w Hw. destruct (running_new _ _ _ H _ _ Hw) as [X | X]; [eapply Hnr; eauto |].
             subst e. simpl in Es. rewrite Pos.eqb_refl in Es. discriminate.
          -- intros Hr. destruct (results_new _ _ _ H _ Hr) as [X | [w [v [_ X]]]]; auto. exfalso. eapply Hnr; eauto.
        * right. split; auto. split; auto. destruct Hs as [Hs | [w Hw]].
          -- left. destruct (results s t) eqn:Er; [|congruence]. rewrite (results_mono_step0 _ _ _ I H _ _ Er). discriminate.
          -- destruct (running_kept _ _ _ H Q _ _ Hw) as [X | [v X]]; eauto.
             subst e. left. eapply dump_stores; eauto.
  Qed.

  Lemma Once_tick : forall r0 (s : st V), Once r0 s -> Once r0 (tick s).
  Proof. intros r0 s H. exact H. Qed.

  Lemma Once_init : forall r0, Once r0 (init r0).
  Proof.
    intros r0. split; simpl; auto. intros t. left. split; auto. split; auto.
    intros w [H | [v H]]; discriminate.
  Qed.

  (* C02 (c): absent failures, stops and crashes every function is called at most once, exactly once
     for every task that ends up stored without having been stored at the start - however many
     workers, whatever the interleaving, however often execute is repeated *)
  Theorem once_run : forall r0 tr (s0 s : st V), Inv s0 -> Once r0 s0 -> forallb quiet tr = true ->
    run C s0 tr = Some s -> Once r0 s.
  Proof.
    intros r0. induction tr as [|e tr IH]; simpl; intros s0 s I O Q H.
    - inversion H; subst; auto.
    - apply andb_true_iff in Q. destruct Q as [Qe Q]. destruct (step C s0 e) eqn:E; [|discriminate].
      destruct (step_inv_some _ _ _ E) as [sx [E1 E2]]. subst.
      eapply IH; [eapply Inv_step; eauto | | eauto | eauto].
      apply Once_tick. eapply Once_step0; eauto.
  Qed.

  Theorem exactly_once : forall r0 tr (s : st V), Sound r0 -> forallb quiet tr = true ->
    run C (init r0) tr = Some s ->
    forall t, execs s t <= 1 /\
              (r0 t <> None -> execs s t = 0) /\
              (r0 t = None -> results s t <> None -> execs s t = 1).
  Proof.
    intros r0 tr s Hs Q H t.
    destruct (once_run r0 tr _ _ (Inv_init _ Hs) (Once_init r0) Q H) as [Hm Ho].
    destruct (Ho t) as [[He [_ Hi]] | [He [Hr0 _]]]; rewrite He.
    - split; [lia|]. split; auto. intros Hn Hr. exfalso. apply (Hi Hr). exact Hn.
    - split; [lia|]. split; auto. intros Hn. congruence.
  Qed.

  (* ------------------------------------------------------------------ failing tasks (C11) *)
  Lemma sem_stable : forall (r r' : tid -> option V) t,
    (forall d v, r d = Some v -> r' d = Some v) -> deps_stored r t -> c_sem C t r' = c_sem C t r.
  Proof.
    intros r r' t Hm Hd. apply sem_frame. intros d Hin. specialize (Hd d Hin).
    destruct (r d) eqn:E; [|congruence]. now rewrite (Hm _ _ E).
  Qed.

  (* a task that raises, or that depends - however indirectly - on one that does *)
  Inductive doomed (r : tid -> option V) : tid -> Prop :=
  | doomed_raises : forall t, deps_stored r t -> c_sem C t r = Raise -> doomed r t
  | doomed_dep : forall t d, In d (c_deps C t) -> doomed r d -> doomed r t.

  Lemma doomed_unstored : forall r t, Sound r -> doomed r t -> r t = None.
  Proof.
    intros r t Hs Hd. induction Hd as [t Hdep Hr | t d Hin Hd IH].
    - destruct (r t) eqn:E; auto. destruct (Hs _ _ E) as [_ X]. congruence.
    - destruct (r t) eqn:E; auto. destruct (Hs _ _ E) as [X _]. exfalso. apply (X d Hin). exact IH.
  Qed.

  Lemma doomed_mono : forall (r r' : tid -> option V) t,
    (forall d v, r d = Some v -> r' d = Some v) -> doomed r t -> doomed r' t.
  Proof.
    intros r r' t Hm Hd. induction Hd as [t Hdep Hr | t d Hin Hd IH].
    - apply doomed_raises; [eapply deps_stored_mono; eauto | rewrite (sem_stable r r'); auto].
    - eapply doomed_dep; eauto.
  Qed.

  (* C11 (a)+(b): nothing is ever stored for a task that raises or depends on one that does, and
     the function of a dependent is never even started *)
  Theorem doomed_forever : forall tr (s s' : st V) t, Inv s -> doomed (results s) t ->
    run C s tr = Some s' -> results s' t = None /\ doomed (results s') t.
  Proof.
    intros tr s s' t I Hd H.
    assert (I' : Inv s') by (eapply Inv_run; eauto).
    assert (Hd' : doomed (results s') t).
    { eapply doomed_mono; [|eauto]. intros d v. eapply results_mono_run; eauto. }
    split; auto. apply doomed_unstored; auto. apply (I_sound _ I').
  Qed.

  Theorem doomed_dependent_never_starts : forall (s : st V) w t d, Inv s ->
    In d (c_deps C t) -> doomed (results s) d -> step C s (EStart w t) = None.
  Proof.
    intros s w t d I Hin Hd. destruct (step C s (EStart w t)) eqn:E; auto. exfalso.
    apply (start_needs_deps _ _ _ _ E d Hin). apply doomed_unstored; auto. apply (I_sound _ I).
  Qed.

  (* the worker that sees a task raise: the task is doomed from then on *)
  Theorem raise_dooms : forall (s s' : st V) w t, step C s (ERaise w t) = Some s' -> doomed (results s') t.
  Proof.
    intros s s' w t H. destruct (step_inv_some _ _ _ H) as [s0 [H0 E]]. subst.
    break_step H0; norm; simpl; apply doomed_raises; auto;
      match goal with Hf : forallb (stored _) _ = true |- _ => exact (proj1 (forallb_stored _ _) Hf) end.
  Qed.

  (* C11 (e): what happens to the lock of the task that raised *)
  Theorem raised_lock : forall (s s' : st V) w t e, pcw s w = PRaised t -> step C s e = Some s' ->
    pcw s' w = PRaised t \/ pcw s' w = PDead \/
    (e = EUnlock w t /\ c_keep_failed C = false /\ locks s' t = LFree) \/
    (e = EFailMark w t /\ c_keep_failed C = true /\ locks s' t = LFailed).
  Proof.
    intros s s' w t e Hp H. destruct (step_inv_some _ _ _ H) as [s0 [H0 E]]. subst.
    destruct e; break_step H0; norm; simpl.
    all: try (casew2 w w0); simpl; auto.
    all: try congruence.
    all: try solve [destruct b; simpl; auto].
    all: rewrite Hp in Heqp; inversion Heqp; subst.
    - right. right. left. rewrite upd_same. auto.
    - right. right. right. rewrite upd_same. auto.
  Qed.

  (* a lock marked failed stays failed, and cannot be acquired, until failed locks are cleaned up *)
  Theorem failed_sticky : forall (s s' : st V) e t, Inv s -> locks s t = LFailed -> step C s e = Some s' ->
    locks s' t = LFailed \/ e = EReleaseFailed \/ e = ERemoveLocks.
  Proof.
    intros s s' e t I Hl H. destruct (step_inv_some _ _ _ H) as [s0 [H0 E]]. subst.
    destruct e; break_step H0; norm; simpl; auto.
    all: try solve [destruct b; auto].
    all: try solve [left; unfold upd; destruct (Pos.eqb t t0) eqn:Et; auto; apply Pos.eqb_eq in Et; subst; congruence].
    all: fwd I; left; unfold upd; destruct (Pos.eqb t t1) eqn:Et; auto; apply Pos.eqb_eq in Et; subst; congruence.
  Qed.

  Theorem failed_not_acquired : forall (s : st V) w t, locks s t = LFailed -> step C s (ELock w t true) = None.
  Proof. intros s w t Hl. unfold step, step0. destruct (pcw s w); auto. rewrite Hl. auto. Qed.

  (* C11 (d): the exit status of a worker that was not asked to stop is non-zero iff it saw a failure *)
  Theorem exit_code_reports_failure : forall (s s' : st V) w code, step C s (EExit w code) = Some s' ->
    w_intr (ws s w) = false -> (code = 0 <-> w_failed (ws s w) = false).
  Proof.
    intros s s' w code H Hi. destruct (step_inv_some _ _ _ H) as [s0 [H0 E]]. subst.
    unfold step0 in H0. destruct (pcw s w); try discriminate.
    - destruct (may_leave C (ws s w) && Bool.eqb (Nat.eqb code 0) (negb (w_failed (ws s w)))) eqn:Eb; [|discriminate].
      apply andb_true_iff in Eb. destruct Eb as [_ Eb]. apply eqb_prop in Eb.
      destruct (w_failed (ws s w)); simpl in Eb; split; intros X; try discriminate; auto.
      + subst. discriminate.
      + apply Nat.eqb_eq. auto.
    - rewrite Hi in H0. simpl in H0.
      destruct (negb (Nat.eqb code 0) && w_failed (ws s w)) eqn:Eb; [|discriminate].
      apply andb_true_iff in Eb. destruct Eb as [Eb1 Eb2]. apply negb_true_iff in Eb1. apply Nat.eqb_neq in Eb1.
      rewrite Eb2. split; intros; [contradiction | discriminate].
  Qed.

  Definition raises_in (w : wid) (e : ev V) : bool :=
    match e with ERaise w' _ => Nat.eqb w' w | _ => false end.

  Lemma failed_step : forall (s s' : st V) e w, step0 C s e = Some s' ->
    w_failed (ws s' w) = w_failed (ws s w) || raises_in w e.
  Proof.
    intros s s' e w H. destruct e; break_step H; norm; simpl.
    all: try (casew2 w w0); simpl; rewrite ?orb_false_r; auto.
    all: try solve [destruct b; simpl; auto].
    all: try solve [rewrite Nat.eqb_refl; rewrite orb_true_r; reflexivity].
    all: try solve [apply Nat.eqb_neq in E; rewrite Nat.eqb_sym in E; rewrite E; rewrite orb_false_r; auto].
  Qed.

  (* ... and "saw a failure" means exactly: some task function raised in this worker *)
  Theorem failed_iff_raised : forall tr (s s' : st V) w, run C s tr = Some s' ->
    w_failed (ws s' w) = w_failed (ws s w) || existsb (raises_in w) tr.
  Proof.
    induction tr as [|e tr IH]; simpl; intros s s' w H.
    - inversion H; subst. now rewrite orb_false_r.
    - destruct (step C s e) eqn:E; [|discriminate]. destruct (step_inv_some _ _ _ E) as [s1 [E1 E2]]. subst.
      rewrite (IH _ _ w H). simpl. rewrite (failed_step _ _ _ w E1). now rewrite orb_assoc.
  Qed.

  (* ------------------------------------------------------------------ stopping and crashing (C12, C13) *)
  (* a stop request can arrive in every state of a worker in which it is choosing, waiting, holding
     a lock, inside a task function or between the function and the dump *)
  Theorem interrupt_enabled : forall (s : st V) w,
    (pcw s w = PIdle \/ exists t, pcw s w = PLocked t \/ pcw s w = PCleared t \/ pcw s w = PSkip t \/
                                  pcw s w = PRunning t \/ (exists v, pcw s w = PRan t v) \/ pcw s w = PStored t) ->
    exists s', step C s (EInterrupt w) = Some s' /\ w_intr (ws s' w) = true /\ results s' = results s /\ locks s' = locks s.
  Proof.
    intros s w H. unfold step, step0.
    destruct H as [H | [t [H | [H | [H | [H | [[v H] | H]]]]]]]; rewrite H; simpl;
      eexists; (split; [reflexivity|]); simpl; rewrite updw_same; auto.
  Qed.

  Definition actor (e : ev V) : option wid :=
    match e with
    | ECanLoad w _ _ | ELoad w _ _ | ELock w _ _ | EStart w _ | ERet w _ _ | ERaise w _ | EDump w _ _
    | EUnlock w _ | EFailMark w _ | EInterrupt w | ECrash w | EExit w _ => Some w
    | ERemoveLocks | EReleaseFailed => None
    end.

  (* events of other workers (and of the operator) do not touch a worker's own state *)
  Lemma others_untouched : forall (s s' : st V) e w, step0 C s e = Some s' -> actor e <> Some w -> ws s' w = ws s w.
  Proof.
    intros s s' e w H Ha. destruct e; break_step H; norm; simpl in *; auto.
    all: try solve [casew2 w w0; auto; congruence].
    all: try solve [destruct b; casew2 w w0; auto; congruence].
  Qed.

  Lemma intr_kept : forall (s s' : st V) e w, step0 C s e = Some s' -> w_intr (ws s w) = true -> w_intr (ws s' w) = true.
  Proof.
    intros s s' e w H Hi. destruct e; break_step H; norm; simpl in *; auto.
    all: try solve [casew2 w w0; simpl; auto].
    all: try solve [destruct b; casew2 w w0; simpl; auto].
  Qed.

  (* once asked to stop, a worker never starts a function, stores a result or takes a lock again;
     all it can still do to shared state is release the lock it holds *)
  Theorem interrupted_is_harmless : forall (s s' : st V) e w, Inv s -> w_intr (ws s w) = true ->
    step C s e = Some s' -> actor e = Some w ->
    results s' = results s /\
    (locks s' = locks s \/ exists t, e = EUnlock w t /\ pcw s w = PUnwind t /\ pcw s' w = PExiting).
  Proof.
    intros s s' e w I Hi H Ha. destruct (step_inv_some _ _ _ H) as [s0 [H0 E]]. subst.
    destruct (I_intr _ I w Hi) as [[t Hp] | [Hp | [[c Hp] | Hp]]];
      destruct e; simpl in Ha; inversion Ha; subst; unfold step0 in H0; rewrite Hp in H0; simpl in H0; try discriminate.
    all: repeat break_match_hyp H0; inversion H0; subst; simpl; auto.
    split; auto. right. exists t. norm. rewrite updw_same. simpl. auto.
  Qed.

  Theorem interrupted_stays : forall tr (s s' : st V) w, w_intr (ws s w) = true -> run C s tr = Some s' ->
    w_intr (ws s' w) = true.
  Proof.
    induction tr as [|e tr IH]; simpl; intros s s' w Hi H.
    - inversion H; subst; auto.
    - destruct (step C s e) eqn:E; [|discriminate]. destruct (step_inv_some _ _ _ E) as [s1 [E1 E2]]. subst.
      eapply IH; [|eauto]. simpl. eapply intr_kept; eauto.
  Qed.

  (* a crash changes nothing but the crashed worker: results, locks and every other worker are as before *)
  Theorem crash_effect : forall (s s' : st V) w, step C s (ECrash w) = Some s' ->
    results s' = results s /\ locks s' = locks s /\ pcw s' w = PDead /\ (forall w', w' <> w -> ws s' w' = ws s w').
  Proof.
    intros s s' w H. destruct (step_inv_some _ _ _ H) as [s0 [H0 E]]. subst.
    break_step H0; simpl. rewrite updw_same. repeat split; auto. intros w' Hn. now rewrite updw_other.
  Qed.

  (* a dead (or finished) worker never acts again *)
  Theorem dead_is_silent : forall (s s' : st V) e w, live (pcw s w) = false -> step C s e = Some s' -> actor e <> Some w.
  Proof.
    intros s s' e w Hl H Ha. destruct (step_inv_some _ _ _ H) as [s0 [H0 E]]. subst.
    destruct e; simpl in Ha; inversion Ha; subst; unfold step0 in H0.
    all: destruct (pcw s w); simpl in *; try discriminate.
  Qed.

  Theorem dead_stays : forall (s s' : st V) e w, live (pcw s w) = false -> step C s e = Some s' -> ws s' w = ws s w.
  Proof.
    intros s s' e w Hl H. assert (Ha := dead_is_silent _ _ _ _ Hl H).
    destruct (step_inv_some _ _ _ H) as [s0 [H0 E]]. subst. simpl. eapply others_untouched; eauto.
  Qed.

  (* removing stale locks: possible as soon as every lock holder is dead, frees everything, touches no result *)
  Theorem remove_locks_effect : forall (s : st V), Inv s ->
    (forall t w, locks s t = LHeld w -> live (pcw s w) = false) ->
    exists s', step C s ERemoveLocks = Some s' /\ results s' = results s /\ (forall t, locks s' t = LFree) /\ ws s' = ws s.
  Proof.
    intros s I Hd. unfold step, step0.
    assert (G : forallb (fun t => match locks s t with LHeld w => negb (live (pcw s w)) | _ => true end) (c_tasks C) = true).
    { apply forallb_forall. intros t _. destruct (locks s t) eqn:El; auto. rewrite (Hd _ _ El). reflexivity. }
    rewrite G. eexists. split; [reflexivity|]. simpl. auto.
  Qed.

  (* ------------------------------------------------------------------ completeness at quiescence *)
  Definition failed_task (s : st V) (t : tid) : Prop :=
    deps_stored (results s) t /\ c_sem C t (results s) = Raise.

  Lemma failed_task_mono : forall (s s' : st V) e t, Inv s -> step0 C s e = Some s' ->
    failed_task s t -> failed_task s' t.
  Proof.
    intros s s' e t I H [Hd Hr]. assert (Hm := results_mono_step0 _ _ _ I H). split.
    - eapply deps_stored_mono; eauto.
    - rewrite (sem_stable (results s) (results s')); auto.
  Qed.

  Lemma stored_mono_step0 : forall (s s' : st V) e t, Inv s -> step0 C s e = Some s' ->
    results s t <> None -> results s' t <> None.
  Proof.
    intros s s' e t I H Hr. destruct (results s t) eqn:E; [|congruence].
    rewrite (results_mono_step0 _ _ _ I H _ _ E). discriminate.
  Qed.

  (* what a step can add to a worker's bookkeeping *)
  Lemma handled_step : forall (s s' : st V) e w t, step0 C s e = Some s' ->
    In t (w_handled (ws s' w)) ->
    In t (w_handled (ws s w)) \/
    (e = ECanLoad w t true \/ e = ELock w t false \/ (exists v, e = EDump w t v) \/ e = ERaise w t).
  Proof.
    intros s s' e w t H Hin. destruct e; break_step H; norm; simpl in *; auto.
    all: try (casew2 w w0); simpl in *; auto.
    all: try solve [destruct b; simpl in *; auto; destruct Hin as [X|X]; subst; auto].
    all: try solve [destruct Hin as [X|X]; subst; eauto 6].
  Qed.

  Lemma handled_kept : forall (s s' : st V) e w t, step0 C s e = Some s' ->
    In t (w_handled (ws s w)) -> In t (w_handled (ws s' w)).
  Proof.
    intros s s' e w t H Hin. destruct e; break_step H; norm; simpl in *; auto.
    all: try (casew2 w w0); simpl in *; auto.
    all: try solve [destruct b; simpl in *; auto].
  Qed.

  Lemma scan_step : forall (s s' : st V) e w d k, step0 C s e = Some s' ->
    In (d, k) (w_scan (ws s' w)) ->
    (In (d, k) (w_scan (ws s w)) /\ w_last (ws s' w) = w_last (ws s w)) \/
    (e = ECanLoad w d false /\ k = now s /\ w_last (ws s' w) = w_last (ws s w)).
  Proof.
    intros s s' e w d k H Hin. destruct e; break_step H; norm; simpl in *; auto.
    all: try (casew2 w w0); simpl in *; auto; try contradiction.
    all: try solve [destruct b; simpl in *; auto; try contradiction; destruct Hin as [X|X]; [inversion X; subst; auto | auto]].
    all: destruct Hin as [X|X]; [inversion X; subst; auto | auto].
  Qed.

  Lemma last_step : forall (s s' : st V) e w, step0 C s e = Some s' ->
    w_last (ws s' w) = w_last (ws s w) \/ w_last (ws s' w) = now s.
  Proof.
    intros s s' e w H. destruct e; break_step H; norm; simpl in *; auto.
    all: try (casew2 w w0); simpl in *; auto.
    all: try solve [destruct b; simpl in *; auto].
  Qed.

  Lemma now_step0 : forall (s s' : st V) e, step0 C s e = Some s' -> now s' = now s.
  Proof.
    intros s s' e H. destruct e; break_step H; norm; simpl in *; auto.
    all: try solve [destruct b; simpl in *; auto].
  Qed.

  Lemma stored_at_step : forall (s s' : st V) e d, step0 C s e = Some s' ->
    stored_at s' d = stored_at s d \/ (exists w v, e = EDump w d v /\ stored_at s' d = now s).
  Proof.
    intros s s' e d H. destruct e; break_step H; norm; simpl in *; auto.
    all: try solve [destruct b; simpl in *; auto].
    unfold upd. destruct (Pos.eqb d t0) eqn:E; auto. apply Pos.eqb_eq in E; subst. right. eauto.
  Qed.

  Section Complete.
    Variable F : wid -> bool.    (* the workers of this execute: fresh when it begins *)
    Variable t0 : nat.            (* ghost time at which it begins *)

    (* no stop request, no crash; a function may raise only if --keep-going is in force *)
    Definition okev (e : ev V) : bool :=
      match e with EInterrupt _ | ECrash _ => false | ERaise _ _ => c_keep_going C | _ => true end.

    Record InvC (s : st V) : Prop := {
      K_failed : forall t, locks s t = LFailed -> failed_task s t;
      K_held : forall t w, locks s t = LHeld w -> F w = true /\ holding (pcw s w) = Some t;
      K_live : forall w, F w = true -> (forall t, pcw s w <> PUnwind t) /\ pcw s w <> PExiting /\ pcw s w <> PDead;
      K_raised : forall w t, pcw s w = PRaised t -> failed_task s t /\ c_keep_going C = true;
      K_handled : forall w t, F w = true -> In t (w_handled (ws s w)) ->
                    results s t <> None \/ (exists w', locks s t = LHeld w') \/ failed_task s t;
      K_scan : forall w d k, F w = true -> In (d, k) (w_scan (ws s w)) ->
                    w_last (ws s w) <= k /\ k < now s /\ t0 <= k /\ (results s d <> None -> k < stored_at s d);
      K_stored : forall d, results s d <> None -> stored_at s d < now s;
      K_dumper : forall d, results s d <> None -> t0 <= stored_at s d ->
                    exists w, F w = true /\ stored_at s d <= w_last (ws s w) /\ w_handled (ws s w) <> [];
      K_last : forall w, F w = true -> w_last (ws s w) < now s;
      K_now : t0 <= now s;
      K_done : forall w c, F w = true -> pcw s w = PDone c -> may_leave C (ws s w) = true;
      K_nonF : forall w, F w = false -> live (pcw s w) = false
    }.

    Lemma actor_is_F : forall (s s' : st V) e w, InvC s -> step0 C s e = Some s' -> actor e = Some w -> F w = true.
    Proof.
      intros s s' e w K H Ha. destruct (F w) eqn:Ef; auto. exfalso.
      assert (Hl := K_nonF _ K w Ef).
      assert (X : step C s e = Some (tick s')) by (unfold step; rewrite H; reflexivity).
      exact (dead_is_silent _ _ _ _ Hl X Ha).
    Qed.

    Lemma K_failed_step : forall (s s' : st V) e, Inv s -> InvC s -> okev e = true -> step0 C s e = Some s' ->
      forall t, locks s' t = LFailed -> failed_task s' t.
    Proof.
      intros s s' e I K Q H t Hl.
      assert (Hm : forall t, failed_task s t -> failed_task s' t) by (intros; eapply failed_task_mono; eauto).
      destruct e; try discriminate Q; break_step H; norm; simpl in *.
      all: try solve [apply Hm; eapply K_failed; eauto].
      all: try solve [destruct b; apply Hm; eapply K_failed; eauto].
      all: unfold failed_task in *; simpl in *.
      all: try solve [unfold upd in Hl; match type of Hl with context [Pos.eqb ?a ?b] => destruct (Pos.eqb a b) eqn:Et end;
                      try discriminate; eapply K_failed; eauto].
      - unfold upd in Hl. destruct (Pos.eqb t t2) eqn:Et; [|eapply K_failed; eauto].
        apply Pos.eqb_eq in Et; subst. apply (K_raised _ K w). auto.
      - discriminate.
      - destruct (locks s t); discriminate.
    Qed.

    Lemma K_held_step : forall (s s' : st V) e, Inv s -> InvC s -> okev e = true -> step0 C s e = Some s' ->
      forall t w, locks s' t = LHeld w -> F w = true /\ holding (pcw s' w) = Some t.
    Proof.
      intros s s' e I K Q H.
      assert (HF : forall w, actor e = Some w -> F w = true) by (intros; eapply actor_is_F; eauto).
      destruct e; try discriminate Q; break_step H; norm; simpl in *; intros tq wq Hq.
      all: try specialize (HF _ eq_refl).
      all: try (casew2 wq w).
      all: try solve [eapply K_held; eauto].
      all: fwd I.
      all: try solve [destruct (K_held _ K _ _ Hq) as [X Y]; split; auto; rewrite Heqp in Y; simpl in Y; inversion Y; subst;
                      try destruct b; simpl; auto].
      all: try solve [unfold upd in Hq; match type of Hq with context [Pos.eqb ?a ?b] => destruct (Pos.eqb a b) eqn:Et end; norm;
                      try discriminate; try (inversion Hq; subst; try contradiction; simpl; auto; fail);
                      destruct (K_held _ K _ _ Hq) as [X Y]; try (split; auto; fail);
                      rewrite Heqp in Y; simpl in Y; inversion Y; subst; contradiction].
      - discriminate.
      - destruct (locks s tq) eqn:El; try discriminate. inversion Hq; subst. eapply K_held; eauto.
    Qed.

    Lemma K_live_step : forall (s s' : st V) e, Inv s -> InvC s -> okev e = true -> step0 C s e = Some s' ->
      forall w, F w = true -> (forall t, pcw s' w <> PUnwind t) /\ pcw s' w <> PExiting /\ pcw s' w <> PDead.
    Proof.
      intros s s' e I K Q H.
      destruct e; try discriminate Q; break_step H; norm; simpl in *; intros wq Hq.
      all: try (casew2 wq w).
      all: try solve [eapply K_live; eauto].
      all: try solve [destruct b; simpl; try (eapply K_live; eauto; fail); repeat split; try intros ?; discriminate].
      all: try solve [simpl; repeat split; try intros ?; discriminate].
      - destruct (K_raised _ K _ _ Heqp) as [_ Hk]. unfold after_failure. rewrite Hk. simpl. repeat split; try intros ?; discriminate.
      - exfalso. destruct (K_live _ K w Hq) as [X _]. apply (X t1). auto.
      - destruct (K_raised _ K _ _ Heqp) as [_ Hk]. unfold after_failure. rewrite Hk. simpl. repeat split; try intros ?; discriminate.
    Qed.

    Lemma K_raised_step : forall (s s' : st V) e, Inv s -> InvC s -> okev e = true -> step0 C s e = Some s' ->
      forall w t, pcw s' w = PRaised t -> failed_task s' t /\ c_keep_going C = true.
    Proof.
      intros s s' e I K Q H.
      assert (Hm : forall t, failed_task s t -> failed_task s' t) by (intros; eapply failed_task_mono; eauto).
      destruct e; try discriminate Q; break_step H; norm; simpl in *; intros wq tq Hq.
      all: try (casew2 wq w).
      all: try solve [destruct (K_raised _ K _ _ Hq); split; auto].
      all: try solve [simpl in Hq; discriminate].
      all: try solve [destruct b; simpl in Hq; try discriminate; rewrite Heqp in Hq; discriminate].
      all: unfold failed_task in *; simpl in *.
      - inversion Hq; subst. repeat split; auto. exact (proj1 (forallb_stored _ _) H0).
      - inversion Hq; subst. repeat split; auto. exact (proj1 (forallb_stored _ _) H0).
      - unfold after_failure in Hq. destruct (c_keep_going C); discriminate.
      - unfold after_failure in Hq. destruct (c_keep_going C); discriminate.
    Qed.


    Lemma held_release : forall (s s' : st V) e t w', Inv s -> InvC s -> okev e = true -> step0 C s e = Some s' ->
      locks s t = LHeld w' -> locks s' t = LHeld w' \/ results s' t <> None \/ failed_task s' t.
    Proof.
      intros s s' e t w' I K Q H Hl.
      destruct e; try discriminate Q; break_step H; norm; simpl in *; auto.
      all: try solve [destruct b; auto].
      all: unfold failed_task; simpl.
      all: fwd I.
      all: try solve [unfold upd; destruct (Pos.eqb t t2) eqn:Et; auto; apply Pos.eqb_eq in Et; subst;
                      right; left; eapply I_done; eauto].
      - left. unfold upd. destruct (Pos.eqb t t1) eqn:Et; auto. apply Pos.eqb_eq in Et; subst. congruence.
      - unfold upd. destruct (Pos.eqb t t2) eqn:Et; auto. apply Pos.eqb_eq in Et; subst.
        right. right. apply (K_raised _ K w). auto.
      - exfalso. assert (Hf : F w = true) by (apply (K_held _ K t2 w); auto).
        destruct (K_live _ K w Hf) as [X _]. apply (X t2). auto.
      - unfold upd. destruct (Pos.eqb t t2) eqn:Et; auto. apply Pos.eqb_eq in Et; subst.
        right. right. apply (K_raised _ K w). auto.
      - exfalso. destruct (K_held _ K _ _ Hl) as [_ Y]. rewrite forallb_forall in Heqb.
        assert (Hin : In t (c_tasks C)) by (apply (I_task _ I); congruence).
        specialize (Heqb t Hin). rewrite Hl in Heqb. apply negb_true_iff in Heqb.
        rewrite (holding_live _ _ Y) in Heqb. discriminate.
      - left. now rewrite Hl.
    Qed.

    Lemma K_handled_step : forall (s s' : st V) e, Inv s -> InvC s -> okev e = true -> step0 C s e = Some s' ->
      forall w t, F w = true -> In t (w_handled (ws s' w)) ->
        results s' t <> None \/ (exists w', locks s' t = LHeld w') \/ failed_task s' t.
    Proof.
      intros s s' e I K Q H w t Hf Hin.
      destruct (handled_step _ _ _ _ _ H Hin) as [Hold | Hnew].
      - destruct (K_handled _ K w t Hf Hold) as [X | [[w' X] | X]].
        + left. eapply stored_mono_step0; eauto.
        + destruct (held_release _ _ _ _ _ I K Q H X) as [Y | [Y | Y]]; eauto.
        + right. right. eapply failed_task_mono; eauto.
      - destruct Hnew as [X | [X | [[v X] | X]]]; subst e.
        + left. break_step H; norm; simpl; try (apply stored_true; auto).
        + break_step H; norm; simpl.
          * right. left. eauto.
          * right. right. apply (K_failed _ K). auto.
        + left. eapply dump_stores; eauto.
        + right. right. assert (X : step C s (ERaise w t) = Some (tick s')) by (unfold step; rewrite H; reflexivity).
          apply raise_dooms in X. simpl in X. inversion X; subst.
          * split; auto.
          * exfalso. clear - H H0 H1 I. break_step H; norm; simpl in *.
            all: assert (Hd := proj1 (forallb_stored _ _) H2 _ H0);
                 apply Hd; apply doomed_unstored; auto; apply (I_sound _ I).
    Qed.

    Lemma dump_effect : forall (s s' : st V) w d v, step0 C s (EDump w d v) = Some s' ->
      stored_at s' d = now s /\ w_last (ws s' w) = now s /\ In d (w_handled (ws s' w)).
    Proof.
      intros s s' w d v H. break_step H; norm; simpl. rewrite upd_same, updw_same. simpl. auto.
    Qed.

    Lemma done_new : forall (s s' : st V) e w c, step0 C s e = Some s' -> pcw s' w = PDone c ->
      (exists c', pcw s w = PDone c' /\ ws s' w = ws s w) \/
      (pcw s w = PIdle /\ may_leave C (ws s w) = true /\ ws s' w = set_pc (ws s w) (PDone c)) \/
      pcw s w = PExiting.
    Proof.
      intros s s' e w c H Hp. destruct e; break_step H; norm; simpl in *.
      all: try (casew2 w w0); simpl in *; eauto.
      all: try solve [destruct b; simpl in *; eauto; try discriminate; rewrite Heqp in Hp; discriminate].
      all: try discriminate.
      all: try solve [unfold after_failure in Hp; destruct (c_keep_going C); discriminate].
      all: try solve [rewrite Heqp in Hp; discriminate].
      - inversion Hp; subst. right. left. auto.
    Qed.

    Lemma may_leave_set_pc : forall (x : wst V) p, may_leave C (set_pc x p) = may_leave C x.
    Proof. reflexivity. Qed.

    Theorem InvC_step : forall (s s' : st V) e, Inv s -> InvC s -> okev e = true -> step C s e = Some s' -> InvC s'.
    Proof.
      intros s s' e I K Q H. destruct (step_inv_some _ _ _ H) as [s1 [H1 E]]. subst s'.
      assert (Hnow := now_step0 _ _ _ H1).
      constructor; simpl.
      - exact (K_failed_step s s1 e I K Q H1).
      - exact (K_held_step s s1 e I K Q H1).
      - exact (K_live_step s s1 e I K Q H1).
      - exact (K_raised_step s s1 e I K Q H1).
      - exact (K_handled_step s s1 e I K Q H1).
      - (* K_scan *)
        intros w d k Hf Hin. destruct (scan_step _ _ _ _ _ _ H1 Hin) as [[Hold Hl] | [He [Hk Hl]]].
        + destruct (K_scan _ K w d k Hf Hold) as [A [B [D G]]]. rewrite Hl. repeat split; auto; try lia.
          intros Hr. destruct (results s d) eqn:Er.
          * assert (k < stored_at s d) by (apply G; discriminate).
            destruct (stored_at_step _ _ _ d H1) as [X | [w' [v' [_ X]]]]; lia.
          * destruct (results_new _ _ _ H1 _ Hr) as [X | [w' [v' [X _]]]]; [congruence|]. subst e.
            destruct (dump_effect _ _ _ _ _ H1) as [X _]. lia.
        + subst e k. rewrite Hl. assert (X := K_last _ K w Hf). assert (Y := K_now _ K). repeat split; try lia.
          intros Hr. exfalso. break_step H1; norm; simpl in *;
            match goal with Hs : false = stored _ _ |- _ => symmetry in Hs; apply stored_false in Hs; congruence end.
      - (* K_stored *)
        intros d Hr. destruct (results s d) eqn:Er.
        + assert (stored_at s d < now s) by (apply (K_stored _ K); congruence).
          destruct (stored_at_step _ _ _ d H1) as [X | [w' [v' [_ X]]]]; lia.
        + destruct (results_new _ _ _ H1 _ Hr) as [X | [w' [v' [X _]]]]; [congruence|]. subst e.
          destruct (dump_effect _ _ _ _ _ H1) as [X _]. lia.
      - (* K_dumper *)
        intros d Hr Ht.
        assert (Hcase : (exists w v, e = EDump w d v) \/ (results s d <> None /\ stored_at s1 d = stored_at s d)).
        { destruct (stored_at_step _ _ _ d H1) as [X | [w' [v' [X _]]]]; eauto.
          destruct (results_new _ _ _ H1 _ Hr) as [Y | [w' [v' [Y _]]]]; eauto. }
        destruct Hcase as [[w [v He]] | [Hr0 Hs]].
        + subst e. destruct (dump_effect _ _ _ _ _ H1) as [A [B D]]. exists w. split.
          * eapply actor_is_F; eauto.
          * split; [lia|]. intros X. rewrite X in D. contradiction.
        + rewrite Hs in *. destruct (K_dumper _ K d Hr0 Ht) as [w [A [B D]]]. exists w. split; auto. split.
          * assert (X := K_last _ K w A). destruct (last_step _ _ _ w H1); lia.
          * destruct (w_handled (ws s w)) as [|x l] eqn:El; [congruence|].
            assert (In x (w_handled (ws s1 w))) by (eapply handled_kept; eauto; rewrite El; left; auto).
            intros Y. rewrite Y in *. contradiction.
      - intros w Hf. assert (X := K_last _ K w Hf). destruct (last_step _ _ _ w H1); lia.
      - assert (X := K_now _ K). lia.
      - (* K_done *)
        intros w c Hf Hp. destruct (done_new _ _ _ _ _ H1 Hp) as [[c' [A B]] | [[A [B D]] | A]].
        + rewrite B. eapply K_done; eauto.
        + rewrite D. rewrite may_leave_set_pc. auto.
        + exfalso. destruct (K_live _ K w Hf) as [_ [X _]]. contradiction.
      - intros w Hf. assert (Hl := K_nonF _ K w Hf). assert (X := dead_stays _ _ _ _ Hl H). simpl in X. rewrite X. auto.
    Qed.

    Theorem InvC_run : forall tr (s s' : st V), Inv s -> InvC s -> forallb okev tr = true ->
      run C s tr = Some s' -> InvC s'.
    Proof.
      induction tr as [|e tr IH]; simpl; intros s s' I K Q H.
      - inversion H; subst; auto.
      - apply andb_true_iff in Q. destruct Q as [Qe Q]. destruct (step C s e) eqn:E; [|discriminate].
        eapply IH; [eapply Inv_step; eauto | eapply InvC_step; eauto | eauto | eauto].
    Qed.

    (* the state in which a (new) execute begins: no lock is held, the participating workers are
       fresh, everybody else has left or is dead *)
    Definition Restart (s : st V) : Prop :=
      Inv s /\
      (forall t, locks s t = LFree \/ (locks s t = LFailed /\ failed_task s t)) /\
      (forall w, F w = true -> ws s w = fresh_w) /\
      (forall w, F w = false -> live (pcw s w) = false) /\
      (forall d, results s d <> None -> stored_at s d < now s) /\
      t0 = now s /\ 0 < now s.

    Lemma Restart_InvC : forall s, Restart s -> InvC s.
    Proof.
      intros s [I [Hl [Hf [Hn [Hs [Ht Hp]]]]]]. constructor.
      - intros t X. destruct (Hl t) as [Y | [_ Y]]; [congruence | auto].
      - intros t w X. destruct (Hl t) as [Y | [Y _]]; congruence.
      - intros w X. rewrite (Hf w X). simpl. repeat split; try intros ?; discriminate.
      - intros w t X. destruct (F w) eqn:Ef.
        + rewrite (Hf w Ef) in X. discriminate.
        + assert (Y := Hn w Ef). rewrite X in Y. discriminate.
      - intros w t X Y. rewrite (Hf w X) in Y. contradiction.
      - intros w d k X Y. rewrite (Hf w X) in Y. contradiction.
      - auto.
      - intros d X Y. specialize (Hs d X). lia.
      - intros w X. rewrite (Hf w X). simpl. lia.
      - lia.
      - intros w c X Y. rewrite (Hf w X) in Y. discriminate.
      - auto.
    Qed.

    (* every participating worker has left, or has not done anything yet *)
    Definition quiescent (s : st V) : Prop :=
      forall w, F w = true -> (exists c, pcw s w = PDone c) \/ (pcw s w = PIdle /\ w_handled (ws s w) = []).

    Lemma scanned_In : forall (x : wst V) d, scanned x d = true -> exists k, In (d, k) (w_scan x).
    Proof.
      intros x d H. unfold scanned in H. apply existsb_exists in H. destruct H as [[d' k] [Hin E]].
      simpl in E. apply Pos.eqb_eq in E. subst. eauto.
    Qed.

    Lemma latest_dep : forall (f : tid -> nat) l,
      (forall d, In d l -> f d < t0) \/ (exists d, In d l /\ t0 <= f d /\ forall d', In d' l -> f d' <= f d).
    Proof.
      intros f. induction l as [|a l IH]; [left; intros d []|].
      destruct IH as [IH | [d [Hin [Ht Hmax]]]].
      - destruct (le_lt_dec t0 (f a)) as [Ha | Ha].
        + right. exists a. split; [left; auto|]. split; auto. intros d' [X | X]; [subst; lia|]. specialize (IH d' X). lia.
        + left. intros d [X | X]; [subst; auto | auto].
      - destruct (le_lt_dec (f a) (f d)) as [Ha | Ha].
        + right. exists d. split; [right; auto|]. split; auto. intros d' [X | X]; [subst; auto | auto].
        + right. exists a. split; [left; auto|]. split; [lia|]. intros d' [X | X]; [subst; lia|]. specialize (Hmax d' X). lia.
    Qed.

    (* the heart of completeness: at quiescence a task all of whose dependencies are stored and whose
       function does not raise has been stored *)
    Theorem complete_local : forall s : st V, Inv s -> InvC s -> quiescent s ->
      (exists w c, F w = true /\ pcw s w = PDone c) ->
      forall t, In t (c_tasks C) -> deps_stored (results s) t -> c_sem C t (results s) <> Raise ->
      results s t <> None.
    Proof.
      intros s I K Hq [w0 [c0 [Hf0 Hp0]]] t Hin Hd Hr Hn.
      assert (Hnf : ~ failed_task s t) by (intros [_ X]; contradiction).
      assert (Hfree : locks s t = LFree).
      { destruct (locks s t) eqn:El; auto.
        - destruct (K_held _ K _ _ El) as [Hf Hh].
          destruct (Hq w Hf) as [[c X] | [X _]]; rewrite X in Hh; discriminate.
        - exfalso. apply Hnf. apply (K_failed _ K). auto. }
      (* what the exit of a participating worker tells about t *)
      assert (Hexit : forall w c, F w = true -> pcw s w = PDone c ->
                exists d k, In d (c_deps C t) /\ In (d, k) (w_scan (ws s w))).
      { intros w c Hf Hp. assert (Hm := K_done _ K w c Hf Hp). unfold may_leave in Hm.
        rewrite forallb_forall in Hm. specialize (Hm t Hin). apply orb_true_iff in Hm. destruct Hm as [Hm | Hm].
        - exfalso. apply mem_In in Hm. destruct (K_handled _ K w t Hf Hm) as [X | [[w' X] | X]]; auto. congruence.
        - apply existsb_exists in Hm. destruct Hm as [d [Hdin Hsc]]. destruct (scanned_In _ _ Hsc) as [k Hk]. eauto. }
      destruct (latest_dep (stored_at s) (c_deps C t)) as [Hold | [d [Hdin [Ht Hmax]]]].
      - destruct (Hexit w0 c0 Hf0 Hp0) as [d [k [Hdin Hk]]].
        destruct (K_scan _ K w0 d k Hf0 Hk) as [_ [_ [A B]]]. specialize (B (Hd d Hdin)). specialize (Hold d Hdin). lia.
      - destruct (K_dumper _ K d (Hd d Hdin) Ht) as [w [Hf [Hle Hh]]].
        destruct (Hq w Hf) as [[c Hp] | [_ X]]; [|contradiction].
        destruct (Hexit w c Hf Hp) as [d' [k [Hdin' Hk]]].
        destruct (K_scan _ K w d' k Hf Hk) as [A [_ [_ B]]]. specialize (B (Hd d' Hdin')). specialize (Hmax d' Hdin'). lia.
    Qed.

    Hypothesis tasks_closed : forall t d, In t (c_tasks C) -> In d (c_deps C t) -> In d (c_tasks C).

    (* C01 (b) / C11 (c): at quiescence exactly the tasks that do not raise and do not depend on one
       that raises have a result *)
    Theorem complete : forall s : st V, Inv s -> InvC s -> quiescent s ->
      (exists w c, F w = true /\ pcw s w = PDone c) ->
      forall t, In t (c_tasks C) -> (results s t <> None <-> ~ doomed (results s) t).
    Proof.
      intros s I K Hq Hw.
      assert (G : forall n t, rank t < n -> In t (c_tasks C) -> ~ doomed (results s) t -> results s t <> None).
      { induction n as [|n IH]; intros t Hn Hin Hnd; [lia|].
        assert (Hd : deps_stored (results s) t).
        { intros d Hdin. apply IH.
          - specialize (rank_deps _ _ Hdin). lia.
          - eapply tasks_closed; eauto.
          - intros X. apply Hnd. eapply doomed_dep; eauto. }
        eapply complete_local; eauto. intros X. apply Hnd. apply doomed_raises; auto. }
      intros t Hin. split.
      - intros Hr Hd. apply Hr. apply doomed_unstored; auto. apply (I_sound _ I).
      - apply (G (S (rank t))); auto.
    Qed.

    Theorem complete_run : forall tr (s0 s : st V), Restart s0 -> forallb okev tr = true ->
      run C s0 tr = Some s -> quiescent s -> (exists w c, F w = true /\ pcw s w = PDone c) ->
      forall t, In t (c_tasks C) -> (results s t <> None <-> ~ doomed (results s) t).
    Proof.
      intros tr s0 s R Q H Hq Hw. assert (K0 := Restart_InvC _ R). destruct R as [I0 _].
      apply complete; auto.
      - eapply Inv_run; eauto.
      - eapply InvC_run; eauto.
    Qed.
  End Complete.

  Lemma Restart_init : forall r0, Sound r0 -> Restart (fun _ => true) 1 (init r0).
  Proof.
    intros r0 Hs. split; [apply Inv_init; auto|]. simpl. repeat split; auto; try discriminate.
  Qed.

  (* ------------------------------------------------------------------ two more invariants of every run *)
  (* failed locks and raised states are backed by a task that really raises *)
  Definition InvF (s : st V) : Prop :=
    (forall t, locks s t = LFailed -> failed_task s t) /\ (forall w t, pcw s w = PRaised t -> failed_task s t).

  Lemma InvF_step0 : forall (s s' : st V) e, Inv s -> InvF s -> step0 C s e = Some s' -> InvF s'.
  Proof.
    intros s s' e I [Fl Fr] H.
    assert (Hm : forall t, failed_task s t -> failed_task s' t) by (intros; eapply failed_task_mono; eauto).
    split.
    - intros t Hl. destruct e; break_step H; norm; simpl in *.
      all: try solve [apply Hm; apply Fl; auto].
      all: try solve [destruct b; apply Hm; apply Fl; auto].
      all: unfold failed_task in *; simpl in *.
      all: try solve [unfold upd in Hl; match type of Hl with context [Pos.eqb ?a ?b] => destruct (Pos.eqb a b) eqn:Et end;
                      try discriminate; apply Fl; auto].
      + unfold upd in Hl. destruct (Pos.eqb t t1) eqn:Et; [|apply Fl; auto].
        apply Pos.eqb_eq in Et; subst. apply (Fr w). auto.
      + discriminate.
      + destruct (locks s t); discriminate.
    - intros wq tq Hq. destruct e; break_step H; norm; simpl in *.
      all: try (casew2 wq w).
      all: try solve [apply Hm; eapply Fr; eauto].
      all: try solve [simpl in Hq; discriminate].
      all: try solve [destruct b; simpl in Hq; try discriminate; rewrite Heqp in Hq; discriminate].
      all: unfold failed_task in *; simpl in *.
      all: try solve [eapply Fr; eauto].
      + inversion Hq; subst. split; auto. exact (proj1 (forallb_stored _ _) H0).
      + inversion Hq; subst. split; auto. exact (proj1 (forallb_stored _ _) H0).
      + unfold after_failure in Hq. destruct (c_keep_going C); discriminate.
      + unfold after_failure in Hq. destruct (c_keep_going C); discriminate.
  Qed.

  Lemma InvF_init : forall r0, InvF (init r0).
  Proof. intros r0. split; simpl; intros; discriminate. Qed.

  Lemma InvF_run : forall tr (s s' : st V), Inv s -> InvF s -> run C s tr = Some s' -> InvF s'.
  Proof.
    induction tr as [|e tr IH]; simpl; intros s s' I Hf H.
    - inversion H; subst; auto.
    - destruct (step C s e) eqn:E; [|discriminate]. destruct (step_inv_some _ _ _ E) as [s1 [E1 E2]]. subst.
      eapply IH; [eapply Inv_step; eauto | | eauto]. exact (InvF_step0 _ _ _ I Hf E1).
  Qed.

  (* the ghost clock runs ahead of every stored-at stamp *)
  Definition Timed (s : st V) : Prop := 0 < now s /\ forall d, results s d <> None -> stored_at s d < now s.

  Lemma Timed_step : forall (s s' : st V) e, Timed s -> step C s e = Some s' -> Timed s'.
  Proof.
    intros s s' e [Hp Hs] H. destruct (step_inv_some _ _ _ H) as [s1 [H1 E]]. subst.
    assert (Hn := now_step0 _ _ _ H1). unfold Timed, tick; simpl. rewrite Hn. split; [lia|]. intros d Hr.
    destruct (stored_at_step _ _ _ d H1) as [X | [w' [v' [_ X]]]]; [|lia].
    destruct (results s d) eqn:Er.
    - assert (stored_at s d < now s) by (apply Hs; congruence). lia.
    - destruct (results_new _ _ _ H1 _ Hr) as [Y | [w' [v' [Y _]]]]; [congruence|]. subst e.
      clear X. break_step H1; norm; simpl in *. rewrite upd_same. lia.
  Qed.

  Lemma Timed_init : forall r0, Timed (init r0).
  Proof. intros r0. split; simpl; auto. Qed.

  Lemma Timed_run : forall tr (s s' : st V), Timed s -> run C s tr = Some s' -> Timed s'.
  Proof.
    induction tr as [|e tr IH]; simpl; intros s s' T H.
    - inversion H; subst; auto.
    - destruct (step C s e) eqn:E; [|discriminate]. eapply IH; [eapply Timed_step; eauto | eauto].
  Qed.

  (* any state in which no lock is held, the chosen workers F are fresh and everybody else has left or
     is dead is a state from which a (new) execute can begin *)
  Theorem Restart_of_quiet : forall (F : wid -> bool) (s : st V), Inv s -> InvF s -> Timed s ->
    (forall t w, locks s t <> LHeld w) ->
    (forall w, F w = true -> ws s w = fresh_w) ->
    (forall w, F w = false -> live (pcw s w) = false) ->
    Restart F (now s) s.
  Proof.
    intros F s I [Fl _] [Hp Hs] Hl Hf Hn. split; auto. split.
    - intros t. destruct (locks s t) eqn:El; auto. exfalso. eapply Hl; eauto.
    - repeat split; auto.
  Qed.

  (* ------------------------------------------------------------------ more consequences *)
  (* C02 (b), counted: once stored, the function of t is never called again, whatever follows *)
  Theorem stored_never_started_again : forall tr (s s' : st V) t, Inv s -> results s t <> None ->
    run C s tr = Some s' -> execs s' t = execs s t.
  Proof.
    induction tr as [|e tr IH]; simpl; intros s s' t I Hr H.
    - inversion H; subst; auto.
    - destruct (step C s e) eqn:E; [|discriminate]. destruct (step_inv_some _ _ _ E) as [s1 [E1 E2]]. subst.
      assert (I' := Inv_step _ _ _ I E).
      rewrite (IH _ _ t I' (stored_mono_step0 _ _ _ t I E1 Hr) H). simpl.
      rewrite (execs_step_eq _ _ _ E1 t). destruct (starts e t) eqn:Es; auto.
      destruct e; try discriminate Es. simpl in Es. apply Pos.eqb_eq in Es. subst.
      rewrite (no_start_when_stored _ w t I Hr) in E. discriminate.
  Qed.

  (* dependencies, transitively *)
  Inductive anc : tid -> tid -> Prop :=
  | anc_dep : forall d t, In d (c_deps C t) -> anc d t
  | anc_trans : forall a d t, anc a d -> In d (c_deps C t) -> anc a t.

  Lemma sound_closed : forall r, Sound r -> forall a t, anc a t -> deps_stored r t -> r a <> None.
  Proof.
    intros r Hs a t Ha. induction Ha; intros Hd.
    - apply Hd; auto.
    - apply IHHa. destruct (r d) eqn:E.
      + destruct (Hs _ _ E); auto.
      + exfalso. eapply Hd; eauto.
  Qed.

  (* C03 (a), in full: when the function of t is started every task it depends on, directly or not,
     has its (sequential) result in the store *)
  Theorem start_needs_all_ancestors : forall (s s' : st V) w t, Inv s -> step C s (EStart w t) = Some s' ->
    forall a, anc a t -> results s a <> None.
  Proof.
    intros s s' w t I H a Ha. eapply sound_closed; eauto; [apply (I_sound _ I) | eapply start_needs_deps; eauto].
  Qed.

  (* sequential evaluation only adds results *)
  Lemma seq_eval_mono : forall order r t v, r t = Some v -> seq_eval C order r t = Some v.
  Proof.
    induction order as [|t0 order IH]; simpl; intros r t v Hr; auto.
    destruct (r t0) eqn:E0; auto.
    destruct (forallb _ (c_deps C t0)); auto.
    destruct (c_sem C t0 r); auto.
    apply IH. unfold upd. destruct (Pos.eqb t t0) eqn:Et; auto. apply Pos.eqb_eq in Et. subst. congruence.
  Qed.

  (* ... and, run over the tasks in an order in which dependencies come first, it computes every
     value that any sound store holds *)
  Fixpoint topo (seen : list tid) (order : list tid) : Prop :=
    match order with
    | [] => True
    | t :: rest => (forall d, In d (c_deps C t) -> In d seen) /\ topo (t :: seen) rest
    end.

  Lemma seq_eval_covers : forall R, Sound R -> forall order seen r, Sound r -> topo seen order ->
    (forall d v, In d seen -> R d = Some v -> r d = Some v) ->
    forall t v, In t order -> R t = Some v -> seq_eval C order r t = Some v.
  Proof.
    intros R HR. induction order as [|t0 order IH]; simpl; intros seen r Hr Htp Hseen t v Hin HRt; [contradiction|].
    destruct Htp as [Ht0 Htopo].
    (* the store after t0 has been processed holds R's value of t0, if R has one *)
    assert (Hnext : exists r', seq_eval C (t0 :: order) r = seq_eval C order r' /\ Sound r' /\
                     (forall d v, In d (t0 :: seen) -> R d = Some v -> r' d = Some v)).
    { simpl. destruct (r t0) eqn:E0.
      - exists r. split; auto. split; auto. intros d v' [X | X] Y; auto. subst d.
        rewrite E0. f_equal. exact (sound_unique r R Hr HR t0 v0 v' E0 Y).
      - destruct (R t0) eqn:ER.
        + destruct (HR _ _ ER) as [HdR HvR].
          assert (Hagree : forall d, In d (c_deps C t0) -> r d = R d).
          { intros d Hd. specialize (HdR d Hd). destruct (R d) eqn:E; [|congruence]. apply Hseen; auto. }
          assert (Hf : forallb (fun d => match r d with Some _ => true | None => false end) (c_deps C t0) = true).
          { apply forallb_forall. intros d Hd. rewrite (Hagree d Hd). specialize (HdR d Hd). destruct (R d); congruence. }
          rewrite Hf. rewrite (sem_frame t0 r R Hagree). rewrite HvR.
          exists (upd r t0 (Some v0)). split; auto. split.
          * apply Sound_upd; auto.
            -- intros d Hd. rewrite (Hagree d Hd). apply HdR; auto.
            -- rewrite (sem_frame t0 r R Hagree). auto.
          * intros d v' [X | X] Y.
            -- subst d. rewrite upd_same. congruence.
            -- unfold upd. destruct (Pos.eqb d t0) eqn:Ed; [apply Pos.eqb_eq in Ed; subst; congruence | auto].
        + destruct (forallb _ (c_deps C t0)) eqn:Ef.
          * destruct (c_sem C t0 r) eqn:Es.
            -- exists (upd r t0 (Some v0)). split; auto. split.
               ++ apply Sound_upd; auto. intros d Hd. rewrite forallb_forall in Ef. specialize (Ef d Hd). destruct (r d); congruence.
               ++ intros d v' [X | X] Y; [subst; congruence|].
                  unfold upd. destruct (Pos.eqb d t0) eqn:Ed; [apply Pos.eqb_eq in Ed; subst; congruence | auto].
            -- exists r. split; auto. split; auto. intros d v' [X | X] Y; [subst; congruence | auto].
            -- exists r. split; auto. split; auto. intros d v' [X | X] Y; [subst; congruence | auto].
          * exists r. split; auto. split; auto. intros d v' [X | X] Y; [subst; congruence | auto]. }
    destruct Hnext as [r' [E [Hr' Hseen']]]. simpl in E. rewrite E.
    destruct Hin as [X | X].
    - subst t0. apply seq_eval_mono. apply Hseen'; auto. left; auto.
    - eapply IH; eauto.
  Qed.

  (* C01 (a), in full: every value a distributed run stores IS the value sequential evaluation computes *)
  Theorem results_equal_sequential : forall r0 tr (s : st V) order, Sound r0 -> topo [] order ->
    run C (init r0) tr = Some s ->
    forall t v, In t order -> results s t = Some v -> seq_eval C order r0 t = Some v.
  Proof.
    intros r0 tr s order Hs Ht Hr t v Hin Hv.
    assert (I : Inv s) by (eapply Inv_run; [apply Inv_init; eauto | eauto]).
    eapply (seq_eval_covers (results s) (I_sound _ I) order [] r0); eauto. intros d v' [].
  Qed.

  (* ------------------------------------------------------------------ removing results (invalidate, cleanup) *)
  (* dropping a set of results that is closed under "depends on" - what `jug invalidate` removes (C09),
     and what `jug cleanup` removes when the jugfile's tasks are closed under dependencies (C10) -
     leaves a sound store: every theorem about runs from a sound store applies to the execute that follows *)
  Theorem Sound_restrict : forall (r : tid -> option V) (keep : tid -> bool), Sound r ->
    (forall t d, keep t = true -> r t <> None -> In d (c_deps C t) -> keep d = true) ->
    Sound (fun t => if keep t then r t else None).
  Proof.
    intros r keep Hs Hk t v Hv. destruct (keep t) eqn:Ek; [|discriminate].
    destruct (Hs _ _ Hv) as [Hd Hsem].
    assert (Hr : r t <> None) by congruence.
    split.
    - intros d Hin. rewrite (Hk t d Ek Hr Hin). apply Hd; auto.
    - rewrite <- Hsem. apply sem_frame. intros d Hin. now rewrite (Hk t d Ek Hr Hin).
  Qed.

  (* the execute after an invalidation calls exactly the functions of the removed tasks (those that get
     stored again), each once, and none of the kept ones *)
  Theorem execute_after_removal : forall (r : tid -> option V) (keep : tid -> bool) tr (s : st V), Sound r ->
    (forall t d, keep t = true -> r t <> None -> In d (c_deps C t) -> keep d = true) ->
    forallb quiet tr = true -> run C (init (fun t => if keep t then r t else None)) tr = Some s ->
    forall t, (keep t = true -> r t <> None -> execs s t = 0 /\ results s t = r t) /\
              (keep t = false -> results s t <> None -> execs s t = 1).
  Proof.
    intros r keep tr s Hs Hk Q H t.
    assert (Hs' := Sound_restrict r keep Hs Hk).
    destruct (exactly_once _ tr s Hs' Q H t) as [_ [A B]].
    assert (I0 := Inv_init _ Hs').
    split.
    - intros Ek Hr. split.
      + apply A. rewrite Ek. exact Hr.
      + destruct (r t) eqn:Er; [|congruence].
        eapply results_mono_run; eauto. simpl. now rewrite Ek.
    - intros Ek Hr. apply B; auto. now rewrite Ek.
  Qed.

End Facts.
