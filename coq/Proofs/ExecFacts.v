(* Facts about the execution protocol (Model/Exec.v): safety invariants of every reachable state,
   for any number of workers and every interleaving. *)
From Coq Require Import List Arith Bool PArith Lia.
From JugV Require Import Model.Exec.
Import ListNotations.

Ltac break_match_hyp H :=
  match type of H with
  | context [match ?x with _ => _ end] => destruct x eqn:?; try discriminate H
  end.
Ltac break_step H := unfold step0 in H; repeat break_match_hyp H; inversion H; subst; clear H.
Ltac norm :=
  repeat match goal with
  | H : _ && _ = true |- _ => apply andb_true_iff in H; destruct H
  | H : Pos.eqb _ _ = true |- _ => apply Pos.eqb_eq in H; subst
  | H : Pos.eqb _ _ = false |- _ => apply Pos.eqb_neq in H
  | H : negb _ = true |- _ => apply negb_true_iff in H
  | H : Bool.eqb _ _ = true |- _ => apply eqb_prop in H
  end.
Ltac splitupd :=
  unfold upd in *;
  repeat match goal with
  | |- context [Pos.eqb ?a ?b] => destruct (Pos.eqb a b) eqn:?; norm
  | H : context [Pos.eqb ?a ?b] |- _ => destruct (Pos.eqb a b) eqn:?; norm
  end.

Section Facts.
  Context {V : Type}.
  Variable C : cfg V.

  (* the only assumption on task functions: calling one reads the store at its dependencies only
     (proved for the programs of Model/ExecCase.v in Proofs/DepsFacts.v) *)
  Hypothesis sem_frame : forall t r r',
    (forall d, In d (c_deps C t) -> r d = r' d) -> c_sem C t r = c_sem C t r'.

  Notation pcw s w := (w_pc (ws s w)).

  (* ------------------------------------------------------------------ small lemmas *)
  Lemma upd_same : forall A (f : positive -> A) k x, upd f k x k = x.
  Proof. intros. unfold upd. now rewrite Pos.eqb_refl. Qed.
  Lemma upd_other : forall A (f : positive -> A) k x k', k' <> k -> upd f k x k' = f k'.
  Proof. intros. unfold upd. destruct (Pos.eqb k' k) eqn:E; auto. apply Pos.eqb_eq in E. contradiction. Qed.
  Lemma updw_same : forall A (f : nat -> A) k x, updw f k x k = x.
  Proof. intros. unfold updw. now rewrite Nat.eqb_refl. Qed.
  Lemma updw_other : forall A (f : nat -> A) k x k', k' <> k -> updw f k x k' = f k'.
  Proof. intros. unfold updw. destruct (Nat.eqb k' k) eqn:E; auto. apply Nat.eqb_eq in E. contradiction. Qed.

  Lemma stored_true : forall (s : st V) t, stored s t = true <-> results s t <> None.
  Proof. intros. unfold stored. destruct (results s t); split; intros; congruence. Qed.
  Lemma stored_false : forall (s : st V) t, stored s t = false <-> results s t = None.
  Proof. intros. unfold stored. destruct (results s t); split; intros; congruence. Qed.

  Lemma forallb_stored : forall (s : st V) l, forallb (stored s) l = true <-> (forall d, In d l -> results s d <> None).
  Proof. intros. rewrite forallb_forall. split; intros H d Hd; apply stored_true; auto. Qed.

  Lemma mem_In : forall t l, mem t l = true <-> In t l.
  Proof.
    intros. unfold mem. rewrite existsb_exists. split.
    - intros [x [Hx E]]. apply Pos.eqb_eq in E. now subst.
    - intros H. exists t. split; auto. apply Pos.eqb_refl.
  Qed.

  (* ------------------------------------------------------------------ the safety invariant *)
  Definition running (s : st V) (w : wid) (t : tid) : Prop :=
    pcw s w = PRunning t \/ exists v, pcw s w = PRan t v.

  Definition deps_stored (r : tid -> option V) (t : tid) : Prop := forall d, In d (c_deps C t) -> r d <> None.

  (* every stored value is what the task's function returns on the stored values of its dependencies *)
  Definition Sound (r : tid -> option V) : Prop :=
    forall t v, r t = Some v -> deps_stored r t /\ c_sem C t r = Ret v.

  Record Inv (s : st V) : Prop := {
    I_lock : forall w t, holding (pcw s w) = Some t -> locks s t = LHeld w;
    I_held : forall w t, locks s t = LHeld w -> holding (pcw s w) = Some t \/ pcw s w = PDead;
    I_none : forall w t, (pcw s w = PCleared t \/ running s w t) -> results s t = None;
    I_deps : forall w t, running s w t -> deps_stored (results s) t;
    I_ran : forall w t v, pcw s w = PRan t v -> c_sem C t (results s) = Ret v;
    I_done : forall w t, (pcw s w = PStored t \/ pcw s w = PSkip t) -> results s t <> None;
    I_sound : Sound (results s);
    I_intr : forall w, w_intr (ws s w) = true ->
                       (exists t, pcw s w = PUnwind t) \/ pcw s w = PExiting \/ (exists c, pcw s w = PDone c) \/ pcw s w = PDead;
    I_task : forall t, locks s t <> LFree -> In t (c_tasks C)
  }.

  Lemma Inv_init : forall r0, Sound r0 -> Inv (init r0).
  Proof.
    intros r0 H. constructor; simpl; intros; try discriminate; try congruence; auto.
    - destruct H0 as [H0 | [H0 | [v H0]]]; discriminate.
    - destruct H0 as [H0 | [v H0]]; discriminate.
    - destruct H0; discriminate.
  Qed.

  (* monotone stores and the frame property *)
  Lemma sem_upd_fresh : forall r t t' x,
    deps_stored r t -> r t' = None -> c_sem C t (upd r t' x) = c_sem C t r.
  Proof.
    intros r t t' x Hd Hn. apply sem_frame. intros d Hin.
    apply upd_other. intros E. subst. apply (Hd t' Hin). exact Hn.
  Qed.

  Lemma deps_stored_upd : forall r t t' x, deps_stored r t -> deps_stored (upd r t' (Some x)) t.
  Proof.
    intros r t t' x Hd d Hin. unfold upd. destruct (Pos.eqb d t'); [discriminate | auto].
  Qed.

  Lemma Sound_upd : forall r t v, Sound r -> r t = None -> deps_stored r t -> c_sem C t r = Ret v ->
    Sound (upd r t (Some v)).
  Proof.
    intros r t v Hs Hn Hd Hv t2 v2 H2. unfold upd in H2. destruct (Pos.eqb t2 t) eqn:E.
    - apply Pos.eqb_eq in E. subst t2. inversion H2; subst. split.
      + now apply deps_stored_upd.
      + rewrite sem_upd_fresh; auto.
    - destruct (Hs t2 v2 H2) as [Hd2 Hv2]. split.
      + now apply deps_stored_upd.
      + rewrite sem_upd_fresh; auto.
  Qed.

  (* ------------------------------------------------------------------ preservation, one field at a time *)
  Ltac casew a b :=
    destruct (Nat.eq_dec a b) as [?E|?E];
    [ subst; rewrite ?updw_same in * | rewrite ?updw_other in * by assumption ].

  (* forward chaining with the old invariant *)
  Ltac fwd I :=
    repeat match goal with
    | Hp : pcw ?s ?w = ?p |- _ =>
        lazymatch goal with
        | _ : holding (pcw s w) = _ |- _ => fail
        | _ => let Hh := fresh "Hh" in
               assert (Hh : holding (pcw s w) = holding p) by (rewrite Hp; reflexivity); simpl in Hh
        end
    end;
    repeat match goal with
    | Hh : holding (pcw ?s ?w) = Some ?t |- _ =>
        lazymatch goal with
        | _ : locks s t = LHeld w |- _ => fail
        | _ => pose proof (I_lock _ I w t Hh)
        end
    end.

  Lemma holding_live : forall (p : pc V) t, holding p = Some t -> live p = true.
  Proof. destruct p; simpl; intros; congruence. Qed.

  Lemma I_lock_step : forall (s s' : st V) e, Inv s -> step0 C s e = Some s' ->
    forall w t, holding (pcw s' w) = Some t -> locks s' t = LHeld w.
  Proof.
    intros s s' e I H. destruct e; break_step H; norm; simpl; intros wq tq Hq.
    all: try (casew wq w).
    all: try solve [eapply I_lock; eauto].
    all: try solve [simpl in *; discriminate].
    all: repeat match goal with
         | H : holding (w_pc (if ?b then _ else _)) = _ |- _ => destruct b
         end; simpl in Hq; try discriminate.
    all: try match type of Hq with Some _ = Some _ => inversion Hq; subst; clear Hq end.
    all: fwd I.
    all: try solve [splitupd; congruence].
    - unfold after_failure in *. destruct (c_keep_going C); discriminate.
    - unfold after_failure in *. destruct (c_keep_going C); discriminate.
    - exfalso. rewrite forallb_forall in Heqb.
      assert (Hin : In tq (c_tasks C)) by (apply (I_task _ I); congruence).
      specialize (Heqb tq Hin). rewrite H in Heqb. apply negb_true_iff in Heqb.
      rewrite (holding_live _ _ Hq) in Heqb. discriminate.
    - now rewrite H.
  Qed.
  Ltac useheld I :=
    repeat match goal with
    | Hl : locks ?s ?t = LHeld ?w |- _ =>
        lazymatch goal with
        | _ : holding (pcw s w) = Some t \/ _ |- _ => fail
        | _ => pose proof (I_held _ I _ _ Hl)
        end
    end;
    repeat match goal with
    | Hp : pcw ?s ?w = _, X : holding (pcw ?s ?w) = Some _ \/ pcw ?s ?w = PDead |- _ =>
        rewrite Hp in X; simpl in X; destruct X as [X|X]; [inversion X; subst; clear X | discriminate X]
    end.

  Lemma I_held_step : forall (s s' : st V) e, Inv s -> step0 C s e = Some s' ->
    forall w t, locks s' t = LHeld w -> holding (pcw s' w) = Some t \/ pcw s' w = PDead.
  Proof.
    intros s s' e I H. destruct e; break_step H; norm; simpl; intros wq tq Hq.
    all: try (casew wq w).
    all: try solve [eapply I_held; eauto].
    all: fwd I.
    all: try solve [splitupd; try congruence; simpl; auto; useheld I; simpl; auto; try congruence].
    all: try solve [splitupd; try congruence; simpl; auto; eapply I_held; eauto].
    destruct (locks s tq) eqn:El; try discriminate. inversion Hq; subst. eapply I_held; eauto.
  Qed.

  Lemma results_step : forall (s s' : st V) e, step0 C s e = Some s' ->
    results s' = results s \/
    exists w t v, e = EDump w t v /\ exists v', pcw s w = PRan t v' /\ results s' = upd (results s) t (Some v').
  Proof.
    intros s s' e H. destruct e; break_step H; norm; simpl; auto.
    all: try solve [destruct b; auto].
    right. exists w, t0, v. split; auto. exists v0. auto.
  Qed.

  (* results only grow *)
  Lemma results_mono_step0 : forall (s s' : st V) e, Inv s -> step0 C s e = Some s' ->
    forall t v, results s t = Some v -> results s' t = Some v.
  Proof.
    intros s s' e I H t v Hr. destruct (results_step _ _ _ H) as [E | [w [t' [v0 [E [v' [Hp E']]]]]]].
    - now rewrite E.
    - rewrite E'. unfold upd. destruct (Pos.eqb t t') eqn:Et; auto. apply Pos.eqb_eq in Et. subst.
      assert (results s t' = None) by (apply (I_none _ I w); right; right; eauto). congruence.
  Qed.

  Ltac pcs := repeat match goal with
    | H : _ \/ _ |- _ => destruct H
    | H : exists _, _ |- _ => destruct H
    end.
  Ltac casew2 a b :=
    unfold updw in *; destruct (Nat.eqb a b) eqn:?E;
    [ apply Nat.eqb_eq in E; subst | apply Nat.eqb_neq in E ].

  Lemma I_none_step : forall (s s' : st V) e, Inv s -> step0 C s e = Some s' ->
    forall w t, (pcw s' w = PCleared t \/ running s' w t) -> results s' t = None.
  Proof.
    intros s s' e I H. destruct e; break_step H; norm; simpl; intros wq tq Hq.
    all: unfold running in *; simpl in *.
    all: try (casew2 wq w).
    all: try solve [eapply I_none; eauto].
    all: try solve [pcs; discriminate].
    all: try solve [destruct b; simpl in *; try solve [pcs; discriminate]; eapply I_none; unfold running; rewrite Heqp; eauto].
    all: simpl in Hq; try match goal with Hp : pcw ?s ?w = _ |- _ => rewrite Hp in Hq end.
    all: try solve [pcs; discriminate].
    - pcs; try discriminate. inversion H1; subst. symmetry in H0. now apply stored_false in H0.
    - pcs; try discriminate. inversion H; subst. eapply I_none; eauto.
    - pcs; try discriminate. inversion H; subst. eapply I_none; unfold running; eauto.
    - assert (Hn : results s tq = None) by (eapply I_none; eauto).
      assert (Hl : holding (pcw s wq) = Some tq) by (pcs; rewrite H; reflexivity).
      unfold upd. destruct (Pos.eqb tq t0) eqn:Et; auto. apply Pos.eqb_eq in Et; subst.
      apply (I_lock _ I) in Hl. assert (Hl2 : locks s t0 = LHeld w) by (apply (I_lock _ I); rewrite Heqp; reflexivity).
      congruence.
    - unfold after_failure in Hq. destruct (c_keep_going C); pcs; discriminate.
    - unfold after_failure in Hq. destruct (c_keep_going C); pcs; discriminate.
  Qed.

  Lemma deps_stored_mono : forall (r r' : tid -> option V) t,
    (forall d v, r d = Some v -> r' d = Some v) -> deps_stored r t -> deps_stored r' t.
  Proof.
    intros r r' t Hm Hd d Hin. specialize (Hd d Hin). destruct (r d) eqn:E; [| congruence].
    rewrite (Hm d v E). discriminate.
  Qed.

  Lemma I_deps_step : forall (s s' : st V) e, Inv s -> step0 C s e = Some s' ->
    forall w t, running s' w t -> deps_stored (results s') t.
  Proof.
    intros s s' e I H.
    assert (Hmono := results_mono_step0 _ _ _ I H).
    destruct e; break_step H; norm; simpl in *; intros wq tq Hq.
    all: unfold running in *; simpl in *.
    all: try (casew2 wq w).
    all: try solve [eapply I_deps; unfold running; eauto].
    all: try solve [pcs; discriminate].
    all: try solve [destruct b; simpl in *; try solve [pcs; discriminate]; eapply I_deps; unfold running; rewrite Heqp; eauto].
    all: simpl in Hq; try match goal with Hp : pcw ?s ?w = _ |- _ => rewrite Hp in Hq end.
    all: try solve [pcs; discriminate].
    - pcs; try discriminate. inversion H; subst. exact (proj1 (forallb_stored _ _) H0).
    - pcs; try discriminate. inversion H; subst. eapply I_deps; unfold running; eauto.
    - apply deps_stored_upd. eapply I_deps; unfold running; eauto.
    - unfold after_failure in Hq. destruct (c_keep_going C); pcs; discriminate.
    - unfold after_failure in Hq. destruct (c_keep_going C); pcs; discriminate.
  Qed.

  Lemma I_ran_step : forall (s s' : st V) e, Inv s -> step0 C s e = Some s' ->
    forall w t v, pcw s' w = PRan t v -> c_sem C t (results s') = Ret v.
  Proof.
    intros s s' e I H.
    destruct e; break_step H; norm; simpl in *; intros wq tq vq Hq.
    all: try (casew2 wq w).
    all: try solve [eapply I_ran; eauto].
    all: try solve [simpl in *; discriminate].
    all: try solve [destruct b; simpl in *; try discriminate; eapply I_ran; rewrite Heqp; eauto].
    all: simpl in Hq; try rewrite Heqp in Hq.
    all: try discriminate.
    - inversion Hq; subst. assumption.
    - rewrite sem_upd_fresh.
      + eapply I_ran; eauto.
      + eapply I_deps; unfold running; eauto.
      + eapply I_none; unfold running; eauto.
    - unfold after_failure in Hq. destruct (c_keep_going C); discriminate.
    - unfold after_failure in Hq. destruct (c_keep_going C); discriminate.
  Qed.

  Lemma I_done_step : forall (s s' : st V) e, Inv s -> step0 C s e = Some s' ->
    forall w t, (pcw s' w = PStored t \/ pcw s' w = PSkip t) -> results s' t <> None.
  Proof.
    intros s s' e I H.
    assert (Hmono := results_mono_step0 _ _ _ I H).
    assert (Hm : forall t, results s t <> None -> results s' t <> None).
    { intros t Ht. destruct (results s t) eqn:E; [|congruence]. rewrite (Hmono _ _ E). discriminate. }
    clear Hmono.
    destruct e; break_step H; norm; simpl in *; intros wq tq Hq.
    all: try (casew2 wq w).
    all: try solve [apply Hm; eapply I_done; eauto].
    all: try solve [pcs; discriminate].
    all: try solve [destruct b; simpl in *; try solve [pcs; discriminate]; eapply I_done; rewrite Heqp; eauto].
    all: simpl in Hq; try rewrite Heqp in Hq.
    all: try solve [pcs; discriminate].
    - pcs; try discriminate. inversion H1; subst. apply stored_true. auto.
    - pcs; try discriminate. inversion H; subst. rewrite upd_same. discriminate.
    - unfold after_failure in Hq. destruct (c_keep_going C); pcs; discriminate.
    - unfold after_failure in Hq. destruct (c_keep_going C); pcs; discriminate.
  Qed.

  Lemma I_sound_step : forall (s s' : st V) e, Inv s -> step0 C s e = Some s' -> Sound (results s').
  Proof.
    intros s s' e I H. destruct (results_step _ _ _ H) as [E | [w [t [v0 [E [v' [Hp E']]]]]]].
    - rewrite E. apply (I_sound _ I).
    - rewrite E'. apply Sound_upd.
      + apply (I_sound _ I).
      + eapply I_none; unfold running; eauto.
      + eapply I_deps; unfold running; eauto.
      + eapply I_ran; eauto.
  Qed.

  Lemma I_intr_step : forall (s s' : st V) e, Inv s -> step0 C s e = Some s' ->
    forall w, w_intr (ws s' w) = true ->
      (exists t, pcw s' w = PUnwind t) \/ pcw s' w = PExiting \/ (exists c, pcw s' w = PDone c) \/ pcw s' w = PDead.
  Proof.
    intros s s' e I H.
    destruct e; break_step H; norm; simpl in *; intros wq Hq.
    all: try (casew2 wq w).
    all: try solve [eapply I_intr; eauto].
    all: try solve [destruct b; simpl in *; eapply I_intr; eauto].
    all: simpl in *; eauto 6.
    all: try solve [apply (I_intr _ I) in Hq; rewrite Heqp in Hq; pcs; discriminate].
  Qed.

  Lemma I_task_step : forall (s s' : st V) e, Inv s -> step0 C s e = Some s' ->
    forall t, locks s' t <> LFree -> In t (c_tasks C).
  Proof.
    intros s s' e I H.
    destruct e; break_step H; norm; simpl in *; intros tq Hq.
    all: try solve [eapply I_task; eauto].
    all: try solve [splitupd; try congruence; try (apply mem_In; assumption); eapply I_task; eauto].
    - fwd I. unfold upd in Hq. destruct (Pos.eqb tq t0) eqn:Et.
      + apply Pos.eqb_eq in Et; subst. eapply I_task; eauto. congruence.
      + eapply I_task; eauto.
    - destruct (locks s tq) eqn:El; try congruence; eapply I_task; eauto; congruence.
  Qed.

  Theorem Inv_step0 : forall (s s' : st V) e, Inv s -> step0 C s e = Some s' -> Inv s'.
  Proof.
    intros s s' e I H. constructor.
    - eapply I_lock_step; eauto.
    - eapply I_held_step; eauto.
    - eapply I_none_step; eauto.
    - eapply I_deps_step; eauto.
    - eapply I_ran_step; eauto.
    - eapply I_done_step; eauto.
    - eapply I_sound_step; eauto.
    - eapply I_intr_step; eauto.
    - eapply I_task_step; eauto.
  Qed.

  Lemma Inv_tick : forall s : st V, Inv s -> Inv (tick s).
  Proof. intros s I. destruct I. constructor; simpl; auto. Qed.

  Theorem Inv_step : forall (s s' : st V) e, Inv s -> step C s e = Some s' -> Inv s'.
  Proof.
    intros s s' e I H. unfold step in H. destruct (step0 C s e) eqn:E; simpl in H; inversion H; subst.
    apply Inv_tick. eapply Inv_step0; eauto.
  Qed.

  Theorem Inv_run : forall tr (s s' : st V), Inv s -> run C s tr = Some s' -> Inv s'.
  Proof.
    induction tr as [|e tr IH]; simpl; intros s s' I H.
    - inversion H; subst; auto.
    - destruct (step C s e) eqn:E; [|discriminate]. eapply IH; [|eauto]. eapply Inv_step; eauto.
  Qed.

  (* ------------------------------------------------------------------ consequences *)
  Lemma step_inv_some : forall (s s' : st V) e, step C s e = Some s' -> exists s0, step0 C s e = Some s0 /\ s' = tick s0.
  Proof. intros s s' e H. unfold step in H. destruct (step0 C s e); simpl in H; inversion H; eauto. Qed.

  Lemma results_mono_step : forall (s s' : st V) e, Inv s -> step C s e = Some s' ->
    forall t v, results s t = Some v -> results s' t = Some v.
  Proof.
    intros s s' e I H t v Hr. destruct (step_inv_some _ _ _ H) as [s0 [H0 E]]. subst. simpl.
    eapply results_mono_step0; eauto.
  Qed.

  Lemma results_mono_run : forall tr (s s' : st V), Inv s -> run C s tr = Some s' ->
    forall t v, results s t = Some v -> results s' t = Some v.
  Proof.
    induction tr as [|e tr IH]; simpl; intros s s' I H t v Hr.
    - inversion H; subst; auto.
    - destruct (step C s e) eqn:E; [|discriminate].
      eapply IH; [eapply Inv_step; eauto | eauto | eapply results_mono_step; eauto].
  Qed.

  (* C02 (a): two workers are never inside the function of the same task *)
  Theorem mutex : forall (s : st V) w w' t, Inv s -> running s w t -> running s w' t -> w = w'.
  Proof.
    intros s w w' t I H H'.
    assert (L : locks s t = LHeld w) by (apply (I_lock _ I); destruct H as [H | [v H]]; rewrite H; reflexivity).
    assert (L' : locks s t = LHeld w') by (apply (I_lock _ I); destruct H' as [H' | [v H']]; rewrite H'; reflexivity).
    congruence.
  Qed.

  (* C02 (b): once a result is stored the function is never started again *)
  Theorem no_start_when_stored : forall (s : st V) w t, Inv s -> results s t <> None -> step C s (EStart w t) = None.
  Proof.
    intros s w t I Hr. unfold step, step0. destruct (pcw s w) eqn:Ep; auto.
    destruct (Pos.eqb t t0) eqn:Et; simpl; auto. apply Pos.eqb_eq in Et; subst.
    exfalso. apply Hr. eapply I_none; eauto.
  Qed.

  (* ... and it is never overwritten *)
  Theorem no_dump_when_stored : forall (s : st V) w t v, Inv s -> results s t <> None -> step C s (EDump w t v) = None.
  Proof.
    intros s w t v I Hr. unfold step, step0. destruct (pcw s w) eqn:Ep; auto.
    destruct (Pos.eqb t t0) eqn:Et; simpl; auto. apply Pos.eqb_eq in Et; subst.
    exfalso. apply Hr. eapply I_none; unfold running; eauto.
  Qed.

  (* C03 (a): when the function of t is started, every dependency has its result *)
  Theorem start_needs_deps : forall (s s' : st V) w t, step C s (EStart w t) = Some s' -> deps_stored (results s) t.
  Proof.
    intros s s' w t H. destruct (step_inv_some _ _ _ H) as [s0 [H0 _]]. unfold step0 in H0.
    destruct (pcw s w); try discriminate. destruct (Pos.eqb t t0 && forallb (stored s) (c_deps C t)) eqn:E; [|discriminate].
    apply andb_true_iff in E. destruct E as [_ E]. exact (proj1 (forallb_stored _ _) E).
  Qed.

  (* a worker that has left holds no lock *)
  Theorem done_holds_nothing : forall (s : st V) w c t, Inv s -> pcw s w = PDone c -> locks s t <> LHeld w.
  Proof.
    intros s w c t I Hp Hl. destruct (I_held _ I _ _ Hl) as [H | H]; rewrite Hp in H; simpl in H; discriminate.
  Qed.

  (* the value returned and stored is the function applied to the stored dependencies *)
  Theorem dump_is_sem : forall (s s' : st V) w t v, Inv s -> step C s (EDump w t v) = Some s' ->
    exists v', results s' t = Some v' /\ c_sem C t (results s') = Ret v' /\ c_sem C t (results s) = Ret v'.
  Proof.
    intros s s' w t v I H. assert (I' := Inv_step _ _ _ I H).
    destruct (step_inv_some _ _ _ H) as [s0 [H0 E]]. subst. unfold step0 in H0.
    destruct (pcw s w) eqn:Ep; try discriminate.
    destruct (Pos.eqb t t0 && c_eqb C v v0) eqn:Eb; [|discriminate]. inversion H0; subst; clear H0. simpl in *.
    apply andb_true_iff in Eb. destruct Eb as [Eb _]. apply Pos.eqb_eq in Eb. subst.
    exists v0. rewrite upd_same. split; auto. split.
    - destruct (I_sound _ I' t0 v0) as [_ X]; simpl; [apply upd_same | exact X].
    - eapply I_ran; eauto.
  Qed.

  (* ------------------------------------------------------------------ uniqueness of sound stores *)
  Variable rank : tid -> nat.
  Hypothesis rank_deps : forall t d, In d (c_deps C t) -> rank d < rank t.

  Theorem sound_unique : forall r r', Sound r -> Sound r' ->
    forall t v v', r t = Some v -> r' t = Some v' -> v = v'.
  Proof.
    intros r r' Hs Hs'.
    assert (G : forall n t, rank t < n -> forall v v', r t = Some v -> r' t = Some v' -> v = v').
    { induction n as [|n IH]; intros t Hn v v' Hr Hr'; [lia|].
      destruct (Hs _ _ Hr) as [Hd Hv]. destruct (Hs' _ _ Hr') as [Hd' Hv'].
      assert (E : c_sem C t r = c_sem C t r').
      { apply sem_frame. intros d Hin. specialize (Hd d Hin). specialize (Hd' d Hin).
        destruct (r d) eqn:E1; [|congruence]. destruct (r' d) eqn:E2; [|congruence].
        f_equal. eapply IH; eauto. specialize (rank_deps _ _ Hin). lia. }
      rewrite E in Hv. rewrite Hv in Hv'. now inversion Hv'. }
    intros t v v'. apply (G (S (rank t))). lia.
  Qed.

  (* sequential evaluation yields a sound store *)
  Lemma seq_eval_sound : forall order r, Sound r -> Sound (seq_eval C order r).
  Proof.
    induction order as [|t order IH]; simpl; intros r Hs; auto.
    destruct (r t) eqn:Er; auto.
    destruct (forallb _ (c_deps C t)) eqn:Ef; auto.
    destruct (c_sem C t r) eqn:Ev; auto.
    apply IH. apply Sound_upd; auto.
    intros d Hin. rewrite forallb_forall in Ef. specialize (Ef d Hin). destruct (r d); congruence.
  Qed.

  (* C01 (a): whatever a distributed run stores is what sequential evaluation computes *)
  Theorem results_are_sequential : forall r0 tr (s : st V) order, Sound r0 ->
    run C (init r0) tr = Some s ->
    forall t v v', results s t = Some v -> seq_eval C order r0 t = Some v' -> v = v'.
  Proof.
    intros r0 tr s order Hs Hr t v v' H1 H2.
    assert (I : Inv s) by (eapply Inv_run; [apply Inv_init; eauto | eauto]).
    eapply sound_unique; [apply (I_sound _ I) | apply seq_eval_sound; eauto | eauto | eauto].
  Qed.

End Facts.
