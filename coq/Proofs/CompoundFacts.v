(* Facts about compound tasks in Model/Loader.v, used by Props/C18.v. *)
From Coq Require Import List PArith ZArith Bool Lia.
From JugV Require Import Model.Loader Proofs.LoaderFacts.
Import ListNotations.

(* ------------------------------------------------------------------ before the collapse: the builder, in place *)
Lemma load_from_bind : forall st body f tr,
  load_from st (bindp body f) tr =
  match load_from st body tr with
  | (tr1, Some r) => load_from st (f r) tr1
  | (tr1, None) => (tr1, None)
  end.
Proof.
  intros st body f. induction body as [r|t k IH|m k IH|k IH|a k IH|h ca b IHb k IHk]; intros tr; simpl.
  - reflexivity.
  - apply IH.
  - apply IH.
  - destruct (all_stored st (tasks_rev tr)); [apply IH | reflexivity].
  - destruct (resolve (lookup st) a) as [v|]; [apply IH | reflexivity].
  - destruct (stored st h); [apply IHk|].
    destruct (load_from st b tr) as [tr1 [inner|]]; [apply IHk | reflexivity].
Qed.

(* not yet computed: the inner tasks are ordinary tasks defined where the compound is called,
   followed by one task with the compound's hash whose only argument is what the builder returned *)
Lemma compound_expanded : forall st h ca body k tr, stored st h = false ->
  load_from st (Compound h ca body k) tr = load_from st (bindp body (fun r => Def (final h r) k)) tr.
Proof. intros st h ca body k tr H. rewrite load_from_bind. simpl. now rewrite H. Qed.

(* computed: one task, no inner ones *)
Lemma compound_collapsed : forall st h ca body k tr, stored st h = true ->
  load_from st (Compound h ca body k) tr = load_from st k (ETask (probe h ca) :: tr).
Proof. intros st h ca body k tr H. simpl. now rewrite H. Qed.

(* ------------------------------------------------------------------ the value *)
(* running the compound's own task stores the value of what the builder returned (a task, a tuple
   of tasks and constants, a nested compound) under the compound's hash *)
Lemma final_task_value : forall st h inner v, stored st h = false -> resolve (lookup st) inner = Some v ->
  exec_task st (final h inner) = ((h, v) :: st, [h]).
Proof. intros st h inner v Hs Hr. unfold exec_task. simpl. now rewrite Hs, Hr. Qed.

Lemma final_task_waits : forall st h inner, resolve (lookup st) inner = None ->
  exec_task st (final h inner) = (st, []).
Proof. intros st h inner Hr. unfold exec_task. simpl. rewrite Hr. now destruct (stored st h). Qed.

Lemma comps_in_slog : forall s env, svalid env s -> forall h sb, In (h, sb) (comps s) -> In (h, sres sb) (slog s).
Proof.
  induction s as [r v|t v s IH|m s IH|s IH|a v s IH|h0 ca sb0 IHb v s IHk]; intros env Hv h sb Hin; simpl in *.
  - contradiction.
  - destruct Hv as [_ Hv]. right. eapply IH; eauto.
  - eapply IH; eauto.
  - eapply IH; eauto.
  - destruct Hv as [_ Hv]. eapply IH; eauto.
  - destruct Hv as [_ [Hvb [Er Hvk]]]. apply in_or_app. destruct Hin as [E|Hin].
    + inversion E; subst. right. now left.
    + apply in_app_or in Hin. destruct Hin as [Hin|Hin].
      * left. eapply IHb; eauto.
      * right. right. eapply IHk; eauto.
Qed.

(* what [sres] is: the value of the returned structure in the builder's own scope *)
Lemma sres_of_ret : forall r v, sres (SRet r v) = v.
Proof. reflexivity. Qed.

(* after `jug execute` has finished: whatever is stored under a compound's hash is the value its
   builder's result has in the sequential evaluation; and the compounds in scope at the end of the
   jugfile are stored *)
Lemma compound_value : forall p s st0,
  seq_eval p = Some s -> functional (slog s) -> agrees st0 (slog s) ->
  let st := fst (run_phases (sbn s + 1) st0 p) in
  (forall h sb w, In (h, sb) (comps s) -> lookup st h = Some w -> w = sres sb) /\
  (forall h sb, In (h, sb) (comps s) -> In (h, sres sb) (stop_env s) -> lookup st h = Some (sres sb)).
Proof.
  intros p s st0 Hs Hf Ha. destruct (reload_loop_correct p s st0 Hs Hf Ha) as [_ [_ [_ [_ [Hag Htop]]]]].
  cbv zeta in *. unfold seq_eval in Hs. destruct (unfold p []) as [[s0 w0]|] eqn:Hu; inversion Hs; subst s0.
  destruct (unfold_svalid _ _ _ _ Hu) as [Hv _]. split.
  - intros h sb w Hin Hl. eapply Hag; eauto. eapply comps_in_slog; eauto.
  - intros h sb _ Hin. now apply Htop.
Qed.

(* ------------------------------------------------------------------ nothing runs *)
Lemma exec_all_nothing : forall ts st, all_stored st ts = true -> exec_all st ts = (st, []).
Proof.
  induction ts as [|t r IH]; intros st H; [reflexivity|]. simpl in *. apply andb_true_iff in H.
  destruct H as [H1 H2]. unfold exec_task. rewrite H1. now rewrite (IH st H2).
Qed.

Lemma probe_not_run : forall st h ca, stored st h = true -> exec_task st (probe h ca) = (st, []).
Proof. intros st h ca H. unfold exec_task. simpl. now rewrite H. Qed.

(* `jug execute` on a store where nothing is closed and everything loaded is stored: one load,
   nothing executed, store unchanged *)
Lemma execute_runs_nothing : forall st p f,
  l_hasbarrier (load st p) = false -> check st p = 0 -> run_phases (S f) st p = (st, [[]]).
Proof.
  intros st p f Hb Hc. simpl. unfold check in Hc.
  destruct (all_stored st (l_tasks (load st p))) eqn:E; [|discriminate].
  rewrite (exec_all_nothing _ _ E), Hb. reflexivity.
Qed.

(* ------------------------------------------------------------------ cleanup *)
Lemma lookup_keep : forall K st k,
  lookup (keep_keys K st) k = if existsb (Pos.eqb k) K then lookup st k else None.
Proof.
  intros K st k. induction st as [|[k0 v0] r IH]; simpl.
  - now destruct (existsb (Pos.eqb k) K).
  - destruct (existsb (Pos.eqb k0) K) eqn:E0; simpl.
    + destruct (Pos.eqb_spec k0 k).
      * subst. now rewrite E0.
      * exact IH.
    + destruct (Pos.eqb_spec k0 k).
      * subst. rewrite E0 in *. exact IH.
      * exact IH.
Qed.

Lemma existsb_eqb_In : forall k K, existsb (Pos.eqb k) K = true <-> In k K.
Proof.
  intros k K. rewrite existsb_exists. split.
  - intros [x [Hx E]]. apply Pos.eqb_eq in E. now subst.
  - intros H. exists k. split; [exact H | apply Pos.eqb_refl].
Qed.

Lemma lookup_keep_in : forall K st k, In k K -> lookup (keep_keys K st) k = lookup st k.
Proof. intros K st k H. rewrite lookup_keep. apply existsb_eqb_In in H. now rewrite H. Qed.

Lemma lookup_keep_some : forall K st k v, lookup (keep_keys K st) k = Some v -> In k K /\ lookup st k = Some v.
Proof.
  intros K st k v H. rewrite lookup_keep in H. destruct (existsb (Pos.eqb k) K) eqn:E; [|discriminate].
  split; [now apply existsb_eqb_In | exact H].
Qed.

Lemma stored_keep_in : forall K st k, In k K -> stored (keep_keys K st) k = stored st k.
Proof. intros K st k H. unfold stored. now rewrite lookup_keep_in. Qed.

Lemma stored_keep_false : forall K st k, stored st k = false -> stored (keep_keys K st) k = false.
Proof.
  intros K st k H. unfold stored in *. rewrite lookup_keep. destruct (existsb (Pos.eqb k) K); [exact H | reflexivity].
Qed.

Lemma all_stored_keep : forall K st ts, (forall t, In t ts -> In (tid_of t) K) ->
  all_stored (keep_keys K st) ts = all_stored st ts.
Proof.
  intros K st ts H. unfold all_stored. induction ts as [|t r IH]; [reflexivity|]. simpl.
  rewrite (stored_keep_in K st (tid_of t)) by (apply H; now left).
  rewrite IH; [reflexivity|]. intros u Hu. apply H. now right.
Qed.

(* discarding every key that is not the hash of a loaded task does not change what is loaded *)
Lemma load_from_keep : forall st K p sc tr,
  wf sc p -> scope_loaded sc tr ->
  (forall t, In t (tasks_rev (fst (load_from st p tr))) -> In (tid_of t) K) ->
  load_from (keep_keys K st) p tr = load_from st p tr.
Proof.
  intros st K p. induction p as [r|t k IH|m k IH|k IH|a k IH|h ca body IHb k IHk]; intros sc tr Hw Hs HK; simpl in *.
  - reflexivity.
  - destruct Hw as [_ Hw]. apply (IH (tid_of t :: sc)); [exact Hw | now apply scope_loaded_cons | exact HK].
  - apply (IH sc); [exact Hw | apply scope_loaded_skip; [discriminate | exact Hs] | exact HK].
  - assert (Htr : forall t, In t (tasks_rev tr) -> In (tid_of t) K).
    { intros t Ht. apply HK. destruct (all_stored st (tasks_rev tr)); [|exact Ht].
      apply load_from_tasks_incl. exact Ht. }
    rewrite (all_stored_keep K st _ Htr). destruct (all_stored st (tasks_rev tr)); [|reflexivity].
    apply (IH sc); [exact Hw | apply scope_loaded_skip; [discriminate | exact Hs] | exact HK].
  - destruct Hw as [Ha Hw].
    assert (Htr : forall t, In t (tasks_rev tr) -> In (tid_of t) K).
    { intros t Ht. apply HK. destruct (resolve (lookup st) a); [|exact Ht].
      apply load_from_tasks_incl. exact Ht. }
    assert (E : resolve (lookup (keep_keys K st)) a = resolve (lookup st) a).
    { apply resolve_ext. intros t Ht. destruct (Hs t (Ha t Ht)) as [u [Hu Eu]]. apply lookup_keep_in.
      rewrite <- Eu. now apply Htr. }
    rewrite E. destruct (resolve (lookup st) a) as [v|]; [|reflexivity].
    apply (IH v sc); [apply Hw | apply scope_loaded_skip; [discriminate | exact Hs] | exact HK].
  - destruct Hw as [_ [Hwb Hwk]]. destruct (stored st h) eqn:Eh.
    + assert (Hh : In h K).
      { apply (HK (probe h ca)). apply load_from_tasks_incl. now left. }
      rewrite (stored_keep_in K st h Hh), Eh.
      apply (IHk (h :: sc)); [exact Hwk | | exact HK].
      change h with (tid_of (probe h ca)) at 1. now apply scope_loaded_cons.
    + rewrite (stored_keep_false K st h Eh).
      destruct (load_from_app st body tr) as [d Ed].
      assert (Eb : load_from (keep_keys K st) body tr = load_from st body tr).
      { apply (IHb sc); [exact Hwb | exact Hs|]. intros t Ht. apply HK.
        destruct (load_from st body tr) as [tr1 [inner|]]; [|exact Ht].
        apply load_from_tasks_incl. now right. }
      rewrite Eb. destruct (load_from st body tr) as [tr1 [inner|]]; [|reflexivity]. simpl in *.
      apply (IHk (h :: sc)); [exact Hwk | | exact HK].
      change h with (tid_of (final h inner)) at 1. apply scope_loaded_cons. subst tr1. now apply scope_loaded_mono.
Qed.

Lemma cleanup_load_stable : forall st p, wf [] p -> load (cleanup st p) p = load st p.
Proof.
  intros st p Hw. unfold cleanup. rewrite load_tasks.
  assert (E : load_from (keep_keys (map tid_of (rev (tasks_rev (fst (load_from st p []))))) st) p [] = load_from st p []).
  { apply (load_from_keep st _ p [] [] Hw).
    - intros t [].
    - intros t Ht. apply in_map. now apply -> in_rev. }
  unfold load. now rewrite E.
Qed.

(* `jug cleanup` after loading [p] against [st]: what is loaded keeps its result, everything else
   (the inner results of collapsed compounds among it) goes, and the jugfile loads as before *)
Lemma cleanup_facts : forall st p, wf [] p ->
  let st' := cleanup st p in
  load st' p = load st p /\
  (forall t, In t (l_tasks (load st p)) -> lookup st' (tid_of t) = lookup st (tid_of t)) /\
  (forall k v, lookup st' k = Some v -> lookup st k = Some v /\ exists t, In t (l_tasks (load st p)) /\ tid_of t = k) /\
  check st' p = check st p.
Proof.
  intros st p Hw. cbv zeta. split; [now apply cleanup_load_stable|]. split; [|split].
  - intros t Ht. unfold cleanup. apply lookup_keep_in. now apply in_map.
  - intros k v H. unfold cleanup in H. apply lookup_keep_some in H. destruct H as [Hk Hl]. split; [exact Hl|].
    apply in_map_iff in Hk. destruct Hk as [t [E Ht]]. eauto.
  - unfold check. rewrite (cleanup_load_stable st p Hw). unfold cleanup.
    rewrite all_stored_keep; [reflexivity|]. intros t Ht. now apply in_map.
Qed.

(* the collapsed compound through execute and cleanup, in one statement *)
Lemma collapsed_survives_cleanup : forall st h ca body k, stored st h = true ->
  let p := Compound h ca body k in
  wf [] p ->
  In (probe h ca) (l_tasks (load st p)) /\
  lookup (cleanup st p) h = lookup st h /\
  load (cleanup st p) p = load st p.
Proof.
  intros st h ca body k Hs p Hw. cbv zeta.
  assert (Hin : In (probe h ca) (l_tasks (load st p))).
  { rewrite load_tasks. apply -> in_rev. unfold p. simpl. rewrite Hs. apply load_from_tasks_incl. now left. }
  split; [exact Hin|]. split.
  - destruct (cleanup_facts st p Hw) as [_ [H _]]. exact (H _ Hin).
  - now apply cleanup_load_stable.
Qed.

(* ------------------------------------------------------------------ locks held by others *)
Lemma unlocked_nil : forall ts, unlocked [] ts = ts.
Proof.
  unfold unlocked. induction ts as [|t r IH]; [reflexivity|]. cbn [filter]. unfold is_locked at 1.
  cbn [existsb negb]. now rewrite IH.
Qed.

Lemma run_phases_l_nil : forall fuel st p, run_phases_l [] fuel st p = run_phases fuel st p.
Proof.
  induction fuel as [|f IH]; intros st p; simpl; [reflexivity|]. rewrite unlocked_nil.
  destruct (exec_all st (l_tasks (load st p))) as [st1 ex]. now rewrite IH.
Qed.

(* every phase loads [load st p] - the locks play no part in what is loaded (in particular in whether a
   compound is collapsed) - and runs the loaded tasks whose lock is free *)
Lemma run_phases_l_step : forall locks f st p,
  run_phases_l locks (S f) st p =
  let l := load st p in
  let '(st1, ex) := exec_all st (unlocked locks (l_tasks l)) in
  if l_hasbarrier l then let '(st2, exs) := run_phases_l locks f st1 p in (st2, ex :: exs)
  else (st1, [ex]).
Proof. reflexivity. Qed.

Lemma exec_task_lookup_other : forall st t u, tid_of t <> u -> lookup (fst (exec_task st t)) u = lookup st u.
Proof.
  intros st t u Hn. unfold exec_task. destruct (stored st (tid_of t)); [reflexivity|].
  destruct (resolve_list (lookup st) (targs t)); [|reflexivity]. simpl.
  destruct (Pos.eqb_spec (tid_of t) u); [contradiction | reflexivity].
Qed.

Lemma exec_all_lookup_other : forall ts st u, (forall t, In t ts -> tid_of t <> u) ->
  lookup (fst (exec_all st ts)) u = lookup st u.
Proof.
  induction ts as [|t r IH]; intros st u H; simpl; [reflexivity|].
  pose proof (exec_task_lookup_other st t u (H t (or_introl eq_refl))) as H1.
  destruct (exec_task st t) as [st1 e1]. simpl in H1.
  specialize (IH st1 u (fun x Hx => H x (or_intror Hx))).
  destruct (exec_all st1 r) as [st2 e2]. simpl in *. congruence.
Qed.

Lemma unlocked_not_locked : forall locks ts t, In t (unlocked locks ts) -> is_locked locks (tid_of t) = false.
Proof.
  intros locks ts t H. unfold unlocked in H. apply filter_In in H. destruct H as [_ H].
  now apply negb_true_iff in H.
Qed.

(* whatever the program and the store: a task whose lock someone else holds gets no result from this worker,
   and a result it has is left alone *)
Lemma run_phases_l_locked_untouched : forall locks fuel st p u, is_locked locks u = true ->
  lookup (fst (run_phases_l locks fuel st p)) u = lookup st u.
Proof.
  intros locks. induction fuel as [|f IH]; intros st p u Hu; simpl; [reflexivity|].
  assert (H1 : lookup (fst (exec_all st (unlocked locks (l_tasks (load st p))))) u = lookup st u).
  { apply exec_all_lookup_other. intros t Ht E. apply unlocked_not_locked in Ht. congruence. }
  destruct (exec_all st (unlocked locks (l_tasks (load st p)))) as [st1 ex]. simpl in H1.
  destruct (l_hasbarrier (load st p)); [|exact H1].
  specialize (IH st1 p u Hu). destruct (run_phases_l locks f st1 p) as [st2 exs]. simpl in *. congruence.
Qed.

Lemma run_phases_l_extends : forall locks fuel st p, extends st (fst (run_phases_l locks fuel st p)).
Proof.
  intros locks. induction fuel as [|f IH]; intros st p; simpl; [apply extends_refl|].
  pose proof (exec_all_extends (unlocked locks (l_tasks (load st p))) st) as H1.
  destruct (exec_all st (unlocked locks (l_tasks (load st p)))) as [st1 ex]. simpl in H1.
  destruct (l_hasbarrier (load st p)); [|exact H1].
  specialize (IH st1 p). destruct (run_phases_l locks f st1 p) as [st2 exs]. simpl in *.
  eapply extends_trans; eauto.
Qed.

Lemma run_phases_l_locked : forall locks fuel st p,
  (forall u, is_locked locks u = true -> lookup (fst (run_phases_l locks fuel st p)) u = lookup st u) /\
  extends st (fst (run_phases_l locks fuel st p)).
Proof.
  intros locks fuel st p. split; [intros u Hu; now apply run_phases_l_locked_untouched | apply run_phases_l_extends].
Qed.

(* ------------------------------------------------------------------ `jug sleep-until` *)
(* a load that ran to the end of the jugfile, looked at again when the store has grown and holds a result for
   every task of that load: it runs to the end again (compounds that were expanded are collapsed now), returns the
   same thing, and every task it defines has a result *)
Lemma load_from_grown : forall p st st' tr tr', extends st st' ->
  snd (load_from st p tr) <> None ->
  (forall t, In t (tasks_rev (fst (load_from st p tr))) -> stored st' (tid_of t) = true) ->
  (forall t, In t (tasks_rev tr') -> stored st' (tid_of t) = true) ->
  snd (load_from st' p tr') = snd (load_from st p tr) /\
  (forall t, In t (tasks_rev (fst (load_from st' p tr'))) -> stored st' (tid_of t) = true).
Proof.
  induction p as [r | t k IH | m k IH | k IH | a k IH | h ca body IHb k IHk]; intros st st' tr tr' He Hn Hall Hall'.
  - simpl. split; [reflexivity | exact Hall'].
  - simpl in *. apply IH; try assumption.
    intros u [<-|Hu]; [|now apply Hall'].
    apply Hall. apply load_from_tasks_incl. now left.
  - simpl in *. apply IH; assumption.
  - simpl in *. destruct (all_stored st (tasks_rev tr)) eqn:Ea; [|simpl in Hn; congruence].
    assert (Ea' : all_stored st' (tasks_rev tr') = true) by (apply all_stored_forall; exact Hall').
    rewrite Ea'. apply IH; assumption.
  - simpl in *. destruct (resolve (lookup st) a) as [v|] eqn:Er; [|simpl in Hn; congruence].
    rewrite (resolve_extends _ _ _ _ He Er). apply IH; assumption.
  - simpl in *. destruct (stored st h) eqn:Es.
    + rewrite (extends_stored _ _ _ He Es). apply IHk; try assumption.
      intros u [<-|Hu]; [simpl; now apply (extends_stored _ _ _ He) | now apply Hall'].
    + destruct (load_from st body tr) as [tr1 [inner|]] eqn:Eb; [|simpl in Hn; congruence].
      assert (Hh : stored st' h = true).
      { change h with (tid_of (final h inner)). apply Hall. apply load_from_tasks_incl. now left. }
      rewrite Hh. apply IHk; try assumption.
      intros u [<-|Hu]; [exact Hh | now apply Hall'].
Qed.

Lemma load_grown : forall p st st', extends st st' -> l_hasbarrier (load st p) = false ->
  (forall t, In t (l_tasks (load st p)) -> stored st' (tid_of t) = true) ->
  l_hasbarrier (load st' p) = false /\ check st' p = 0.
Proof.
  intros p st st' He Hb Hall. rewrite load_hasbarrier in Hb.
  assert (Hn : snd (load_from st p []) <> None).
  { destruct (snd (load_from st p [])); [discriminate | simpl in Hb; discriminate]. }
  destruct (load_from_grown p st st' [] [] He Hn) as [E Hs].
  - intros t Ht. apply Hall. rewrite load_tasks. now apply -> in_rev.
  - intros t [].
  - split.
    + rewrite load_hasbarrier, E. exact Hb.
    + apply check_zero_iff. intros t Ht. rewrite load_tasks in Ht. apply in_rev in Ht. now apply Hs.
Qed.

Lemma add_new_extends : forall inc st, extends st (add_new inc st).
Proof.
  induction inc as [|[k v] r IH]; intros st; simpl; [apply extends_refl|].
  destruct (stored (add_new r st) k) eqn:E; [apply IH|].
  eapply extends_trans; [apply IH | now apply extends_cons].
Qed.

Lemma wait_all_spec : forall ts incs st s r n, wait_all ts st incs = Some (s, r, n) ->
  all_stored s ts = true /\ extends st s.
Proof.
  intros ts. induction incs as [|i incs IH]; intros st s r n H; simpl in H.
  - destruct (all_stored st ts) eqn:E; [|discriminate]. inversion H; subst. split; [exact E | apply extends_refl].
  - destruct (all_stored st ts) eqn:E.
    + inversion H; subst. split; [exact E | apply extends_refl].
    + destruct (wait_all ts (add_new i st) incs) as [[[s1 r1] n1]|] eqn:Ew; [|discriminate].
      inversion H; subst. destruct (IH _ _ _ _ Ew) as [Ha Hx]. split; [exact Ha|].
      eapply extends_trans; [apply add_new_extends | exact Hx].
Qed.

(* sleep-until exits only when the jugfile, loaded against the store as it is then, has no barrier closed and every
   task it defines has a result (`jug check` = 0); nothing the store held is lost on the way *)
Lemma sleep_until_complete : forall fuel st incs p st' sleeps loads,
  sleep_until fuel st incs p = Some (st', sleeps, loads) ->
  l_hasbarrier (load st' p) = false /\ check st' p = 0 /\ extends st st'.
Proof.
  induction fuel as [|f IH]; intros st incs p st' sleeps loads H; simpl in H; [discriminate|].
  destruct (wait_all (l_tasks (load st p)) st incs) as [[[st1 incs1] n]|] eqn:Ew; [|discriminate].
  destruct (wait_all_spec _ _ _ _ _ _ Ew) as [Ha Hx].
  destruct (l_hasbarrier (load st p)) eqn:Eb.
  - destruct (sleep_until f st1 incs1 p) as [[[s n2] k]|] eqn:Es; [|discriminate].
    inversion H; subst. destruct (IH _ _ _ _ _ _ Es) as [H1 [H2 H3]].
    split; [exact H1|]. split; [exact H2|]. eapply extends_trans; eauto.
  - inversion H; subst.
    destruct (load_grown p st st' Hx Eb) as [H1 H2].
    + apply all_stored_forall. exact Ha.
    + split; [exact H1|]. split; [exact H2 | exact Hx].
Qed.

(* and while a barrier is closed it cannot exit: some loaded task has no result (stopped_unstored), so the wait is a
   real one; stated for one step: the first load is flagged -> the result is that of the loop continued after the wait *)
Lemma sleep_until_step : forall f st incs p,
  sleep_until (S f) st incs p =
  let l := load st p in
  match wait_all (l_tasks l) st incs with
  | None => None
  | Some (st1, incs1, n) =>
      if l_hasbarrier l then
        match sleep_until f st1 incs1 p with
        | Some (s, n2, k) => Some (s, n + n2, S k)
        | None => None
        end
      else Some (st1, n, 1)
  end.
Proof. reflexivity. Qed.

(* ------------------------------------------------------------------ a store that shrinks under the worker *)
Lemma remove_keys_nil : forall st, remove_keys [] st = st.
Proof.
  unfold remove_keys. induction st as [|[k v] r IH]; [reflexivity|]. simpl in *. now rewrite IH.
Qed.

Lemma run_phases_rm_step : forall rms f st p,
  run_phases_rm rms (S f) st p =
  let st0 := remove_keys (hd [] rms) st in
  let l := load st0 p in
  let '(st1, ex) := exec_all st0 (l_tasks l) in
  if l_hasbarrier l then let '(st2, exs) := run_phases_rm (tl rms) f st1 p in (st2, ex :: exs)
  else (st1, [ex]).
Proof. reflexivity. Qed.

Lemma run_phases_rm_nil : forall fuel st p, run_phases_rm [] fuel st p = run_phases fuel st p.
Proof.
  induction fuel as [|f IH]; intros st p; simpl; [reflexivity|]. rewrite remove_keys_nil.
  destruct (exec_all st (l_tasks (load st p))) as [st1 ex]. now rewrite IH.
Qed.

(* whatever disappeared: in every phase a barrier() is passed only if every task before it has a result in the store
   as it is at that load (barrier_passed_all_stored at that store); stated for the first phase of the remaining run *)
Lemma run_phases_rm_barrier : forall rms st p pre post,
  l_events (load (remove_keys (hd [] rms) st) p) = pre ++ EBar :: post ->
  forall t, In (ETask t) pre -> stored (remove_keys (hd [] rms) st) (tid_of t) = true.
Proof. intros rms st p pre post. apply barrier_passed_all_stored. Qed.

(* ------------------------------------------------------------------ the collapsed compound keeps its arguments *)
Lemma collapsed_keeps_arguments : forall st h ca body k, stored st h = true ->
  In (probe h ca) (l_tasks (load st (Compound h ca body k))) /\
  tid_of (probe h ca) = h /\ targs (probe h ca) = ca /\ atids_list (targs (probe h ca)) = atids_list ca.
Proof.
  intros st h ca body k Hs. split; [|repeat split].
  rewrite load_tasks. apply -> in_rev. simpl. rewrite Hs. apply load_from_tasks_incl. now left.
Qed.

Lemma inv_fold_incl : forall sel ts bad x, In x bad -> In x (fold_left (inv_step sel) ts bad).
Proof.
  intros sel. induction ts as [|t r IH]; intros bad x Hx; simpl; [exact Hx|]. apply IH.
  unfold inv_step. destruct (sel (tid_of t) || _); [now right | exact Hx].
Qed.

Lemma mem_tid_In : forall t l, mem_tid t l = true <-> In t l.
Proof.
  intros t l. unfold mem_tid. rewrite existsb_exists. split.
  - intros [x [Hx E]]. apply Pos.eqb_eq in E. now subst.
  - intros H. exists t. split; [exact H | apply Pos.eqb_refl].
Qed.

(* a loaded task with an invalidated task under its arguments is invalidated *)
Lemma invalid_ids_dependent : forall sel pre t post d,
  In d (atids_list (targs t)) -> In d (invalid_ids sel pre) -> In (tid_of t) (invalid_ids sel (pre ++ t :: post)).
Proof.
  intros sel pre t post d Hd Hb. unfold invalid_ids in *. rewrite fold_left_app. simpl. apply inv_fold_incl.
  unfold inv_step at 1.
  assert (E : existsb (fun d0 => mem_tid d0 (fold_left (inv_step sel) pre [])) (atids_list (targs t)) = true).
  { apply existsb_exists. exists d. split; [exact Hd | now apply mem_tid_In]. }
  rewrite E, orb_true_r. now left.
Qed.

Lemma invalid_ids_selected : forall sel pre t post, sel (tid_of t) = true -> In (tid_of t) (invalid_ids sel (pre ++ t :: post)).
Proof.
  intros sel pre t post Hs. unfold invalid_ids. rewrite fold_left_app. simpl. apply inv_fold_incl.
  unfold inv_step at 1. rewrite Hs. now left.
Qed.

Lemma lookup_remove_keys_in : forall ks st k, In k ks -> lookup (remove_keys ks st) k = None.
Proof.
  intros ks st k Hk. unfold remove_keys. induction st as [|[a v] r IH]; [reflexivity|]. simpl.
  destruct (existsb (Pos.eqb a) ks) eqn:E; simpl.
  - exact IH.
  - destruct (Pos.eqb_spec a k) as [->|Hn]; [|exact IH].
    exfalso. assert (X : existsb (Pos.eqb k) ks = true) by (apply existsb_exists; exists k; split; [exact Hk | apply Pos.eqb_refl]).
    congruence.
Qed.

(* jug invalidate reaches the collapsed compound through the arguments of its call: if a task under those arguments
   is invalidated, the compound's stored value goes too *)
Lemma invalidate_reaches_collapsed : forall sel st p pre post h ca d,
  l_tasks (load st p) = pre ++ probe h ca :: post ->
  In d (atids_list ca) -> In d (invalid_ids sel pre) ->
  lookup (invalidate sel st p) h = None.
Proof.
  intros sel st p pre post h ca d E Hd Hb. unfold invalidate. apply lookup_remove_keys_in. rewrite E.
  change h with (tid_of (probe h ca)). apply (invalid_ids_dependent sel pre (probe h ca) post d); assumption.
Qed.
