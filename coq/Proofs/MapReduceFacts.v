(* Facts about Model/MapReduce.v: block splitting, reducer tree, mapped sequences. *)
From Coq Require Import List Arith ZArith Bool Lia.
From JugV Require Import Model.MapReduce.
Import ListNotations.

Section BreakUpFacts.
  Context {A : Type}.
  Implicit Types (l : list A) (s f : nat).

  Lemma nth_error_firstn_lt : forall n l p, p < n -> nth_error (firstn n l) p = nth_error l p.
  Proof.
    induction n as [|n IH]; intros l p Hp; [lia|].
    destruct l as [|x l]; [destruct p; reflexivity|].
    destruct p as [|p]; [reflexivity|]. simpl. apply IH. lia.
  Qed.

  Lemma nth_error_skipn_add : forall n l p, nth_error (skipn n l) p = nth_error l (n + p).
  Proof.
    induction n as [|n IH]; intros l p; [reflexivity|].
    destruct l as [|x l]; [destruct p; reflexivity|]. simpl. apply IH.
  Qed.

  Lemma break_up_fuel_nil f s : break_up_fuel f (@nil A) s = [].
  Proof. destruct f; reflexivity. Qed.

  Lemma skipn_length_le l s f : l <> [] -> 1 <= s -> length l <= S f -> length (skipn s l) <= f.
  Proof.
    intros Hl Hs Hf. rewrite skipn_length. destruct l as [|x l']; [congruence|]. cbn [length] in *. lia.
  Qed.

  (* every element appears exactly once and in order: the blocks concatenate to the input *)
  Lemma break_up_fuel_concat f : forall l s, length l <= f -> 1 <= s -> concat (break_up_fuel f l s) = l.
  Proof.
    induction f as [|f IH]; intros l s Hf Hs.
    - destruct l; [reflexivity | simpl in Hf; lia].
    - destruct l as [|x l']; [reflexivity|].
      cbn [break_up_fuel concat]. rewrite IH; [apply firstn_skipn | | exact Hs].
      apply skipn_length_le; [discriminate | exact Hs | exact Hf].
  Qed.

  Lemma break_up_concat l s : 1 <= s -> concat (break_up l s) = l.
  Proof. intros; apply break_up_fuel_concat; [reflexivity | assumption]. Qed.

  (* blocks are non-empty and no longer than the step *)
  Lemma break_up_fuel_blocks f : forall l s, length l <= f -> 1 <= s ->
    Forall (fun b => b <> [] /\ length b <= s) (break_up_fuel f l s).
  Proof.
    induction f as [|f IH]; intros l s Hf Hs; [constructor|].
    destruct l as [|x l']; [constructor|]. cbn [break_up_fuel]. constructor.
    - split.
      + destruct s; [lia|]. simpl. discriminate.
      + rewrite firstn_length. lia.
    - apply IH; [|exact Hs]. apply skipn_length_le; [discriminate | exact Hs | exact Hf].
  Qed.

  (* index arithmetic of block_access: element p lives in block p / s at offset p mod s *)
  Lemma block_get_fuel f : forall l s p, length l <= f -> 1 <= s -> p < length l ->
    block_get (break_up_fuel f l s) s p = nth_error l p.
  Proof.
    induction f as [|f IH]; intros l s p Hf Hs Hp; [lia|].
    destruct l as [|x l']; [simpl in Hp; lia|].
    cbn [break_up_fuel]. unfold block_get.
    destruct (Nat.lt_ge_cases p s) as [Hlt|Hge].
    - rewrite Nat.div_small, Nat.mod_small by assumption. cbn [nth_error].
      rewrite nth_error_firstn_lt by assumption. reflexivity.
    - assert (Hd : p / s = S ((p - s) / s)).
      { replace p with ((p - s) + 1 * s) at 1 by lia. rewrite Nat.div_add by lia. lia. }
      assert (Hm : p mod s = (p - s) mod s).
      { replace p with ((p - s) + 1 * s) at 1 by lia. rewrite Nat.mod_add by lia. reflexivity. }
      rewrite Hd, Hm. cbn [nth_error].
      specialize (IH (skipn s (x :: l')) s (p - s)).
      unfold block_get in IH. rewrite IH.
      + rewrite nth_error_skipn_add. f_equal. lia.
      + apply skipn_length_le; [discriminate | exact Hs | exact Hf].
      + exact Hs.
      + rewrite skipn_length. lia.
  Qed.

  Lemma block_get_break_up l s p : 1 <= s -> p < length l -> block_get (break_up l s) s p = nth_error l p.
  Proof. intros; apply block_get_fuel; [reflexivity | assumption | assumption]. Qed.

  (* all blocks but the last have exactly [s] elements *)
  Lemma break_up_fuel_full f : forall l s i, length l <= f -> 1 <= s -> S i < length (break_up_fuel f l s) ->
    length (nth i (break_up_fuel f l s) []) = s.
  Proof.
    induction f as [|f IH]; intros l s i Hf Hs Hi; [simpl in Hi; lia|].
    destruct l as [|x l']; [simpl in Hi; lia|].
    cbn [break_up_fuel] in *. cbn [length] in Hi.
    assert (Hsk : length (skipn s (x :: l')) <= f)
      by (apply skipn_length_le; [discriminate | exact Hs | exact Hf]).
    destruct i as [|i].
    - cbn [nth]. rewrite firstn_length.
      destruct (Nat.le_gt_cases s (length (x :: l'))) as [Hle|Hgt]; [lia|].
      exfalso. rewrite skipn_all2 in Hi by lia. rewrite break_up_fuel_nil in Hi. simpl in Hi. lia.
    - cbn [nth]. apply IH; [exact Hsk | exact Hs | lia].
  Qed.

  Lemma break_up_fuel_length_le f : forall l s, length l <= f -> 1 <= s ->
    length (break_up_fuel f l s) <= length l.
  Proof.
    induction f as [|f IH]; intros l s Hf Hs; [simpl; lia|].
    destruct l as [|x l']; [simpl; lia|]. cbn [break_up_fuel length].
    assert (Hsk : length (skipn s (x :: l')) <= f)
      by (apply skipn_length_le; [discriminate | exact Hs | exact Hf]).
    specialize (IH _ s Hsk Hs). rewrite skipn_length in IH. cbn [length] in IH. lia.
  Qed.

  (* with a step of at least two the number of blocks at least halves: the reduce loop's measure *)
  Lemma break_up_fuel_halves f : forall l s, length l <= f -> 2 <= s ->
    2 * length (break_up_fuel f l s) <= length l + 1.
  Proof.
    induction f as [|f IH]; intros l s Hf Hs; [simpl; lia|].
    destruct l as [|x l']; [simpl; lia|]. cbn [break_up_fuel length].
    assert (Hsk : length (skipn s (x :: l')) <= f)
      by (apply skipn_length_le; [discriminate | lia | exact Hf]).
    specialize (IH _ s Hsk Hs). rewrite skipn_length in IH. cbn [length] in IH. lia.
  Qed.

  Lemma break_up_fuel_nonempty f l s : l <> [] -> 1 <= length l <= f -> break_up_fuel f l s <> [].
  Proof. intros Hl Hf. destruct f; [lia|]. destruct l; [congruence|]. discriminate. Qed.

  Lemma break_up_fuel_map {B} (g : A -> B) f : forall l s,
    map (map g) (break_up_fuel f l s) = break_up_fuel f (map g l) s.
  Proof.
    induction f as [|f IH]; intros l s; [reflexivity|].
    destruct l as [|x l']; [reflexivity|].
    cbn [break_up_fuel map]. rewrite IH.
    change (g x :: map g l') with (map g (x :: l')).
    rewrite firstn_map, skipn_map. reflexivity.
  Qed.
End BreakUpFacts.

(* ---- the reducer tree ------------------------------------------------------------------- *)
Section TreeFacts.
  Context {X Y : Type} (r : Y -> Y -> Y) (m : X -> Y).
  Hypothesis r_assoc : forall a b c, r (r a b) c = r a (r b c).

  Lemma fold_left_assoc t : forall a y, fold_left r t (r a y) = r a (fold_left r t y).
  Proof. induction t as [|z t IH]; intros a y; simpl; [reflexivity|]. rewrite r_assoc. apply IH. Qed.

  Lemma reduce1_cons y t v : reduce1 r t = Some v -> reduce1 r (y :: t) = Some (r y v).
  Proof.
    destruct t as [|z t]; simpl; [discriminate|]. intros [= <-]. f_equal. apply fold_left_assoc.
  Qed.

  Lemma reduce1_app a b x y : reduce1 r a = Some x -> reduce1 r b = Some y -> reduce1 r (a ++ b) = Some (r x y).
  Proof.
    destruct a as [|a0 a]; simpl; [discriminate|]. intros [= <-].
    destruct b as [|b0 b]; simpl; [discriminate|]. intros [= <-].
    f_equal. rewrite fold_left_app. simpl. apply fold_left_assoc.
  Qed.

  Lemma reduce1_some (l : list Y) : l <> [] -> exists v, reduce1 r l = Some v.
  Proof. destruct l; [congruence|]. intros _. eexists; reflexivity. Qed.

  (* reducing block-wise and then reducing the partial results = reducing everything *)
  Lemma blocks_reduce f : forall (vs : list Y) s, length vs <= f -> 1 <= s -> vs <> [] ->
    exists ws, map (reduce1 r) (break_up_fuel f vs s) = map Some ws /\ ws <> [] /\ reduce1 r ws = reduce1 r vs.
  Proof.
    induction f as [|f IH]; intros vs s Hf Hs Hne.
    - destruct vs; [congruence | simpl in Hf; lia].
    - destruct vs as [|v0 vs']; [congruence|]. cbn [break_up_fuel map].
      set (vs := v0 :: vs') in *.
      assert (Hfirst : firstn s vs <> []) by (destruct s; [lia|]; simpl; discriminate).
      destruct (reduce1_some _ Hfirst) as [v1 Hv1].
      assert (Hsk : length (skipn s vs) <= f)
        by (apply skipn_length_le; [discriminate | exact Hs | exact Hf]).
      destruct (skipn s vs) as [|k0 ks] eqn:Hskip.
      + rewrite break_up_fuel_nil. exists [v1]. cbn [map]. rewrite Hv1. split; [reflexivity|].
        split; [discriminate|].
        rewrite <- (firstn_skipn s vs), Hskip, app_nil_r. simpl. exact (eq_sym Hv1).
      + destruct (IH (k0 :: ks) s Hsk Hs ltac:(discriminate)) as (ws & Hmap & Hws & Hred).
        exists (v1 :: ws). cbn [map]. rewrite Hv1, Hmap. split; [reflexivity|]. split; [discriminate|].
        destruct (reduce1_some ws Hws) as [w Hw].
        rewrite (reduce1_cons v1 ws w Hw).
        rewrite <- (firstn_skipn s vs), Hskip.
        symmetry. apply reduce1_app; [exact Hv1 | congruence].
  Qed.

  Lemma sequence_opt_some {B} (l : list B) : sequence_opt (map Some l) = Some l.
  Proof. induction l as [|x l IH]; simpl; [reflexivity|]. rewrite IH. reflexivity. Qed.

  Lemma eval_rednode ns :
    eval_node r m (RedNode ns) = match sequence_opt (map (eval_node r m) ns) with
                                 | Some ys => reduce1 r ys | None => None end.
  Proof.
    cbn [eval_node].
    replace ((fix evs (l : list (node X)) : list (option Y) :=
                match l with [] => [] | n' :: t => eval_node r m n' :: evs t end) ns)
      with (map (eval_node r m) ns); [reflexivity|].
    induction ns as [|n ns IH]; simpl; [reflexivity|]. rewrite IH. reflexivity.
  Qed.

  (* one round of the while loop keeps the overall value *)
  Lemma red_round rs vs s : map (eval_node r m) rs = map Some vs -> vs <> [] -> 1 <= s ->
    exists ws, map (eval_node r m) (map RedNode (break_up rs s)) = map Some ws
               /\ ws <> [] /\ reduce1 r ws = reduce1 r vs.
  Proof.
    intros Hev Hne Hs.
    assert (Hlen : length rs = length vs).
    { rewrite <- (map_length (eval_node r m) rs), Hev, map_length. reflexivity. }
    destruct (blocks_reduce (length vs) vs s (le_n _) Hs Hne) as (ws & Hmap & Hws & Hred).
    exists ws. split; [|split; assumption].
    rewrite <- Hmap. rewrite map_map.
    set (F := fun ys : list (option Y) => match sequence_opt ys with
                                          | Some ys' => reduce1 r ys' | None => None end).
    rewrite (map_ext _ (fun grp => F (map (eval_node r m) grp))) by (intro; apply eval_rednode).
    rewrite <- (map_map (map (eval_node r m)) F).
    unfold break_up. rewrite break_up_fuel_map, Hev, Hlen, <- break_up_fuel_map, map_map.
    apply map_ext. intro b. unfold F. rewrite sequence_opt_some. reflexivity.
  Qed.

  Lemma red_loop_correct f : forall rs vs total s,
    map (eval_node r m) rs = map Some vs -> reduce1 r vs = Some total ->
    length rs <= f -> 1 <= f -> 2 <= s ->
    exists t, red_loop f rs s = Some [t] /\ eval_node r m t = Some total.
  Proof.
    induction f as [|f IH]; intros rs vs total s Hev Hred Hlen Hf Hs; [lia|].
    assert (Hl : length rs = length vs).
    { rewrite <- (map_length (eval_node r m) rs), Hev, map_length. reflexivity. }
    assert (Hne : vs <> []) by (intro E; subst vs; discriminate).
    cbn [red_loop]. destruct (length rs <=? 1) eqn:Hle.
    - apply Nat.leb_le in Hle.
      destruct rs as [|t [|t' rs']]; cbn [length] in *.
      + destruct vs; [congruence | discriminate].
      + destruct vs as [|v [|v' vs']]; try discriminate.
        exists t. split; [reflexivity|]. simpl in Hev, Hred. congruence.
      + lia.
    - apply Nat.leb_gt in Hle.
      destruct (red_round rs vs s Hev Hne ltac:(lia)) as (ws & Hev' & Hws & Hred').
      apply (IH _ ws total s Hev'); [congruence | | lia | exact Hs].
      rewrite map_length. unfold break_up.
      pose proof (break_up_fuel_halves (length rs) rs s (le_n _) Hs). lia.
  Qed.

  (* the per-block map-reduce leaves *)
  Lemma leaves_eval xs s : 1 <= s -> xs <> [] ->
    exists ws, map (eval_node r m) (map MapLeaf (break_up xs s)) = map Some ws
               /\ ws <> [] /\ reduce1 r ws = reduce1 r (map m xs).
  Proof.
    intros Hs Hne.
    assert (Hne' : map m xs <> []) by (destruct xs; [congruence | discriminate]).
    destruct (blocks_reduce (length (map m xs)) (map m xs) s (le_n _) Hs Hne') as (ws & Hmap & Hws & Hred).
    exists ws. split; [|split; assumption].
    rewrite <- Hmap, map_map. cbn [eval_node].
    rewrite <- (map_map (map m) (reduce1 r)). unfold break_up.
    rewrite break_up_fuel_map, map_length. reflexivity.
  Qed.

  (* value(mapreduce(r, m, xs, map_step, reduce_step)) = functools.reduce(r, map(m, xs)) *)
  Theorem mapreduce_correct xs ms rs : xs <> [] -> 1 <= ms -> 2 <= rs ->
    exists y, reduce1 r (map m xs) = Some y /\ mapreduce_value r m xs ms rs = MrValue y.
  Proof.
    intros Hne Hms Hrs.
    destruct (leaves_eval xs ms Hms Hne) as (ws & Hev & Hws & Hred).
    destruct (reduce1_some ws Hws) as [y Hy].
    exists y. split; [congruence|].
    unfold mapreduce_value, mapreduce_tree.
    destruct (red_loop_correct (S (length xs)) (map MapLeaf (break_up xs ms)) ws y rs Hev Hy) as (t & Ht & Het).
    - rewrite map_length. unfold break_up.
      pose proof (break_up_fuel_length_le (length xs) xs ms (le_n _) Hms). lia.
    - lia.
    - exact Hrs.
    - rewrite Ht, Het. reflexivity.
  Qed.

  Theorem mapreduce_empty ms rs : mapreduce_value r m [] ms rs = MrEmpty.
  Proof. reflexivity. Qed.
End TreeFacts.

(* with reduce_step = 1 the while loop never shrinks the list: no amount of fuel suffices *)
Lemma break_up_fuel_step1 {A} f : forall (l : list A), length l <= f -> length (break_up_fuel f l 1) = length l.
Proof.
  induction f as [|f IH]; intros l Hf; [destruct l; [reflexivity | simpl in Hf; lia]|].
  destruct l as [|x l']; [reflexivity|]. cbn [break_up_fuel length skipn firstn].
  rewrite IH; [reflexivity | simpl in Hf; lia].
Qed.

Theorem red_loop_step1_diverges {X} fuel : forall (rs : list (node X)), 2 <= length rs -> red_loop fuel rs 1 = None.
Proof.
  induction fuel as [|f IH]; intros rs Hl; [reflexivity|].
  cbn [red_loop]. destruct (length rs <=? 1) eqn:E; [apply Nat.leb_le in E; lia|].
  apply IH. rewrite map_length. unfold break_up. rewrite break_up_fuel_step1; [exact Hl | apply le_n].
Qed.

(* ---- mapped sequences -------------------------------------------------------------------- *)
Section MapSeqFacts.
  Context {X Y : Type} (m : X -> Y).

  (* value(map(m, xs, s)) = [m(x) for x in xs]; blocks are the mapped blocks of the input *)
  Theorem map_value xs s : 1 <= s ->
    mapseq_value (map_blocks (map m xs) s) = map m xs /\
    map_blocks (map m xs) s = map (map m) (break_up xs s).
  Proof.
    intro Hs. split.
    - apply break_up_concat; exact Hs.
    - unfold map_blocks, break_up. rewrite break_up_fuel_map, map_length. reflexivity.
  Qed.

  Theorem currymap_value (ys : list Y) s : 1 <= s ->
    currymap_values (break_up ys s) = map Some ys.
  Proof.
    intro Hs. unfold currymap_values.
    rewrite <- (break_up_concat ys s Hs) at 2.
    rewrite concat_map. f_equal. apply map_ext. intro blk.
    clear. induction blk as [|y blk IH]; [reflexivity|].
    cbn [length seq map nth_error]. f_equal.
    rewrite <- seq_shift, map_map. exact IH.
  Qed.
End MapSeqFacts.
