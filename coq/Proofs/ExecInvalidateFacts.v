(* C09 x C02: `jug invalidate` followed by `jug execute`, with the N-worker execution protocol in
   place of C09's own sequential execute.

   [d] is the task graph of the loaded jugfile (Model/Dag.v), [cli_invalid d m] what
   InvalidateCommand.run hands to store.remove_many for the target [m] (Model/Invalidate.v, exact by
   C09_cli_exact: the matching tasks and everything depending on them), [C] any configuration of the
   execution protocol over the same graph.  Starting from a sound store of results of the jugfile
   with the invalidated results removed, EVERY run of any number of workers (quiet: no raise, stop
   request or crash) calls the function of no task that kept its result - its value stays - and calls
   the function of an invalidated task exactly once if it ends up stored again. *)
From Coq Require Import List Arith Bool PArith.
From JugV Require Import Model.Dag Model.Invalidate Proofs.DagFacts Proofs.InvalidateFacts.
From JugV Require Import Model.Exec Proofs.ExecFacts Proofs.ExecTheorems.
Import ListNotations.

Section S.
  Context {V : Type}.
  Variable C : cfg V.
  Hypothesis F : framed C.
  Variable d : dag.
  Hypothesis W : wf_dag d.
  (* the protocol's dependency lists are the graph's (as sets) *)
  Hypothesis same_deps : forall n x, In n d -> (In x (c_deps C (n_tid n)) <-> In x (n_deps n)).

  Definition kept (m : matcher) (t : tid) : bool := negb (Dag.mem t (cli_invalid d m)).

  Lemma kept_closed : forall m (r : tid -> option V), (forall t, r t <> None -> In t (tids d)) ->
    forall t x, kept m t = true -> r t <> None -> In x (c_deps C t) -> kept m x = true.
  Proof.
    intros m r Hin t x Hk Hr Hx. unfold kept in *. apply negb_true_iff. apply mem_false. intros Hbad.
    apply negb_true_iff in Hk. apply mem_false in Hk. apply Hk. clear Hk.
    assert (Ht := Hin t Hr). destruct (proj1 (In_tids d t) Ht) as [n [Hn En]]. subst t.
    apply (proj1 (same_deps n x Hn)) in Hx.
    apply (proj1 (cli_invalid_spec d m W x)) in Hbad. destruct Hbad as [_ [n' [Hn' [Hm Hd]]]].
    apply (proj2 (cli_invalid_spec d m W (n_tid n))). split; auto.
    exists n'. split; auto. split; auto.
    eapply dep_step; [|exact Hd]. apply edge_of_node; auto.
  Qed.

  Theorem invalidate_then_execute : forall (m : matcher) (r : tid -> option V), Sound C r ->
    (forall t, r t <> None -> In t (tids d)) ->
    forall tr s, forallb quiet tr = true ->
    run C (init (fun t => if kept m t then r t else None)) tr = Some s ->
    forall t, (~ In t (cli_invalid d m) -> r t <> None -> execs s t = 0 /\ results s t = r t) /\
              (In t (cli_invalid d m) -> results s t <> None -> execs s t = 1).
  Proof.
    intros m r Hs Hin tr s Q H t.
    destruct (execute_after_removal C F r (kept m) tr s Hs (kept_closed m r Hin) Q H t) as [A B].
    split.
    - intros Hn. apply A. unfold kept. apply negb_true_iff. apply mem_false. exact Hn.
    - intros Hi. apply B. unfold kept. apply negb_false_iff. apply DagFacts.mem_In. exact Hi.
  Qed.
End S.
