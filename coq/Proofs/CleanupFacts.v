(* C10 - facts about Model/Cleanup.v: what `jug cleanup` does to results and locks, per mode and
   per backend, for every store state and every active set. *)
From Coq Require Import List PArith Bool.
From JugV Require Import Model.Cleanup.
Import ListNotations.

(* ------------------------------------------------------------------ lists *)
Lemma kmem_In : forall k l, kmem k l = true <-> In k l.
Proof.
  intros k l. unfold kmem. rewrite existsb_exists. split.
  - intros [x [Hx He]]. apply Pos.eqb_eq in He. subst x. exact Hx.
  - intros H. exists k. split; [exact H | apply Pos.eqb_refl].
Qed.

Lemma kmem_not_In : forall k l, kmem k l = false <-> ~ In k l.
Proof.
  intros k l. rewrite <- kmem_In. destruct (kmem k l); split; intro H.
  - discriminate.
  - exfalso. apply H. reflexivity.
  - intro H'. discriminate.
  - reflexivity.
Qed.

Lemma filter_id : forall (A : Type) (f : A -> bool) (l : list A),
  (forall x, In x l -> f x = true) -> filter f l = l.
Proof.
  intros A f l. induction l as [|a l IH]; intros H; simpl.
  - reflexivity.
  - rewrite (H a (or_introl eq_refl)). f_equal. apply IH. intros x Hx. apply H. right. exact Hx.
Qed.

Lemma filter_none : forall (A : Type) (f : A -> bool) (l : list A),
  (forall x, In x l -> f x = false) -> filter f l = [].
Proof.
  intros A f l. induction l as [|a l IH]; intros H; simpl.
  - reflexivity.
  - rewrite (H a (or_introl eq_refl)). apply IH. intros x Hx. apply H. right. exact Hx.
Qed.

Lemma filter_nil_all_false : forall (A : Type) (f : A -> bool) (l : list A),
  filter f l = [] -> forall x, In x l -> f x = false.
Proof.
  intros A f l H x Hx. destruct (f x) eqn:E; [|reflexivity].
  assert (Hin : In x (filter f l)) by (apply filter_In; split; assumption).
  rewrite H in Hin. destruct Hin.
Qed.

Lemma filter_filter : forall (A : Type) (f g : A -> bool) (l : list A),
  filter f (filter g l) = filter (fun x => g x && f x) l.
Proof.
  intros A f g l. induction l as [|a l IH]; simpl.
  - reflexivity.
  - destruct (g a); simpl.
    + destruct (f a); rewrite IH; reflexivity.
    + exact IH.
Qed.

(* ------------------------------------------------------------------ locks, generically *)
Section LockFacts.
  Context {E : Type} (lk : E -> option (key * bool)).

  Lemma In_lock_entries : forall (l : list E) kf,
    In kf (lock_entries lk l) <-> exists e, In e l /\ lk e = Some kf.
  Proof.
    intros l kf. unfold lock_entries. rewrite in_flat_map. split.
    - intros [e [He Hin]]. exists e. split; [exact He|].
      destruct (lk e) as [kf'|]; simpl in Hin.
      + destruct Hin as [H|[]]. subst kf'. reflexivity.
      + destruct Hin.
    - intros [e [He Hl]]. exists e. split; [exact He|]. rewrite Hl. left. reflexivity.
  Qed.

  Lemma In_lock_names : forall (l : list E) k,
    In k (lock_names lk l) <-> exists e f, In e l /\ lk e = Some (k, f).
  Proof.
    intros l k. unfold lock_names. rewrite in_flat_map. split.
    - intros [e [He Hin]]. destruct (lk e) as [[k' f]|] eqn:El; simpl in Hin.
      + destruct Hin as [H|[]]. subst k'. exists e, f. split; assumption.
      + destruct Hin.
    - intros [e [f [He Hl]]]. exists e. split; [exact He|]. rewrite Hl. left. reflexivity.
  Qed.

  Lemma lock_names_entries : forall (l : list E) k,
    In k (lock_names lk l) <-> exists f, In (k, f) (lock_entries lk l).
  Proof.
    intros l k. rewrite In_lock_names. split.
    - intros [e [f [He Hl]]]. exists f. apply In_lock_entries. exists e. split; assumption.
    - intros [f Hin]. apply In_lock_entries in Hin. destruct Hin as [e [He Hl]]. exists e, f. split; assumption.
  Qed.

  Lemma lock_failed_true : forall (l : list E) k,
    lock_failed lk l k = true <-> In (k, true) (lock_entries lk l).
  Proof.
    intros l k. unfold lock_failed. rewrite existsb_exists, In_lock_entries. split.
    - intros [e [He Hf]]. exists e. split; [exact He|].
      destruct (lk e) as [[k' f]|]; [|discriminate].
      apply andb_true_iff in Hf. destruct Hf as [Hk Hf]. apply Pos.eqb_eq in Hk. subst. reflexivity.
    - intros [e [He Hl]]. exists e. split; [exact He|]. rewrite Hl. rewrite Pos.eqb_refl. reflexivity.
  Qed.

  Lemma lock_entries_filter_keep : forall (f : E -> bool) (l : list E),
    (forall e, In e l -> lk e <> None -> f e = true) ->
    lock_entries lk (filter f l) = lock_entries lk l.
  Proof.
    intros f l. induction l as [|a l IH]; intros H; simpl.
    - reflexivity.
    - assert (IH' : lock_entries lk (filter f l) = lock_entries lk l).
      { apply IH. intros e He. apply H. right. exact He. }
      destruct (f a) eqn:Fa; simpl.
      + rewrite IH'. reflexivity.
      + destruct (lk a) as [kf|] eqn:La; simpl.
        * assert (Hc : f a = true) by (apply H; [left; reflexivity | rewrite La; discriminate]).
          rewrite Hc in Fa. discriminate.
        * exact IH'.
  Qed.

  Lemma lock_entries_filter_drop : forall (f : E -> bool) (l : list E),
    (forall e, In e l -> lk e <> None -> f e = false) ->
    lock_entries lk (filter f l) = [].
  Proof.
    intros f l. induction l as [|a l IH]; intros H; simpl.
    - reflexivity.
    - assert (IH' : lock_entries lk (filter f l) = []).
      { apply IH. intros e He. apply H. right. exact He. }
      destruct (f a) eqn:Fa; simpl.
      + destruct (lk a) as [kf|] eqn:La; simpl.
        * assert (Hc : f a = false) by (apply H; [left; reflexivity | rewrite La; discriminate]).
          rewrite Hc in Fa. discriminate.
        * exact IH'.
      + exact IH'.
  Qed.

  Lemma lock_names_nil : forall l : list E, lock_entries lk l = [] -> lock_names lk l = [].
  Proof.
    intros l H. destruct (lock_names lk l) as [|k r] eqn:En; [reflexivity|].
    assert (Hin : In k (lock_names lk l)) by (rewrite En; left; reflexivity).
    apply lock_names_entries in Hin. destruct Hin as [f Hin]. rewrite H in Hin. destruct Hin.
  Qed.

  Lemma lock_entries_drop : forall l : list E, lock_entries lk (drop_locks lk l) = [].
  Proof.
    intros l. unfold drop_locks. apply lock_entries_filter_drop.
    intros e _ Hn. destruct (lk e); [reflexivity | exfalso; apply Hn; reflexivity].
  Qed.

  (* filtering with a predicate that keeps every non-lock entry does not change the non-lock part *)
  Lemma drop_locks_filter : forall (f : E -> bool) (l : list E),
    (forall e, In e l -> lk e = None -> f e = true) ->
    drop_locks lk (filter f l) = drop_locks lk l.
  Proof.
    intros f l H. unfold drop_locks. rewrite filter_filter. apply filter_ext_in.
    intros e He. destruct (lk e) eqn:Le.
    - apply andb_false_r.
    - rewrite (H e He Le). reflexivity.
  Qed.

  Lemma lock_failed_release_other : forall (l : list E) k k',
    k' <> k -> lock_failed lk (lock_release lk k l) k' = lock_failed lk l k'.
  Proof.
    intros l k k' Hne. unfold lock_failed, lock_release.
    induction l as [|a l IH]; simpl.
    - reflexivity.
    - destruct (lk a) as [[k2 f]|] eqn:La; simpl.
      + destruct (Pos.eqb k2 k) eqn:Ek; simpl.
        * apply Pos.eqb_eq in Ek. subst k2.
          assert (Hf : Pos.eqb k k' = false) by (apply Pos.eqb_neq; intro H; apply Hne; symmetry; exact H).
          rewrite Hf. simpl. exact IH.
        * rewrite La. rewrite IH. reflexivity.
      + rewrite La. simpl. exact IH.
  Qed.

  (* one iteration of the --failed-only loop *)
  Definition fo_step (s : list E) (k : key) : list E :=
    if lock_failed lk s k then lock_release lk k s else s.

  Definition fo_keeps (s : list E) (ks : list key) (e : E) : bool :=
    match lk e with
    | Some (k, _) => negb (lock_failed lk s k && kmem k ks)
    | None => true
    end.

  Lemma fo_fold : forall (ks : list key) (s : list E),
    fold_left fo_step ks s = filter (fo_keeps s ks) s.
  Proof.
    induction ks as [|k ks IH]; intros s; simpl.
    - symmetry. apply filter_id. intros e _. unfold fo_keeps.
      destruct (lk e) as [[k' f]|]; [|reflexivity]. simpl. rewrite andb_false_r. reflexivity.
    - unfold fo_step at 2. destruct (lock_failed lk s k) eqn:Fk.
      + rewrite IH. unfold lock_release at 2. rewrite filter_filter. apply filter_ext_in.
        intros e He. unfold fo_keeps. destruct (lk e) as [[k' f]|] eqn:Le; [|reflexivity].
        simpl. destruct (Pos.eqb k' k) eqn:Ek; simpl.
        * apply Pos.eqb_eq in Ek. subst k'. rewrite Fk. reflexivity.
        * rewrite lock_failed_release_other; [reflexivity|].
          intro H. subst k'. rewrite Pos.eqb_refl in Ek. discriminate.
      + rewrite IH. apply filter_ext_in.
        intros e He. unfold fo_keeps. destruct (lk e) as [[k' f]|] eqn:Le; [|reflexivity].
        simpl. destruct (Pos.eqb k' k) eqn:Ek; simpl; [|reflexivity].
        apply Pos.eqb_eq in Ek. subst k'. rewrite Fk. reflexivity.
  Qed.

  Definition not_failed_in (s : list E) (e : E) : bool :=
    match lk e with Some (k, _) => negb (lock_failed lk s k) | None => true end.

  (* the whole loop: exactly the entries that are locks marked failed disappear *)
  Lemma fo_loop : forall s : list E,
    fold_left fo_step (lock_names lk s) s = filter (not_failed_in s) s.
  Proof.
    intros s. rewrite fo_fold. apply filter_ext_in. intros e He.
    unfold fo_keeps, not_failed_in. destruct (lk e) as [[k f]|] eqn:Le; [|reflexivity].
    assert (Hm : kmem k (lock_names lk s) = true).
    { apply kmem_In. apply In_lock_names. exists e, f. split; assumption. }
    rewrite Hm. rewrite andb_true_r. reflexivity.
  Qed.

  Lemma fo_loop_nonlocks : forall s : list E,
    drop_locks lk (fold_left fo_step (lock_names lk s) s) = drop_locks lk s.
  Proof.
    intros s. rewrite fo_loop. apply drop_locks_filter.
    intros e _ Le. unfold not_failed_in. rewrite Le. reflexivity.
  Qed.

  Lemma fo_loop_entries : forall (s : list E) k f,
    In (k, f) (lock_entries lk (fold_left fo_step (lock_names lk s) s)) <->
    In (k, f) (lock_entries lk s) /\ lock_failed lk s k = false.
  Proof.
    intros s k f. rewrite fo_loop. rewrite !In_lock_entries. split.
    - intros [e [He Le]]. apply filter_In in He. destruct He as [He Hn]. split.
      + exists e. split; assumption.
      + unfold not_failed_in in Hn. rewrite Le in Hn. apply negb_true_iff in Hn. exact Hn.
    - intros [[e [He Le]] Hf]. exists e. split; [|exact Le].
      apply filter_In. split; [exact He|]. unfold not_failed_in. rewrite Le, Hf. reflexivity.
  Qed.

  Lemma fo_loop_names : forall (s : list E) k,
    In k (lock_names lk (fold_left fo_step (lock_names lk s) s)) <->
    In k (lock_names lk s) /\ lock_failed lk s k = false.
  Proof.
    intros s k. rewrite !lock_names_entries. split.
    - intros [f Hin]. apply fo_loop_entries in Hin. destruct Hin as [Hin Hf]. split; [exists f; exact Hin | exact Hf].
    - intros [[f Hin] Hf]. exists f. apply fo_loop_entries. split; assumption.
  Qed.

  Lemma fo_loop_no_failed_left : forall (s : list E) k,
    lock_failed lk (fold_left fo_step (lock_names lk s) s) k = false.
  Proof.
    intros s k. destruct (lock_failed lk (fold_left fo_step (lock_names lk s) s) k) eqn:F; [|reflexivity].
    apply lock_failed_true in F. apply fo_loop_entries in F. destruct F as [Hin Hf].
    apply lock_failed_true in Hin. rewrite Hin in Hf. discriminate.
  Qed.
End LockFacts.

(* ------------------------------------------------------------------ file store *)
Lemma flk_entries : forall l : list (key * bool), lock_entries flk l = l.
Proof.
  induction l as [|a l IH]; [reflexivity|]. unfold lock_entries in *. simpl. f_equal. exact IH.
Qed.

Lemma flk_drop : forall l : list (key * bool), drop_locks flk l = [].
Proof. intros l. apply filter_none. intros x _. reflexivity. Qed.

Lemma packed_prune : forall active (packed : list key) k,
  let dead := filter (fun k => negb (kmem k active)) packed in
  In k (filter (fun k => negb (kmem k dead)) packed) <-> In k packed /\ In k active.
Proof.
  intros active packed k dead. rewrite filter_In. split.
  - intros [Hp Hd]. split; [exact Hp|]. apply negb_true_iff in Hd. apply kmem_not_In in Hd.
    destruct (kmem k active) eqn:Ea; [apply kmem_In; exact Ea|].
    exfalso. apply Hd. unfold dead. apply filter_In. split; [exact Hp|]. rewrite Ea. reflexivity.
  - intros [Hp Ha]. split; [exact Hp|]. apply negb_true_iff. apply kmem_not_In.
    unfold dead. intro Hd. apply filter_In in Hd. destruct Hd as [_ Hn].
    apply kmem_In in Ha. rewrite Ha in Hn. discriminate.
Qed.

Lemma file_cleanup_packed : forall keep active st k,
  In k (packed_of (file_cleanup keep active st)) <-> In k (packed_of st) /\ In k active.
Proof.
  intros keep active st k. unfold file_cleanup, packed_of at 1. simpl.
  destruct (filter (fun k0 => negb (kmem k0 active)) (packed_of st)) as [|d ds] eqn:Ed.
  - (* nothing to prune: the pack file is not rewritten *)
    fold (packed_of st). split.
    + intros Hp. split; [exact Hp|].
      pose proof (filter_nil_all_false _ _ _ Ed k Hp) as Hn. apply negb_false_iff in Hn.
      apply kmem_In. exact Hn.
    + intros [Hp _]. exact Hp.
  - rewrite <- Ed. apply packed_prune.
Qed.

Lemma file_cleanup_files : forall keep active st k,
  In k (fs_files (file_cleanup keep active st)) <-> In k (fs_files st) /\ In k active.
Proof.
  intros keep active st k. unfold file_cleanup. simpl. rewrite filter_In. rewrite kmem_In. reflexivity.
Qed.

Lemma file_cleanup_results : forall keep active st k,
  In k (file_results (file_cleanup keep active st)) <-> In k (file_results st) /\ In k active.
Proof.
  intros keep active st k. unfold file_results. rewrite !in_app_iff.
  rewrite file_cleanup_packed, file_cleanup_files. tauto.
Qed.

Lemma file_fo_fold : forall ks st,
  fold_left (fun s k => if file_failed s k then file_release k s else s) ks st =
  mk_fstore (fs_files st) (fs_pack st) (fold_left (fo_step flk) ks (fs_locks st)) (fs_temps st).
Proof.
  induction ks as [|k ks IH]; intros st; simpl.
  - destruct st; reflexivity.
  - rewrite IH. unfold fo_step, file_failed. destruct (lock_failed flk (fs_locks st) k); reflexivity.
Qed.

Lemma file_default : forall active st,
  let st' := cleanup_cmd file_backend Default active st in
  (forall k, In k (file_results st') <-> In k (file_results st) /\ In k active) /\
  fs_locks st' = [] /\ file_locks st' = [].
Proof.
  intros active st. simpl. split; [|split].
  - intros k. apply file_cleanup_results.
  - reflexivity.
  - reflexivity.
Qed.

Lemma file_keep_locks : forall active st,
  let st' := cleanup_cmd file_backend KeepLocks active st in
  (forall k, In k (file_results st') <-> In k (file_results st) /\ In k active) /\
  fs_locks st' = fs_locks st.
Proof.
  intros active st. simpl. split.
  - intros k. apply file_cleanup_results.
  - reflexivity.
Qed.

Lemma file_locks_only : forall active st,
  let st' := cleanup_cmd file_backend LocksOnly active st in
  fs_files st' = fs_files st /\ fs_pack st' = fs_pack st /\ fs_temps st' = fs_temps st /\
  fs_locks st' = [] /\ file_locks st' = [].
Proof.
  intros active st. simpl. unfold file_locks. simpl. rewrite flk_drop. repeat split; reflexivity.
Qed.

Lemma file_failed_only : forall active st,
  let st' := cleanup_cmd file_backend FailedOnly active st in
  fs_files st' = fs_files st /\ fs_pack st' = fs_pack st /\ fs_temps st' = fs_temps st /\
  (forall k f, In (k, f) (fs_locks st') <-> In (k, f) (fs_locks st) /\ file_failed st k = false) /\
  (forall k, In k (file_locks st') <-> In k (file_locks st) /\ file_failed st k = false) /\
  (forall k, file_failed st' k = false).
Proof.
  intros active st. simpl. rewrite file_fo_fold. simpl. unfold file_locks, file_failed. simpl.
  split; [reflexivity|]. split; [reflexivity|]. split; [reflexivity|]. split; [|split].
  - intros k f. pose proof (fo_loop_entries flk (fs_locks st) k f) as H.
    rewrite !flk_entries in H. exact H.
  - intros k. apply fo_loop_names.
  - intros k. apply fo_loop_no_failed_left.
Qed.

(* ------------------------------------------------------------------ dict / redis stores *)
Lemma In_kv_results : forall (st : kvstore) k, In k (kv_results st) <-> In (KRes k) st.
Proof.
  intros st k. unfold kv_results. rewrite in_flat_map. split.
  - intros [e [He Hin]]. destruct e; simpl in Hin; try (destruct Hin; fail).
    destruct Hin as [H|[]]. subst. exact He.
  - intros H. exists (KRes k). split; [exact H | left; reflexivity].
Qed.

Lemma In_kv_others : forall (st : kvstore) n, In n (kv_others st) <-> In (KOther n) st.
Proof.
  intros st n. unfold kv_others. rewrite in_flat_map. split.
  - intros [e [He Hin]]. destruct e; simpl in Hin; try (destruct Hin; fail).
    destruct Hin as [H|[]]. subst. exact He.
  - intros H. exists (KOther n). split; [exact H | left; reflexivity].
Qed.

Lemma kv_results_drop : forall (f : kv -> bool) (st : kvstore),
  (forall e, In e st -> kvlk e = None -> f e = true) -> kv_results (filter f st) = kv_results st.
Proof.
  intros f st. induction st as [|a st IH]; intros H; simpl.
  - reflexivity.
  - assert (IH' : kv_results (filter f st) = kv_results st).
    { apply IH. intros e He. apply H. right. exact He. }
    destruct a as [k|k fl|n]; simpl.
    + rewrite (H (KRes k) (or_introl eq_refl) eq_refl). simpl. rewrite IH'. reflexivity.
    + destruct (f (KLock k fl)); simpl; exact IH'.
    + rewrite (H (KOther n) (or_introl eq_refl) eq_refl). simpl. exact IH'.
Qed.

Lemma kv_others_drop : forall (f : kv -> bool) (st : kvstore),
  (forall e, In e st -> kvlk e = None -> f e = true) -> kv_others (filter f st) = kv_others st.
Proof.
  intros f st. induction st as [|a st IH]; intros H; simpl.
  - reflexivity.
  - assert (IH' : kv_others (filter f st) = kv_others st).
    { apply IH. intros e He. apply H. right. exact He. }
    destruct a as [k|k fl|n]; simpl.
    + rewrite (H (KRes k) (or_introl eq_refl) eq_refl). simpl. exact IH'.
    + destruct (f (KLock k fl)); simpl; exact IH'.
    + rewrite (H (KOther n) (or_introl eq_refl) eq_refl). simpl. rewrite IH'. reflexivity.
Qed.

(* what dict_store.cleanup keeps: active results, and the locks iff keeplocks *)
Definition dict_keeps (keep : bool) (active : list key) (e : kv) : bool :=
  match e with KRes k => kmem k active | KLock _ _ => keep | KOther _ => false end.

(* what redis_store.cleanup keeps: active results, the locks iff keeplocks, every other key *)
Definition redis_keeps (keep : bool) (active : list key) (e : kv) : bool :=
  match e with KRes k => kmem k active | KLock _ _ => keep | KOther _ => true end.

Lemma kv_key_eqb_refl : forall e, kv_key_eqb e e = true.
Proof. intros [k|k f|n]; simpl; apply Pos.eqb_refl. Qed.

Lemma dict_cleanup_filter : forall keep active st,
  dict_cleanup keep active st = filter (dict_keeps keep active) st.
Proof.
  intros keep active st. unfold dict_cleanup. apply filter_ext_in. intros e He.
  set (ex1 := filter (fun e0 => match e0 with KRes k => negb (kmem k active) | _ => true end) st).
  destruct e as [k|k f|n]; simpl.
  - (* result *)
    destruct (kmem k active) eqn:Ea.
    + apply negb_true_iff. apply not_true_is_false. intro Hex.
      apply existsb_exists in Hex. destruct Hex as [e' [Hin Heq]].
      assert (Hin1 : In e' ex1).
      { destruct keep; [apply filter_In in Hin; destruct Hin as [Hin _]|]; exact Hin. }
      apply filter_In in Hin1. destruct Hin1 as [_ Hp].
      destruct e' as [k'|k' f'|n']; simpl in Heq; try discriminate.
      apply Pos.eqb_eq in Heq. subst k'. rewrite Ea in Hp. discriminate.
    + apply negb_false_iff. apply existsb_exists. exists (KRes k). split; [|apply kv_key_eqb_refl].
      assert (Hin1 : In (KRes k) ex1) by (apply filter_In; split; [exact He | rewrite Ea; reflexivity]).
      destruct keep; [apply filter_In; split; [exact Hin1 | reflexivity] | exact Hin1].
  - (* lock *)
    destruct keep.
    + apply negb_true_iff. apply not_true_is_false. intro Hex.
      apply existsb_exists in Hex. destruct Hex as [e' [Hin Heq]].
      apply filter_In in Hin. destruct Hin as [_ Hp].
      destruct e' as [k'|k' f'|n']; simpl in Heq; try discriminate.
      apply Pos.eqb_eq in Heq. subst k'.
      assert (Hm : kmem k (kv_locks st) = true).
      { apply kmem_In. apply In_lock_names. exists (KLock k f), f. split; [exact He | reflexivity]. }
      rewrite Hm in Hp. discriminate.
    + apply negb_false_iff. apply existsb_exists. exists (KLock k f). split; [|apply kv_key_eqb_refl].
      apply filter_In. split; [exact He | reflexivity].
  - (* anything else *)
    apply negb_false_iff. apply existsb_exists. exists (KOther n). split; [|apply kv_key_eqb_refl].
    assert (Hin1 : In (KOther n) ex1) by (apply filter_In; split; [exact He | reflexivity]).
    destruct keep; [apply filter_In; split; [exact Hin1 | reflexivity] | exact Hin1].
Qed.

Lemma redis_cleanup_filter : forall keep active st,
  redis_cleanup keep active st = filter (redis_keeps keep active) st.
Proof.
  intros keep active st. unfold redis_cleanup.
  set (ex := filter (fun k => negb (kmem k active)) (kv_results st)).
  assert (H1 : forall e, In e st ->
            (match e with KRes k => negb (kmem k ex) | _ => true end) = redis_keeps true active e).
  { intros e He. destruct e as [k|k f|n]; simpl; try reflexivity.
    destruct (kmem k active) eqn:Ea.
    - apply negb_true_iff. apply kmem_not_In. unfold ex. intro Hin. apply filter_In in Hin.
      destruct Hin as [_ Hn]. rewrite Ea in Hn. discriminate.
    - apply negb_false_iff. apply kmem_In. unfold ex. apply filter_In. split.
      + apply In_kv_results. exact He.
      + rewrite Ea. reflexivity. }
  destruct keep.
  - apply filter_ext_in. exact H1.
  - unfold kv_remove_locks, drop_locks. rewrite filter_filter. apply filter_ext_in.
    intros e He. rewrite (H1 e He). destruct e as [k|k f|n]; simpl; try reflexivity.
    apply andb_true_r.
Qed.

Section KvModes.
  (* both key-value backends: cleanup is a filter that keeps exactly the active results and
     (iff keeplocks) the locks; [oth] says what happens to keys that are neither *)
  Variable keeps : bool -> list key -> kv -> bool.
  Hypothesis keeps_res : forall keep active k, keeps keep active (KRes k) = kmem k active.
  Hypothesis keeps_lock : forall keep active k f, keeps keep active (KLock k f) = keep.

  Lemma kv_filter_results : forall keep active st k,
    In k (kv_results (filter (keeps keep active) st)) <-> In k (kv_results st) /\ In k active.
  Proof.
    intros keep active st k. rewrite !In_kv_results, filter_In, keeps_res, kmem_In. reflexivity.
  Qed.

  Lemma kv_filter_locks_dropped : forall active st,
    lock_entries kvlk (filter (keeps false active) st) = [].
  Proof.
    intros active st. apply lock_entries_filter_drop. intros e _ Hn.
    destruct e as [k|k f|n]; simpl in Hn; try (exfalso; apply Hn; reflexivity). apply keeps_lock.
  Qed.

  Lemma kv_filter_locks_kept : forall active st,
    lock_entries kvlk (filter (keeps true active) st) = lock_entries kvlk st.
  Proof.
    intros active st. apply lock_entries_filter_keep. intros e _ Hn.
    destruct e as [k|k f|n]; simpl in Hn; try (exfalso; apply Hn; reflexivity). apply keeps_lock.
  Qed.
End KvModes.

Lemma dict_default : forall active st,
  let st' := cleanup_cmd dict_backend Default active st in
  (forall k, In k (kv_results st') <-> In k (kv_results st) /\ In k active) /\
  lock_entries kvlk st' = [] /\ kv_locks st' = [].
Proof.
  intros active st. cbv zeta.
  change (cleanup_cmd dict_backend Default active st) with (dict_cleanup false active st).
  rewrite dict_cleanup_filter.
  assert (Hl : lock_entries kvlk (filter (dict_keeps false active) st) = []).
  { apply (kv_filter_locks_dropped dict_keeps); reflexivity. }
  split; [|split].
  - intros k. apply (kv_filter_results dict_keeps); reflexivity.
  - exact Hl.
  - apply lock_names_nil. exact Hl.
Qed.

Lemma dict_keep_locks : forall active st,
  let st' := cleanup_cmd dict_backend KeepLocks active st in
  (forall k, In k (kv_results st') <-> In k (kv_results st) /\ In k active) /\
  lock_entries kvlk st' = lock_entries kvlk st.
Proof.
  intros active st. cbv zeta.
  change (cleanup_cmd dict_backend KeepLocks active st) with (dict_cleanup true active st).
  rewrite dict_cleanup_filter. split.
  - intros k. apply (kv_filter_results dict_keeps); reflexivity.
  - apply (kv_filter_locks_kept dict_keeps); reflexivity.
Qed.

Lemma redis_default : forall active st,
  let st' := cleanup_cmd redis_backend Default active st in
  (forall k, In k (kv_results st') <-> In k (kv_results st) /\ In k active) /\
  lock_entries kvlk st' = [] /\ kv_locks st' = [].
Proof.
  intros active st. cbv zeta.
  change (cleanup_cmd redis_backend Default active st) with (redis_cleanup false active st).
  rewrite redis_cleanup_filter.
  assert (Hl : lock_entries kvlk (filter (redis_keeps false active) st) = []).
  { apply (kv_filter_locks_dropped redis_keeps); reflexivity. }
  split; [|split].
  - intros k. apply (kv_filter_results redis_keeps); reflexivity.
  - exact Hl.
  - apply lock_names_nil. exact Hl.
Qed.

Lemma redis_keep_locks : forall active st,
  let st' := cleanup_cmd redis_backend KeepLocks active st in
  (forall k, In k (kv_results st') <-> In k (kv_results st) /\ In k active) /\
  lock_entries kvlk st' = lock_entries kvlk st.
Proof.
  intros active st. cbv zeta.
  change (cleanup_cmd redis_backend KeepLocks active st) with (redis_cleanup true active st).
  rewrite redis_cleanup_filter. split.
  - intros k. apply (kv_filter_results redis_keeps); reflexivity.
  - apply (kv_filter_locks_kept redis_keeps); reflexivity.
Qed.

(* --locks-only and --failed-only never call store.cleanup, so dict and redis coincide *)
Lemma kv_locks_only : forall active st,
  (cleanup_cmd dict_backend LocksOnly active st = cleanup_cmd redis_backend LocksOnly active st) /\
  let st' := cleanup_cmd dict_backend LocksOnly active st in
  kv_results st' = kv_results st /\ kv_others st' = kv_others st /\
  lock_entries kvlk st' = [] /\ kv_locks st' = [].
Proof.
  intros active st. simpl. split; [reflexivity|].
  assert (Hk : forall e, In e st -> kvlk e = None ->
               (match kvlk e with Some _ => false | None => true end) = true).
  { intros e _ H. rewrite H. reflexivity. }
  unfold kv_remove_locks, drop_locks. split; [|split; [|split]].
  - apply kv_results_drop. exact Hk.
  - apply kv_others_drop. exact Hk.
  - apply (lock_entries_drop kvlk).
  - apply lock_names_nil. apply (lock_entries_drop kvlk).
Qed.

Lemma kv_failed_only : forall active st,
  (cleanup_cmd dict_backend FailedOnly active st = cleanup_cmd redis_backend FailedOnly active st) /\
  let st' := cleanup_cmd dict_backend FailedOnly active st in
  kv_results st' = kv_results st /\ kv_others st' = kv_others st /\
  (forall k f, In (k, f) (lock_entries kvlk st') <-> In (k, f) (lock_entries kvlk st) /\ kv_failed st k = false) /\
  (forall k, In k (kv_locks st') <-> In k (kv_locks st) /\ kv_failed st k = false) /\
  (forall k, kv_failed st' k = false).
Proof.
  intros active st. simpl. split; [reflexivity|].
  change (fold_left (fun s k => if kv_failed s k then kv_release k s else s) (kv_locks st) st)
    with (fold_left (fo_step kvlk) (lock_names kvlk st) st).
  assert (Hk : forall e, In e st -> kvlk e = None -> not_failed_in kvlk st e = true).
  { intros e _ H. unfold not_failed_in. rewrite H. reflexivity. }
  split; [|split; [|split; [|split]]].
  - rewrite fo_loop. apply kv_results_drop. exact Hk.
  - rewrite fo_loop. apply kv_others_drop. exact Hk.
  - intros k f. apply fo_loop_entries.
  - intros k. apply fo_loop_names.
  - intros k. apply fo_loop_no_failed_left.
Qed.

(* ------------------------------------------------------------------ the first clause of C10 for
   every mode at once: a stored result of an active task is still stored afterwards *)
Lemma needed_results_survive : forall (m : mode) active k,
  In k active ->
  (forall st, In k (file_results st) -> In k (file_results (cleanup_cmd file_backend m active st))) /\
  (forall st, In k (kv_results st) -> In k (kv_results (cleanup_cmd dict_backend m active st))) /\
  (forall st, In k (kv_results st) -> In k (kv_results (cleanup_cmd redis_backend m active st))).
Proof.
  intros m active k Ha. split; [|split]; intros st Hr.
  - destruct m.
    + apply (file_default active st). split; assumption.
    + apply (file_keep_locks active st). split; assumption.
    + unfold file_results, packed_of in *.
      destruct (file_locks_only active st) as [Hf [Hp _]]. rewrite Hf, Hp. exact Hr.
    + unfold file_results, packed_of in *.
      destruct (file_failed_only active st) as [Hf [Hp _]]. rewrite Hf, Hp. exact Hr.
  - destruct m.
    + apply (dict_default active st). split; assumption.
    + apply (dict_keep_locks active st). split; assumption.
    + destruct (kv_locks_only active st) as [_ [H _]]. rewrite H. exact Hr.
    + destruct (kv_failed_only active st) as [_ [H _]]. rewrite H. exact Hr.
  - destruct m.
    + apply (redis_default active st). split; assumption.
    + apply (redis_keep_locks active st). split; assumption.
    + destruct (kv_locks_only active st) as [E [H _]]. rewrite <- E, H. exact Hr.
    + destruct (kv_failed_only active st) as [E [H _]]. rewrite <- E, H. exact Hr.
Qed.

(* and its converse for the two modes that touch results: nothing the jugfile does not define
   survives, on any backend, packed or not *)
Lemma unneeded_results_go : forall active k, ~ In k active ->
  forall keep : bool,
  let m := if keep then KeepLocks else Default in
  (forall st, ~ In k (file_results (cleanup_cmd file_backend m active st))) /\
  (forall st, ~ In k (kv_results (cleanup_cmd dict_backend m active st))) /\
  (forall st, ~ In k (kv_results (cleanup_cmd redis_backend m active st))).
Proof.
  intros active k Hn keep. destruct keep; simpl; (split; [|split]); intros st Hin.
  - apply (file_keep_locks active st) in Hin. tauto.
  - apply (dict_keep_locks active st) in Hin. tauto.
  - apply (redis_keep_locks active st) in Hin. tauto.
  - apply (file_default active st) in Hin. tauto.
  - apply (dict_default active st) in Hin. tauto.
  - apply (redis_default active st) in Hin. tauto.
Qed.
