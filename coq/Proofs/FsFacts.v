(* Facts about Model/Fs.v: the invariant of the write protocol and what it gives a reader
   after a process kill / a power loss at any point of any accepted trace. *)
From Coq Require Import List PArith Bool.
From JugV Require Import Model.Fs.
Import ListNotations.

Lemma name_eqb_eq : forall a b : name, name_eqb a b = true <-> a = b.
Proof.
  intros [a1 a2] [b1 b2]. unfold name_eqb. simpl.
  rewrite andb_true_iff, !Pos.eqb_eq. split.
  - intros [H1 H2]. subst. reflexivity.
  - intros H. inversion H. auto.
Qed.

Lemma name_eqb_refl : forall a, name_eqb a a = true.
Proof. intros a. apply name_eqb_eq. reflexivity. Qed.

Lemma name_eqb_false : forall a b : name, a <> b -> name_eqb a b = false.
Proof.
  intros a b H. destruct (name_eqb a b) eqn:E; [|reflexivity].
  apply name_eqb_eq in E. contradiction.
Qed.

Section Facts.
  Variable fin : name -> bool.
  Variable complete : cid -> bool.

  Notation step := (step fin).
  Notation guard := (guard fin complete).
  Notation run := (run fin).
  Notation accepts := (accepts fin complete).

  Definition good_ino (x : inode) : Prop :=
    exists c, i_data x = Cid c /\ i_synced x = Cid c /\ complete c = true.

  (* every inode a final name refers to - now, or after any power loss - is published;
     a published inode holds a complete encoding, fsynced *)
  Record inv (s : fs) : Prop := {
    inv_dur : forall n i, fin n = true -> In (Some i) (dur s n) -> i_pub (inodes s i) = true;
    inv_pub : forall i, i_pub (inodes s i) = true -> good_ino (inodes s i);
    inv_cur : forall n, In (vol s n) (dur s n)
  }.

  Lemma inv_vol : forall s n i, inv s -> fin n = true -> vol s n = Some i -> i_pub (inodes s i) = true.
  Proof.
    intros s n i I Hf Hv. apply (inv_dur s I n i Hf). rewrite <- Hv. apply (inv_cur s I).
  Qed.

  Lemma inv_empty : inv empty_fs.
  Proof.
    constructor; simpl.
    - intros n i _ [H|[]]. discriminate.
    - intros i H. discriminate.
    - intros n. left. reflexivity.
  Qed.

  Lemma inv_set_ino : forall s i x, inv s ->
    (i_pub x = true -> good_ino x) ->
    (i_pub (inodes s i) = true -> i_pub x = true) ->
    inv (set_ino s i x).
  Proof.
    intros s i x I H1 H2. constructor; simpl.
    - intros n j Hf Hin. pose proof (inv_dur s I n j Hf Hin) as Hp.
      destruct (Pos.eqb i j) eqn:E; [|exact Hp].
      apply Pos.eqb_eq in E. subst j. auto.
    - intros j Hp. destruct (Pos.eqb i j) eqn:E; [auto|]. apply (inv_pub s I j Hp).
    - apply (inv_cur s I).
  Qed.

  Lemma inv_bind : forall s n b, inv s ->
    (fin n = true -> match b with Some i => i_pub (inodes s i) = true | None => True end) ->
    inv (bind s n b).
  Proof.
    intros s n b I Hb. constructor; simpl.
    - intros m j Hf Hin. destruct (name_eqb n m) eqn:E.
      + apply name_eqb_eq in E. subst m. destruct Hin as [Hin|Hin].
        * subst b. apply Hb. exact Hf.
        * apply (inv_dur s I n j Hf Hin).
      + apply (inv_dur s I m j Hf Hin).
    - apply (inv_pub s I).
    - intros m. destruct (name_eqb n m); [left; reflexivity | apply (inv_cur s I)].
  Qed.

  Lemma inv_create : forall s n i, inv s -> fin n = false -> is_fresh_ino s i = true ->
    inv (bind (set_ino s i new_inode) n (Some i)).
  Proof.
    intros s n i I Hf Hfr. unfold is_fresh_ino in Hfr. apply andb_true_iff in Hfr.
    destruct Hfr as [_ Hp]. apply negb_true_iff in Hp.
    apply inv_bind.
    - apply inv_set_ino; [exact I | simpl; discriminate | rewrite Hp; discriminate].
    - rewrite Hf. discriminate.
  Qed.

  Lemma synced_complete_good : forall x, synced_complete complete x = true -> good_ino (published x).
  Proof.
    intros x H. unfold synced_complete in H.
    destruct (i_data x) as [c|] eqn:Ed; [|discriminate].
    destruct (i_synced x) as [c'|] eqn:Es; [|discriminate].
    apply andb_true_iff in H. destruct H as [He Hc]. apply Pos.eqb_eq in He. subst c'.
    exists c. simpl. auto.
  Qed.

  Lemma step_inv : forall s op, inv s -> guard s op = true -> inv (step s op).
  Proof.
    intros s op I G. destruct op as [n i|n i|i c|i|i|d|src dst|n rm|d]; simpl in *.
    - apply andb_true_iff in G. destruct G as [Hf Hfr]. apply negb_true_iff in Hf.
      apply inv_create; assumption.
    - apply andb_true_iff in G. destruct G as [Hf G]. apply negb_true_iff in Hf.
      destruct (vol s n) as [j|]; [exact I|]. apply inv_create; assumption.
    - apply negb_true_iff in G. apply inv_set_ino; [exact I | | ]; simpl; rewrite G; discriminate.
    - apply inv_set_ino; [exact I | | ].
      + simpl. intros Hp. destruct (inv_pub s I i Hp) as [c [Hd [Hs Hc]]].
        exists c. simpl. auto.
      + simpl. auto.
    - exact I.
    - constructor; simpl.
      + intros n i Hf Hin. destruct (Pos.eqb (fst n) d).
        * destruct Hin as [Hin|[]]. apply (inv_vol s n i I Hf Hin).
        * apply (inv_dur s I n i Hf Hin).
      + apply (inv_pub s I).
      + intros n. destruct (Pos.eqb (fst n) d); [left; reflexivity | apply (inv_cur s I)].
    - apply andb_true_iff in G. destruct G as [Hfs G]. apply negb_true_iff in Hfs.
      destruct (vol s src) as [i|] eqn:Ev; [|discriminate].
      destruct (fin dst) eqn:Hfd.
      + apply inv_bind.
        * apply inv_bind.
          -- apply inv_set_ino; [exact I | intros _; apply synced_complete_good; exact G | simpl; auto].
          -- rewrite Hfs. discriminate.
        * intros _. simpl. rewrite Pos.eqb_refl. reflexivity.
      + apply inv_bind; [apply inv_bind; [exact I | rewrite Hfs; discriminate] | rewrite Hfd; discriminate].
    - apply inv_bind; [exact I | auto].
    - constructor; simpl; [apply (inv_dur s I) | apply (inv_pub s I) | apply (inv_cur s I)].
  Qed.

  Lemma run_inv : forall tr s, inv s -> accepts s tr = true -> inv (run s tr).
  Proof.
    induction tr as [|op r IH]; intros s I A; simpl in *; [exact I|].
    apply andb_true_iff in A. destruct A as [G A]. apply IH; [apply step_inv; assumption | exact A].
  Qed.

  Lemma run_app : forall p q s, run s (p ++ q) = run (run s p) q.
  Proof. induction p as [|op p IH]; intros q s; simpl; [reflexivity | apply IH]. Qed.

  Lemma accepts_app : forall p q s, accepts s (p ++ q) = true ->
    accepts s p = true /\ accepts (run s p) q = true.
  Proof.
    induction p as [|op p IH]; intros q s A; simpl in *; [auto|].
    apply andb_true_iff in A. destruct A as [G A]. destruct (IH q _ A) as [A1 A2].
    rewrite G, A1. auto.
  Qed.

  (* ---- all-or-nothing at every crash point ------------------------------------------ *)

  Lemma inv_kill_ok : forall s n, inv s -> fin n = true -> ok_content complete (kill_view s n) = true.
  Proof.
    intros s n I Hf. unfold kill_view. destruct (vol s n) as [i|] eqn:Ev; [|reflexivity].
    destruct (inv_pub s I i (inv_vol s n i I Hf Ev)) as [c [Hd [_ Hc]]]. rewrite Hd. exact Hc.
  Qed.

  Lemma inv_pl_ok : forall s n o, inv s -> fin n = true -> In o (pl_outcomes s n) ->
    ok_content complete o = true.
  Proof.
    intros s n o I Hf Hin. unfold pl_outcomes in Hin. apply in_map_iff in Hin.
    destruct Hin as [b [Hb Hin]]. subst o. destruct b as [i|]; [|reflexivity].
    unfold pl_bindings in Hin. apply in_app_or in Hin. destruct Hin as [Hin|Hin].
    - destruct (fresh_dir s (fst n)); [destruct Hin as [H|[]]; discriminate | destruct Hin].
    - destruct (inv_pub s I i (inv_dur s I n i Hf Hin)) as [c [_ [Hs Hc]]]. rewrite Hs. exact Hc.
  Qed.

  Theorem crash_all_or_nothing : forall s0 tr p q n, inv s0 -> accepts s0 tr = true -> tr = p ++ q ->
    fin n = true ->
    ok_content complete (kill_view (run s0 p) n) = true /\
    (forall img, pl_image (run s0 p) img -> ok_content complete (img n) = true).
  Proof.
    intros s0 tr p q n I A E Hf. subst tr. destruct (accepts_app p q s0 A) as [Ap _].
    pose proof (run_inv p s0 I Ap) as Ip. split.
    - apply inv_kill_ok; assumption.
    - intros img Himg. apply (inv_pl_ok (run s0 p) n (img n) Ip Hf). apply Himg.
  Qed.

  Theorem write_protocol_all_or_nothing : forall tr p q n, write_protocol fin complete tr = true ->
    tr = p ++ q -> fin n = true ->
    ok_content complete (kill_view (run empty_fs p) n) = true /\
    (forall img, pl_image (run empty_fs p) img -> ok_content complete (img n) = true).
  Proof. intros tr p q n A. apply crash_all_or_nothing; [apply inv_empty | exact A]. Qed.

  (* ---- a published inode never changes again: what a reader opened stays readable ---- *)

  Lemma published_same : forall x, i_pub x = true -> published x = x.
  Proof. intros [d sy p u] H. simpl in H. subst p. reflexivity. Qed.

  Lemma pub_stable_step : forall s op i, inv s -> guard s op = true ->
    i_pub (inodes s i) = true -> inodes (step s op) i = inodes s i.
  Proof.
    intros s op i I G Hp.
    assert (Hfresh : forall j, is_fresh_ino s j = true -> Pos.eqb j i = false).
    { intros j Hfr. destruct (Pos.eqb j i) eqn:E; [|reflexivity]. apply Pos.eqb_eq in E. subst j.
      unfold is_fresh_ino in Hfr. rewrite Hp in Hfr. rewrite andb_false_r in Hfr. discriminate. }
    destruct op as [n j|n j|j c|j|j|d|src dst|n rm|d]; simpl in *; try reflexivity.
    - apply andb_true_iff in G. destruct G as [_ Hfr]. rewrite (Hfresh j Hfr). reflexivity.
    - apply andb_true_iff in G. destruct G as [_ G]. destruct (vol s n); [reflexivity|].
      simpl. rewrite (Hfresh j G). reflexivity.
    - destruct (Pos.eqb j i) eqn:E; [|reflexivity]. apply Pos.eqb_eq in E. subst j.
      rewrite Hp in G. discriminate.
    - destruct (Pos.eqb j i) eqn:E; [|reflexivity]. apply Pos.eqb_eq in E. subst j.
      destruct (inv_pub s I i Hp) as [c [Hd [Hs _]]].
      destruct (inodes s i) as [d sy p u]. simpl in *. subst. reflexivity.
    - destruct (vol s src) as [j|]; [|reflexivity]. destruct (fin dst); simpl; [|reflexivity].
      destruct (Pos.eqb j i) eqn:E; [|reflexivity]. apply Pos.eqb_eq in E. subst j.
      apply published_same. exact Hp.
  Qed.

  Lemma pub_stable_run : forall tr s i, inv s -> accepts s tr = true ->
    i_pub (inodes s i) = true -> inodes (run s tr) i = inodes s i.
  Proof.
    induction tr as [|op r IH]; intros s i I A Hp; simpl in *; [reflexivity|].
    apply andb_true_iff in A. destruct A as [G A].
    pose proof (pub_stable_step s op i I G Hp) as E.
    rewrite (IH (step s op) i (step_inv s op I G) A); [exact E | rewrite E; exact Hp].
  Qed.

  (* reader: exists/open of a final name after p1 found inode i; any read, however much later
     (after p2 more writer operations), returns the same complete encoding *)
  Theorem reader_sees_complete : forall s0 tr p1 p2 q n i, inv s0 -> accepts s0 tr = true ->
    tr = p1 ++ p2 ++ q -> fin n = true -> vol (run s0 p1) n = Some i ->
    exists c, complete c = true /\ i_data (inodes (run s0 p1) i) = Cid c /\
              i_data (inodes (run s0 (p1 ++ p2)) i) = Cid c.
  Proof.
    intros s0 tr p1 p2 q n i I A E Hf Hv. subst tr.
    destruct (accepts_app p1 (p2 ++ q) s0 A) as [A1 A2].
    destruct (accepts_app p2 q _ A2) as [A3 _].
    pose proof (run_inv p1 s0 I A1) as I1.
    pose proof (inv_vol _ n i I1 Hf Hv) as Hp.
    destruct (inv_pub _ I1 i Hp) as [c [Hd [_ Hc]]].
    exists c. split; [exact Hc|]. split; [exact Hd|].
    rewrite run_app. rewrite (pub_stable_run p2 _ i I1 A3 Hp). exact Hd.
  Qed.

  (* ---- frame: final names the trace does not rename onto / unlink are untouched ------ *)

  Lemma frame_step : forall s op n, inv s -> guard s op = true -> fin n = true -> touches op n = false ->
    vol (step s op) n = vol s n /\ incl (dur (step s op) n) (dur s n).
  Proof.
    intros s op n I G Hf Ht.
    assert (Hne : forall m, fin m = false -> name_eqb m n = false).
    { intros m Hm. apply name_eqb_false. intros E. subst m. rewrite Hf in Hm. discriminate. }
    destruct op as [m j|m j|j c|j|j|d|src dst|m rm|d]; simpl in *;
      try (split; [reflexivity | apply incl_refl]).
    - apply andb_true_iff in G. destruct G as [Hm _]. apply negb_true_iff in Hm.
      rewrite (Hne m Hm). split; [reflexivity | apply incl_refl].
    - apply andb_true_iff in G. destruct G as [Hm _]. apply negb_true_iff in Hm.
      destruct (vol s m); [split; [reflexivity | apply incl_refl]|].
      simpl. rewrite (Hne m Hm). split; [reflexivity | apply incl_refl].
    - split; [reflexivity|]. destruct (Pos.eqb (fst n) d); [|apply incl_refl].
      intros b [Hb|[]]. subst b. apply (inv_cur s I).
    - apply andb_true_iff in G. destruct G as [Hs _]. apply negb_true_iff in Hs.
      destruct (vol s src) as [j|]; [|split; [reflexivity | apply incl_refl]].
      simpl. rewrite Ht, (Hne src Hs). destruct (fin dst); simpl; split; try reflexivity; apply incl_refl.
    - rewrite Ht. split; [reflexivity | apply incl_refl].
  Qed.

  Theorem untouched_final_names_unchanged : forall p s n, inv s -> accepts s p = true -> fin n = true ->
    forallb (fun op => negb (touches op n)) p = true ->
    vol (run s p) n = vol s n /\ incl (dur (run s p) n) (dur s n) /\
    (forall i, vol s n = Some i -> inodes (run s p) i = inodes s i).
  Proof.
    intros p s n I A Hf Hall. split; [|split].
    - revert s I A. induction p as [|op r IH]; intros s I A; simpl in *; [reflexivity|].
      apply andb_true_iff in A. destruct A as [G A]. apply andb_true_iff in Hall. destruct Hall as [Ht Hall].
      apply negb_true_iff in Ht. destruct (frame_step s op n I G Hf Ht) as [E _].
      rewrite (IH Hall _ (step_inv s op I G) A). exact E.
    - revert s I A. induction p as [|op r IH]; intros s I A; simpl in *; [apply incl_refl|].
      apply andb_true_iff in A. destruct A as [G A]. apply andb_true_iff in Hall. destruct Hall as [Ht Hall].
      apply negb_true_iff in Ht. destruct (frame_step s op n I G Hf Ht) as [_ E].
      eapply incl_tran; [apply (IH Hall _ (step_inv s op I G) A) | exact E].
    - intros i Hv. apply pub_stable_run; [exact I | exact A | apply (inv_vol s n i I Hf Hv)].
  Qed.

  (* ---- no damage: only a flagged unlink ever makes a stored final name disappear ----- *)

  Lemma nodamage_step : forall s op n, inv s -> guard s op = true -> fin n = true -> unlinks op n = false ->
    (vol s n <> None -> vol (step s op) n <> None) /\
    (~ In None (dur s n) -> ~ In None (dur (step s op) n)).
  Proof.
    intros s op n I G Hf Hu.
    assert (Hne : forall m, fin m = false -> name_eqb m n = false).
    { intros m Hm. apply name_eqb_false. intros E. subst m. rewrite Hf in Hm. discriminate. }
    destruct op as [m j|m j|j c|j|j|d|src dst|m rm|d]; simpl in *; try (split; auto; fail).
    - apply andb_true_iff in G. destruct G as [Hm _]. apply negb_true_iff in Hm.
      rewrite (Hne m Hm). split; auto.
    - apply andb_true_iff in G. destruct G as [Hm _]. apply negb_true_iff in Hm.
      destruct (vol s m); [split; auto|]. simpl. rewrite (Hne m Hm). split; auto.
    - split; [auto|]. destruct (Pos.eqb (fst n) d); [|auto].
      intros Hn [Hb|[]]. apply Hn. rewrite <- Hb. apply (inv_cur s I).
    - apply andb_true_iff in G. destruct G as [Hs _]. apply negb_true_iff in Hs.
      destruct (vol s src) as [j|]; [|split; auto].
      simpl. rewrite (Hne src Hs).
      destruct (name_eqb dst n); destruct (fin dst); simpl; split; auto;
        try discriminate; intros Hn [Hb|Hb]; try discriminate; auto.
    - rewrite Hu. split; auto.
  Qed.

  Theorem stored_results_survive : forall p s n, inv s -> accepts s p = true -> fin n = true ->
    forallb (fun op => negb (unlinks op n)) p = true ->
    (vol s n <> None -> vol (run s p) n <> None) /\
    (~ In None (dur s n) -> ~ In None (dur (run s p) n)).
  Proof.
    induction p as [|op r IH]; intros s n I A Hf Hall; simpl in *; [auto|].
    apply andb_true_iff in A. destruct A as [G A]. apply andb_true_iff in Hall. destruct Hall as [Hu Hall].
    apply negb_true_iff in Hu. destruct (nodamage_step s op n I G Hf Hu) as [E1 E2].
    destruct (IH (step s op) n (step_inv s op I G) A Hf Hall) as [F1 F2]. split; auto.
  Qed.

  (* ---- provenance: what a final name holds is the old file or a file renamed onto it - *)

  Lemma origin_step : forall s op n i, guard s op = true -> fin n = true ->
    vol (step s op) n = Some i ->
    vol s n = Some i \/ exists src, op = Rename src n /\ vol s src = Some i.
  Proof.
    intros s op n i G Hf Hv.
    assert (Hne : forall m, fin m = false -> name_eqb m n = false).
    { intros m Hm. apply name_eqb_false. intros E. subst m. rewrite Hf in Hm. discriminate. }
    destruct op as [m j|m j|j c|j|j|d|src dst|m rm|d]; simpl in *; auto.
    - apply andb_true_iff in G. destruct G as [Hm _]. apply negb_true_iff in Hm.
      rewrite (Hne m Hm) in Hv. auto.
    - apply andb_true_iff in G. destruct G as [Hm _]. apply negb_true_iff in Hm.
      destruct (vol s m); [auto|]. simpl in Hv. rewrite (Hne m Hm) in Hv. auto.
    - apply andb_true_iff in G. destruct G as [Hs _]. apply negb_true_iff in Hs.
      destruct (vol s src) as [j|] eqn:Ev; [|auto].
      simpl in Hv. destruct (name_eqb dst n) eqn:Ed.
      + apply name_eqb_eq in Ed. subst dst. right. exists src. split; [reflexivity|].
        inversion Hv. subst j. exact Ev.
      + rewrite (Hne src Hs) in Hv. left. destruct (fin dst); exact Hv.
    - destruct (name_eqb m n); [discriminate | auto].
  Qed.

  Lemma origin_run : forall p s n i, accepts s p = true -> fin n = true ->
    vol (run s p) n = Some i ->
    vol s n = Some i \/
    exists p1 src p2, p = p1 ++ Rename src n :: p2 /\ vol (run s p1) src = Some i.
  Proof.
    induction p as [|op r IH]; intros s n i A Hf Hv; simpl in *; [auto|].
    apply andb_true_iff in A. destruct A as [G A].
    destruct (IH (step s op) n i A Hf Hv) as [H|[p1 [src [p2 [E H]]]]].
    - destruct (origin_step s op n i G Hf H) as [H1|[src [E H1]]]; [auto|].
      right. exists [], src, r. subst op. auto.
    - right. exists (op :: p1), src, p2. subst r. auto.
  Qed.

  Theorem final_content_provenance : forall p s n i, inv s -> accepts s p = true -> fin n = true ->
    vol (run s p) n = Some i ->
    exists c, complete c = true /\ i_data (inodes (run s p) i) = Cid c /\
      ((vol s n = Some i /\ i_data (inodes s i) = Cid c) \/
       (exists p1 src p2, p = p1 ++ Rename src n :: p2 /\ vol (run s p1) src = Some i /\
                          i_data (inodes (run s p1) i) = Cid c)).
  Proof.
    intros p s n i I A Hf Hv.
    pose proof (run_inv p s I A) as Ip.
    destruct (inv_pub _ Ip i (inv_vol _ n i Ip Hf Hv)) as [c [Hd [_ Hc]]].
    exists c. split; [exact Hc|]. split; [exact Hd|].
    destruct (origin_run p s n i A Hf Hv) as [H|[p1 [src [p2 [E H]]]]].
    - left. split; [exact H|].
      rewrite <- (pub_stable_run p s i I A (inv_vol s n i I Hf H)). exact Hd.
    - right. exists p1, src, p2. split; [exact E|]. split; [exact H|].
      subst p. destruct (accepts_app p1 _ s A) as [A1 A2].
      change (guard (run s p1) (Rename src n) && accepts (step (run s p1) (Rename src n)) p2 = true) in A2.
      apply andb_true_iff in A2. destruct A2 as [G A2].
      pose proof (run_inv p1 s I A1) as I1.
      set (s1 := run s p1) in *. set (s2 := step s1 (Rename src n)) in *.
      pose proof (step_inv s1 _ I1 G) as I2.
      assert (Hs2 : inodes s2 i = published (inodes s1 i)).
      { unfold s2. simpl. rewrite H, Hf. simpl. rewrite Pos.eqb_refl. reflexivity. }
      assert (Hp2 : i_pub (inodes s2 i) = true) by (rewrite Hs2; reflexivity).
      rewrite run_app in Hd. change (run (run s p1) (Rename src n :: p2)) with (run s2 p2) in Hd.
      rewrite (pub_stable_run p2 s2 i I2 A2 Hp2) in Hd. rewrite Hs2 in Hd. exact Hd.
  Qed.

  (* the executable all-prefix check used on concrete traces agrees with the theorem *)
  Lemma accepted_all_prefixes_ok : forall tr s ns, inv s -> accepts s tr = true ->
    forallb fin ns = true -> all_prefixes_ok fin complete s tr ns = true.
  Proof.
    induction tr as [|op r IH]; intros s ns I A Hns; simpl in *.
    - rewrite andb_true_r. unfold views_ok. apply forallb_forall. intros n Hn.
      rewrite forallb_forall in Hns. specialize (Hns n Hn).
      rewrite (inv_kill_ok s n I Hns). simpl. apply forallb_forall. intros o Ho.
      apply (inv_pl_ok s n o I Hns Ho).
    - apply andb_true_iff in A. destruct A as [G A]. apply andb_true_iff. split.
      + unfold views_ok. apply forallb_forall. intros n Hn.
        rewrite forallb_forall in Hns. specialize (Hns n Hn).
        rewrite (inv_kill_ok s n I Hns). simpl. apply forallb_forall. intros o Ho.
        apply (inv_pl_ok s n o I Hns Ho).
      + apply IH; [apply step_inv; assumption | exact A | exact Hns].
  Qed.

  (* ---- a result that is in the pack in every view stays available from the pack -------- *)
  Variable covers : cid -> name -> bool.

  Lemma fresh_step : forall s op d, makes_dir op d = false ->
    fresh_dir (step s op) d = true -> fresh_dir s d = true.
  Proof.
    intros s op d Hm H. destruct op as [m j|m j|j c|j|j|e|src dst|m rm|e]; simpl in *; try exact H.
    - destruct (vol s m); simpl in H; exact H.
    - destruct (Pos.eqb e d); [discriminate | exact H].
    - destruct (vol s src); [destruct (fin dst)|]; simpl in H; exact H.
    - rewrite Hm in H. exact H.
  Qed.

  Lemma covers_same_inodes : forall s s' n b, (forall i, b = Some i -> inodes s' i = inodes s i) ->
    pack_view_covers covers s' n b = pack_view_covers covers s n b.
  Proof. intros s s' n [i|] H; simpl; [rewrite (H i eq_refl); reflexivity | reflexivity]. Qed.

  Lemma covered_step : forall s op pk n, inv s -> guard s op = true -> fin pk = true ->
    touches op pk = false -> makes_dir op (fst pk) = false ->
    covered covers s pk n = true -> covered covers (step s op) pk n = true.
  Proof.
    intros s op pk n I G Hf Ht Hm C.
    destruct (frame_step s op pk I G Hf Ht) as [Ev Ed].
    unfold covered in *. rewrite forallb_forall in C. apply forallb_forall. intros b Hb.
    assert (Hold : In b (vol s pk :: pl_bindings s pk)).
    { destruct Hb as [Hb|Hb].
      - left. rewrite <- Ev. exact Hb.
      - right. unfold pl_bindings in *. apply in_app_or in Hb. apply in_or_app. destruct Hb as [Hb|Hb].
        + left. destruct (fresh_dir (step s op) (fst pk)) eqn:Ef; [|destruct Hb].
          rewrite (fresh_step s op (fst pk) Hm Ef). exact Hb.
        + right. apply Ed. exact Hb. }
    rewrite <- (C b Hold). apply covers_same_inodes. intros i Hi. subst b.
    apply pub_stable_step; [exact I | exact G |].
    destruct Hold as [Hv|Hp].
    - apply (inv_vol s pk i I Hf Hv).
    - unfold pl_bindings in Hp. apply in_app_or in Hp. destruct Hp as [Hp|Hp].
      + destruct (fresh_dir s (fst pk)); [destruct Hp as [Hp|[]]; discriminate | destruct Hp].
      + apply (inv_dur s I pk i Hf Hp).
  Qed.

  Lemma covered_run : forall p s pk n, inv s -> accepts s p = true -> fin pk = true ->
    forallb (fun op => negb (touches op pk) && negb (makes_dir op (fst pk))) p = true ->
    covered covers s pk n = true -> covered covers (run s p) pk n = true.
  Proof.
    induction p as [|op r IH]; intros s pk n I A Hf Hall C; simpl in *; [exact C|].
    apply andb_true_iff in A. destruct A as [G A]. apply andb_true_iff in Hall. destruct Hall as [H1 Hall].
    apply andb_true_iff in H1. destruct H1 as [Ht Hm]. apply negb_true_iff in Ht. apply negb_true_iff in Hm.
    apply IH; [apply step_inv; assumption | exact A | exact Hf | exact Hall |].
    apply covered_step; assumption.
  Qed.

  Lemma covered_views : forall s pk n, covered covers s pk n = true ->
    (exists c, kill_view s pk = Some (Cid c) /\ covers c n = true) /\
    (forall img, pl_image s img -> exists c, img pk = Some (Cid c) /\ covers c n = true).
  Proof.
    intros s pk n C. unfold covered in C. rewrite forallb_forall in C. split.
    - pose proof (C (vol s pk) (or_introl eq_refl)) as H. unfold kill_view.
      destruct (vol s pk) as [i|]; simpl in H; [|discriminate].
      destruct (i_data (inodes s i)) as [c|]; [|discriminate].
      destruct (i_synced (inodes s i)) as [c'|]; [|discriminate].
      apply andb_true_iff in H. destruct H as [H _]. exists c. auto.
    - intros img Himg. specialize (Himg pk). unfold pl_outcomes in Himg. apply in_map_iff in Himg.
      destruct Himg as [b [Eb Hb]]. pose proof (C b (or_intror Hb)) as H.
      destruct b as [i|]; simpl in H; [|discriminate].
      destruct (i_data (inodes s i)) as [c|]; [|discriminate].
      destruct (i_synced (inodes s i)) as [c'|] eqn:Es; [|discriminate].
      apply andb_true_iff in H. destruct H as [_ H]. exists c'. split; [symmetry; exact Eb | exact H].
  Qed.

  (* ---- the same facts for a history [h] from the empty jugdir followed by a write [w] -- *)

  Lemma hist_split : forall h w, write_protocol fin complete (h ++ w) = true ->
    inv (run empty_fs h) /\ accepts (run empty_fs h) w = true.
  Proof.
    intros h w A. destruct (accepts_app h w empty_fs A) as [A1 A2].
    split; [apply run_inv; [apply inv_empty | exact A1] | exact A2].
  Qed.

  Theorem wp_reader_sees_complete : forall tr p1 p2 q n i, write_protocol fin complete tr = true ->
    tr = p1 ++ p2 ++ q -> fin n = true -> vol (run empty_fs p1) n = Some i ->
    exists c, complete c = true /\ i_data (inodes (run empty_fs p1) i) = Cid c /\
              i_data (inodes (run empty_fs (p1 ++ p2)) i) = Cid c.
  Proof. intros tr p1 p2 q n i A. apply reader_sees_complete; [apply inv_empty | exact A]. Qed.

  Theorem wp_untouched : forall h w n, write_protocol fin complete (h ++ w) = true -> fin n = true ->
    forallb (fun op => negb (touches op n)) w = true ->
    vol (run (run empty_fs h) w) n = vol (run empty_fs h) n /\
    incl (dur (run (run empty_fs h) w) n) (dur (run empty_fs h) n) /\
    (forall i, vol (run empty_fs h) n = Some i -> inodes (run (run empty_fs h) w) i = inodes (run empty_fs h) i).
  Proof.
    intros h w n A Hf Hall. destruct (hist_split h w A) as [I Aw].
    apply untouched_final_names_unchanged; assumption.
  Qed.

  Theorem wp_survive : forall h w n, write_protocol fin complete (h ++ w) = true -> fin n = true ->
    forallb (fun op => negb (unlinks op n)) w = true ->
    (vol (run empty_fs h) n <> None -> vol (run (run empty_fs h) w) n <> None) /\
    (~ In None (dur (run empty_fs h) n) -> ~ In None (dur (run (run empty_fs h) w) n)).
  Proof.
    intros h w n A Hf Hall. destruct (hist_split h w A) as [I Aw].
    apply stored_results_survive; assumption.
  Qed.

  Theorem wp_provenance : forall h w n i, write_protocol fin complete (h ++ w) = true -> fin n = true ->
    vol (run (run empty_fs h) w) n = Some i ->
    exists c, complete c = true /\ i_data (inodes (run (run empty_fs h) w) i) = Cid c /\
      ((vol (run empty_fs h) n = Some i /\ i_data (inodes (run empty_fs h) i) = Cid c) \/
       (exists p1 src p2, w = p1 ++ Rename src n :: p2 /\ vol (run (run empty_fs h) p1) src = Some i /\
                          i_data (inodes (run (run empty_fs h) p1) i) = Cid c)).
  Proof.
    intros h w n i A Hf Hv. destruct (hist_split h w A) as [I Aw].
    apply final_content_provenance; assumption.
  Qed.

  (* a final name only ever becomes bound by a Rename of a non-final (temporary) name *)
  Theorem wp_bound_only_by_rename : forall h op q n i, write_protocol fin complete (h ++ op :: q) = true ->
    fin n = true -> vol (run empty_fs h) n <> Some i -> vol (step (run empty_fs h) op) n = Some i ->
    exists src, op = Rename src n /\ fin src = false /\ vol (run empty_fs h) src = Some i /\
                synced_complete complete (inodes (run empty_fs h) i) = true.
  Proof.
    intros h op q n i A Hf Hn Hv. destruct (accepts_app h (op :: q) empty_fs A) as [_ A2].
    change (guard (run empty_fs h) op && accepts (step (run empty_fs h) op) q = true) in A2.
    apply andb_true_iff in A2. destruct A2 as [G _].
    destruct (origin_step _ op n i G Hf Hv) as [H|[src [E H]]]; [contradiction|].
    exists src. subst op. simpl in G. apply andb_true_iff in G. destruct G as [G1 G2].
    apply negb_true_iff in G1. rewrite H, Hf in G2. auto.
  Qed.

  (* once the key of n is in the pack pk in every view (which the harness lets Coq evaluate at each
     unlink of update_pack), whatever the writer does next - the unlink of n itself included - short of
     replacing the pack keeps the value available from the pack in every post-crash view *)
  Theorem wp_packed_stays_available : forall h w pk n, write_protocol fin complete (h ++ w) = true ->
    fin pk = true -> covered covers (run empty_fs h) pk n = true ->
    forallb (fun op => negb (touches op pk) && negb (makes_dir op (fst pk))) w = true ->
    (exists c, kill_view (run (run empty_fs h) w) pk = Some (Cid c) /\ covers c n = true) /\
    (forall img, pl_image (run (run empty_fs h) w) img -> exists c, img pk = Some (Cid c) /\ covers c n = true).
  Proof.
    intros h w pk n A Hf C Hall. destruct (hist_split h w A) as [I Aw].
    apply covered_views. apply covered_run; assumption.
  Qed.

  Theorem wp_all_prefixes_ok : forall tr ns, write_protocol fin complete tr = true ->
    forallb fin ns = true -> all_prefixes_ok fin complete empty_fs tr ns = true.
  Proof. intros tr ns A Hns. apply accepted_all_prefixes_ok; [apply inv_empty | exact A | exact Hns]. Qed.
End Facts.

(* ---- redis ---------------------------------------------------------------------------- *)
Lemma redis_dump_atomic : forall (s : kv) k enc p q, redis_dump k enc = p ++ q ->
  (rrun s p k = s k \/ rrun s p k = Some enc) /\ (forall j, j <> k -> rrun s p j = s j).
Proof.
  intros s k enc p q E. unfold redis_dump in E.
  destruct p as [|c p]; simpl in *.
  - split; auto.
  - inversion E as [[Ec Ep]]. destruct p; [|discriminate]. simpl. subst c. simpl. split.
    + right. rewrite Pos.eqb_refl. reflexivity.
    + intros j Hj. destruct (Pos.eqb k j) eqn:Ek; [|reflexivity].
      apply Pos.eqb_eq in Ek. subst j. contradiction.
Qed.
