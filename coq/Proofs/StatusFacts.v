(* C15 - proofs about Model/Status.v. *)
From Coq Require Import List PArith Bool Arith Lia.
From JugV Require Import Model.Dag Model.Status Proofs.DagFacts.
Import ListNotations.

Lemma cat_eqb_eq : forall a b, cat_eqb a b = true <-> a = b.
Proof. destruct a, b; simpl; split; intro H; try reflexivity; discriminate. Qed.

Lemma forallb_false : forall {A} (f : A -> bool) l,
  forallb f l = false <-> exists x, In x l /\ f x = false.
Proof.
  intros A f l. induction l as [|a r IH]; simpl.
  - split; [discriminate | intros [x [[] _]]].
  - rewrite andb_false_iff, IH. split.
    + intros [H|[x [Hx Fx]]]; [exists a; auto | exists x; auto].
    + intros [x [[Hx|Hx] Fx]]; [subst; left; exact Fx | right; exists x; auto].
Qed.

Lemma can_run_spec : forall st n, can_run st n = true <-> forall x, In x (n_deps n) -> st x = true.
Proof. intros. unfold can_run. apply forallb_forall. Qed.

Lemma can_run_false : forall st n, can_run st n = false <-> exists x, In x (n_deps n) /\ st x = false.
Proof. intros. unfold can_run. apply forallb_false. Qed.

Lemma lock_cat_spec : forall lk t,
  lock_cat lk t = match lk t with Free => Ready | Held => Active | Failed => CFailed end.
Proof. intros lk t. unfold lock_cat, cl_is_failed, cl_is_locked. destruct (lk t); reflexivity. Qed.

(* (b) the classification is the specification; in particular it is total and single-valued *)
Lemma classify_spec : forall st lk n c, classify st lk n = c <-> spec_cat st lk n c.
Proof.
  intros st lk n c. unfold classify. destruct (st (n_tid n)) eqn:S1.
  - destruct c; simpl; split; intro H; try reflexivity; try discriminate; try exact S1;
      destruct H as [H _]; congruence.
  - destruct (can_run st n) eqn:R.
    + rewrite lock_cat_spec. pose proof (proj1 (can_run_spec st n) R) as R1.
      destruct (lk (n_tid n)) eqn:L; destruct c; simpl; split; intro H;
        try reflexivity; try discriminate; try congruence;
        try (repeat split; assumption);
        try (destruct H as [_ [x [Hx Fx]]]; rewrite (R1 x Hx) in Fx; discriminate);
        try (destruct H as [_ [_ E]]; congruence).
    + pose proof (proj1 (can_run_false st n) R) as R1.
      destruct c; simpl; split; intro H;
        try reflexivity; try discriminate; try congruence;
        try (split; [exact S1 | exact R1]);
        try (destruct H as [_ [A _]]; destruct R1 as [x [Hx Fx]]; rewrite (A x Hx) in Fx; discriminate).
Qed.

Lemma spec_cat_total : forall st lk n, exists c, spec_cat st lk n c.
Proof. intros. exists (classify st lk n). apply classify_spec. reflexivity. Qed.

Lemma spec_cat_unique : forall st lk n c1 c2, spec_cat st lk n c1 -> spec_cat st lk n c2 -> c1 = c2.
Proof. intros st lk n c1 c2 H1 H2. apply classify_spec in H1. apply classify_spec in H2. congruence. Qed.

(* ---- (a) the counters partition the tasks ---------------------------------------------------------- *)
Lemma count_partition : forall ev nm,
  count nm Complete ev + count nm Waiting ev + count nm CFailed ev + count nm Active ev + count nm Ready ev
  = length (filter (fun e => Pos.eqb (fst e) nm) ev).
Proof.
  intros ev nm. unfold count. induction ev as [|[k c] r IH]; simpl; [reflexivity|].
  destruct (Pos.eqb k nm); destruct c; simpl; lia.
Qed.

Lemma events_named : forall d st lk nm,
  length (filter (fun e => Pos.eqb (fst e) nm) (status_events d st lk)) = tasks_named nm d.
Proof.
  intros d st lk nm. unfold status_events, tasks_named. induction d as [|n r IH]; simpl; [reflexivity|].
  destruct (Pos.eqb (n_name n) nm); simpl; rewrite IH; reflexivity.
Qed.

Lemma total_partition : forall ev,
  total Complete ev + total Waiting ev + total CFailed ev + total Active ev + total Ready ev = length ev.
Proof.
  intros ev. unfold total. induction ev as [|[k c] r IH]; simpl; [reflexivity|].
  destruct c; simpl; lia.
Qed.

Lemma list_sum_add : forall {A} (f g : A -> nat) l,
  list_sum (map (fun x => f x + g x) l) = list_sum (map f l) + list_sum (map g l).
Proof. intros A f g l. induction l as [|a r IH]; simpl; [reflexivity | rewrite IH; lia]. Qed.

Lemma indicator_sum : forall ks k (q : bool), NoDup ks -> In k ks ->
  list_sum (map (fun nm => if Pos.eqb k nm && q then 1 else 0) ks) = if q then 1 else 0.
Proof.
  induction ks as [|a r IH]; intros k q ND I; [contradiction|].
  inversion ND as [|a' r' NI ND']; subst. simpl. destruct I as [I|I].
  - subst a. rewrite Pos.eqb_refl. simpl.
    assert (Z : list_sum (map (fun nm => if Pos.eqb k nm && q then 1 else 0) r) = 0).
    { clear IH ND ND'. induction r as [|b r IHr]; simpl; [reflexivity|].
      destruct (Pos.eqb k b) eqn:E.
      - apply Pos.eqb_eq in E. subst b. exfalso. apply NI. left. reflexivity.
      - simpl. apply IHr. intros H. apply NI. right. exact H. }
    rewrite Z. destruct q; reflexivity.
  - destruct (Pos.eqb k a) eqn:E.
    + apply Pos.eqb_eq in E. subst a. contradiction.
    + simpl. apply IH; assumption.
Qed.

(* the Total row is the column sum over the task names *)
Lemma total_by_name : forall ev ks c, NoDup ks -> (forall e, In e ev -> In (fst e) ks) ->
  total c ev = list_sum (map (fun nm => count nm c ev) ks).
Proof.
  induction ev as [|[k c0] r IH]; intros ks c ND A.
  - unfold total, count. simpl. clear ND A. induction ks; simpl; auto.
  - assert (E : forall nm, count nm c ((k, c0) :: r) =
                           (if Pos.eqb k nm && cat_eqb c0 c then 1 else 0) + count nm c r).
    { intros nm. unfold count. simpl. destruct (Pos.eqb k nm && cat_eqb c0 c); reflexivity. }
    rewrite (map_ext _ _ E). rewrite list_sum_add.
    rewrite indicator_sum; [|exact ND | apply (A (k, c0)); left; reflexivity].
    rewrite <- (IH ks c ND); [|intros e He; apply A; right; exact He].
    unfold total. simpl. destruct (cat_eqb c0 c); reflexivity.
Qed.

(* ---- (d) check ----------------------------------------------------------------------------------------- *)
Lemma check_loop_spec : forall ns st,
  (check_loop ns st = 0 <-> forall n, In n ns -> st (n_tid n) = true) /\
  (check_loop ns st = 0 \/ check_loop ns st = 1).
Proof.
  induction ns as [|a r IH]; intros st; simpl.
  - split; [split; [intros _ n [] | reflexivity] | left; reflexivity].
  - destruct (st (n_tid a)) eqn:S1.
    + destruct (IH st) as [A B]. split; [|exact B]. rewrite A. split.
      * intros H n [Hn|Hn]; [subst; exact S1 | apply H; exact Hn].
      * intros H n Hn. apply H. right. exact Hn.
    + split; [|right; reflexivity]. split; [discriminate|].
      intros H. rewrite (H a (or_introl eq_refl)) in S1. discriminate.
Qed.

Lemma check_spec : forall d st,
  (check d st = 0 <-> forall t, In t (tids d) -> st t = true) /\ (check d st = 0 \/ check d st = 1).
Proof.
  intros d st. unfold check. destruct (check_loop_spec (rev d) st) as [A B]. split; [|exact B].
  rewrite A. split.
  - intros H t Ht. apply In_tids in Ht. destruct Ht as [n [Hn T]]. subst t. apply H. apply in_rev in Hn. exact Hn.
  - intros H n Hn. apply H. apply In_tids. exists n. split; [apply in_rev; exact Hn | reflexivity].
Qed.

(* ---- (c) the cache ------------------------------------------------------------------------------------- *)
Lemma nth_error_map' : forall {A B} (f : A -> B) l j, nth_error (map f l) j = option_map f (nth_error l j).
Proof. intros A B f l. induction l as [|a r IH]; intros [|j]; simpl; auto. Qed.

Lemma Forall2_nth_error_l : forall {A B} (R : A -> B -> Prop) l1 l2 j a,
  Forall2 R l1 l2 -> nth_error l1 j = Some a -> exists b, nth_error l2 j = Some b /\ R a b.
Proof.
  intros A B R l1 l2 j a H. revert j. induction H as [|x y l1 l2 Rxy H IH]; intros [|j] E; simpl in *; try discriminate.
  - inversion E; subst. exists y. auto.
  - apply IH. exact E.
Qed.

Lemma Forall2_map_eq : forall {A B C} (R : A -> B -> Prop) (f : A -> C) (g : B -> C) l1 l2,
  Forall2 R l1 l2 -> (forall a b, R a b -> f a = g b) -> map f l1 = map g l2.
Proof.
  intros A B C R f g l1 l2 H E. induction H as [|x y l1 l2 Rxy H IH]; simpl; [reflexivity|].
  rewrite (E x y Rxy), IH. reflexivity.
Qed.

Lemma Forall2_map_r : forall {A B} (R R' : A -> B -> Prop) (f : B -> B) l1 l2,
  Forall2 R l1 l2 -> (forall a b, R a b -> R' a (f b)) -> Forall2 R' l1 (map f l2).
Proof.
  intros A B R R' f l1 l2 H E. induction H as [|x y l1 l2 Rxy H IH]; simpl; constructor; auto.
Qed.

Lemma Forall2_impl' : forall {A B} (R R' : A -> B -> Prop) l1 l2,
  Forall2 R l1 l2 -> (forall a b, R a b -> R' a b) -> Forall2 R' l1 l2.
Proof. intros A B R R' l1 l2 H E. induction H; constructor; auto. Qed.

Lemma is_status_true : forall s c, is_status s c = true <-> s = Some c.
Proof.
  intros [c'|] c; simpl.
  - rewrite cat_eqb_eq. split; [intros; subst; reflexivity | intros H; inversion H; reflexivity].
  - split; discriminate.
Qed.

Section Cache.
  Variable d : dag.

  (* a row of the cache describes its task, and what it remembers is still true *)
  Definition entry_ok (st : store) (n : node) (e : centry) : Prop :=
    ce_name e = n_name n /\ ce_hash e = n_tid n /\
    map (nth_error (tids d)) (ce_deps e) = map Some (n_deps n) /\
    (ce_status e = Some Complete -> st (n_tid n) = true) /\
    (ce_status e = Some Ready -> can_run st n = true).
  Definition db_ok (st : store) (db : cache_db) : Prop := Forall2 (entry_ok st) d db.

  Lemma db_ok_mono : forall st st' db, db_ok st db -> (forall t, st t = true -> st' t = true) -> db_ok st' db.
  Proof.
    intros st st' db H M. unfold db_ok in *. eapply Forall2_impl'; [exact H|].
    intros n e [A [B [C [D E]]]]. repeat split; auto.
    intros S1. apply can_run_spec. intros x Hx. apply M. apply (proj1 (can_run_spec st n) (E S1)). exact Hx.
  Qed.

  Lemma dep_ok_eq : forall st db, db_ok st db -> forall js xs,
    map (nth_error (tids d)) js = map Some xs -> forallb (dep_ok db st) js = forallb st xs.
  Proof.
    intros st db H. induction js as [|j js IH]; intros [|x xs] E; simpl in *; try discriminate; [reflexivity|].
    inversion E as [[E1 E2]]. rewrite (IH xs E2). f_equal.
    unfold tids in E1. rewrite nth_error_map' in E1. destruct (nth_error d j) as [n'|] eqn:N; simpl in E1; [|discriminate].
    inversion E1; subst x.
    destruct (Forall2_nth_error_l _ _ _ _ _ H N) as [e' [Ne [A [B [C [D _]]]]]].
    unfold dep_ok. rewrite Ne. rewrite B.
    destruct (is_status (ce_status e') Complete) eqn:I; simpl; [|reflexivity].
    apply is_status_true in I. symmetry. apply D. exact I.
  Qed.

  Lemma new_cat_eq : forall st lk db n e, db_ok st db -> entry_ok st n e ->
    new_cat db st lk e = classify st lk n.
  Proof.
    intros st lk db n e H [A [B [C [D E]]]]. unfold new_cat, classify. rewrite B.
    destruct (is_status (ce_status e) Complete) eqn:I.
    - apply is_status_true in I. rewrite (D I). reflexivity.
    - simpl. destruct (st (n_tid n)); [reflexivity|].
      destruct (is_status (ce_status e) Ready) eqn:R.
      + apply is_status_true in R. rewrite (E R). reflexivity.
      + rewrite (dep_ok_eq st db H _ _ C). reflexivity.
  Qed.

  (* one cached call on a sound cache prints what the uncached command prints, and leaves a sound cache *)
  Lemma update_ok : forall st lk db, db_ok st db ->
    fst (update_status db st lk) = status_events d st lk /\ db_ok st (snd (update_status db st lk)).
  Proof.
    intros st lk db H. unfold update_status, status_events. simpl. split.
    - symmetry. eapply Forall2_map_eq; [exact H|]. intros n e O.
      rewrite (new_cat_eq st lk db n e H O). destruct O as [A _]. rewrite A. reflexivity.
    - unfold db_ok. eapply Forall2_map_r; [exact H|]. intros n e O.
      rewrite (new_cat_eq st lk db n e H O). destruct O as [A [B [C _]]].
      unfold entry_ok, set_status, ce_name, ce_hash, ce_status, ce_deps in *. simpl. repeat split; auto.
      + intros S1. inversion S1 as [S2]. apply (proj1 (classify_spec st lk n Complete) S2).
      + intros S1. inversion S1 as [S2]. apply can_run_spec.
        destruct (proj1 (classify_spec st lk n Ready) S2) as [_ [R _]]. exact R.
  Qed.

  Lemma cached_run_some : forall db st lk r,
    cached_run d (Some db) ((st, lk) :: r) =
    Some (fst (update_status db st lk)) :: cached_run d (Some (snd (update_status db st lk))) r.
  Proof. reflexivity. Qed.

  Lemma cached_run_ok : forall h db prev, db_ok prev db -> monotone prev h ->
    cached_run d (Some db) h = map (fun sl => Some (status_events d (fst sl) (snd sl))) h.
  Proof.
    induction h as [|[st lk] r IH]; intros db prev H M; [reflexivity|].
    destruct M as [M1 M2]. pose proof (db_ok_mono prev st db H M1) as H1.
    destruct (update_ok st lk db H1) as [A B].
    rewrite cached_run_some. rewrite A. rewrite (IH _ st B M2). reflexivity.
  Qed.

  (* load_jugfile *)
  Definition h2ok (p : list node) (m : list (tid * nat)) : Prop :=
    (forall t j, h2idx_get m t = Some j -> nth_error (tids p) j = Some t) /\
    (forall t, In t (tids p) -> exists j, h2idx_get m t = Some j).

  Lemma map_opt_ok : forall (m : list (tid * nat)) l,
    (forall x, In x l -> exists j, h2idx_get m x = Some j) ->
    exists ix, map_opt (h2idx_get m) l = Some ix /\ Forall2 (fun x j => h2idx_get m x = Some j) l ix.
  Proof.
    intros m. induction l as [|x r IH]; intros H; simpl.
    - exists []. split; [reflexivity | constructor].
    - destruct (H x (or_introl eq_refl)) as [j Ej]. destruct IH as [ix [E F]]; [intros y Hy; apply H; right; exact Hy|].
      rewrite Ej, E. exists (j :: ix). split; [reflexivity | constructor; assumption].
  Qed.

  Lemma nth_error_app_l : forall {A} (l l' : list A) j a, nth_error l j = Some a -> nth_error (l ++ l') j = Some a.
  Proof.
    intros A l l' j a H. rewrite nth_error_app1; [exact H|]. apply nth_error_Some. congruence.
  Qed.

  Definition fresh_ok (all : list node) (n : node) (e : centry) : Prop :=
    ce_name e = n_name n /\ ce_hash e = n_tid n /\ ce_status e = None /\
    map (nth_error (tids all)) (ce_deps e) = map Some (n_deps n).

  Lemma load_from_ok : forall r p m, ordered_dag (p ++ r) -> h2ok p m ->
    exists rest, load_from r (length p) m = Some rest /\ Forall2 (fresh_ok (p ++ r)) r rest.
  Proof.
    induction r as [|n r IH]; intros p m W [H1 H2]; simpl.
    - exists []. split; [reflexivity | constructor].
    - pose proof (W p n r eq_refl) as D.
      destruct (map_opt_ok m (n_deps n)) as [ix [E F]]; [intros x Hx; apply H2; apply D; exact Hx|].
      rewrite E.
      assert (W2 : ordered_dag ((p ++ [n]) ++ r)) by (rewrite <- app_assoc; exact W).
      destruct (IH (p ++ [n]) ((n_tid n, length p) :: m) W2) as [rest [L G]].
      { split.
        - intros t j G. simpl in G. destruct (Pos.eqb (n_tid n) t) eqn:Et.
          + apply Pos.eqb_eq in Et. inversion G; subst. rewrite tids_app. unfold tids at 1.
            rewrite nth_error_app2; rewrite map_length; [|lia]. rewrite Nat.sub_diag. reflexivity.
          + rewrite tids_app. apply nth_error_app_l. apply H1. exact G.
        - intros t Ht. simpl. destruct (Pos.eqb (n_tid n) t) eqn:Et; [eexists; reflexivity|].
          apply H2. rewrite tids_app in Ht. apply in_app_or in Ht. destruct Ht as [Ht|[Ht|[]]]; [exact Ht|].
          simpl in Ht. apply Pos.eqb_neq in Et. contradiction. }
      rewrite app_length in L. simpl in L. rewrite Nat.add_1_r in L. rewrite L.
      exists ((n_name n, n_tid n, None, ix) :: rest). split; [reflexivity|].
      constructor.
      + unfold fresh_ok, ce_name, ce_hash, ce_status, ce_deps. simpl. repeat split.
        clear - F H1. induction F as [|x j l ix Hxj F IHF]; simpl; [reflexivity|].
        rewrite IHF. f_equal. rewrite tids_app. apply nth_error_app_l. apply H1. exact Hxj.
      + rewrite <- app_assoc in G. exact G.
  Qed.

  Lemma load_jugfile_ok : ordered_dag d -> exists db, load_jugfile d = Some db /\ forall st, db_ok st db.
  Proof.
    intros W. destruct (load_from_ok d [] [] W) as [db [L F]].
    - split; [intros t j G; discriminate | intros t []].
    - exists db. split; [exact L|]. intros st. unfold db_ok. eapply Forall2_impl'; [exact F|].
      intros n e [A [B [C D]]]. unfold entry_ok. repeat split; auto; rewrite C; discriminate.
  Qed.

  (* (c) along every history in which results only grow, every cached call prints exactly what the
     uncached command would print at that moment *)
  Lemma cached_eq_uncached : ordered_dag d -> forall h, monotone (fun _ => false) h ->
    cached_run d None h = map (fun sl => Some (status_events d (fst sl) (snd sl))) h.
  Proof.
    intros W h M. destruct h as [|[st lk] r]; [reflexivity|].
    destruct (load_jugfile_ok W) as [db [L O]].
    assert (E : cached_run d None ((st, lk) :: r) = cached_run d (Some db) ((st, lk) :: r)).
    { simpl. unfold cached_call. rewrite L. reflexivity. }
    rewrite E. apply (cached_run_ok ((st, lk) :: r) db st (O st)).
    destruct M as [_ M2]. split; [auto | exact M2].
  Qed.
End Cache.

(* the cache can be built ONLY for jugfiles whose tasks are created in dependency order: a
   dependency created after its consumer is the KeyError of load_jugfile (exit status 1) *)
Lemma map_opt_some : forall {A B} (f : A -> option B) l ys, map_opt f l = Some ys ->
  forall x, In x l -> exists y, f x = Some y.
Proof.
  intros A B f. induction l as [|a r IH]; intros ys H x Hx; [contradiction|]. simpl in H.
  destruct (f a) as [y|] eqn:Fa; [|discriminate]. destruct (map_opt f r) as [ys'|] eqn:Fr; [|discriminate].
  destruct Hx as [Hx|Hx]; [subst; eexists; exact Fa | eapply IH; eauto].
Qed.

Lemma load_from_some_ordered : forall r p m rest,
  (forall t j, h2idx_get m t = Some j -> In t (tids p)) ->
  load_from r (length p) m = Some rest ->
  forall p2 n s, r = p2 ++ n :: s -> forall x, In x (n_deps n) -> In x (tids (p ++ p2)).
Proof.
  induction r as [|a r IH]; intros p m rest K L p2 n s E x Hx; [destruct p2; discriminate|].
  simpl in L. destruct (map_opt (h2idx_get m) (n_deps a)) as [ix|] eqn:Mo; [|discriminate].
  destruct (load_from r (S (length p)) ((n_tid a, length p) :: m)) as [rest'|] eqn:Lr; [|discriminate].
  destruct p2 as [|a' p2'].
  - simpl in E. inversion E; subst. rewrite app_nil_r.
    destruct (map_opt_some _ _ _ Mo x Hx) as [j Gj]. eapply K; eauto.
  - simpl in E. inversion E; subst.
    replace (p ++ a' :: p2') with ((p ++ [a']) ++ p2') by (rewrite <- app_assoc; reflexivity).
    apply (IH (p ++ [a']) ((n_tid a', length p) :: m) rest') with (n := n) (s := s); auto.
    + intros t j G. simpl in G. rewrite tids_app. apply in_or_app.
      destruct (Pos.eqb (n_tid a') t) eqn:Et.
      * apply Pos.eqb_eq in Et. right. left. exact Et.
      * left. eapply K; eauto.
    + rewrite app_length. simpl. rewrite Nat.add_1_r. exact Lr.
Qed.

Lemma load_jugfile_iff_ordered : forall d, (exists db, load_jugfile d = Some db) <-> ordered_dag d.
Proof.
  intros d. split.
  - intros [db L] p n s E x Hx.
    apply (load_from_some_ordered d [] [] db) with (p2 := p) (n := n) (s := s); auto.
    intros t j G. discriminate.
  - intros O. destruct (load_jugfile_ok d O) as [db [L _]]. exists db. exact L.
Qed.

(* a cell of the table counts the tasks of that name which classify into that column *)
Lemma count_events : forall d st lk nm c,
  count nm c (status_events d st lk) =
  length (filter (fun n => Pos.eqb (n_name n) nm && cat_eqb (classify st lk n) c) d).
Proof.
  intros d st lk nm c. unfold count, status_events. induction d as [|n r IH]; simpl; [reflexivity|].
  destruct (Pos.eqb (n_name n) nm && cat_eqb (classify st lk n) c); simpl; rewrite IH; reflexivity.
Qed.

Lemma total_events : forall d st lk c,
  total c (status_events d st lk) = length (filter (fun n => cat_eqb (classify st lk n) c) d).
Proof.
  intros d st lk c. unfold total, status_events. induction d as [|n r IH]; simpl; [reflexivity|].
  destruct (cat_eqb (classify st lk n) c); simpl; rewrite IH; reflexivity.
Qed.

Lemma counts_partition : forall d st lk,
  let ev := status_events d st lk in
  (forall nm, count nm Complete ev + count nm Waiting ev + count nm CFailed ev + count nm Active ev +
              count nm Ready ev = tasks_named nm d) /\
  total Complete ev + total Waiting ev + total CFailed ev + total Active ev + total Ready ev = length d /\
  (forall ks c, NoDup ks -> (forall n, In n d -> In (n_name n) ks) ->
                total c ev = list_sum (map (fun nm => count nm c ev) ks)).
Proof.
  intros d st lk ev. split; [|split].
  - intros nm. unfold ev. rewrite count_partition. apply events_named.
  - unfold ev. rewrite total_partition. unfold status_events. apply map_length.
  - intros ks c ND A. apply total_by_name; [exact ND|]. intros e He. unfold ev, status_events in He.
    apply in_map_iff in He. destruct He as [n [E Hn]]. subst e. simpl. apply A. exact Hn.
Qed.

(* check exits 0 exactly when status would put every task into the Complete column *)
Lemma check_all_complete : forall d st lk,
  check d st = 0 <-> (forall n, In n d -> classify st lk n = Complete).
Proof.
  intros d st lk. rewrite (proj1 (check_spec d st)). split.
  - intros H n Hn. apply classify_spec. simpl. apply H. apply In_tids. exists n. auto.
  - intros H t Ht. apply In_tids in Ht. destruct Ht as [n [Hn T]]. subst t.
    apply (proj1 (classify_spec st lk n Complete) (H n Hn)).
Qed.

(* the witness: results = {}; merged = merge(results); results[s] = analyse(load(s)) (twice);
   report = render(merged).  Well-formed (acyclic), every other command handles it; the status cache
   rejects it (its documented precondition is creation in dependency order) *)
Definition late_dag : dag :=
  [(1, 10, [3; 5]); (2, 11, []); (3, 12, [2]); (4, 11, []); (5, 12, [4]); (6, 13, [1])]%positive.

Lemma cached_rejects_late : exists d : dag, wf_dag d /\
  forall st lk, cached_run d None [(st, lk)] = [None] /\ length (status_events d st lk) = length d.
Proof.
  exists late_dag. split.
  - apply wf_dagb_sound. vm_compute. reflexivity.
  - intros st lk. split; reflexivity.
Qed.

(* when the jugfile does not select its store, the two stores are one and the call is [cached_call] *)
Lemma cached_dirs_same : forall d file x, cached_call_dirs d file x x = cached_call d file (fst x) (snd x).
Proof. intros d file x. unfold cached_call_dirs, cached_call. destruct file; reflexivity. Qed.

(* known finding D27: a jugfile that selects its store (jug.set_jugdir) while --jugdir names another,
   empty location.  u = a(1); v = b(u).  First call: nothing stored; then both results are stored
   (only added); the second cached call still prints ready / waiting, the uncached one complete. *)
Lemma cached_ignores_jugfile_store : exists (d : dag) (s1 s2 sa : store) (lk : locks),
  ordered_dag d /\ monotone (fun _ => false) [(s1, lk); (s2, lk)] /\
  exists ev1 db1 ev2 db2,
    cached_call_dirs d None (s1, lk) (sa, lk) = Some (ev1, db1) /\ ev1 = status_events d s1 lk /\
    cached_call_dirs d (Some db1) (s2, lk) (sa, lk) = Some (ev2, db2) /\
    map snd ev2 = [Ready; Waiting] /\ map snd (status_events d s2 lk) = [Complete; Complete].
Proof.
  exists [(1, 10, []); (2, 11, [1])]%positive, (st_of []), (st_of [1; 2]%positive), (st_of []), (lk_of []).
  split; [apply ordered_dagb_spec; reflexivity|].
  split; [simpl; repeat split; intros t H; discriminate|].
  eexists. eexists. eexists. eexists. repeat split.
Qed.
