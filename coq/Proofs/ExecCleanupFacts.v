(* C10 x C12/C13/C11: the operator commands of the execution protocol ARE `jug cleanup`.
   Model/Exec.v has two events that edit lock state wholesale: [ERemoveLocks] (recovery after a
   crash, C13) and [EReleaseFailed] (retry after --keep-failed, C11).  Model/Cleanup.v is the model of
   CleanupCommand.run on the three store layouts (C10's theorems).  Here: whenever a store of any
   backend REPRESENTS a protocol state (same results, same locked names, same failed names), running
   `cleanup --locks-only` / `--failed-only` on it yields a store that represents the state after
   [ERemoveLocks] / [EReleaseFailed]; and a plain `cleanup` (with or without --keep-locks) given the
   tasks of the jugfile keeps every result the protocol knows of. *)
From Coq Require Import List Arith Bool PArith.
From JugV Require Import Model.Cleanup Proofs.CleanupFacts.
From JugV Require Import Model.Exec Proofs.ExecFacts.
Import ListNotations.

Definition represents {S : Type} (B : backend S) {V : Type} (s : st V) (x : S) : Prop :=
  (forall k, In k (b_results B x) <-> results s k <> None) /\
  (forall k, In k (b_locks B x) <-> locks s k <> LFree) /\
  (forall k, b_failed B x k = true <-> locks s k = LFailed).

Section S.
  Context {V : Type}.
  Variable C : cfg V.

  (* ---- generic: what a backend's cleanup must do to its observations ---------------------------- *)
  Lemma repr_remove_locks : forall {S} (B : backend S) (s s' : st V) (x x' : S),
    (forall k, In k (b_results B x') <-> In k (b_results B x)) ->
    (forall k, ~ In k (b_locks B x')) -> (forall k, b_failed B x' k = false) ->
    represents B s x -> step0 C s ERemoveLocks = Some s' -> represents B s' x'.
  Proof.
    intros S B s s' x x' Hr Hl Hf [R [L Fl]] H. break_step H. unfold represents. simpl. split; [|split].
    - intros k. rewrite Hr. apply R.
    - intros k. split; [intros Hin; elim (Hl k Hin) | intros Hn; congruence].
    - intros k. rewrite Hf. split; discriminate.
  Qed.

  Lemma repr_release_failed : forall {S} (B : backend S) (s s' : st V) (x x' : S),
    (forall k, In k (b_results B x') <-> In k (b_results B x)) ->
    (forall k, In k (b_locks B x') <-> In k (b_locks B x) /\ b_failed B x k = false) ->
    (forall k, b_failed B x' k = false) ->
    represents B s x -> step0 C s EReleaseFailed = Some s' -> represents B s' x'.
  Proof.
    intros S B s s' x x' Hr Hl Hf [R [L Fl]] H. break_step H. unfold represents. simpl. split; [|split].
    - intros k. rewrite Hr. apply R.
    - intros k. rewrite Hl, L. specialize (Fl k). destruct (locks s k) eqn:E.
      + split; [intros [A _]; congruence | intros A; congruence].
      + split; [intros _; discriminate | intros _; split; [discriminate|]].
        destruct (b_failed B x k); auto. discriminate (proj1 Fl eq_refl).
      + split; [intros [_ A] | intros A; congruence].
        rewrite (proj2 Fl eq_refl) in A. discriminate.
    - intros k. rewrite Hf. split; [discriminate|]. destruct (locks s k); discriminate.
  Qed.

  Lemma lock_failed_nil : forall {E} (lk : E -> option (key * bool)) l k,
    lock_entries lk l = [] -> lock_failed lk l k = false.
  Proof.
    intros E lk l k H. destruct (lock_failed lk l k) eqn:F; auto.
    apply lock_failed_true in F. rewrite H in F. destruct F.
  Qed.

  (* ---- cleanup --locks-only = ERemoveLocks, on every backend -------------------------------------- *)
  Theorem locks_only_is_remove_locks : forall (s s' : st V) active,
    step0 C s ERemoveLocks = Some s' ->
    (forall x, represents file_backend s x -> represents file_backend s' (cleanup_cmd file_backend LocksOnly active x)) /\
    (forall x, represents dict_backend s x -> represents dict_backend s' (cleanup_cmd dict_backend LocksOnly active x)) /\
    (forall x, represents redis_backend s x -> represents redis_backend s' (cleanup_cmd redis_backend LocksOnly active x)).
  Proof.
    intros s s' active H. split; [|split]; intros x R.
    - pose proof (file_locks_only active x) as P. cbv zeta in P.
      set (x' := cleanup_cmd file_backend LocksOnly active x) in *. destruct P as [A [B0 [_ [D E0]]]].
      eapply repr_remove_locks; eauto.
      + intros k. simpl b_results. unfold file_results, packed_of. rewrite A, B0. reflexivity.
      + intros k. simpl b_locks. rewrite E0. auto.
      + intros k. simpl b_failed. unfold file_failed. rewrite D. reflexivity.
    - pose proof (kv_locks_only active x) as P. cbv zeta in P. destruct P as [_ P].
      set (x' := cleanup_cmd dict_backend LocksOnly active x) in *. destruct P as [A [_ [D E0]]].
      eapply repr_remove_locks; eauto.
      + intros k. simpl b_results. rewrite A. reflexivity.
      + intros k. simpl b_locks. rewrite E0. auto.
      + intros k. simpl b_failed. unfold kv_failed. apply lock_failed_nil. exact D.
    - pose proof (kv_locks_only active x) as P. cbv zeta in P. destruct P as [Eq P]. rewrite Eq in P.
      set (x' := cleanup_cmd redis_backend LocksOnly active x) in *. destruct P as [A [_ [D E0]]].
      eapply repr_remove_locks; eauto.
      + intros k. simpl b_results. rewrite A. reflexivity.
      + intros k. simpl b_locks. rewrite E0. auto.
      + intros k. simpl b_failed. unfold kv_failed. apply lock_failed_nil. exact D.
  Qed.

  (* ---- cleanup --failed-only = EReleaseFailed, on every backend ----------------------------------- *)
  Theorem failed_only_is_release_failed : forall (s s' : st V) active,
    step0 C s EReleaseFailed = Some s' ->
    (forall x, represents file_backend s x -> represents file_backend s' (cleanup_cmd file_backend FailedOnly active x)) /\
    (forall x, represents dict_backend s x -> represents dict_backend s' (cleanup_cmd dict_backend FailedOnly active x)) /\
    (forall x, represents redis_backend s x -> represents redis_backend s' (cleanup_cmd redis_backend FailedOnly active x)).
  Proof.
    intros s s' active H. split; [|split]; intros x R.
    - pose proof (file_failed_only active x) as P. cbv zeta in P.
      set (x' := cleanup_cmd file_backend FailedOnly active x) in *. destruct P as [A [B0 [_ [_ [E0 G]]]]].
      eapply repr_release_failed; eauto.
      intros k. simpl b_results. unfold file_results, packed_of. rewrite A, B0. reflexivity.
    - pose proof (kv_failed_only active x) as P. cbv zeta in P. destruct P as [_ P].
      set (x' := cleanup_cmd dict_backend FailedOnly active x) in *. destruct P as [A [_ [_ [E0 G]]]].
      eapply repr_release_failed; eauto.
      intros k. simpl b_results. rewrite A. reflexivity.
    - pose proof (kv_failed_only active x) as P. cbv zeta in P. destruct P as [Eq P]. rewrite Eq in P.
      set (x' := cleanup_cmd redis_backend FailedOnly active x) in *. destruct P as [A [_ [_ [E0 G]]]].
      eapply repr_release_failed; eauto.
      intros k. simpl b_results. rewrite A. reflexivity.
  Qed.

  (* ---- plain cleanup never takes a result of the jugfile away from the protocol ---------------------- *)
  Theorem cleanup_keeps_what_the_protocol_stored : forall (s : st V) (m : mode) active,
    (forall k, results s k <> None -> In k active) ->
    (forall x, represents file_backend s x -> forall k, In k (b_results file_backend (cleanup_cmd file_backend m active x)) <-> results s k <> None) /\
    (forall x, represents dict_backend s x -> forall k, In k (b_results dict_backend (cleanup_cmd dict_backend m active x)) <-> results s k <> None) /\
    (forall x, represents redis_backend s x -> forall k, In k (b_results redis_backend (cleanup_cmd redis_backend m active x)) <-> results s k <> None).
  Proof.
    intros s m active Hact.
    assert (G : forall {S} (B : backend S) (x x' : S),
               (forall k, In k active -> In k (b_results B x) -> In k (b_results B x')) ->
               (forall k, In k (b_results B x') -> In k (b_results B x)) ->
               represents B s x -> forall k, In k (b_results B x') <-> results s k <> None).
    { intros S B x x' Hkeep Hsub [R _] k. rewrite <- R. split; [apply Hsub|].
      intros Hin. apply Hkeep; auto. apply Hact. apply R. exact Hin. }
    destruct m.
    - split; [|split]; intros x R; apply (G _ _ x); auto; intros k.
      + intros Ha Hi. apply (proj1 (file_default active x)). auto.
      + intros Hi. apply (proj1 (file_default active x)) in Hi. tauto.
      + intros Ha Hi. apply (proj1 (dict_default active x)). auto.
      + intros Hi. apply (proj1 (dict_default active x)) in Hi. tauto.
      + intros Ha Hi. apply (proj1 (redis_default active x)). auto.
      + intros Hi. apply (proj1 (redis_default active x)) in Hi. tauto.
    - split; [|split]; intros x R; apply (G _ _ x); auto; intros k.
      + intros Ha Hi. apply (proj1 (file_keep_locks active x)). auto.
      + intros Hi. apply (proj1 (file_keep_locks active x)) in Hi. tauto.
      + intros Ha Hi. apply (proj1 (dict_keep_locks active x)). auto.
      + intros Hi. apply (proj1 (dict_keep_locks active x)) in Hi. tauto.
      + intros Ha Hi. apply (proj1 (redis_keep_locks active x)). auto.
      + intros Hi. apply (proj1 (redis_keep_locks active x)) in Hi. tauto.
    - split; [|split]; intros x R.
      + pose proof (file_locks_only active x) as P. cbv zeta in P.
        set (x' := cleanup_cmd file_backend LocksOnly active x) in *. destruct P as [A [B0 _]].
        apply (G _ _ x x'); auto; intros k; simpl b_results; unfold file_results, packed_of; rewrite A, B0; auto.
      + pose proof (kv_locks_only active x) as P. cbv zeta in P. destruct P as [_ P].
        set (x' := cleanup_cmd dict_backend LocksOnly active x) in *. destruct P as [A _].
        apply (G _ _ x x'); auto; intros k; simpl b_results; rewrite A; auto.
      + pose proof (kv_locks_only active x) as P. cbv zeta in P. destruct P as [Eq P]. rewrite Eq in P.
        set (x' := cleanup_cmd redis_backend LocksOnly active x) in *. destruct P as [A _].
        apply (G _ _ x x'); auto; intros k; simpl b_results; rewrite A; auto.
    - split; [|split]; intros x R.
      + pose proof (file_failed_only active x) as P. cbv zeta in P.
        set (x' := cleanup_cmd file_backend FailedOnly active x) in *. destruct P as [A [B0 _]].
        apply (G _ _ x x'); auto; intros k; simpl b_results; unfold file_results, packed_of; rewrite A, B0; auto.
      + pose proof (kv_failed_only active x) as P. cbv zeta in P. destruct P as [_ P].
        set (x' := cleanup_cmd dict_backend FailedOnly active x) in *. destruct P as [A _].
        apply (G _ _ x x'); auto; intros k; simpl b_results; rewrite A; auto.
      + pose proof (kv_failed_only active x) as P. cbv zeta in P. destruct P as [Eq P]. rewrite Eq in P.
        set (x' := cleanup_cmd redis_backend FailedOnly active x) in *. destruct P as [A _].
        apply (G _ _ x x'); auto; intros k; simpl b_results; rewrite A; auto.
  Qed.
End S.
