(* C02 / C11 / C12 / C13 <- C04: the execution protocol uses the locks only through the ATOMIC lock
   specification that C04 proves every backend to implement (Model/LockPrims.v [spec_op]: get on a
   free name wins and makes the caller the holder, get on a held or failed name answers False,
   release frees, fail on a held name marks it failed).

   The lock calls of ANY accepted run of the protocol (Model/Exec.v), replayed in order on that
   specification, (i) get exactly the answers the run observed and (ii) leave every name in exactly
   the state the protocol's own bookkeeping says.  So nothing in the protocol's theorems depends on
   a lock behaviour other than [spec_op]'s - and C04's theorems (Props/C04.v) say that the primitive
   sequences of jug's lock classes, under every interleaving, are linearizable to [spec_op]. *)
From Coq Require Import List Arith Bool PArith ZArith.
From JugV Require Import Model.LockPrims Model.Exec Proofs.ExecFacts Proofs.ExecTheorems.
Import ListNotations.

(* a call of the lock interface, or one of the two operator commands that edit lock state wholesale *)
Inductive lcall :=
| LCall (w : nat) (o : lockop) (t : tid) (answer : ores)
| LRemoveAll              (* jug cleanup --locks-only *)
| LReleaseFailed.         (* jug cleanup --failed-only *)

Definition lock_calls {V} (tr : list (ev V)) : list lcall :=
  flat_map (fun e => match e with
                     | ELock w t b => [LCall w OGet t (OB b)]
                     | EUnlock w t => [LCall w ORelease t OU]
                     | EFailMark w t => [LCall w OFail t (OB true)]
                     | ERemoveLocks => [LRemoveAll]
                     | EReleaseFailed => [LReleaseFailed]
                     | _ => []
                     end) tr.

Definition gupd (g : tid -> gst) (t : tid) (x : gst) : tid -> gst :=
  fun u => if Pos.eqb u t then x else g u.

(* the atomic specification applied to one call: the new lock state, and whether the observed answer
   is the one the specification gives *)
Definition spec_call (g : tid -> gst) (c : lcall) : (tid -> gst) * bool :=
  match c with
  | LCall w o t a => let (x, r) := spec_op o w (g t) in (gupd g t x, ores_eqb r a)
  | LRemoveAll => (fun _ => GFree, true)
  | LReleaseFailed => (fun t => match g t with GFailed => GFree | x => x end, true)
  end.

Fixpoint spec_calls (g : tid -> gst) (cs : list lcall) : (tid -> gst) * bool :=
  match cs with
  | [] => (g, true)
  | c :: r => let (g1, ok1) := spec_call g c in let (g2, ok2) := spec_calls g1 r in (g2, ok1 && ok2)
  end.

Definition abs_lock (l : lockst) : gst :=
  match l with LFree => GFree | LHeld w => GHeld w | LFailed => GFailed end.

Lemma spec_calls_app : forall a b g,
  spec_calls g (a ++ b) =
  let (g1, ok1) := spec_calls g a in let (g2, ok2) := spec_calls g1 b in (g2, ok1 && ok2).
Proof.
  induction a as [|c a IH]; intros b g; simpl.
  - destruct (spec_calls g b); reflexivity.
  - destruct (spec_call g c) as [g1 ok1]. rewrite IH.
    destruct (spec_calls g1 a) as [g2 ok2]. destruct (spec_calls g2 b) as [g3 ok3].
    now rewrite andb_assoc.
Qed.

Section S.
  Context {V : Type}.
  Variable C : cfg V.
  Hypothesis sem_frame : forall t r r',
    (forall d, In d (c_deps C t) -> r d = r' d) -> c_sem C t r = c_sem C t r'.

  (* one step of the protocol = the atomic specification on the lock calls of that step *)
  Lemma step_spec : forall (s s' : st V) e g, Inv C s -> Exec.step C s e = Some s' ->
    (forall t, g t = abs_lock (locks s t)) ->
    let (g', ok) := spec_calls g (lock_calls [e]) in
    ok = true /\ forall t, g' t = abs_lock (locks s' t).
  Proof.
    intros s s' e g I H Hg. destruct (step_inv_some C _ _ _ H) as [s1 [H1 E]]. subst s'. simpl locks.
    destruct e; unfold lock_calls; simpl.
    all: try solve [break_step H1; norm; simpl; split; auto].
    - (* ELock *)
      rewrite Hg. break_step H1; norm; simpl.
      all: split; auto.
      all: intros u; unfold gupd, upd; destruct (Pos.eqb u t) eqn:Eu; auto.
      all: apply Pos.eqb_eq in Eu; subst u; try rewrite Hg;
           match goal with Hq : locks _ _ = _ |- _ => rewrite Hq end; reflexivity.
    - (* EUnlock *)
      break_step H1; norm; simpl; split; auto.
      all: intros u; unfold gupd, upd; destruct (Pos.eqb u _); auto.
    - (* EFailMark: the caller holds the lock (invariant), so fail() answers True and marks *)
      break_step H1; norm; simpl.
      match goal with Hp : w_pc (ws s ?w) = PRaised ?t |- _ =>
        assert (Hl : locks s t = LHeld w) by (apply (I_lock C _ I); rewrite Hp; reflexivity) end.
      rewrite Hg, Hl. simpl. split; auto.
      intros u; unfold gupd, upd; destruct (Pos.eqb u _); auto.
    - (* EReleaseFailed *)
      break_step H1; simpl; split; auto. intros u. rewrite Hg. destruct (locks s u); reflexivity.
  Qed.

  Lemma run_spec : forall tr (s s' : st V) g, Inv C s -> Exec.run C s tr = Some s' ->
    (forall t, g t = abs_lock (locks s t)) ->
    let (g', ok) := spec_calls g (lock_calls tr) in
    ok = true /\ forall t, g' t = abs_lock (locks s' t).
  Proof.
    assert (Hc : forall e tr, lock_calls (e :: tr) = lock_calls [e] ++ @lock_calls V tr).
    { intros e tr. unfold lock_calls. simpl. now rewrite app_nil_r. }
    induction tr as [|e tr IH]; intros s s' g I H Hg; simpl in H.
    - inversion H; subst. simpl. auto.
    - destruct (Exec.step C s e) as [s1|] eqn:E; [|discriminate].
      rewrite Hc, spec_calls_app.
      assert (X := step_spec _ _ _ g I E Hg). destruct (spec_calls g (lock_calls [e])) as [g1 ok1].
      destruct X as [Hok1 Hg1].
      assert (I1 : Inv C s1) by (eapply Inv_step; eauto).
      assert (Y := IH _ _ g1 I1 H Hg1). destruct (spec_calls g1 (lock_calls tr)) as [g2 ok2].
      destruct Y as [Hok2 Hg2]. subst. auto.
  Qed.

  (* From the initial state: every answer a worker got from a lock is the atomic specification's, and
     the lock table at the end is the specification's.  In particular (with Exec's theorems): a name is
     held in the specification exactly when the protocol says some worker is between get and release
     (or died there), and failed exactly when a worker marked it and nobody released the marker. *)
  Theorem protocol_uses_the_atomic_lock : forall r0 tr s, Sound C r0 ->
    Exec.run C (init r0) tr = Some s ->
    let (g, ok) := spec_calls (fun _ => GFree) (lock_calls tr) in
    ok = true /\ forall t, g t = abs_lock (locks s t).
  Proof.
    intros r0 tr s Hs H. apply (run_spec tr (init r0) s); auto.
    apply Inv_init; auto.
  Qed.
End S.

(* the same, in the vocabulary of Props/*.v *)
Theorem uses_the_atomic_lock : forall (V : Type) (C : cfg V), framed C ->
  forall r0 tr s, reach C r0 tr s ->
  let (g, ok) := spec_calls (fun _ => GFree) (lock_calls tr) in
  ok = true /\ forall t, g t = abs_lock (locks s t).
Proof. intros V C F r0 tr s [Hs H]. exact (protocol_uses_the_atomic_lock C F r0 tr s Hs H). Qed.
