(* Facts about Model/Store.v: every backend refines the finite-map specification, for every
   operation sequence; the framing of encode.py / file_store round-trips given the byte codecs. *)
From Coq Require Import List ZArith PArith Bool Lia Permutation.
From JugV Require Import Model.Store.
Import ListNotations.

(* ================================================================================================ *)
(* association lists                                                                                *)
(* ================================================================================================ *)
Section AListFacts.
  Context {V : Type}.
  Implicit Types (l : list (key * V)) (k : key).

  Lemma aget_aremove_eq k l : aget k (aremove k l) = None.
  Proof.
    induction l as [|[k' v] r IH]; simpl; [reflexivity|].
    destruct (Pos.eqb k k') eqn:E; [exact IH|]. simpl. rewrite E. exact IH.
  Qed.

  Lemma aget_aremove_neq k k' l : k <> k' -> aget k (aremove k' l) = aget k l.
  Proof.
    intros Hne. induction l as [|[k2 v] r IH]; simpl; [reflexivity|].
    destruct (Pos.eqb k' k2) eqn:E.
    - apply Pos.eqb_eq in E. subst k2. rewrite IH.
      destruct (Pos.eqb k k') eqn:E2; [apply Pos.eqb_eq in E2; contradiction | reflexivity].
    - simpl. rewrite IH. reflexivity.
  Qed.

  Lemma aget_aremove k k' l : aget k (aremove k' l) = if Pos.eqb k k' then None else aget k l.
  Proof.
    destruct (Pos.eqb k k') eqn:E.
    - apply Pos.eqb_eq in E. subst. apply aget_aremove_eq.
    - apply Pos.eqb_neq in E. apply aget_aremove_neq. exact E.
  Qed.

  Lemma aget_aset k k' v l : aget k (aset k' v l) = if Pos.eqb k k' then Some v else aget k l.
  Proof.
    unfold aset. simpl. destruct (Pos.eqb k k') eqn:E; [reflexivity|].
    rewrite aget_aremove, E. reflexivity.
  Qed.

  Lemma amem_aremove k k' l : amem k (aremove k' l) = negb (Pos.eqb k k') && amem k l.
  Proof. unfold amem. rewrite aget_aremove. destruct (Pos.eqb k k'); reflexivity. Qed.

  Lemma amem_aset k k' v l : amem k (aset k' v l) = Pos.eqb k k' || amem k l.
  Proof. unfold amem. rewrite aget_aset. destruct (Pos.eqb k k'); reflexivity. Qed.

  Lemma aget_in_keys k l : aget k l <> None <-> In k (akeys l).
  Proof.
    induction l as [|[k' v] r IH]; simpl; [tauto|].
    destruct (Pos.eqb k k') eqn:E.
    - apply Pos.eqb_eq in E. subst. split; [intros _; left; reflexivity | intros _; discriminate].
    - apply Pos.eqb_neq in E. rewrite IH. split; [tauto|]. intros [H|H]; [congruence | exact H].
  Qed.

  Lemma amem_in_keys k l : amem k l = true <-> In k (akeys l).
  Proof.
    rewrite <- aget_in_keys. unfold amem. destruct (aget k l); split; intro H; congruence.
  Qed.

  Lemma amem_false_aget k l : amem k l = false <-> aget k l = None.
  Proof. unfold amem. destruct (aget k l); split; intro H; congruence. Qed.

  Lemma amem_true_aget k l : amem k l = true <-> exists v, aget k l = Some v.
  Proof.
    unfold amem. destruct (aget k l) as [v|]; split; intro H; try congruence.
    - exists v. reflexivity.
    - destruct H as [? H]. discriminate.
  Qed.

  Lemma aremove_as_akeep k l : aremove k l = akeep (fun x => negb (Pos.eqb x k)) l.
  Proof.
    induction l as [|[k' v] r IH]; simpl; [reflexivity|].
    rewrite (Pos.eqb_sym k' k). destruct (Pos.eqb k k'); simpl; rewrite IH; reflexivity.
  Qed.

  Lemma akeep_akeep p q l : akeep p (akeep q l) = akeep (fun x => q x && p x) l.
  Proof.
    unfold akeep. induction l as [|[k v] r IH]; simpl; [reflexivity|].
    destruct (q k) eqn:Q; simpl; [destruct (p k); simpl|]; rewrite IH; reflexivity.
  Qed.

  Lemma akeep_ext_in p q l : (forall k, In k (akeys l) -> p k = q k) -> akeep p l = akeep q l.
  Proof.
    intros H. unfold akeep. apply filter_ext_in. intros [k v] Hin. simpl.
    apply H. unfold akeys. apply in_map_iff. exists (k, v). split; [reflexivity | exact Hin].
  Qed.

  Lemma akeep_ext p q l : (forall k, p k = q k) -> akeep p l = akeep q l.
  Proof. intros H. apply akeep_ext_in. intros k _. apply H. Qed.

  Lemma akeys_akeep p l : akeys (akeep p l) = filter p (akeys l).
  Proof.
    unfold akeep, akeys. induction l as [|[k v] r IH]; simpl; [reflexivity|].
    destruct (p k); simpl; rewrite IH; reflexivity.
  Qed.

  Lemma aget_akeep p k l : aget k (akeep p l) = if p k then aget k l else None.
  Proof.
    unfold akeep. induction l as [|[k' v] r IH]; simpl; [destruct (p k); reflexivity|].
    destruct (p k') eqn:P; simpl.
    - destruct (Pos.eqb k k') eqn:E; [apply Pos.eqb_eq in E; subst; rewrite P; reflexivity | exact IH].
    - destruct (Pos.eqb k k') eqn:E; [apply Pos.eqb_eq in E; subst; rewrite IH, P; reflexivity | exact IH].
  Qed.

  Lemma amem_akeep p k l : amem k (akeep p l) = p k && amem k l.
  Proof. unfold amem. rewrite aget_akeep. destruct (p k); reflexivity. Qed.

  Lemma NoDup_filter_keys (p : key -> bool) (ks : list key) : NoDup ks -> NoDup (filter p ks).
  Proof.
    induction 1 as [|x r Hx Hr IH]; simpl; [constructor|].
    destruct (p x); [constructor; [|exact IH] | exact IH].
    intros Hin. apply filter_In in Hin. tauto.
  Qed.

  Lemma NoDup_akeep p l : NoDup (akeys l) -> NoDup (akeys (akeep p l)).
  Proof. intros H. rewrite akeys_akeep. apply NoDup_filter_keys. exact H. Qed.

  Lemma NoDup_aremove k l : NoDup (akeys l) -> NoDup (akeys (aremove k l)).
  Proof. rewrite aremove_as_akeep. apply NoDup_akeep. Qed.

  Lemma NoDup_aset k v l : NoDup (akeys l) -> NoDup (akeys (aset k v l)).
  Proof.
    intros H. unfold aset. simpl. constructor; [|apply NoDup_aremove; exact H].
    rewrite <- amem_in_keys, amem_aremove, Pos.eqb_refl. discriminate.
  Qed.

  Lemma aremove_absent k l : amem k l = false -> aremove k l = l.
  Proof.
    intros H. rewrite aremove_as_akeep. unfold akeep.
    induction l as [|[k' v] r IH]; simpl; [reflexivity|].
    unfold amem in H. simpl in H. rewrite (Pos.eqb_sym k' k).
    destruct (Pos.eqb k k') eqn:E; [discriminate|]. simpl. f_equal. apply IH. exact H.
  Qed.

  Lemma aget_of_in k x l : NoDup (akeys l) -> In (k, x) l -> aget k l = Some x.
  Proof.
    induction l as [|[k' v] r IH]; simpl; [tauto|].
    intros Hnd [Heq|Hin].
    - inversion Heq; subst. rewrite Pos.eqb_refl. reflexivity.
    - inversion Hnd as [|? ? Hnot Hnd']; subst.
      destruct (Pos.eqb k k') eqn:E; [|apply IH; assumption].
      apply Pos.eqb_eq in E. subst k'. exfalso. apply Hnot.
      unfold akeys. apply in_map_iff. exists (k, x). split; [reflexivity | exact Hin].
  Qed.

  Lemma fold_aremove_as_akeep (ks : list key) l :
    fold_left (fun m k => aremove k m) ks l = akeep (fun x => negb (kmem x ks)) l.
  Proof.
    revert l. induction ks as [|k r IH]; intros l; simpl.
    - unfold akeep. induction l as [|x r IH]; simpl; [reflexivity | f_equal; exact IH].
    - rewrite IH, aremove_as_akeep, akeep_akeep. apply akeep_ext. intros x.
      destruct (Pos.eqb x k); simpl; reflexivity.
  Qed.

  Lemma length_akeep p l : length (akeep p l) = length (filter p (akeys l)).
  Proof. rewrite <- akeys_akeep. unfold akeys. rewrite map_length. reflexivity. Qed.
End AListFacts.

Lemma kmem_in k ks : kmem k ks = true <-> In k ks.
Proof.
  unfold kmem. rewrite existsb_exists. split.
  - intros [x [Hin E]]. apply Pos.eqb_eq in E. subst. exact Hin.
  - intros H. exists k. split; [exact H | apply Pos.eqb_refl].
Qed.

Lemma kmem_cons k x ks : kmem k (x :: ks) = Pos.eqb k x || kmem k ks.
Proof. reflexivity. Qed.

Lemma kadd_in k x ks : In k (kadd x ks) <-> k = x \/ In k ks.
Proof.
  unfold kadd. destruct (kmem x ks) eqn:E; simpl.
  - apply kmem_in in E. split; [tauto|]. intros [->|H]; assumption.
  - split; intros [H|H]; auto.
Qed.

Lemma kadd_NoDup x ks : NoDup ks -> NoDup (kadd x ks).
Proof.
  intros H. unfold kadd. destruct (kmem x ks) eqn:E; [exact H|].
  constructor; [|exact H]. intros Hin. apply kmem_in in Hin. congruence.
Qed.

Lemma Permutation_filter {A} (p : A -> bool) (a b : list A) : Permutation a b -> Permutation (filter p a) (filter p b).
Proof.
  induction 1; simpl.
  - constructor.
  - destruct (p x); [constructor|]; assumption.
  - destruct (p x), (p y); try apply perm_swap; try constructor; apply Permutation_refl.
  - eapply Permutation_trans; eassumption.
Qed.

Lemma NoDup_app_intro {A} (a b : list A) :
  NoDup a -> NoDup b -> (forall x, In x a -> ~ In x b) -> NoDup (a ++ b).
Proof.
  induction 1 as [|x r Hx Hr IH]; simpl; intros Hb Hd; [exact Hb|].
  constructor.
  - rewrite in_app_iff. intros [H|H]; [contradiction | exact (Hd x (or_introl eq_refl) H)].
  - apply IH; [exact Hb|]. intros y Hy. apply Hd. right. exact Hy.
Qed.

Lemma filter_all_when_none_rejected {A} (p : A -> bool) (l : list A) :
  length (filter (fun x => negb (p x)) l) = 0 -> filter p l = l.
Proof.
  induction l as [|x r IH]; simpl; [reflexivity|].
  destruct (p x); simpl; [intros H; f_equal; apply IH; exact H | discriminate].
Qed.

(* ================================================================================================ *)
(* the specification                                                                                *)
(* ================================================================================================ *)
Definition SInv (s : smap) : Prop := NoDup (akeys s).

Lemma spec_step_inv s op : SInv s -> SInv (fst (spec_step s op)).
Proof.
  unfold SInv. intros H. destruct op; simpl; try exact H.
  - exact (NoDup_aset k v s H).
  - exact (NoDup_aremove k s H).
  - exact (NoDup_akeep _ s H).
  - exact (NoDup_akeep _ s H).
Qed.

(* what one operation does to the map, key by key *)
Definition touch (op : sop) (k : key) (old : option valid) : option valid :=
  match op with
  | SDump k' v => if Pos.eqb k k' then Some v else old
  | SRemove k' => if Pos.eqb k k' then None else old
  | SRemoveMany ks => if kmem k ks then None else old
  | SCleanup act => if kmem k act then old else None
  | _ => old
  end.

Lemma spec_step_get s op k : aget k (fst (spec_step s op)) = touch op k (aget k s).
Proof.
  destruct op; simpl; try reflexivity.
  - apply aget_aset.
  - apply aget_aremove.
  - rewrite aget_akeep. destruct (kmem k ks); reflexivity.
  - rewrite aget_akeep. reflexivity.
Qed.

Lemma run_app {S} (step : S -> sop -> S * sres) s a b :
  run step s (a ++ b) = (fst (run step (fst (run step s a)) b), snd (run step s a) ++ snd (run step (fst (run step s a)) b)).
Proof.
  revert s. induction a as [|op r IH]; intros s; simpl.
  - destruct (run step s b); reflexivity.
  - destruct (step s op) as [s1 x]. rewrite IH.
    destruct (run step s1 r) as [s2 xs]. simpl. reflexivity.
Qed.

Lemma last_write_touch op older k : last_write (op :: older) k = touch op k (last_write older k).
Proof. destruct op; reflexivity. Qed.

(* the specification IS "the value of the last operation that touched the key" *)
Lemma spec_is_last_write ops k : aget k (fst (run spec_step [] ops)) = last_write (rev ops) k.
Proof.
  induction ops as [|op r IH] using rev_ind; [reflexivity|].
  rewrite run_app, rev_app_distr. simpl rev. simpl app. rewrite last_write_touch, <- IH.
  simpl fst. simpl run. destruct (spec_step (fst (run spec_step [] r)) op) as [s1 x] eqn:E.
  simpl. change s1 with (fst (s1, x)). rewrite <- E. apply spec_step_get.
Qed.

Lemma spec_run_inv ops s : SInv s -> SInv (fst (run spec_step s ops)).
Proof.
  revert s. induction ops as [|op r IH]; intros s H; simpl; [exact H|].
  destruct (spec_step s op) as [s1 x] eqn:E. specialize (IH s1).
  destruct (run spec_step s1 r) as [s2 xs]. simpl in *. apply IH.
  change s1 with (fst (s1, x)). rewrite <- E. apply spec_step_inv. exact H.
Qed.

(* what the spec answers, in terms of the map *)
Lemma spec_results s op :
  snd (spec_step s op) =
  match op with
  | SDump _ _ | SPack | SReopen | SPackCrash _ => RUnit
  | SLoad k => match aget k s with Some v => RVal v | None => RMissing end
  | SCanLoad k | SRemove k => RBool (match aget k s with Some _ => true | None => false end)
  | SRemoveMany ks => RKeys (filter (fun k => kmem k ks) (akeys s))
  | SList => RKeys (akeys s)
  | SCleanup act => RCount (length (filter (fun k => negb (kmem k act)) (akeys s)))
  end.
Proof. destruct op; simpl; try reflexivity. rewrite length_akeep. reflexivity. Qed.

(* ================================================================================================ *)
(* agreement of results, refinement over sequences                                                  *)
(* ================================================================================================ *)
(* collections of keys agree as duplicate-free sets; update_pack's count is not a property of the map *)
Definition res_agree (op : sop) (rc rs : sres) : Prop :=
  match op with
  | SList | SRemoveMany _ => exists a b, rc = RKeys a /\ rs = RKeys b /\ NoDup a /\ Permutation a b
  | SPack => rs = RUnit /\ (rc = RUnit \/ exists n, rc = RCount n)
  | _ => rc = rs
  end.

(* an interrupted `jug pack` (SPackCrash) is outside the op language of the exact statements *)
Definition no_crash (op : sop) : Prop := match op with SPackCrash _ => False | _ => True end.

(* what remains exact when `jug pack` may die half-way (a key can then be in the pack and a file at once):
   every answer about a single key; list() names exactly the live keys but may name one twice; cleanup()
   counts objects (pack entries + files), at least one per removed key *)
Definition res_agree_k (op : sop) (rc rs : sres) : Prop :=
  match op with
  | SList => exists a b, rc = RKeys a /\ rs = RKeys b /\ (forall k, In k a <-> In k b)
  | SRemoveMany _ => exists a b, rc = RKeys a /\ rs = RKeys b /\ NoDup a /\ Permutation a b
  | SCleanup _ => exists n m, rc = RCount n /\ rs = RCount m /\ (m <= n)%nat
  | SPack => rs = RUnit /\ (rc = RUnit \/ exists n, rc = RCount n)
  | _ => rc = rs
  end.

(* redis: load of a key that is not live returns None instead of raising *)
Definition res_agree_redis (op : sop) (rc rs : sres) : Prop :=
  res_agree op rc rs \/ (exists k, op = SLoad k) /\ rs = RMissing /\ rc = RVal vnone.

Fixpoint all_agree (agree : sop -> sres -> sres -> Prop) (ops : list sop) (rcs rss : list sres) : Prop :=
  match ops, rcs, rss with
  | [], [], [] => True
  | op :: o, rc :: c, rs :: s => agree op rc rs /\ all_agree agree o c s
  | _, _, _ => False
  end.

Section Refinement.
  Context {C : Type}.
  Variable cstep : C -> sop -> C * sres.
  Variable Inv : C -> Prop.
  Variable R : C -> smap -> Prop.
  Variable ok : sop -> Prop.
  Variable agree : sop -> sres -> sres -> Prop.
  Hypothesis step_ok : forall c s op, ok op -> Inv c -> SInv s -> R c s ->
    Inv (fst (cstep c op)) /\ R (fst (cstep c op)) (fst (spec_step s op)) /\
    agree op (snd (cstep c op)) (snd (spec_step s op)).

  Lemma run_refines ops : forall c s, Forall ok ops -> Inv c -> SInv s -> R c s ->
    Inv (fst (run cstep c ops)) /\ SInv (fst (run spec_step s ops)) /\
    R (fst (run cstep c ops)) (fst (run spec_step s ops)) /\
    all_agree agree ops (snd (run cstep c ops)) (snd (run spec_step s ops)).
  Proof.
    induction ops as [|op r IH]; intros c s Hok HI HS HR; simpl.
    - repeat split; assumption.
    - inversion Hok as [|? ? Hop Hr]; subst.
      destruct (step_ok c s op Hop HI HS HR) as [HI' [HR' Hag]].
      pose proof (spec_step_inv s op HS) as HS'.
      destruct (cstep c op) as [c1 x]. destruct (spec_step s op) as [s1 y]. simpl in *.
      destruct (IH c1 s1 Hr HI' HS' HR') as [A [B [D F]]].
      destruct (run cstep c1 r) as [c2 xs]. destruct (run spec_step s1 r) as [s2 ys]. simpl in *.
      repeat split; assumption.
  Qed.
End Refinement.

Local Arguments aset : simpl never.
Local Arguments akeys : simpl never.
Local Arguments akeep : simpl never.
Local Arguments amem : simpl never.
Local Arguments aremove : simpl never.
Local Arguments aget : simpl never.
Local Arguments kmem : simpl never.

Lemma akeep_all {V} (p : key -> bool) (l : list (key * V)) : (forall k, p k = true) -> akeep p l = l.
Proof.
  intros H. unfold akeep. induction l as [|x r IH]; [reflexivity|].
  cbn [filter]. rewrite H. f_equal. exact IH.
Qed.

(* ================================================================================================ *)
(* file_store                                                                                       *)
(* ================================================================================================ *)
Record FInv (s : fstore) : Prop := {
  fi_files : NoDup (akeys (f_files s));
  fi_packed : NoDup (akeys (f_packed s));
  (* no key is both in the pack and a file *)
  fi_disj : forall k, amem k (f_packed s) = true -> amem k (f_files s) = false;
  (* the pack file on disk is the in-memory copy (every change of [packed] is followed by resave_pack) *)
  fi_pack : f_packfile s = Some (f_packed s) \/ (f_packfile s = None /\ f_packed s = [])
}.

Definition FR (s : fstore) (sp : smap) : Prop := forall k, f_load s k = aget k sp.

Lemma f_load_eq s k :
  f_load s k = match aget k (f_packed s) with Some v => Some v | None => option_map fst (aget k (f_files s)) end.
Proof.
  unfold f_load. destruct (aget k (f_packed s)); [reflexivity|].
  destruct (aget k (f_files s)) as [[v r]|]; reflexivity.
Qed.

Lemma f_can_load_eq s k : f_can_load s k = match f_load s k with Some _ => true | None => false end.
Proof.
  unfold f_can_load, amem. rewrite f_load_eq.
  destruct (aget k (f_packed s)); [reflexivity|]. destruct (aget k (f_files s)); reflexivity.
Qed.

Lemma f_init_inv c : FInv (f_init c).
Proof.
  constructor; simpl.
  - constructor.
  - constructor.
  - intros k H. discriminate.
  - right. split; reflexivity.
Qed.

Lemma f_keys_perm s sp : FInv s -> SInv sp -> FR s sp ->
  NoDup (akeys (f_packed s) ++ akeys (f_files s)) /\
  Permutation (akeys (f_packed s) ++ akeys (f_files s)) (akeys sp).
Proof.
  intros [Hf Hp Hd _] HS HR.
  assert (Hnd : NoDup (akeys (f_packed s) ++ akeys (f_files s))).
  { apply NoDup_app_intro; [exact Hp | exact Hf |].
    intros x Hx Hx'. apply amem_in_keys in Hx. apply amem_in_keys in Hx'.
    rewrite (Hd x Hx) in Hx'. discriminate. }
  split; [exact Hnd|]. apply NoDup_Permutation; [exact Hnd | exact HS |].
  intros x. rewrite in_app_iff, <- !amem_in_keys.
  assert (E : amem x sp = f_can_load s x).
  { rewrite f_can_load_eq, (HR x). reflexivity. }
  rewrite E. unfold f_can_load. rewrite orb_true_iff. tauto.
Qed.

(* ---- dump ---- *)
Lemma f_dump_ok Ev s sp k v : FInv s -> FR s sp ->
  FInv (f_dump Ev s k v) /\ FR (f_dump Ev s k v) (aset k v sp).
Proof.
  intros [Hf Hp Hd Hpk] HR. destruct s as [F P PF cmp]. unfold f_dump, FR in *. simpl in *.
  destruct (amem k P) eqn:EP; simpl.
  - split.
    + constructor; simpl.
      * apply NoDup_aset. exact Hf.
      * apply NoDup_aremove. exact Hp.
      * intros k' H. rewrite amem_aremove in H. apply andb_true_iff in H. destruct H as [Hne Hk'].
        rewrite amem_aset. apply negb_true_iff in Hne. rewrite Hne. simpl. apply Hd. exact Hk'.
      * left. reflexivity.
    + intros k'. rewrite f_load_eq. simpl. rewrite aget_aremove, !aget_aset.
      destruct (Pos.eqb k' k) eqn:E; [reflexivity|].
      rewrite <- (HR k'), f_load_eq. reflexivity.
  - split.
    + constructor; simpl.
      * apply NoDup_aset. exact Hf.
      * exact Hp.
      * intros k' H. rewrite amem_aset.
        destruct (Pos.eqb k' k) eqn:E; [apply Pos.eqb_eq in E; subst; congruence|].
        simpl. apply Hd. exact H.
      * exact Hpk.
    + intros k'. rewrite f_load_eq. simpl. rewrite !aget_aset.
      destruct (Pos.eqb k' k) eqn:E.
      * apply Pos.eqb_eq in E. subst k'. apply amem_false_aget in EP. rewrite EP. reflexivity.
      * rewrite <- (HR k'), f_load_eq. reflexivity.
Qed.

(* ---- remove_many ---- *)
Lemma f_remove_loop_spec ks : forall F P rem F' P' rem',
  f_remove_loop ks F P rem = (F', P', rem') ->
  F' = akeep (fun x => negb (kmem x ks)) F /\ P' = akeep (fun x => negb (kmem x ks)) P /\
  (forall x, In x rem' <-> In x rem \/ (kmem x ks = true /\ (amem x P || amem x F) = true)) /\
  (NoDup rem -> NoDup rem').
Proof.
  induction ks as [|k r IH]; intros F P rem F' P' rem' H; simpl in H.
  - inversion H; subst. repeat split.
    + symmetry. apply akeep_all. reflexivity.
    + symmetry. apply akeep_all. reflexivity.
    + tauto.
    + intros [A|[A _]]; [exact A | discriminate].
    + tauto.
  - assert (EF : (if amem k F then aremove k F else F) = aremove k F).
    { destruct (amem k F) eqn:E; [reflexivity | symmetry; apply aremove_absent; exact E]. }
    assert (EPk : (if amem k P then aremove k P else P) = aremove k P).
    { destruct (amem k P) eqn:E; [reflexivity | symmetry; apply aremove_absent; exact E]. }
    rewrite EF, EPk in H. apply IH in H. destruct H as [HF [HP [Hrem Hnd]]].
    split; [|split; [|split]].
    + rewrite HF, aremove_as_akeep, akeep_akeep. apply akeep_ext. intros x. rewrite kmem_cons.
      destruct (Pos.eqb x k); reflexivity.
    + rewrite HP, aremove_as_akeep, akeep_akeep. apply akeep_ext. intros x. rewrite kmem_cons.
      destruct (Pos.eqb x k); reflexivity.
    + intros x. rewrite Hrem. rewrite !amem_aremove, kmem_cons.
      assert (Hin2 : In x (if amem k F then kadd k (if amem k P then kadd k rem else rem) else (if amem k P then kadd k rem else rem))
                     <-> In x rem \/ (x = k /\ (amem k P || amem k F) = true)).
      { destruct (amem k F), (amem k P); simpl; rewrite ?kadd_in; try rewrite kadd_in; intuition congruence. }
      rewrite Hin2. destruct (Pos.eqb_spec x k) as [->|Hne]; simpl.
      * intuition congruence.
      * intuition congruence.
    + intros H0. apply Hnd. destruct (amem k F), (amem k P); repeat apply kadd_NoDup; exact H0.
Qed.

Lemma f_remove_many_ok s sp ks s' removed : FInv s -> SInv sp -> FR s sp ->
  f_remove_many s ks = (s', removed) ->
  FInv s' /\ FR s' (akeep (fun k => negb (kmem k ks)) sp) /\
  NoDup removed /\ (forall x, In x removed <-> kmem x ks = true /\ f_can_load s x = true).
Proof.
  intros [Hf Hp Hd Hpk] HS HR H. unfold f_remove_many in H.
  destruct (f_remove_loop ks (f_files s) (f_packed s) []) as [[F' P'] rem'] eqn:EL.
  inversion H; subst; clear H. apply f_remove_loop_spec in EL. destruct EL as [HF [HP [Hrem Hnd]]].
  subst F' P'. split; [|split; [|split]].
  - constructor; simpl.
    + apply NoDup_akeep. exact Hf.
    + apply NoDup_akeep. exact Hp.
    + intros k. rewrite !amem_akeep. intros H. apply andb_true_iff in H. destruct H as [_ H].
      rewrite (Hd k H). apply andb_false_r.
    + left. reflexivity.
  - intros k. rewrite f_load_eq. simpl. rewrite !aget_akeep. rewrite <- (HR k), f_load_eq.
    destruct (negb (kmem k ks)); reflexivity.
  - apply Hnd. constructor.
  - intros x. rewrite Hrem. unfold f_can_load. simpl. tauto.
Qed.

(* ---- cleanup ---- *)
Lemma f_cleanup_ok s sp act s' n : FInv s -> SInv sp -> FR s sp ->
  f_cleanup s act = (s', n) ->
  FInv s' /\ FR s' (akeep (fun k => kmem k act) sp) /\
  n = length (akeep (fun k => negb (kmem k act)) sp).
Proof.
  intros HI HS HR H. pose proof (f_keys_perm s sp HI HS HR) as [_ Hperm].
  destruct HI as [Hf Hp Hd Hpk]. unfold f_cleanup in H. inversion H; subst; clear H.
  split; [|split].
  - assert (Hcommon : forall pf, (pf = Some (akeep (fun k => kmem k act) (f_packed s)) \/
                                  (pf = None /\ akeep (fun k => kmem k act) (f_packed s) = [])) ->
             FInv {| f_files := akeep (fun k => kmem k act) (f_files s);
                     f_packed := akeep (fun k => kmem k act) (f_packed s);
                     f_packfile := pf; f_compress := f_compress s |}).
    { intros pf Hpf. constructor; simpl.
      - apply NoDup_akeep. exact Hf.
      - apply NoDup_akeep. exact Hp.
      - intros k. rewrite !amem_akeep. intros H. apply andb_true_iff in H. destruct H as [_ H].
        rewrite (Hd k H). apply andb_false_r.
      - exact Hpf. }
    destruct (Nat.eqb (length (akeep (fun k => negb (kmem k act)) (f_packed s))) 0) eqn:E0.
    + apply Hcommon. apply Nat.eqb_eq in E0.
      assert (Esame : akeep (fun k => kmem k act) (f_packed s) = f_packed s).
      { unfold akeep in *. apply filter_all_when_none_rejected. exact E0. }
      rewrite Esame. destruct Hpk as [Hpk|[Hpk1 Hpk2]]; [left; exact Hpk | right; split; assumption].
    + unfold resave. simpl. apply Hcommon. left. reflexivity.
  - assert (Hload : forall pf k, f_load {| f_files := akeep (fun k => kmem k act) (f_files s);
                     f_packed := akeep (fun k => kmem k act) (f_packed s);
                     f_packfile := pf; f_compress := f_compress s |} k
                     = aget k (akeep (fun k => kmem k act) sp)).
    { intros pf k. rewrite f_load_eq. simpl. rewrite !aget_akeep, <- (HR k), f_load_eq.
      destruct (kmem k act); reflexivity. }
    destruct (Nat.eqb (length (akeep (fun k => negb (kmem k act)) (f_packed s))) 0); intros k; apply Hload.
  - rewrite !length_akeep. rewrite Nat.add_comm, <- app_length, <- filter_app.
    apply Permutation_length. apply Permutation_filter. exact Hperm.
Qed.

(* ---- update_pack ---- *)
Lemma aget_notin_keys {V} k (l : list (key * V)) : ~ In k (akeys l) -> aget k l = None.
Proof.
  intros H. destruct (aget k l) eqn:E; [|reflexivity]. exfalso. apply H. apply aget_in_keys. congruence.
Qed.

Lemma f_pack_loop_spec Ev : forall todo s rm s' rm',
  f_pack_loop Ev todo s rm = (s', rm') ->
  NoDup (akeys todo) -> NoDup (akeys (f_packed s)) ->
  (forall k x, In (k, x) todo -> aget k (f_files s) = Some x /\ amem k (f_packed s) = false) ->
  f_files s' = f_files s /\ f_packfile s' = f_packfile s /\ f_compress s' = f_compress s /\
  NoDup (akeys (f_packed s')) /\
  (forall k, aget k (f_packed s') =
             match aget k todo with
             | Some x => if entry_small Ev x then Some (fst x) else aget k (f_packed s)
             | None => aget k (f_packed s)
             end) /\
  (forall k, In k rm' <-> In k rm \/ exists x, aget k todo = Some x /\ entry_small Ev x = true).
Proof.
  induction todo as [|[k x] r IH]; intros s rm s' rm' H Hnd Hp Hin.
  - simpl in H. inversion H; subst. repeat split; try assumption; try reflexivity.
    + intros A. left. exact A.
    + intros [A|[y [A _]]]; [exact A | discriminate].
  - cbn [f_pack_loop] in H.
    assert (Hnd' : NoDup (akeys r)) by (inversion Hnd; assumption).
    assert (Hk : ~ In k (akeys r)) by (inversion Hnd; assumption).
    assert (Hkr : aget k r = None) by (apply aget_notin_keys; exact Hk).
    destruct (Hin k x (or_introl eq_refl)) as [HkF HkP].
    assert (Hload : f_load s k = Some (fst x)).
    { rewrite f_load_eq. apply amem_false_aget in HkP. rewrite HkP, HkF. reflexivity. }
    assert (Hget_cons : forall k0, aget k0 ((k, x) :: r) = if Pos.eqb k0 k then Some x else aget k0 r).
    { intros k0. reflexivity. }
    destruct (entry_small Ev x) eqn:Esm.
    + rewrite Hload in H. apply IH in H; clear IH.
      * destruct H as [A [B [C0 [D [G Hrm]]]]]. simpl in A, B, C0, G.
        repeat split; try assumption.
        -- intros k0. rewrite G, Hget_cons, aget_aset.
           destruct (Pos.eqb_spec k0 k) as [->|Hne].
           ++ rewrite Hkr, Esm. reflexivity.
           ++ reflexivity.
        -- rewrite Hrm, Hget_cons. destruct (Pos.eqb_spec k0 k) as [->|Hne].
           ++ intros _. right. exists x. split; [reflexivity | exact Esm].
           ++ simpl. intros [[A1|A1]|A1]; [congruence | left; exact A1 | right; exact A1].
        -- rewrite Hrm, Hget_cons. destruct (Pos.eqb_spec k0 k) as [->|Hne].
           ++ intros _. left. left. reflexivity.
           ++ simpl. intros [A1|A1]; [left; right; exact A1 | right; exact A1].
      * exact Hnd'.
      * simpl. apply NoDup_aset. exact Hp.
      * intros k' x' Hx'. simpl. destruct (Hin k' x' (or_intror Hx')) as [A B]. split; [exact A|].
        rewrite amem_aset, B. destruct (Pos.eqb_spec k' k) as [->|Hne]; [|reflexivity].
        exfalso. apply Hk. unfold akeys. apply in_map_iff. exists (k, x'). split; [reflexivity | exact Hx'].
    + apply IH in H; clear IH.
      * destruct H as [A [B [C0 [D [G Hrm]]]]].
        repeat split; try assumption.
        -- intros k0. rewrite G, Hget_cons.
           destruct (Pos.eqb_spec k0 k) as [->|Hne]; [rewrite Hkr, Esm; reflexivity | reflexivity].
        -- rewrite Hrm, Hget_cons. destruct (Pos.eqb_spec k0 k) as [->|Hne].
           ++ rewrite Hkr. intros [A1|[y [A1 _]]]; [left; exact A1 | discriminate].
           ++ tauto.
        -- rewrite Hrm, Hget_cons. destruct (Pos.eqb_spec k0 k) as [->|Hne].
           ++ intros [A1|[y [A1 A2]]]; [left; exact A1 | congruence].
           ++ tauto.
      * exact Hnd'.
      * exact Hp.
      * intros k' x' Hx'. apply Hin. right. exact Hx'.
Qed.

Lemma f_pack_ok Ev s sp s' n : FInv s -> FR s sp -> f_pack Ev s = (s', n) -> FInv s' /\ FR s' sp.
Proof.
  intros [Hf Hp Hd Hpk] HR H. unfold f_pack in H.
  destruct (f_pack_loop Ev (f_files s) s []) as [s1 rm] eqn:EL. inversion H; subst; clear H.
  apply f_pack_loop_spec in EL; [|exact Hf|exact Hp|].
  2:{ intros k x Hin. split; [apply aget_of_in; assumption|].
      destruct (amem k (f_packed s)) eqn:E; [|reflexivity].
      apply Hd in E. assert (amem k (f_files s) = true).
      { apply amem_in_keys. unfold akeys. apply in_map_iff. exists (k, x). split; [reflexivity|exact Hin]. }
      congruence. }
  destruct EL as [A [B [C0 [D [G Hrm]]]]].
  assert (Hrm' : forall k, kmem k rm = true <-> exists x, aget k (f_files s) = Some x /\ entry_small Ev x = true).
  { intros k. rewrite kmem_in, Hrm. split; [intros [[]|X]; exact X | intros X; right; exact X]. }
  simpl. rewrite fold_aremove_as_akeep, A.
  assert (Hpacked_none : forall k x, aget k (f_files s) = Some x -> aget k (f_packed s) = None).
  { intros k x Hx. apply amem_false_aget. destruct (amem k (f_packed s)) eqn:E; [|reflexivity].
    apply Hd in E. apply amem_false_aget in E. congruence. }
  split.
  - constructor; simpl.
    + apply NoDup_akeep. exact Hf.
    + exact D.
    + intros k Hk. rewrite amem_akeep. apply amem_true_aget in Hk. destruct Hk as [v Hv].
      rewrite G in Hv. destruct (aget k (f_files s)) as [x|] eqn:EF.
      * destruct (entry_small Ev x) eqn:Esm.
        -- assert (kmem k rm = true) as -> by (apply Hrm'; exists x; split; assumption). reflexivity.
        -- rewrite (Hpacked_none k x EF) in Hv. discriminate.
      * assert (amem k (f_files s) = false) as -> by (apply amem_false_aget; exact EF). apply andb_false_r.
    + left. reflexivity.
  - intros k. rewrite <- (HR k), !f_load_eq. simpl. rewrite G, aget_akeep.
    destruct (aget k (f_files s)) as [x|] eqn:EF.
    + rewrite (Hpacked_none k x EF). destruct (entry_small Ev x) eqn:Esm; [reflexivity|].
      destruct (kmem k rm) eqn:Ek; [|reflexivity].
      apply Hrm' in Ek. destruct Ek as [y [Y1 Y2]]. congruence.
    + destruct (aget k (f_packed s)); [reflexivity|]. destruct (negb (kmem k rm)); reflexivity.
Qed.

(* ---- reopen ---- *)
Lemma f_reopen_ok s sp : FInv s -> FR s sp -> FInv (f_reopen s) /\ FR (f_reopen s) sp.
Proof.
  intros [Hf Hp Hd Hpk] HR. unfold f_reopen.
  assert (E : match f_packfile s with Some p => p | None => [] end = f_packed s).
  { destruct Hpk as [Hpk|[Hpk1 Hpk2]]; [rewrite Hpk; reflexivity | rewrite Hpk1, Hpk2; reflexivity]. }
  rewrite E. split.
  - constructor; simpl; assumption.
  - intros k. rewrite <- (HR k). reflexivity.
Qed.

(* ---- one step ---- *)
Lemma fstep_ok Ev s sp op : no_crash op -> FInv s -> SInv sp -> FR s sp ->
  FInv (fst (fstep Ev s op)) /\ FR (fst (fstep Ev s op)) (fst (spec_step sp op)) /\
  res_agree op (snd (fstep Ev s op)) (snd (spec_step sp op)).
Proof.
  intros Hnc HI HS HR. destruct op as [k v|k|k|k|ks| |act| | |n]; cbn [fstep spec_step fst snd]; [| | | | | | | | |destruct Hnc].
  - (* dump *) destruct (f_dump_ok Ev s sp k v HI HR) as [A B].
    split; [exact A|]. split; [exact B|]. reflexivity.
  - (* load *) split; [exact HI|]. split; [exact HR|]. simpl. rewrite (HR k). reflexivity.
  - (* can_load *) split; [exact HI|]. split; [exact HR|]. simpl. rewrite f_can_load_eq, (HR k). reflexivity.
  - (* remove *)
    destruct (f_remove_many s [k]) as [s1 removed] eqn:E. cbn [fst snd].
    destruct (f_remove_many_ok s sp [k] s1 removed HI HS HR E) as [A [B [_ Hrem]]].
    split; [exact A|]. split.
    + intros k'. rewrite (B k'), aget_akeep, aget_aremove, kmem_cons. unfold kmem. simpl.
      rewrite orb_false_r. destruct (Pos.eqb k' k); reflexivity.
    + simpl. f_equal.
      assert (Elive : amem k sp = f_can_load s k) by (rewrite f_can_load_eq, (HR k); reflexivity).
      rewrite Elive. destruct (f_can_load s k) eqn:L.
      * assert (In k removed) by (apply Hrem; split; [unfold kmem; simpl; rewrite Pos.eqb_refl; reflexivity | exact L]).
        destruct removed; [contradiction | reflexivity].
      * destruct removed as [|x t]; [reflexivity|]. exfalso.
        destruct (proj1 (Hrem x) (or_introl eq_refl)) as [X1 X2].
        unfold kmem in X1. simpl in X1. rewrite orb_false_r in X1. apply Pos.eqb_eq in X1. congruence.
  - (* remove_many *)
    destruct (f_remove_many s ks) as [s1 removed] eqn:E. cbn [fst snd].
    destruct (f_remove_many_ok s sp ks s1 removed HI HS HR E) as [A [B [Hnd Hrem]]].
    split; [exact A|]. split; [exact B|]. simpl.
    exists removed, (filter (fun k => kmem k ks) (akeys sp)).
    split; [reflexivity|]. split; [reflexivity|]. split; [exact Hnd|].
    apply NoDup_Permutation; [exact Hnd | apply NoDup_filter_keys; exact HS |].
    intros x. rewrite Hrem, filter_In, <- amem_in_keys, f_can_load_eq, (HR x). unfold amem. tauto.
  - (* list *)
    destruct (f_keys_perm s sp HI HS HR) as [Hnd Hperm].
    split; [exact HI|]. split; [exact HR|]. simpl.
    exists (akeys (f_packed s) ++ akeys (f_files s)), (akeys sp).
    split; [reflexivity|]. split; [reflexivity|]. split; assumption.
  - (* cleanup *)
    destruct (f_cleanup s act) as [s1 n] eqn:E. cbn [fst snd].
    destruct (f_cleanup_ok s sp act s1 n HI HS HR E) as [A [B Hn]].
    split; [exact A|]. split; [exact B|]. simpl. rewrite Hn. reflexivity.
  - (* pack *)
    destruct (f_pack Ev s) as [s1 n] eqn:E. cbn [fst snd].
    destruct (f_pack_ok Ev s sp s1 n HI HR E) as [A B].
    split; [exact A|]. split; [exact B|]. simpl. split; [reflexivity|]. right. exists n. reflexivity.
  - (* reopen *)
    destruct (f_reopen_ok s sp HI HR) as [A B].
    split; [exact A|]. split; [exact B|]. reflexivity.
Qed.

(* ---- whole histories (without an interrupted pack) ---- *)
Definition no_crashes (ops : list sop) : Prop := Forall no_crash ops.

Theorem file_store_refines Ev compress ops : no_crashes ops ->
  FInv (fst (run (fstep Ev) (f_init compress) ops)) /\
  (forall k, f_load (fst (run (fstep Ev) (f_init compress) ops)) k = aget k (fst (run spec_step [] ops))) /\
  all_agree res_agree ops (snd (run (fstep Ev) (f_init compress) ops)) (snd (run spec_step [] ops)).
Proof.
  intros Hnc.
  destruct (run_refines (fstep Ev) FInv FR no_crash res_agree (fstep_ok Ev) ops (f_init compress) [])
    as [A [_ [B D]]].
  - exact Hnc.
  - apply f_init_inv.
  - constructor.
  - intros k. reflexivity.
  - split; [exact A|]. split; [exact B | exact D].
Qed.

Lemma no_crashes_iff ops : no_crashes ops <-> forall n, ~ In (SPackCrash n) ops.
Proof.
  unfold no_crashes. rewrite Forall_forall. split.
  - intros H n Hin. exact (H _ Hin).
  - intros H op Hin. destruct op; try exact I. exact (H _ Hin).
Qed.

(* states reachable from the empty store without an interrupted pack *)
Definition f_reach (Ev : venv) (s : fstore) : Prop :=
  exists compress ops, no_crashes ops /\ s = fst (run (fstep Ev) (f_init compress) ops).

Lemma f_reach_inv Ev s : f_reach Ev s -> FInv s /\ exists sp, SInv sp /\ FR s sp.
Proof.
  intros [c [ops [Hnc ->]]]. destruct (file_store_refines Ev c ops Hnc) as [A [B _]].
  split; [exact A|]. exists (fst (run spec_step [] ops)). split; [|exact B].
  apply spec_run_inv. constructor.
Qed.

Theorem file_list_exact Ev s : f_reach Ev s ->
  fst (fstep Ev s SList) = s /\
  exists l, snd (fstep Ev s SList) = RKeys l /\ NoDup l /\ forall k, In k l <-> f_can_load s k = true.
Proof.
  intros Hr. destruct (f_reach_inv Ev s Hr) as [HI [sp [HS HR]]].
  destruct (f_keys_perm s sp HI HS HR) as [Hnd _].
  split; [reflexivity|]. exists (akeys (f_packed s) ++ akeys (f_files s)).
  split; [reflexivity|]. split; [exact Hnd|].
  intros k. rewrite in_app_iff, <- !amem_in_keys. unfold f_can_load. rewrite orb_true_iff. tauto.
Qed.

(* ================================================================================================ *)
(* file_store when `jug pack` may die half-way: a key may be in the pack AND a file                 *)
(* ================================================================================================ *)
Record FInvK (s : fstore) : Prop := {
  fk_files : NoDup (akeys (f_files s));
  fk_packed : NoDup (akeys (f_packed s));
  (* a key that is both in the pack and a file has the same value in both places *)
  fk_agree : forall k v x, aget k (f_packed s) = Some v -> aget k (f_files s) = Some x -> fst x = v;
  fk_pack : f_packfile s = Some (f_packed s) \/ (f_packfile s = None /\ f_packed s = [])
}.

Lemma FInv_FInvK s : FInv s -> FInvK s.
Proof.
  intros [Hf Hp Hd Hpk]. constructor; try assumption.
  intros k v x Hv Hx. exfalso.
  assert (A : amem k (f_packed s) = true) by (apply amem_true_aget; exists v; exact Hv).
  apply Hd in A. apply amem_false_aget in A. congruence.
Qed.

Lemma f_dump_ok_k Ev s sp k v : FInvK s -> FR s sp ->
  FInvK (f_dump Ev s k v) /\ FR (f_dump Ev s k v) (aset k v sp).
Proof.
  intros [Hf Hp Ha Hpk] HR. destruct s as [F P PF cmp]. unfold f_dump, FR in *. simpl in *.
  destruct (amem k P) eqn:EP; simpl.
  - split.
    + constructor; simpl.
      * apply NoDup_aset. exact Hf.
      * apply NoDup_aremove. exact Hp.
      * intros k' v' x. rewrite aget_aremove, aget_aset.
        destruct (Pos.eqb k' k); [discriminate|]. apply Ha.
      * left. reflexivity.
    + intros k'. rewrite f_load_eq. simpl. rewrite aget_aremove, !aget_aset.
      destruct (Pos.eqb k' k) eqn:E; [reflexivity|].
      rewrite <- (HR k'), f_load_eq. reflexivity.
  - split.
    + constructor; simpl.
      * apply NoDup_aset. exact Hf.
      * exact Hp.
      * intros k' v' x. rewrite aget_aset.
        destruct (Pos.eqb k' k) eqn:E.
        -- apply Pos.eqb_eq in E. subst k'. apply amem_false_aget in EP. rewrite EP. discriminate.
        -- apply Ha.
      * exact Hpk.
    + intros k'. rewrite f_load_eq. simpl. rewrite !aget_aset.
      destruct (Pos.eqb k' k) eqn:E.
      * apply Pos.eqb_eq in E. subst k'. apply amem_false_aget in EP. rewrite EP. reflexivity.
      * rewrite <- (HR k'), f_load_eq. reflexivity.
Qed.

Lemma f_remove_many_ok_k s sp ks s' removed : FInvK s -> SInv sp -> FR s sp ->
  f_remove_many s ks = (s', removed) ->
  FInvK s' /\ FR s' (akeep (fun k => negb (kmem k ks)) sp) /\
  NoDup removed /\ (forall x, In x removed <-> kmem x ks = true /\ f_can_load s x = true).
Proof.
  intros [Hf Hp Ha Hpk] HS HR H. unfold f_remove_many in H.
  destruct (f_remove_loop ks (f_files s) (f_packed s) []) as [[F' P'] rem'] eqn:EL.
  inversion H; subst; clear H. apply f_remove_loop_spec in EL. destruct EL as [HF [HP [Hrem Hnd]]].
  subst F' P'. split; [|split; [|split]].
  - constructor; simpl.
    + apply NoDup_akeep. exact Hf.
    + apply NoDup_akeep. exact Hp.
    + intros k v x. rewrite !aget_akeep. destruct (negb (kmem k ks)); [apply Ha | discriminate].
    + left. reflexivity.
  - intros k. rewrite f_load_eq. simpl. rewrite !aget_akeep. rewrite <- (HR k), f_load_eq.
    destruct (negb (kmem k ks)); reflexivity.
  - apply Hnd. constructor.
  - intros x. rewrite Hrem. unfold f_can_load. simpl. tauto.
Qed.

Lemma f_live_keys s sp x : FR s sp -> (In x (akeys sp) <-> In x (akeys (f_packed s) ++ akeys (f_files s))).
Proof.
  intros HR. rewrite in_app_iff, <- !amem_in_keys.
  assert (E : amem x sp = f_can_load s x) by (rewrite f_can_load_eq, (HR x); reflexivity).
  rewrite E. unfold f_can_load. rewrite orb_true_iff. tauto.
Qed.

Lemma f_cleanup_ok_k s sp act s' n : FInvK s -> SInv sp -> FR s sp ->
  f_cleanup s act = (s', n) ->
  FInvK s' /\ FR s' (akeep (fun k => kmem k act) sp) /\
  (length (akeep (fun k => negb (kmem k act)) sp) <= n)%nat.
Proof.
  intros [Hf Hp Ha Hpk] HS HR H. unfold f_cleanup in H. inversion H; subst; clear H.
  split; [|split].
  - assert (Hcommon : forall pf, (pf = Some (akeep (fun k => kmem k act) (f_packed s)) \/
                                  (pf = None /\ akeep (fun k => kmem k act) (f_packed s) = [])) ->
             FInvK {| f_files := akeep (fun k => kmem k act) (f_files s);
                      f_packed := akeep (fun k => kmem k act) (f_packed s);
                      f_packfile := pf; f_compress := f_compress s |}).
    { intros pf Hpf. constructor; simpl.
      - apply NoDup_akeep. exact Hf.
      - apply NoDup_akeep. exact Hp.
      - intros k v x. rewrite !aget_akeep. destruct (kmem k act); [apply Ha | discriminate].
      - exact Hpf. }
    destruct (Nat.eqb (length (akeep (fun k => negb (kmem k act)) (f_packed s))) 0) eqn:E0.
    + apply Hcommon. apply Nat.eqb_eq in E0.
      assert (Esame : akeep (fun k => kmem k act) (f_packed s) = f_packed s).
      { unfold akeep in *. apply filter_all_when_none_rejected. exact E0. }
      rewrite Esame. destruct Hpk as [Hpk|[Hpk1 Hpk2]]; [left; exact Hpk | right; split; assumption].
    + unfold resave. simpl. apply Hcommon. left. reflexivity.
  - assert (Hload : forall pf k, f_load {| f_files := akeep (fun k => kmem k act) (f_files s);
                     f_packed := akeep (fun k => kmem k act) (f_packed s);
                     f_packfile := pf; f_compress := f_compress s |} k
                     = aget k (akeep (fun k => kmem k act) sp)).
    { intros pf k. rewrite f_load_eq. simpl. rewrite !aget_akeep, <- (HR k), f_load_eq.
      destruct (kmem k act); reflexivity. }
    destruct (Nat.eqb (length (akeep (fun k => negb (kmem k act)) (f_packed s))) 0); intros k; apply Hload.
  - rewrite !length_akeep. rewrite Nat.add_comm, <- app_length, <- filter_app.
    apply NoDup_incl_length.
    + apply NoDup_filter_keys. exact HS.
    + intros x Hx. apply filter_In in Hx. destruct Hx as [Hx Hpx]. apply filter_In. split; [|exact Hpx].
      apply (f_live_keys s sp x HR). exact Hx.
Qed.

(* the loop of update_pack when a listed file may already be in the pack (with the same value) *)
Lemma f_pack_loop_spec_k Ev : forall todo s rm s' rm',
  f_pack_loop Ev todo s rm = (s', rm') ->
  NoDup (akeys todo) -> NoDup (akeys (f_packed s)) ->
  (forall k x, In (k, x) todo -> aget k (f_files s) = Some x /\ (forall v, aget k (f_packed s) = Some v -> v = fst x)) ->
  f_files s' = f_files s /\ f_packfile s' = f_packfile s /\ f_compress s' = f_compress s /\
  NoDup (akeys (f_packed s')) /\
  (forall k, aget k (f_packed s') =
             match aget k todo with
             | Some x => if entry_small Ev x then Some (fst x) else aget k (f_packed s)
             | None => aget k (f_packed s)
             end) /\
  (forall k, In k rm' <-> In k rm \/ exists x, aget k todo = Some x /\ entry_small Ev x = true).
Proof.
  induction todo as [|[k x] r IH]; intros s rm s' rm' H Hnd Hp Hin.
  - simpl in H. inversion H; subst. repeat split; try assumption; try reflexivity.
    + intros A. left. exact A.
    + intros [A|[y [A _]]]; [exact A | discriminate].
  - cbn [f_pack_loop] in H.
    assert (Hnd' : NoDup (akeys r)) by (inversion Hnd; assumption).
    assert (Hk : ~ In k (akeys r)) by (inversion Hnd; assumption).
    assert (Hkr : aget k r = None) by (apply aget_notin_keys; exact Hk).
    destruct (Hin k x (or_introl eq_refl)) as [HkF HkP].
    assert (Hload : f_load s k = Some (fst x)).
    { rewrite f_load_eq. destruct (aget k (f_packed s)) as [v|] eqn:EP.
      - rewrite (HkP v eq_refl). reflexivity.
      - rewrite HkF. reflexivity. }
    assert (Hget_cons : forall k0, aget k0 ((k, x) :: r) = if Pos.eqb k0 k then Some x else aget k0 r).
    { intros k0. reflexivity. }
    destruct (entry_small Ev x) eqn:Esm.
    + rewrite Hload in H. apply IH in H; clear IH.
      * destruct H as [A [B [C0 [D [G Hrm]]]]]. simpl in A, B, C0, G.
        repeat split; try assumption.
        -- intros k0. rewrite G, Hget_cons, aget_aset.
           destruct (Pos.eqb_spec k0 k) as [->|Hne].
           ++ rewrite Hkr, Esm. reflexivity.
           ++ reflexivity.
        -- rewrite Hrm, Hget_cons. destruct (Pos.eqb_spec k0 k) as [->|Hne].
           ++ intros _. right. exists x. split; [reflexivity | exact Esm].
           ++ simpl. intros [[A1|A1]|A1]; [congruence | left; exact A1 | right; exact A1].
        -- rewrite Hrm, Hget_cons. destruct (Pos.eqb_spec k0 k) as [->|Hne].
           ++ intros _. left. left. reflexivity.
           ++ simpl. intros [A1|A1]; [left; right; exact A1 | right; exact A1].
      * exact Hnd'.
      * simpl. apply NoDup_aset. exact Hp.
      * intros k' x' Hx'. simpl. destruct (Hin k' x' (or_intror Hx')) as [A B]. split; [exact A|].
        intros v. rewrite aget_aset. destruct (Pos.eqb_spec k' k) as [->|Hne]; [|apply B].
        exfalso. apply Hk. unfold akeys. apply in_map_iff. exists (k, x'). split; [reflexivity | exact Hx'].
    + apply IH in H; clear IH.
      * destruct H as [A [B [C0 [D [G Hrm]]]]].
        repeat split; try assumption.
        -- intros k0. rewrite G, Hget_cons.
           destruct (Pos.eqb_spec k0 k) as [->|Hne]; [rewrite Hkr, Esm; reflexivity | reflexivity].
        -- rewrite Hrm, Hget_cons. destruct (Pos.eqb_spec k0 k) as [->|Hne].
           ++ rewrite Hkr. intros [A1|[y [A1 _]]]; [left; exact A1 | discriminate].
           ++ tauto.
        -- rewrite Hrm, Hget_cons. destruct (Pos.eqb_spec k0 k) as [->|Hne].
           ++ intros [A1|[y [A1 A2]]]; [left; exact A1 | congruence].
           ++ tauto.
      * exact Hnd'.
      * exact Hp.
      * intros k' x' Hx'. apply Hin. right. exact Hx'.
Qed.

(* after the loop and resave_pack(): unlinking ANY part [ks] of the files that were packed keeps every answer *)
Lemma f_pack_partial_ok Ev s sp s1 rm ks : FInvK s -> FR s sp ->
  f_pack_loop Ev (f_files s) s [] = (s1, rm) -> (forall k, In k ks -> In k rm) ->
  FInvK (set_files (resave s1) (fold_left (fun fl k => aremove k fl) ks (f_files (resave s1)))) /\
  FR (set_files (resave s1) (fold_left (fun fl k => aremove k fl) ks (f_files (resave s1)))) sp.
Proof.
  intros [Hf Hp Ha Hpk] HR EL Hks.
  apply f_pack_loop_spec_k in EL; [|exact Hf|exact Hp|].
  2:{ intros k x Hin. assert (Hx : aget k (f_files s) = Some x) by (apply aget_of_in; assumption).
      split; [exact Hx|]. intros v Hv. symmetry. exact (Ha k v x Hv Hx). }
  destruct EL as [A [B [C0 [D [G Hrm]]]]].
  assert (Hrm' : forall k, In k rm <-> exists x, aget k (f_files s) = Some x /\ entry_small Ev x = true).
  { intros k. rewrite Hrm. split; [intros [[]|X]; exact X | intros X; right; exact X]. }
  simpl. rewrite fold_aremove_as_akeep, A.
  split.
  - constructor; simpl.
    + apply NoDup_akeep. exact Hf.
    + exact D.
    + intros k v x Hv Hx. rewrite aget_akeep in Hx. destruct (negb (kmem k ks)); [|discriminate].
      rewrite G, Hx in Hv. destruct (entry_small Ev x).
      * congruence.
      * exact (Ha k v x Hv Hx).
    + left. reflexivity.
  - intros k. rewrite <- (HR k), !f_load_eq. simpl. rewrite G, aget_akeep.
    destruct (aget k (f_files s)) as [x|] eqn:EF.
    + destruct (entry_small Ev x) eqn:Esm.
      * destruct (aget k (f_packed s)) as [v|] eqn:EP; [rewrite (Ha k v x EP EF)|]; reflexivity.
      * destruct (aget k (f_packed s)); [reflexivity|].
        destruct (kmem k ks) eqn:Ek; [|reflexivity].
        apply kmem_in, Hks, Hrm' in Ek. destruct Ek as [y [Y1 Y2]]. congruence.
    + destruct (aget k (f_packed s)); [reflexivity|]. destruct (negb (kmem k ks)); reflexivity.
Qed.

Lemma f_pack_ok_k Ev s sp s' n : FInvK s -> FR s sp -> f_pack Ev s = (s', n) -> FInvK s' /\ FR s' sp.
Proof.
  intros HI HR H. unfold f_pack in H.
  destruct (f_pack_loop Ev (f_files s) s []) as [s1 rm] eqn:EL. inversion H; subst; clear H.
  apply (f_pack_partial_ok Ev s sp s1 rm rm HI HR EL). tauto.
Qed.

Lemma f_reopen_ok_k s sp : FInvK s -> FR s sp -> FInvK (f_reopen s) /\ FR (f_reopen s) sp.
Proof.
  intros [Hf Hp Ha Hpk] HR. unfold f_reopen.
  assert (E : match f_packfile s with Some p => p | None => [] end = f_packed s).
  { destruct Hpk as [Hpk|[Hpk1 Hpk2]]; [rewrite Hpk; reflexivity | rewrite Hpk1, Hpk2; reflexivity]. }
  rewrite E. split.
  - constructor; simpl; assumption.
  - intros k. rewrite <- (HR k). reflexivity.
Qed.

Lemma kinsert_in x k l : In x (kinsert k l) <-> x = k \/ In x l.
Proof.
  induction l as [|y r IH]; simpl; [intuition congruence|].
  destruct (Pos.leb k y); simpl; [intuition congruence|]. rewrite IH. intuition congruence.
Qed.

Lemma sort_keys_in x l : In x (sort_keys l) <-> In x l.
Proof.
  unfold sort_keys. induction l as [|y r IH]; simpl; [tauto|]. rewrite kinsert_in, IH. intuition congruence.
Qed.

Lemma in_firstn {A} (x : A) n l : In x (firstn n l) -> In x l.
Proof.
  revert l. induction n as [|n IH]; intros l H; simpl in H; [contradiction|].
  destruct l as [|y r]; [contradiction|]. destruct H as [H|H]; [left; exact H | right; apply IH; exact H].
Qed.

Lemma f_pack_crash_ok_k Ev s sp n : FInvK s -> FR s sp ->
  FInvK (f_pack_crash Ev s n) /\ FR (f_pack_crash Ev s n) sp.
Proof.
  intros HI HR. unfold f_pack_crash.
  destruct (f_pack_loop Ev (f_files s) s []) as [s1 rm] eqn:EL.
  destruct (f_pack_partial_ok Ev s sp s1 rm (firstn n (sort_keys rm)) HI HR EL) as [A B].
  - intros k Hk. apply in_firstn in Hk. apply sort_keys_in. exact Hk.
  - apply f_reopen_ok_k; assumption.
Qed.

(* ---- one step, every operation ---- *)
Lemma fstep_ok_k Ev s sp op : True -> FInvK s -> SInv sp -> FR s sp ->
  FInvK (fst (fstep Ev s op)) /\ FR (fst (fstep Ev s op)) (fst (spec_step sp op)) /\
  res_agree_k op (snd (fstep Ev s op)) (snd (spec_step sp op)).
Proof.
  intros _ HI HS HR. destruct op as [k v|k|k|k|ks| |act| | |n]; cbn [fstep spec_step fst snd].
  - (* dump *) destruct (f_dump_ok_k Ev s sp k v HI HR) as [A B].
    split; [exact A|]. split; [exact B|]. reflexivity.
  - (* load *) split; [exact HI|]. split; [exact HR|]. simpl. rewrite (HR k). reflexivity.
  - (* can_load *) split; [exact HI|]. split; [exact HR|]. simpl. rewrite f_can_load_eq, (HR k). reflexivity.
  - (* remove *)
    destruct (f_remove_many s [k]) as [s1 removed] eqn:E. cbn [fst snd].
    destruct (f_remove_many_ok_k s sp [k] s1 removed HI HS HR E) as [A [B [_ Hrem]]].
    split; [exact A|]. split.
    + intros k'. rewrite (B k'), aget_akeep, aget_aremove, kmem_cons. unfold kmem. simpl.
      rewrite orb_false_r. destruct (Pos.eqb k' k); reflexivity.
    + simpl. f_equal.
      assert (Elive : amem k sp = f_can_load s k) by (rewrite f_can_load_eq, (HR k); reflexivity).
      rewrite Elive. destruct (f_can_load s k) eqn:L.
      * assert (In k removed) by (apply Hrem; split; [unfold kmem; simpl; rewrite Pos.eqb_refl; reflexivity | exact L]).
        destruct removed; [contradiction | reflexivity].
      * destruct removed as [|x t]; [reflexivity|]. exfalso.
        destruct (proj1 (Hrem x) (or_introl eq_refl)) as [X1 X2].
        unfold kmem in X1. simpl in X1. rewrite orb_false_r in X1. apply Pos.eqb_eq in X1. congruence.
  - (* remove_many *)
    destruct (f_remove_many s ks) as [s1 removed] eqn:E. cbn [fst snd].
    destruct (f_remove_many_ok_k s sp ks s1 removed HI HS HR E) as [A [B [Hnd Hrem]]].
    split; [exact A|]. split; [exact B|]. simpl.
    exists removed, (filter (fun k => kmem k ks) (akeys sp)).
    split; [reflexivity|]. split; [reflexivity|]. split; [exact Hnd|].
    apply NoDup_Permutation; [exact Hnd | apply NoDup_filter_keys; exact HS |].
    intros x. rewrite Hrem, filter_In, <- amem_in_keys, f_can_load_eq, (HR x). unfold amem. tauto.
  - (* list *)
    split; [exact HI|]. split; [exact HR|]. simpl.
    exists (akeys (f_packed s) ++ akeys (f_files s)), (akeys sp).
    split; [reflexivity|]. split; [reflexivity|]. intros x. symmetry. apply f_live_keys. exact HR.
  - (* cleanup *)
    destruct (f_cleanup s act) as [s1 n] eqn:E. cbn [fst snd].
    destruct (f_cleanup_ok_k s sp act s1 n HI HS HR E) as [A [B Hn]].
    split; [exact A|]. split; [exact B|]. simpl.
    exists n, (length (akeep (fun k => negb (kmem k act)) sp)). split; [reflexivity|]. split; [reflexivity | exact Hn].
  - (* pack *)
    destruct (f_pack Ev s) as [s1 n] eqn:E. cbn [fst snd].
    destruct (f_pack_ok_k Ev s sp s1 n HI HR E) as [A B].
    split; [exact A|]. split; [exact B|]. simpl. split; [reflexivity|]. right. exists n. reflexivity.
  - (* reopen *)
    destruct (f_reopen_ok_k s sp HI HR) as [A B].
    split; [exact A|]. split; [exact B|]. reflexivity.
  - (* pack killed half-way, new process *)
    destruct (f_pack_crash_ok_k Ev s sp n HI HR) as [A B].
    split; [exact A|]. split; [exact B|]. reflexivity.
Qed.

(* ---- whole histories, interrupted packs included ---- *)
Theorem file_store_refines_k Ev compress ops :
  FInvK (fst (run (fstep Ev) (f_init compress) ops)) /\
  (forall k, f_load (fst (run (fstep Ev) (f_init compress) ops)) k = aget k (fst (run spec_step [] ops))) /\
  all_agree res_agree_k ops (snd (run (fstep Ev) (f_init compress) ops)) (snd (run spec_step [] ops)).
Proof.
  destruct (run_refines (fstep Ev) FInvK FR (fun _ => True) res_agree_k (fstep_ok_k Ev) ops (f_init compress) [])
    as [A [_ [B D]]].
  - apply Forall_forall. intros; exact I.
  - apply FInv_FInvK, f_init_inv.
  - constructor.
  - intros k. reflexivity.
  - split; [exact A|]. split; [exact B | exact D].
Qed.

Theorem file_store_last_write Ev compress ops k :
  f_load (fst (run (fstep Ev) (f_init compress) ops)) k = last_write (rev ops) k /\
  (f_can_load (fst (run (fstep Ev) (f_init compress) ops)) k = true <-> last_write (rev ops) k <> None).
Proof.
  destruct (file_store_refines_k Ev compress ops) as [_ [B _]].
  rewrite f_can_load_eq, (B k), spec_is_last_write. split; [reflexivity|].
  destruct (last_write (rev ops) k); split; intro H; congruence.
Qed.

(* states reachable from the empty store by ANY operations, interrupted packs included *)
Definition f_reach_k (Ev : venv) (s : fstore) : Prop :=
  exists compress ops, s = fst (run (fstep Ev) (f_init compress) ops).

Lemma f_reach_reach_k Ev s : f_reach Ev s -> f_reach_k Ev s.
Proof. intros [c [ops [_ H]]]. exists c, ops. exact H. Qed.

Lemma f_reach_k_inv Ev s : f_reach_k Ev s -> FInvK s /\ exists sp, SInv sp /\ FR s sp.
Proof.
  intros [c [ops ->]]. destruct (file_store_refines_k Ev c ops) as [A [B _]].
  split; [exact A|]. exists (fst (run spec_step [] ops)). split; [|exact B].
  apply spec_run_inv. constructor.
Qed.

(* the effect of every operation on what can be loaded: pack, a killed pack and reopen change nothing *)
Theorem file_step_effect Ev s op k : f_reach_k Ev s ->
  f_load (fst (fstep Ev s op)) k = touch op k (f_load s k).
Proof.
  intros Hr. destruct (f_reach_k_inv Ev s Hr) as [HI [sp [HS HR]]].
  destruct (fstep_ok_k Ev s sp op I HI HS HR) as [_ [B _]].
  rewrite (B k), spec_step_get, (HR k). reflexivity.
Qed.

Theorem file_list_complete Ev s : f_reach_k Ev s ->
  fst (fstep Ev s SList) = s /\
  exists l, snd (fstep Ev s SList) = RKeys l /\ forall k, In k l <-> f_can_load s k = true.
Proof.
  intros _. split; [reflexivity|]. exists (akeys (f_packed s) ++ akeys (f_files s)).
  split; [reflexivity|].
  intros k. rewrite in_app_iff, <- !amem_in_keys. unfold f_can_load. rewrite orb_true_iff. tauto.
Qed.

Theorem file_remove_truthful Ev s k : f_reach_k Ev s ->
  snd (fstep Ev s (SRemove k)) = RBool (f_can_load s k) /\
  f_can_load (fst (fstep Ev s (SRemove k))) k = false.
Proof.
  intros Hr. destruct (f_reach_k_inv Ev s Hr) as [HI [sp [HS HR]]].
  destruct (fstep_ok_k Ev s sp (SRemove k) I HI HS HR) as [_ [B D]].
  cbn [res_agree_k] in D. split.
  - rewrite D. cbn [spec_step snd]. rewrite f_can_load_eq, (HR k). reflexivity.
  - rewrite f_can_load_eq, (file_step_effect Ev s (SRemove k) k Hr). simpl. rewrite Pos.eqb_refl. reflexivity.
Qed.

Theorem file_remove_many_truthful Ev s ks : f_reach_k Ev s ->
  (exists l, snd (fstep Ev s (SRemoveMany ks)) = RKeys l /\ NoDup l /\
             forall k, In k l <-> In k ks /\ f_can_load s k = true) /\
  (forall k, In k ks -> f_can_load (fst (fstep Ev s (SRemoveMany ks))) k = false).
Proof.
  intros Hr. destruct (f_reach_k_inv Ev s Hr) as [HI [sp [HS HR]]]. split.
  - cbn [fstep]. destruct (f_remove_many s ks) as [s1 removed] eqn:E.
    destruct (f_remove_many_ok_k s sp ks s1 removed HI HS HR E) as [_ [_ [Hnd Hrem]]].
    exists removed. split; [reflexivity|]. split; [exact Hnd|].
    intros k. rewrite Hrem, kmem_in. tauto.
  - intros k Hk. rewrite f_can_load_eq, (file_step_effect Ev s (SRemoveMany ks) k Hr). simpl.
    apply kmem_in in Hk. rewrite Hk. reflexivity.
Qed.

(* cleanup(active) leaves exactly the active keys that were live, in the pack and as files alike *)
Theorem file_cleanup_exact Ev s act k : f_reach_k Ev s ->
  f_can_load (fst (fstep Ev s (SCleanup act))) k = kmem k act && f_can_load s k.
Proof.
  intros Hr. rewrite !f_can_load_eq, (file_step_effect Ev s (SCleanup act) k Hr). simpl.
  destruct (kmem k act); [reflexivity|]. reflexivity.
Qed.

(* a killed pack can make a key live in both places, and then every operation still removes / keeps both:
   the state is reachable (so the theorems above are not vacuous about it) *)
Lemma both_places_reachable :
  let E := {| isarr := fun _ => false; small_raw := fun _ => true; small_enc := fun _ => true |} in
  let s := fst (run (fstep E) (f_init false) [SDump 1%positive 5%Z; SDump 2%positive 6%Z; SPackCrash 1]) in
  f_reach_k E s /\ amem 2%positive (f_packed s) = true /\ amem 2%positive (f_files s) = true /\
  amem 1%positive (f_packed s) = true /\ amem 1%positive (f_files s) = false.
Proof.
  split; [exists false; eexists; reflexivity|]. vm_compute. repeat split; reflexivity.
Qed.

(* ================================================================================================ *)
(* base_store.remove_many                                                                           *)
(* ================================================================================================ *)
Section BaseRemoveMany.
  Context {S : Type}.
  Variable remove : S -> key -> S * bool.
  Variable mem : S -> list (key * valid).
  Variable Q : S -> Prop.
  Hypothesis remove_mem : forall s k, mem (fst (remove s k)) = aremove k (mem s).
  Hypothesis remove_res : forall s k, snd (remove s k) = amem k (mem s).
  Hypothesis remove_Q : forall s k, Q s -> Q (fst (remove s k)).

  Lemma base_remove_many_spec ks : forall s acc s' out,
    base_remove_many remove s ks acc = (s', out) ->
    mem s' = akeep (fun x => negb (kmem x ks)) (mem s) /\
    (forall x, In x out <-> In x acc \/ (kmem x ks = true /\ amem x (mem s) = true)) /\
    (NoDup acc -> (forall x, In x acc -> amem x (mem s) = false) -> NoDup out) /\
    (Q s -> Q s').
  Proof.
    induction ks as [|k r IH]; intros s acc s' out H; simpl in H.
    - inversion H; subst. split; [symmetry; apply akeep_all; reflexivity|]. split; [|split].
      + intros x. rewrite <- in_rev. split; [tauto|]. intros [A|[A _]]; [exact A | discriminate].
      + intros Hnd _. eapply Permutation_NoDup; [apply Permutation_rev | exact Hnd].
      + tauto.
    - pose proof (remove_mem s k) as Hm. pose proof (remove_res s k) as Hr. pose proof (remove_Q s k) as Hq.
      destruct (remove s k) as [s1 b]. simpl in Hm, Hr, Hq. apply IH in H. clear IH.
      destruct H as [A [B [D G]]]. rewrite Hm in *. split; [|split; [|split]].
      + rewrite A, aremove_as_akeep, akeep_akeep. apply akeep_ext. intros x. rewrite kmem_cons.
        destruct (Pos.eqb x k); reflexivity.
      + intros x. rewrite B, amem_aremove, kmem_cons. subst b.
        destruct (Pos.eqb_spec x k) as [->|Hne]; simpl.
        * destruct (amem k (mem s)); simpl; intuition congruence.
        * destruct (amem k (mem s)); simpl; intuition congruence.
      + intros Hnd Habs. apply D.
        * subst b. destruct (amem k (mem s)) eqn:Ek; [|exact Hnd]. constructor; [|exact Hnd].
          intros Hin. apply Habs in Hin. congruence.
        * intros x Hx. rewrite amem_aremove. subst b.
          destruct (Pos.eqb_spec x k) as [->|Hne]; [reflexivity|]. simpl.
          destruct (amem k (mem s)); [destruct Hx as [Hx|Hx]; [congruence|]|]; apply Habs; exact Hx.
      + tauto.
  Qed.
End BaseRemoveMany.

Lemma cleanup_existing_eq (m : list (key * valid)) act :
  fold_left (fun m k => aremove k m) (filter (fun k => negb (kmem k act)) (akeys m)) m
  = akeep (fun k => kmem k act) m.
Proof.
  rewrite fold_aremove_as_akeep. apply akeep_ext_in. intros k Hk.
  destruct (kmem k act) eqn:Ea.
  - apply negb_true_iff. destruct (kmem k (filter (fun k0 => negb (kmem k0 act)) (akeys m))) eqn:E; [|reflexivity].
    apply kmem_in, filter_In in E. destruct E as [_ E]. rewrite Ea in E. discriminate.
  - apply negb_false_iff. apply kmem_in, filter_In. split; [exact Hk | rewrite Ea; reflexivity].
Qed.

(* ================================================================================================ *)
(* dict_store                                                                                       *)
(* ================================================================================================ *)
Lemma d_remove_eq s k : d_remove s k = (d_set_mem s (aremove k (d_mem s)), amem k (d_mem s)).
Proof.
  destruct s as [m f b]. unfold d_remove, d_set_mem. simpl.
  destruct (amem k m) eqn:E; [reflexivity|]. rewrite (aremove_absent k m E). reflexivity.
Qed.

Section Dict.
  Variable backed : bool.
  Definition DInv (s : dstore) : Prop := d_backed s = backed.
  Definition DR (s : dstore) (sp : smap) : Prop := d_mem s = sp.
  (* a dict_store without a backing file cannot be reopened: a new dict_store() is empty *)
  Definition d_ok (op : sop) : Prop := backed = true \/ op <> SReopen.

  Lemma dstep_ok s sp op : d_ok op -> DInv s -> SInv sp -> DR s sp ->
    DInv (fst (dstep s op)) /\ DR (fst (dstep s op)) (fst (spec_step sp op)) /\
    res_agree op (snd (dstep s op)) (snd (spec_step sp op)).
  Proof.
    unfold DInv, DR. intros Hok HI HS HR. subst sp.
    destruct op as [k v|k|k|k|ks| |act| | |n]; cbn [dstep spec_step fst snd].
    - split; [exact HI|]. split; reflexivity.
    - split; [exact HI|]. split; reflexivity.
    - split; [exact HI|]. split; reflexivity.
    - rewrite d_remove_eq. cbn [fst snd]. split; [exact HI|]. split; reflexivity.
    - destruct (base_remove_many d_remove s ks []) as [s1 removed] eqn:E. cbn [fst snd].
      apply (base_remove_many_spec d_remove d_mem (fun s => d_backed s = backed)) in E.
      + destruct E as [A [B [D G]]]. split; [exact (G HI)|]. split; [exact A|]. simpl.
        exists removed, (filter (fun k => kmem k ks) (akeys (d_mem s))).
        split; [reflexivity|]. split; [reflexivity|].
        assert (Hnd : NoDup removed) by (apply D; [constructor | intros x []]).
        split; [exact Hnd|]. apply NoDup_Permutation; [exact Hnd | apply NoDup_filter_keys; exact HS|].
        intros x. rewrite B, filter_In, <- amem_in_keys. simpl. tauto.
      + intros s0 k. rewrite d_remove_eq. reflexivity.
      + intros s0 k. rewrite d_remove_eq. reflexivity.
      + intros s0 k. rewrite d_remove_eq. simpl. tauto.
    - split; [exact HI|]. split; [reflexivity|]. simpl.
      exists (akeys (d_mem s)), (akeys (d_mem s)). split; [reflexivity|]. split; [reflexivity|].
      split; [exact HS | apply Permutation_refl].
    - unfold d_cleanup. cbn [fst snd]. split; [exact HI|]. split.
      + simpl. apply cleanup_existing_eq.
      + simpl. rewrite length_akeep. reflexivity.
    - split; [exact HI|]. split; [reflexivity|]. simpl. split; [reflexivity | left; reflexivity].
    - destruct Hok as [Hb|Hne]; [|congruence]. unfold d_reopen. rewrite HI, Hb. simpl.
      split; [reflexivity|]. split; reflexivity.
    - split; [exact HI|]. split; reflexivity.
  Qed.
End Dict.

Theorem dict_store_refines backed ops : backed = true \/ ~ In SReopen ops ->
  d_mem (fst (run dstep (d_init backed) ops)) = fst (run spec_step [] ops) /\
  all_agree res_agree ops (snd (run dstep (d_init backed) ops)) (snd (run spec_step [] ops)).
Proof.
  intros H.
  destruct (run_refines dstep (DInv backed) DR (d_ok backed) res_agree (dstep_ok backed) ops (d_init backed) [])
    as [_ [_ [B D]]].
  - apply Forall_forall. intros op Hin. destruct H as [H|H]; [left; exact H | right; congruence].
  - reflexivity.
  - constructor.
  - reflexivity.
  - split; assumption.
Qed.

(* ================================================================================================ *)
(* redis_store                                                                                      *)
(* ================================================================================================ *)
Lemma r_remove_eq s k : r_remove s k = (aremove k s, amem k s).
Proof. unfold r_remove. destruct (amem k s) eqn:E; [reflexivity|]. rewrite (aremove_absent k s E). reflexivity. Qed.

Lemma rstep_ok (s : rstore) sp op : True -> True -> SInv sp -> s = sp ->
  True /\ fst (rstep s op) = fst (spec_step sp op) /\
  res_agree_redis op (snd (rstep s op)) (snd (spec_step sp op)).
Proof.
  intros _ _ HS HR. subst sp. split; [exact I|].
  destruct op as [k v|k|k|k|ks| |act| | |n]; cbn [rstep spec_step fst snd].
  - split; [reflexivity | left; reflexivity].
  - split; [reflexivity|]. destruct (aget k s).
    + left. reflexivity.
    + right. split; [exists k; reflexivity|]. split; reflexivity.
  - split; [reflexivity | left; reflexivity].
  - rewrite r_remove_eq. cbn [fst snd]. split; [reflexivity | left; reflexivity].
  - destruct (base_remove_many r_remove s ks []) as [s1 removed] eqn:E. cbn [fst snd].
    apply (base_remove_many_spec r_remove (fun s => s) (fun _ => True)) in E.
    + destruct E as [A [B [D _]]]. split; [exact A|]. left. simpl.
      exists removed, (filter (fun k => kmem k ks) (akeys s)).
      split; [reflexivity|]. split; [reflexivity|].
      assert (Hnd : NoDup removed) by (apply D; [constructor | intros x []]).
      split; [exact Hnd|]. apply NoDup_Permutation; [exact Hnd | apply NoDup_filter_keys; exact HS|].
      intros x. rewrite B, filter_In, <- amem_in_keys. simpl. tauto.
    + intros s0 k. rewrite r_remove_eq. reflexivity.
    + intros s0 k. rewrite r_remove_eq. reflexivity.
    + tauto.
  - split; [reflexivity|]. left. simpl.
    exists (akeys s), (akeys s). split; [reflexivity|]. split; [reflexivity|].
    split; [exact HS | apply Permutation_refl].
  - unfold r_cleanup. cbn [fst snd]. split; [apply cleanup_existing_eq|]. left. simpl.
    rewrite length_akeep. reflexivity.
  - split; [reflexivity|]. left. simpl. split; [reflexivity | left; reflexivity].
  - split; [reflexivity | left; reflexivity].
  - split; [reflexivity | left; reflexivity].
Qed.

Theorem redis_store_refines ops :
  fst (run rstep [] ops) = fst (run spec_step [] ops) /\
  all_agree res_agree_redis ops (snd (run rstep [] ops)) (snd (run spec_step [] ops)).
Proof.
  destruct (run_refines rstep (fun _ => True) (fun (s : rstore) sp => s = sp) (fun _ => True) res_agree_redis rstep_ok ops [] [])
    as [_ [_ [B D]]].
  - apply Forall_forall. intros; exact I.
  - exact I.
  - constructor.
  - reflexivity.
  - split; assumption.
Qed.

(* ================================================================================================ *)
(* framing of encode.py and file_store.dump/load over abstract byte codecs                          *)
(* ================================================================================================ *)
Definition bytes := list N.
Definition byte_P : N := 80%N.    (* b'P' *)
Definition byte_N : N := 78%N.    (* b'N' *)

Section Codec.
  Variables V A : Type.                  (* Python values; arrays whose type is exactly numpy.ndarray *)
  Variable inj : A -> V.                 (* an array is a value *)
  Variable as_arr : V -> option A.       (* type(v) == np.ndarray *)
  Variable vNone : V.
  Variable is_none : V -> bool.          (* v is None *)
  Variable pickle : V -> bytes.          (* pickle.dump(v, protocol=HIGHEST_PROTOCOL) *)
  Variable unpickle : bytes -> option V. (* pickle.load *)
  Variable npsave : A -> bytes.          (* np.save / np.lib.format.write_array *)
  Variable npload : bytes -> option A.   (* np.load / read_array with allow_pickle=True; None = ValueError *)
  Variables deflate inflate : bytes -> bytes.   (* compress_stream / decompress_stream (zlib) *)
  Variables b64e b64d : bytes -> bytes.  (* base64, redis only *)

  Definition is_arr (v : V) : bool := match as_arr v with Some _ => true | None => false end.

  (* encode.encode_to *)
  Definition encode (v : V) : bytes :=
    match stream_frame (is_none v) (is_arr v) with
    | FEmpty => []
    | FNumpy => match as_arr v with Some a => deflate (byte_N :: npsave a) | None => [] end
    | _ => deflate (byte_P :: pickle v)
    end.

  (* encode.decode_from; None = IOError("unknown prefix") or a failure of the inner loader *)
  Definition decode (b : bytes) : option V :=
    match inflate b with
    | [] => Some vNone
    | p :: r => if N.eqb p byte_P then unpickle r
                else if N.eqb p byte_N then option_map inj (npload r)
                else None
    end.

  (* what file_store.dump writes *)
  Definition encode_file (compress_numpy : bool) (v : V) : bytes :=
    match file_frame compress_numpy (is_none v) (is_arr v) with
    | FRaw => match as_arr v with Some a => npsave a | None => [] end
    | _ => encode v
    end.

  (* file_store.load: try a raw .npy first; on ValueError rewind and decode *)
  Definition decode_file (b : bytes) : option V :=
    match npload b with
    | Some a => Some (inj a)
    | None => decode b
    end.

  (* redis_store.dump / load: base64 unless the encoding is empty; GET of an absent key gives None *)
  Definition redis_enc (v : V) : bytes := match encode v with [] => [] | s => b64e s end.
  Definition redis_dec (s : option bytes) : option V :=
    decode (match s with Some (x :: r) => b64d (x :: r) | _ => [] end).

  Hypothesis as_arr_inj : forall v a, as_arr v = Some a -> v = inj a.
  Hypothesis is_none_spec : forall v, is_none v = true -> v = vNone.
  Hypothesis pickle_roundtrip : forall v, unpickle (pickle v) = Some v.
  Hypothesis np_roundtrip : forall a, npload (npsave a) = Some a.
  Hypothesis zlib_roundtrip : forall b, inflate (deflate b) = b.
  Hypothesis zlib_empty : inflate [] = [].
  (* a zlib stream, and the empty file, are not .npy files: read_array raises ValueError on them *)
  Hypothesis npy_rejects_zlib : forall b, npload (deflate b) = None.
  Hypothesis npy_rejects_empty : npload [] = None.
  Hypothesis b64_roundtrip : forall b, b64d (b64e b) = b.
  Hypothesis b64_nonempty : forall b, b64e b = [] -> b = [].

  Lemma decode_encode v : decode (encode v) = Some v.
  Proof.
    unfold encode, decode, stream_frame, is_arr.
    destruct (is_none v) eqn:En.
    - rewrite zlib_empty. rewrite (is_none_spec v En). reflexivity.
    - destruct (as_arr v) as [a|] eqn:Ea.
      + rewrite zlib_roundtrip. simpl. rewrite np_roundtrip. simpl. rewrite (as_arr_inj v a Ea). reflexivity.
      + rewrite zlib_roundtrip. simpl. apply pickle_roundtrip.
  Qed.

  Lemma encode_cases v : encode v = [] \/ exists b, encode v = deflate b.
  Proof.
    unfold encode, stream_frame, is_arr. destruct (is_none v); [left; reflexivity|].
    destruct (as_arr v) as [a|]; right; eexists; reflexivity.
  Qed.

  Lemma decode_file_encode_file c v : decode_file (encode_file c v) = Some v.
  Proof.
    unfold decode_file, encode_file, file_frame, is_arr.
    destruct (as_arr v) as [a|] eqn:Ea.
    - destruct c; simpl.
      + assert (E : stream_frame (is_none v) true <> FRaw) by (unfold stream_frame; destruct (is_none v); discriminate).
        destruct (stream_frame (is_none v) true) eqn:Es; try contradiction;
          (destruct (encode_cases v) as [H|[b H]]; rewrite H; [rewrite npy_rejects_empty | rewrite npy_rejects_zlib];
           rewrite <- H; apply decode_encode).
      + rewrite np_roundtrip. rewrite (as_arr_inj v a Ea). reflexivity.
    - rewrite andb_false_r.
      assert (E : stream_frame (is_none v) false <> FRaw) by (unfold stream_frame; destruct (is_none v); discriminate).
      destruct (stream_frame (is_none v) false) eqn:Es; try contradiction;
        (destruct (encode_cases v) as [H|[b H]]; rewrite H; [rewrite npy_rejects_empty | rewrite npy_rejects_zlib];
         rewrite <- H; apply decode_encode).
  Qed.

  Lemma redis_dec_enc v : redis_dec (Some (redis_enc v)) = Some v.
  Proof.
    unfold redis_dec, redis_enc. destruct (encode v) as [|x r] eqn:E.
    - rewrite <- E. apply decode_encode.
    - destruct (b64e (x :: r)) as [|y t] eqn:Eb.
      + apply b64_nonempty in Eb. discriminate.
      + rewrite <- Eb, b64_roundtrip, <- E. apply decode_encode.
  Qed.

  (* the observation behind [rstep]'s SLoad: an absent key decodes to None *)
  Lemma redis_dec_absent : redis_dec None = Some vNone.
  Proof. unfold redis_dec, decode. rewrite zlib_empty. reflexivity. Qed.
End Codec.

(* a small concrete codec satisfying every hypothesis (non-vacuity) *)
Module ToyCodec.
  Inductive pv := PNone | PInt (n : N) | PArr (a : list N).
  Definition inj (a : list N) : pv := PArr a.
  Definition as_arr (v : pv) : option (list N) := match v with PArr a => Some a | _ => None end.
  Definition is_none (v : pv) : bool := match v with PNone => true | _ => false end.
  Definition pickle (v : pv) : bytes :=
    match v with PNone => [0%N] | PInt n => [1%N; n] | PArr a => 2%N :: a end.
  Definition unpickle (b : bytes) : option pv :=
    match b with
    | [0%N] => Some PNone
    | [1%N; n] => Some (PInt n)
    | 2%N :: a => Some (PArr a)
    | _ => None
    end.
  Definition npsave (a : list N) : bytes := 147%N :: a.               (* \x93NUMPY... *)
  Definition npload (b : bytes) : option (list N) :=
    match b with 147%N :: a => Some a | _ => None end.
  Definition deflate (b : bytes) : bytes := 120%N :: b.              (* zlib header 0x78 *)
  Definition inflate (b : bytes) : bytes := match b with 120%N :: r => r | _ => [] end.
  Definition b64e (b : bytes) : bytes := match b with [] => [] | _ => 61%N :: b end.
  Definition b64d (b : bytes) : bytes := match b with [] => [] | _ :: r => r end.

  Lemma roundtrips : forall c v,
    decode_file pv (list N) inj PNone unpickle npload inflate
      (encode_file pv (list N) as_arr is_none pickle npsave deflate c v) = Some v
    /\ redis_dec pv (list N) inj PNone unpickle npload inflate b64d
      (Some (redis_enc pv (list N) as_arr is_none pickle npsave deflate b64e v)) = Some v.
  Proof.
    intros c v. split.
    - apply decode_file_encode_file.
      + intros [| |a] a' H; simpl in H; try discriminate. inversion H; reflexivity.
      + intros [| |a] H; simpl in H; try discriminate. reflexivity.
      + intros [|n|a]; reflexivity.
      + reflexivity.
      + reflexivity.
      + reflexivity.
      + reflexivity.
      + reflexivity.
    - apply redis_dec_enc.
      + intros [| |a] a' H; simpl in H; try discriminate. inversion H; reflexivity.
      + intros [| |a] H; simpl in H; try discriminate. reflexivity.
      + intros [|n|a]; reflexivity.
      + reflexivity.
      + reflexivity.
      + reflexivity.
      + intros [|x r]; reflexivity.
      + intros [|x r] H; [reflexivity | discriminate].
  Qed.
End ToyCodec.
