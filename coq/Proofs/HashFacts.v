(* Facts about Model/Hash.v.  SHA-1 is an arbitrary function H into a totally ordered digest
   type; [fl] is the chunk sequence the code feeds to the hash INCLUDING the sort of set items and
   dict items by digest, which the executable [stream] leaves to its caller. *)
From Coq Require Import List PArith Bool Permutation Sorted Lia.
From JugV Require Import Model.Hash.
Import ListNotations.

(* ---- induction principle for the nested type pv ----------------------------------------- *)
Section PvInd.
  Variable P : pv -> Prop.
  Hypothesis HLeaf : forall l, P (Leaf l).
  Hypothesis HRaw : forall l, P (RawB l).
  Hypothesis HSeq : forall k xs, Forall P xs -> P (PSeq k xs).
  Hypothesis HSet : forall k xs, Forall P xs -> P (PSet k xs).
  Hypothesis HDict : forall kvs, Forall (fun kv => P (fst kv) /\ P (snd kv)) kvs -> P (PDict kvs).
  Hypothesis HArr : forall d s c l, P (PArr d s c l).
  Hypothesis HObj : forall d s xs l, Forall P xs -> P (PObjArr d s xs l).
  Hypothesis HHashed : forall m fs, Forall (fun f => P (snd f)) fs -> P (PHashed m fs).

  Fixpoint pv_ind' (v : pv) : P v :=
    match v with
    | Leaf l => HLeaf l
    | RawB l => HRaw l
    | PSeq k xs => HSeq k xs ((fix go (l : list pv) : Forall P l :=
                                 match l with [] => Forall_nil _ | x :: t => Forall_cons _ (pv_ind' x) (go t) end) xs)
    | PSet k xs => HSet k xs ((fix go (l : list pv) : Forall P l :=
                                 match l with [] => Forall_nil _ | x :: t => Forall_cons _ (pv_ind' x) (go t) end) xs)
    | PDict kvs => HDict kvs ((fix go (l : list (pv * pv)) : Forall (fun kv => P (fst kv) /\ P (snd kv)) l :=
                                 match l with
                                 | [] => Forall_nil _
                                 | kv :: t => Forall_cons _ (conj (pv_ind' (fst kv)) (pv_ind' (snd kv))) (go t)
                                 end) kvs)
    | PArr d s c l => HArr d s c l
    | PObjArr d s xs l => HObj d s xs l ((fix go (l : list pv) : Forall P l :=
                                 match l with [] => Forall_nil _ | x :: t => Forall_cons _ (pv_ind' x) (go t) end) xs)
    | PHashed m fs => HHashed m fs ((fix go (l : list (positive * pv)) : Forall (fun f => P (snd f)) l :=
                                 match l with [] => Forall_nil _ | f :: t => Forall_cons _ (pv_ind' (snd f)) (go t) end) fs)
    end.
End PvInd.

(* ---- stable insertion sort by a key, and uniqueness of sorted permutations ------------------ *)
Section Sort.
  Variables (A D : Type) (key : A -> D) (leD : D -> D -> bool).
  Hypothesis leD_total : forall a b, leD a b = true \/ leD b a = true.
  Hypothesis leD_antisym : forall a b, leD a b = true -> leD b a = true -> a = b.
  Hypothesis leD_trans : forall a b c, leD a b = true -> leD b c = true -> leD a c = true.

  Fixpoint insert (a : A) (l : list A) : list A :=
    match l with
    | [] => [a]
    | b :: t => if leD (key a) (key b) then a :: b :: t else b :: insert a t
    end.
  Fixpoint isort (l : list A) : list A :=
    match l with [] => [] | a :: t => insert a (isort t) end.

  Definition le_key (a b : A) : Prop := leD (key a) (key b) = true.

  Lemma insert_perm a l : Permutation (insert a l) (a :: l).
  Proof.
    induction l as [|b t IH]; simpl; [reflexivity|].
    destruct (leD (key a) (key b)); [reflexivity|].
    rewrite IH. apply perm_swap.
  Qed.

  Lemma isort_perm l : Permutation (isort l) l.
  Proof. induction l as [|a t IH]; simpl; [reflexivity|]. rewrite insert_perm, IH. reflexivity. Qed.

  Lemma insert_sorted a l : StronglySorted le_key l -> StronglySorted le_key (insert a l).
  Proof.
    induction l as [|b t IH]; intros Hs; simpl.
    - constructor; constructor.
    - inversion Hs as [|b' t' Hst Hall]; subst.
      destruct (leD (key a) (key b)) eqn:E.
      + constructor; [exact Hs|]. constructor; [exact E|].
        eapply Forall_impl; [|exact Hall]. intros c Hc. unfold le_key in *. eauto.
      + constructor; [apply IH; exact Hst|].
        assert (Hba : le_key b a) by (destruct (leD_total (key a) (key b)); [congruence | assumption]).
        eapply Permutation_Forall; [symmetry; apply insert_perm|].
        constructor; assumption.
  Qed.

  Lemma isort_sorted l : StronglySorted le_key (isort l).
  Proof. induction l as [|a t IH]; simpl; [constructor | apply insert_sorted; exact IH]. Qed.

  (* two sorted permutations of each other coincide, provided key-equal members are equal *)
  Lemma sorted_perm_unique : forall l l',
    Permutation l l' -> StronglySorted le_key l -> StronglySorted le_key l' ->
    (forall a b, In a l -> In b l -> key a = key b -> a = b) -> l = l'.
  Proof.
    induction l as [|a t IH]; intros l' Hp Hs Hs' Hinj.
    - apply Permutation_nil in Hp. congruence.
    - destruct l' as [|a' t']; [apply Permutation_sym, Permutation_nil in Hp; discriminate|].
      inversion Hs as [|? ? Hst Hall]; subst. inversion Hs' as [|? ? Hst' Hall']; subst.
      assert (Ha' : In a' (a :: t)) by (eapply Permutation_in; [symmetry; exact Hp | left; reflexivity]).
      assert (Ha : In a (a' :: t')) by (eapply Permutation_in; [exact Hp | left; reflexivity]).
      assert (Heq : a = a').
      { destruct Ha' as [E|Hin']; [exact E|]. destruct Ha as [E|Hin]; [congruence|].
        rewrite Forall_forall in Hall, Hall'.
        apply Hinj; [left; reflexivity | right; exact Hin' |].
        apply leD_antisym; [apply Hall; exact Hin' | apply Hall'; exact Hin]. }
      subst a'. f_equal. apply IH; try assumption.
      + eapply Permutation_cons_inv; exact Hp.
      + intros x y Hx Hy. apply Hinj; right; assumption.
  Qed.

  Lemma isort_perm_eq l l' : Permutation l l' ->
    (forall a b, In a l -> In b l -> key a = key b -> a = b) -> isort l = isort l'.
  Proof.
    intros Hp Hinj. apply sorted_perm_unique; try apply isort_sorted.
    - rewrite isort_perm, Hp. symmetry. apply isort_perm.
    - intros a b Ha Hb. apply Hinj; eapply Permutation_in; try apply isort_perm; assumption.
  Qed.

  Lemma isort_sorted_id l : StronglySorted le_key l -> (forall a b, In a l -> In b l -> key a = key b -> a = b) ->
    isort l = l.
  Proof.
    intros Hs Hinj. symmetry. apply sorted_perm_unique; try assumption.
    - symmetry. apply isort_perm.
    - apply isort_sorted.
  Qed.
End Sort.

(* ---- the digest ------------------------------------------------------------------------------ *)
Section Digest.
  Variable D : Type.
  Variable leD : D -> D -> bool.
  Hypothesis leD_total : forall a b, leD a b = true \/ leD b a = true.
  Hypothesis leD_antisym : forall a b, leD a b = true -> leD b a = true -> a = b.
  Hypothesis leD_trans : forall a b c, leD a b = true -> leD b c = true -> leD a c = true.

  Inductive atom := AB (id : positive) | ADig (d : D) | APDig (d : D).
  Variable H : list atom -> D.      (* sha1 over the concatenated chunks, as a hexdigest *)

  Fixpoint enumA (i : nat) (ls : list (list atom)) : list atom :=
    match ls with [] => [] | a :: t => AB (int_id i) :: a ++ enumA (S i) t end.
  Fixpoint enumD (i : nat) (ds : list D) : list atom :=
    match ds with [] => [] | d :: t => AB (int_id i) :: APDig d :: enumD (S i) t end.
  Definition itemsA (l : list (D * list atom)) : list atom := flat_map (fun p => APDig (fst p) :: snd p) l.
  Definition opt_markA (m : option positive) : list atom := match m with Some b => [AB b] | None => [] end.

  Definition sortD : list D -> list D := isort D D (fun d => d) leD.
  Definition sortK : list (D * list atom) -> list (D * list atom) := isort _ D fst leD.

  (* the chunk sequence the real code feeds for element e: items.sort() included *)
  Fixpoint fl (e : pv) : list atom :=
    match e with
    | Leaf l => [AB l]
    | RawB l => [AB l]
    | PSeq k xs => AB (seq_mark k) :: enumA 0 (map fl xs)
    | PSet k xs => AB (set_mark k) :: enumD 0 (sortD (map (fun x => H (AB L_hash1 :: fl x)) xs))
    | PDict kvs => AB M_dict ::
                   itemsA (sortK (map (fun kv => (H (AB L_hash1 :: fl (fst kv)), fl (snd kv))) kvs))
    | PArr d s c _ => [AB M_ndarray; AB d; AB s; AB c]
    | PObjArr d s xs _ => AB M_ndarray :: AB d :: AB s :: enumA 0 (map fl xs)
    | PHashed m fields => [ADig (H (opt_markA m ++ flat_map (fun f => AB (fst f) :: fl (snd f)) fields))]
    end.

  Definition hash_one_dig (e : pv) : D := H (AB L_hash1 :: fl e).
  Definition keydig (kv : pv * pv) : D := hash_one_dig (fst kv).

  (* the identifier of a task / tasklet / any object hashed through __jug_hash__ *)
  Definition ident (e : pv) : list atom := fl e.

  (* "same value": permuting the iteration order of any set, frozenset or dict (whose keys have
     distinct digests), at any depth, and changing any array's memory layout *)
  Inductive pv_perm : pv -> pv -> Prop :=
  | PP_refl v : pv_perm v v
  | PP_seq k xs ys : Forall2 pv_perm xs ys -> pv_perm (PSeq k xs) (PSeq k ys)
  | PP_set k xs ys zs : Forall2 pv_perm xs ys -> Permutation ys zs -> pv_perm (PSet k xs) (PSet k zs)
  | PP_dict kvs kvs' kvs'' :
      Forall2 (fun a b => pv_perm (fst a) (fst b) /\ pv_perm (snd a) (snd b)) kvs kvs' ->
      Permutation kvs' kvs'' -> NoDup (map keydig kvs') ->
      pv_perm (PDict kvs) (PDict kvs'')
  | PP_arr d s c l l' : pv_perm (PArr d s c l) (PArr d s c l')
  | PP_objarr d s xs ys l l' : Forall2 pv_perm xs ys -> pv_perm (PObjArr d s xs l) (PObjArr d s ys l')
  | PP_hashed m fs fs' : Forall2 (fun a b => fst a = fst b /\ pv_perm (snd a) (snd b)) fs fs' ->
      pv_perm (PHashed m fs) (PHashed m fs').

  Section PermInd.
    Variable P : pv -> pv -> Prop.
    Hypothesis Hrefl : forall v, P v v.
    Hypothesis Hseq : forall k xs ys, Forall2 P xs ys -> P (PSeq k xs) (PSeq k ys).
    Hypothesis Hset : forall k xs ys zs, Forall2 P xs ys -> Permutation ys zs -> P (PSet k xs) (PSet k zs).
    Hypothesis Hdict : forall kvs kvs' kvs'',
      Forall2 (fun a b => P (fst a) (fst b) /\ P (snd a) (snd b)) kvs kvs' ->
      Permutation kvs' kvs'' -> NoDup (map keydig kvs') -> P (PDict kvs) (PDict kvs'').
    Hypothesis Harr : forall d s c l l', P (PArr d s c l) (PArr d s c l').
    Hypothesis Hobj : forall d s xs ys l l', Forall2 P xs ys -> P (PObjArr d s xs l) (PObjArr d s ys l').
    Hypothesis Hhashed : forall m fs fs', Forall2 (fun a b => fst a = fst b /\ P (snd a) (snd b)) fs fs' ->
      P (PHashed m fs) (PHashed m fs').

    Fixpoint pv_perm_ind' (v v' : pv) (p : pv_perm v v') {struct p} : P v v' :=
      match p in pv_perm a b return P a b with
      | PP_refl v => Hrefl v
      | PP_seq k xs ys f =>
          Hseq k xs ys ((fix go xs ys (f : Forall2 pv_perm xs ys) : Forall2 P xs ys :=
                           match f with
                           | Forall2_nil _ => Forall2_nil _
                           | Forall2_cons _ _ h t => Forall2_cons _ _ (pv_perm_ind' _ _ h) (go _ _ t)
                           end) xs ys f)
      | PP_set k xs ys zs f pm =>
          Hset k xs ys zs ((fix go xs ys (f : Forall2 pv_perm xs ys) : Forall2 P xs ys :=
                           match f with
                           | Forall2_nil _ => Forall2_nil _
                           | Forall2_cons _ _ h t => Forall2_cons _ _ (pv_perm_ind' _ _ h) (go _ _ t)
                           end) xs ys f) pm
      | PP_dict kvs kvs' kvs'' f pm nd =>
          Hdict kvs kvs' kvs''
            ((fix go l l' (f : Forall2 (fun a b => pv_perm (fst a) (fst b) /\ pv_perm (snd a) (snd b)) l l')
                : Forall2 (fun a b => P (fst a) (fst b) /\ P (snd a) (snd b)) l l' :=
                match f with
                | Forall2_nil _ => Forall2_nil _
                | Forall2_cons _ _ (conj h1 h2) t =>
                    Forall2_cons _ _ (conj (pv_perm_ind' _ _ h1) (pv_perm_ind' _ _ h2)) (go _ _ t)
                end) kvs kvs' f) pm nd
      | PP_arr d s c l l' => Harr d s c l l'
      | PP_objarr d s xs ys l l' f =>
          Hobj d s xs ys l l' ((fix go xs ys (f : Forall2 pv_perm xs ys) : Forall2 P xs ys :=
                           match f with
                           | Forall2_nil _ => Forall2_nil _
                           | Forall2_cons _ _ h t => Forall2_cons _ _ (pv_perm_ind' _ _ h) (go _ _ t)
                           end) xs ys f)
      | PP_hashed m fs fs' f =>
          Hhashed m fs fs'
            ((fix go l l' (f : Forall2 (fun a b => fst a = fst b /\ pv_perm (snd a) (snd b)) l l')
                : Forall2 (fun a b => fst a = fst b /\ P (snd a) (snd b)) l l' :=
                match f with
                | Forall2_nil _ => Forall2_nil _
                | Forall2_cons _ _ (conj h1 h2) t => Forall2_cons _ _ (conj h1 (pv_perm_ind' _ _ h2)) (go _ _ t)
                end) fs fs' f)
      end.
  End PermInd.

  Lemma Forall2_imp {X Y} (R R' : X -> Y -> Prop) l l' :
    (forall a b, R a b -> R' a b) -> Forall2 R l l' -> Forall2 R' l l'.
  Proof. intros Hi Hf. induction Hf; constructor; auto. Qed.

  Lemma Forall2_map_eq {X Y} (f : X -> Y) (l l' : list X) :
    Forall2 (fun a b => f a = f b) l l' -> map f l = map f l'.
  Proof. induction 1 as [|a b l l' E _ IH]; simpl; [reflexivity|]. rewrite E, IH. reflexivity. Qed.

  (* C07, core: the chunk sequence (hence the identifier, for ANY hash function H) is the same
     for all iteration orders and memory layouts *)
  Theorem fl_perm_invariant : forall v v', pv_perm v v' -> fl v = fl v'.
  Proof.
    apply pv_perm_ind'.
    - reflexivity.
    - intros k xs ys Hf. cbn [fl]. f_equal. f_equal. apply Forall2_map_eq. exact Hf.
    - intros k xs ys zs Hf Hp. cbn [fl]. f_equal. f_equal.
      assert (E : map (fun x => H (AB L_hash1 :: fl x)) xs = map (fun x => H (AB L_hash1 :: fl x)) ys).
      { apply Forall2_map_eq. eapply Forall2_imp; [|exact Hf]. intros a b E. simpl in E. rewrite E. reflexivity. }
      rewrite E. unfold sortD. apply isort_perm_eq; try assumption.
      + apply Permutation_map. exact Hp.
      + intros a b _ _ E'. exact E'.
    - intros kvs kvs' kvs'' Hf Hp Hnd. cbn [fl]. f_equal. f_equal.
      set (g := fun kv : pv * pv => (H (AB L_hash1 :: fl (fst kv)), fl (snd kv))).
      assert (E : map g kvs = map g kvs').
      { apply Forall2_map_eq. eapply Forall2_imp; [|exact Hf]. intros a b [E1 E2]. unfold g. rewrite E1, E2. reflexivity. }
      rewrite E. unfold sortK. apply isort_perm_eq; try assumption.
      + apply Permutation_map. exact Hp.
      + (* key-equal members are equal: keys have distinct digests *)
        intros a b Ha Hb Ek. apply in_map_iff in Ha as (x & <- & Hx). apply in_map_iff in Hb as (y & <- & Hy).
        assert (x = y); [|subst; reflexivity].
        clear - Hnd Hx Hy Ek. unfold g in Ek. cbn [fst] in Ek.
        induction kvs' as [|z t IH]; [contradiction|].
        cbn [map] in Hnd. inversion Hnd as [|? ? Hnin Hnd']; subst.
        destruct Hx as [<-|Hx]; destruct Hy as [<-|Hy]; try reflexivity.
        * exfalso. apply Hnin. apply in_map_iff. exists y. split; [|exact Hy]. unfold keydig, hash_one_dig. congruence.
        * exfalso. apply Hnin. apply in_map_iff. exists x. split; [|exact Hx]. unfold keydig, hash_one_dig. congruence.
        * apply IH; assumption.
    - reflexivity.
    - intros d s xs ys l l' Hf. cbn [fl]. do 4 f_equal. apply Forall2_map_eq. exact Hf.
    - intros m fs fs' Hf. cbn [fl].
      assert (E : flat_map (fun f => AB (fst f) :: fl (snd f)) fs = flat_map (fun f => AB (fst f) :: fl (snd f)) fs').
      { induction Hf as [|a b l l' [E1 E2] _ IH]; simpl; [reflexivity|]. rewrite E1, E2, IH. reflexivity. }
      rewrite E. reflexivity.
  Qed.

  (* ---- link between the executable stream (children in the given order) and fl ------------- *)
  Fixpoint atom_of (t : tok) : atom :=
    match t with
    | TB id => AB id
    | TDigest sub => ADig (H ((fix go (l : list tok) : list atom :=
                                 match l with [] => [] | x :: r => atom_of x :: go r end) sub))
    | TPDigest sub => APDig (H ((fix go (l : list tok) : list atom :=
                                   match l with [] => [] | x :: r => atom_of x :: go r end) sub))
    end.
  Fixpoint atoms (ts : list tok) : list atom :=
    match ts with [] => [] | x :: t => atom_of x :: atoms t end.

  Lemma atoms_local sub :
    (fix go (l : list tok) : list atom := match l with [] => [] | x :: r => atom_of x :: go r end) sub = atoms sub.
  Proof. induction sub as [|x r IH]; simpl; [reflexivity|]. rewrite IH. reflexivity. Qed.
  Lemma atom_of_TB id : atom_of (TB id) = AB id.
  Proof. reflexivity. Qed.
  Lemma atom_of_TDigest sub : atom_of (TDigest sub) = ADig (H (atoms sub)).
  Proof. cbn [atom_of]. rewrite atoms_local. reflexivity. Qed.
  Lemma atom_of_TPDigest sub : atom_of (TPDigest sub) = APDig (H (atoms sub)).
  Proof. cbn [atom_of]. rewrite atoms_local. reflexivity. Qed.

  Lemma atoms_app a b : atoms (a ++ b) = atoms a ++ atoms b.
  Proof. induction a as [|x a IH]; simpl; [reflexivity|]. rewrite IH. reflexivity. Qed.

  (* children of every set are listed in ascending digest order, those of every dict in ascending
     key-digest order with distinct key digests: this is how the harness lists them *)
  Fixpoint hsorted (e : pv) : Prop :=
    match e with
    | Leaf _ | RawB _ | PArr _ _ _ _ => True
    | PSeq _ xs | PObjArr _ _ xs _ => (fix all (l : list pv) : Prop := match l with [] => True | x :: t => hsorted x /\ all t end) xs
    | PSet _ xs =>
        StronglySorted (fun a b => leD a b = true) (map hash_one_dig xs) /\
        (fix all (l : list pv) : Prop := match l with [] => True | x :: t => hsorted x /\ all t end) xs
    | PDict kvs =>
        StronglySorted (fun a b => leD a b = true) (map keydig kvs) /\ NoDup (map keydig kvs) /\
        (fix all (l : list (pv * pv)) : Prop :=
           match l with [] => True | kv :: t => hsorted (fst kv) /\ hsorted (snd kv) /\ all t end) kvs
    | PHashed _ fs => (fix all (l : list (positive * pv)) : Prop :=
                         match l with [] => True | f :: t => hsorted (snd f) /\ all t end) fs
    end.

  Lemma enum_atoms : forall ls i, atoms (enumT i ls) = enumA i (map atoms ls).
  Proof.
    induction ls as [|a t IH]; intro i; simpl; [reflexivity|]. rewrite atoms_app, IH. reflexivity.
  Qed.

  Lemma enumTD_atoms : forall ls i, atoms (enumTD i ls) = enumD i (map (fun s => H (atoms s)) ls).
  Proof.
    induction ls as [|a t IH]; intro i; [reflexivity|].
    cbn [enumTD atoms map enumD]. rewrite atom_of_TB, atom_of_TPDigest, IH. reflexivity.
  Qed.

  Lemma StronglySorted_map {X} (f : X -> D) (l : list X) :
    StronglySorted (fun a b => leD a b = true) (map f l) -> StronglySorted (fun a b => leD (f a) (f b) = true) l.
  Proof.
    induction l as [|a t IH]; simpl; intro Hs; [constructor|].
    inversion Hs as [|? ? Hst Hall]; subst. constructor; [apply IH; exact Hst|].
    rewrite Forall_map in Hall. exact Hall.
  Qed.

  Lemma all_Forall (l : list pv) :
    (fix all (l : list pv) : Prop := match l with [] => True | x :: t => hsorted x /\ all t end) l -> Forall hsorted l.
  Proof. induction l as [|x t IH]; [constructor|]. intros [Hx Ht]. constructor; [exact Hx | apply IH; exact Ht]. Qed.

  Lemma all_Forall_kv (l : list (pv * pv)) :
    (fix all (l : list (pv * pv)) : Prop :=
       match l with [] => True | kv :: t => hsorted (fst kv) /\ hsorted (snd kv) /\ all t end) l ->
    Forall (fun kv => hsorted (fst kv) /\ hsorted (snd kv)) l.
  Proof. induction l as [|x t IH]; [constructor|]. intros (Hk & Hv & Ht). constructor; [split; assumption | apply IH; exact Ht]. Qed.

  Lemma all_Forall_f (l : list (positive * pv)) :
    (fix all (l : list (positive * pv)) : Prop := match l with [] => True | f :: t => hsorted (snd f) /\ all t end) l ->
    Forall (fun f => hsorted (snd f)) l.
  Proof. induction l as [|x t IH]; [constructor|]. intros (Hk & Ht). constructor; [assumption | apply IH; exact Ht]. Qed.

  Lemma map_ext_Forall2 {X Y} (f g : X -> Y) (l : list X) :
    Forall (fun x => f x = g x) l -> map f l = map g l.
  Proof. induction 1 as [|x t E _ IH]; simpl; [reflexivity|]. rewrite E, IH. reflexivity. Qed.

  Lemma Forall_mp {X} (P Q : X -> Prop) (l : list X) :
    Forall (fun x => P x -> Q x) l -> Forall P l -> Forall Q l.
  Proof. induction 1 as [|x t Hx _ IH]; intro Hp; [constructor|]. inversion Hp; subst. constructor; auto. Qed.

  Lemma nodup_key_inj {X} (kd : X -> D) (l : list X) : NoDup (map kd l) ->
    forall x y, In x l -> In y l -> kd x = kd y -> x = y.
  Proof.
    induction l as [|z t IH]; intros Hnd x y Hx Hy Ek; [contradiction|].
    cbn [map] in Hnd. inversion Hnd as [|? ? Hnin Hnd']; subst.
    destruct Hx as [<-|Hx]; destruct Hy as [<-|Hy]; try reflexivity.
    - exfalso. apply Hnin. apply in_map_iff. exists y. split; [symmetry; exact Ek | exact Hy].
    - exfalso. apply Hnin. apply in_map_iff. exists x. split; [exact Ek | exact Hx].
    - apply IH; assumption.
  Qed.

  Theorem stream_is_fl : forall e, hsorted e -> atoms (stream e) = fl e.
  Proof.
    unfold stream. induction e using pv_ind'; intro Hs; cbn [stream_elem fl len_tok app].
    - reflexivity.
    - reflexivity.
    - (* list / tuple *)
      cbn [atoms]. rewrite atom_of_TB. f_equal. rewrite enum_atoms, map_map. f_equal.
      apply map_ext_Forall2. cbn [hsorted] in Hs. apply all_Forall in Hs.
      eapply Forall_mp; [|exact Hs]. exact H0.
    - (* set / frozenset *)
      cbn [atoms]. rewrite atom_of_TB. f_equal. rewrite enumTD_atoms, map_map.
      cbn [hsorted] in Hs. destruct Hs as [Hsorted Hall]. apply all_Forall in Hall.
      assert (E : map (fun x => H (atoms (TB L_hash1 :: stream_elem false x))) xs = map hash_one_dig xs).
      { apply map_ext_Forall2. eapply Forall_mp; [|exact Hall].
        eapply Forall_impl; [|exact H0]. intros x Hx Hsx. cbn [atoms]. rewrite atom_of_TB.
        unfold hash_one_dig. rewrite Hx by exact Hsx. reflexivity. }
      rewrite E. f_equal. unfold sortD. symmetry.
      change (map (fun x => H (AB L_hash1 :: fl x)) xs) with (map hash_one_dig xs).
      apply isort_sorted_id; try assumption. intros a b _ _ E'. exact E'.
    - (* dict *)
      cbn [atoms]. rewrite atom_of_TB. f_equal. cbn [hsorted] in Hs. destruct Hs as (Hsorted & Hnd & Hall).
      apply all_Forall_kv in Hall.
      set (g := fun kv : pv * pv => (H (AB L_hash1 :: fl (fst kv)), fl (snd kv))).
      assert (E : atoms (itemsT (map (fun kv => (TB L_hash1 :: stream_elem false (fst kv), stream_elem false (snd kv))) kvs))
                  = itemsA (map g kvs)).
      { clear Hsorted Hnd. unfold itemsT, itemsA.
        induction kvs as [|kv t IH]; [reflexivity|].
        inversion H0 as [|? ? [Hk Hv] Ht]; subst. inversion Hall as [|? ? [Hsk Hsv] Hst]; subst.
        cbn [map flat_map fst snd]. cbn [app atoms]. rewrite atom_of_TPDigest, atoms_app.
        cbn [atoms]. rewrite atom_of_TB. rewrite Hk by exact Hsk. rewrite Hv by exact Hsv.
        rewrite IH by assumption. reflexivity. }
      rewrite E. f_equal. unfold sortK. symmetry. apply isort_sorted_id; try assumption.
      + apply StronglySorted_map in Hsorted.
        clear - Hsorted. induction Hsorted as [|a t _ IH Hall]; cbn [map]; constructor; [exact IH|].
        rewrite Forall_map. exact Hall.
      + intros a b Ha Hb Ek. apply in_map_iff in Ha as (x & <- & Hx). apply in_map_iff in Hb as (y & <- & Hy).
        assert (x = y); [|subst; reflexivity].
        apply (nodup_key_inj keydig kvs Hnd x y Hx Hy). exact Ek.
    - reflexivity.
    - (* object array *)
      cbn [atoms]. rewrite !atom_of_TB. do 3 f_equal. rewrite enum_atoms, map_map. f_equal.
      apply map_ext_Forall2. cbn [hsorted] in Hs. apply all_Forall in Hs.
      eapply Forall_mp; [|exact Hs]. exact H0.
    - (* object with __jug_hash__ *)
      cbn [atoms]. rewrite atom_of_TDigest. do 3 f_equal. rewrite atoms_app. f_equal.
      + destruct m; reflexivity.
      + cbn [hsorted] in Hs. apply all_Forall_f in Hs.
        induction fs as [|f t IH]; [reflexivity|].
        inversion H0 as [|? ? Hf Ht]; subst. inversion Hs as [|? ? Hsf Hst]; subst.
        cbn [flat_map]. cbn [app atoms]. rewrite atom_of_TB, atoms_app, Hf by exact Hsf.
        rewrite IH by assumption. reflexivity.
  Qed.
End Digest.
