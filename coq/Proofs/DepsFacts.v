(* Facts about Model/Deps.v: the dependency walk (impl_deps) versus argument resolution (resolve).
   C03(b) and C16.

   (a) FRAME        resolve reads the store only at the declared dependencies
   (b) WAITS-FOR    a missing result met during resolution is a declared dependency
   (c) MONOTONE     an outcome that is not "missing" survives every extension of the store
   (d) TRANSPARENCY tasklets / wrappers / mapped sequences / slices = the operation on the values
   (e) COMPLETENESS every task occurring in the argument (outside NoHash / opaque objects) is declared *)
From Coq Require Import List Arith ZArith Bool PArith Lia.
From JugV Require Import Model.MapReduce Model.Slice Model.Deps Proofs.MapReduceFacts Proofs.SliceFacts.
From JugV Require Model.Dag.
Import ListNotations.

(* ---- induction principle for the nested type arg ---------------------------------------------- *)
Section ArgInd.
  Variable P : arg -> Prop.
  Hypothesis HVal : forall v, P (AVal v).
  Hypothesis HTask : forall t, P (ATask t).
  Hypothesis HList : forall xs, Forall P xs -> P (AList xs).
  Hypothesis HTuple : forall xs, Forall P xs -> P (ATuple xs).
  Hypothesis HDict : forall kvs, Forall (fun kv => P (snd kv)) kvs -> P (ADict kvs).
  Hypothesis HGet : forall b i, P b -> P i -> P (AGetitem b i).
  Hypothesis HFun : forall b f, P b -> P (AFun b f).
  Hypothesis HMapSeq : forall bl bs len, P (AMapSeq bl bs len).
  Hypothesis HMapSlice : forall bl bs len r, P (AMapSlice bl bs len r).
  Hypothesis HCustom : forall x, P x -> P (ACustom x).
  Hypothesis HNoHashVal : forall v, P (ANoHashVal v).
  Hypothesis HNoHashTask : forall t, P (ANoHashTask t).
  Hypothesis HOpaque : forall ts v, P (AOpaque ts v).

  Fixpoint arg_ind' (a : arg) : P a :=
    match a with
    | AVal v => HVal v
    | ATask t => HTask t
    | AList xs => HList xs ((fix go (l : list arg) : Forall P l :=
                               match l with [] => Forall_nil _ | x :: t => Forall_cons _ (arg_ind' x) (go t) end) xs)
    | ATuple xs => HTuple xs ((fix go (l : list arg) : Forall P l :=
                               match l with [] => Forall_nil _ | x :: t => Forall_cons _ (arg_ind' x) (go t) end) xs)
    | ADict kvs => HDict kvs ((fix go (l : list (key * arg)) : Forall (fun kv => P (snd kv)) l :=
                               match l with [] => Forall_nil _ | kv :: t => Forall_cons _ (arg_ind' (snd kv)) (go t) end) kvs)
    | AGetitem b i => HGet b i (arg_ind' b) (arg_ind' i)
    | AFun b f => HFun b f (arg_ind' b)
    | AMapSeq bl bs len => HMapSeq bl bs len
    | AMapSlice bl bs len r => HMapSlice bl bs len r
    | ACustom x => HCustom x (arg_ind' x)
    | ANoHashVal v => HNoHashVal v
    | ANoHashTask t => HNoHashTask t
    | AOpaque ts v => HOpaque ts v
    end.
End ArgInd.

(* ---- the result monad --------------------------------------------------------------------------- *)
  Lemma rbind_missing {A B} (r : res A) (k : A -> res B) :
    rbind r k = Missing -> r = Missing \/ exists x, r = Ok x /\ k x = Missing.
  Proof. destruct r as [x| |]; cbn; intro H; [right; exists x; auto | left; reflexivity | discriminate]. Qed.

  Lemma rmap_missing {A B} (f : A -> B) (r : res A) : rmap f r = Missing -> r = Missing.
  Proof. destruct r; cbn; intro H; [discriminate | reflexivity | discriminate]. Qed.

  Lemma of_opt_not_missing {A} (o : option A) : of_opt o <> Missing.
  Proof. destruct o; discriminate. Qed.

  Lemma rsequence_missing {A} (l : list (res A)) : rsequence l = Missing -> In Missing l.
  Proof.
    induction l as [|r t IH]; cbn; [discriminate|].
    destruct r as [x| |]; cbn; intro H; [|left; reflexivity|discriminate].
    right. apply IH. eapply rmap_missing. exact H.
  Qed.

  Lemma rsequence_map_missing {A X} (f : X -> res A) (xs : list X) :
    rsequence (map f xs) = Missing -> exists x, In x xs /\ f x = Missing.
  Proof.
    intro H. apply rsequence_missing in H. apply in_map_iff in H.
    destruct H as (x & Hx & Hin). exists x. auto.
  Qed.

  (* r' is the outcome of the same evaluation in a larger store: unless the evaluation met a
     missing result, nothing changes *)
  Definition stable {C} (r r' : res C) : Prop := r <> Missing -> r' = r.

  Lemma stable_refl {C} (r : res C) : stable r r.
  Proof. intros _. reflexivity. Qed.

  Lemma stable_rbind {A B} (r r' : res A) (k k' : A -> res B) :
    stable r r' -> (forall x, stable (k x) (k' x)) -> stable (rbind r k) (rbind r' k').
  Proof.
    intros Hr Hk. unfold stable in *. destruct r as [x| |]; cbn.
    - rewrite Hr by discriminate. cbn. apply Hk.
    - intro H. contradiction.
    - intros _. rewrite Hr by discriminate. reflexivity.
  Qed.

  Lemma stable_rmap {A B} (f : A -> B) (r r' : res A) : stable r r' -> stable (rmap f r) (rmap f r').
  Proof. intro H. unfold rmap. apply stable_rbind; [exact H|]. intro x. apply stable_refl. Qed.

Lemma stable_rsequence_map {A X} (f g : X -> res A) (xs : list X) :
  Forall (fun x => stable (f x) (g x)) xs -> stable (rsequence (map f xs)) (rsequence (map g xs)).
Proof.
  induction 1 as [|x t Hx Ht IH]; cbn [map rsequence]; [apply stable_refl|].
  apply stable_rbind; [exact Hx|]. intro v. apply stable_rmap. exact IH.
Qed.

Lemma rsequence_map_ext {A X} (f g : X -> res A) (xs : list X) :
  (forall x, In x xs -> f x = g x) -> rsequence (map f xs) = rsequence (map g xs).
Proof. intro H. f_equal. apply map_ext_in. exact H. Qed.

Lemma rsequence_ok {A} (l : list A) : rsequence (map Ok l) = Ok l.
Proof. induction l as [|x t IH]; cbn; [reflexivity|]. rewrite IH. reflexivity. Qed.

Lemma rsequence_map_ok {A X} (f : X -> res A) (g : X -> A) (xs : list X) :
  (forall x, In x xs -> f x = Ok (g x)) -> rsequence (map f xs) = Ok (map g xs).
Proof.
  intro H. rewrite <- rsequence_ok, map_map. apply rsequence_map_ext. exact H.
Qed.

(* rsequence of option-valued items *)
Lemma rsequence_of_opt {A} (l : list (option A)) :
  rsequence (map of_opt l) = of_opt (sequence_opt l).
Proof.
  induction l as [|o t IH]; cbn [map rsequence sequence_opt]; [reflexivity|].
  destruct o as [x|]; cbn; [|reflexivity]. rewrite IH. destruct (sequence_opt t); reflexivity.
Qed.

(* ---- (c) MONOTONE, in its strong form: stability ------------------------------------------------ *)
Section TwoStores.
  Variables st st' : tid -> option val.

  (* st' agrees with st wherever st has a result, on the tasks in l *)
  Definition extends_on (l : list tid) : Prop := forall d, In d l -> st d <> None -> st' d = st d.

  Lemma extends_on_incl l l' : incl l l' -> extends_on l' -> extends_on l.
  Proof. intros Hi H d Hd. apply H. apply Hi. exact Hd. Qed.

  Lemma stable_load t : extends_on [t] -> stable (load st t) (load st' t).
  Proof.
    intros H. unfold stable, load. destruct (st t) as [v|] eqn:E; [|intro C; contradiction].
    intros _. rewrite (H t (or_introl eq_refl)) by (rewrite E; discriminate). rewrite E. reflexivity.
  Qed.

  Lemma stable_block_items bl b : extends_on bl -> In b bl -> stable (block_items st b) (block_items st' b).
  Proof.
    intros H Hb. unfold block_items. apply stable_rbind.
    - apply stable_load. intros d [<-|[]]. apply H. exact Hb.
    - intro v. apply stable_refl.
  Qed.

  Lemma stable_mapseq_elem bl bs p : extends_on bl -> stable (mapseq_elem st bl bs p) (mapseq_elem st' bl bs p).
  Proof.
    intros H. unfold mapseq_elem. destruct (nth_error bl (p / bs)) as [b|] eqn:E; [|apply stable_refl].
    apply stable_rbind; [|intro; apply stable_refl].
    apply (stable_block_items bl); [exact H|]. eapply nth_error_In. exact E.
  Qed.

  Lemma stable_mapslice_elem bl bs len r i :
    extends_on bl -> stable (mapslice_elem st bl bs len r i) (mapslice_elem st' bl bs len r i).
  Proof.
    intros H. unfold mapslice_elem. destruct (range_get r (Z.of_nat i)) as [q|]; [|apply stable_refl].
    match goal with |- context [if ?c then _ else _] => destruct c end; [|apply stable_refl].
    apply stable_mapseq_elem. exact H.
  Qed.

  Theorem resolve_stable a : extends_on (impl_deps a) -> stable (resolve st a) (resolve st' a).
  Proof.
    induction a as [v|t|xs IH|xs IH|kvs IH|b i IHb IHi|b f IHb|bl bs len|bl bs len r|x IHx|v|t|ts v]
      using arg_ind'; cbn [resolve impl_deps]; intros H; try apply stable_refl.
    - apply stable_load. exact H.
    - apply stable_rmap, stable_rsequence_map. rewrite Forall_forall in *. intros x Hx.
      apply (IH x Hx). eapply extends_on_incl; [|exact H].
      intros d Hd. apply in_flat_map. exists x. auto.
    - apply stable_rmap, stable_rsequence_map. rewrite Forall_forall in *. intros x Hx.
      apply (IH x Hx). eapply extends_on_incl; [|exact H].
      intros d Hd. apply in_flat_map. exists x. auto.
    - apply stable_rmap, stable_rsequence_map. rewrite Forall_forall in *. intros kv Hkv.
      apply stable_rmap. apply (IH kv Hkv). eapply extends_on_incl; [|exact H].
      intros d Hd. apply in_flat_map. exists kv. auto.
    - apply stable_rbind.
      + apply IHb. eapply extends_on_incl; [|exact H]. apply incl_appl, incl_refl.
      + intro o. apply stable_rbind; [|intro; apply stable_refl].
        apply IHi. eapply extends_on_incl; [|exact H]. apply incl_appr, incl_refl.
    - apply stable_rbind; [apply IHb; exact H | intro; apply stable_refl].
    - apply stable_rmap, stable_rsequence_map. apply Forall_forall. intros b Hb.
      apply (stable_block_items bl); assumption.
    - apply stable_rmap, stable_rsequence_map. apply Forall_forall. intros i _.
      apply stable_mapslice_elem. exact H.
    - apply IHx. exact H.
  Qed.
End TwoStores.

(* st' has every result st has *)
Definition store_le (st st' : tid -> option val) : Prop := forall d v, st d = Some v -> st' d = Some v.

Lemma store_le_extends st st' l : store_le st st' -> extends_on st st' l.
Proof.
  intros H d _ Hd. destruct (st d) as [v|] eqn:E; [|contradiction]. apply H. exact E.
Qed.

(* a value obtained once is obtained in every larger store *)
Theorem resolve_monotone st st' a v : store_le st st' -> resolve st a = Ok v -> resolve st' a = Ok v.
Proof.
  intros H E. rewrite <- E. apply (resolve_stable st st' a); [apply store_le_extends; exact H|].
  rewrite E. discriminate.
Qed.

(* an exception raised by an operation (not by a missing result) is raised in every larger store too *)
Theorem resolve_raised_monotone st st' a : store_le st st' -> resolve st a = Raised -> resolve st' a = Raised.
Proof.
  intros H E. rewrite <- E. apply (resolve_stable st st' a); [apply store_le_extends; exact H|].
  rewrite E. discriminate.
Qed.

(* ---- (a) FRAME -------------------------------------------------------------------------------- *)
Theorem resolve_frame st st' a : (forall d, In d (impl_deps a) -> st d = st' d) -> resolve st a = resolve st' a.
Proof.
  intros H.
  assert (H1 : extends_on st st' (impl_deps a)) by (intros d Hd _; symmetry; apply H; exact Hd).
  assert (H2 : extends_on st' st (impl_deps a)) by (intros d Hd _; apply H; exact Hd).
  pose proof (resolve_stable st st' a H1) as S1. pose proof (resolve_stable st' st a H2) as S2.
  unfold stable in *.
  destruct (resolve st a) as [v| |] eqn:E.
  - symmetry. apply S1. discriminate.
  - destruct (resolve st' a) as [v'| |] eqn:E'; [|reflexivity|]; apply S2; discriminate.
  - symmetry. apply S1. discriminate.
Qed.

(* ---- (b) WAITS-FOR ------------------------------------------------------------------------------ *)
Section OneStore.
  Variable st : tid -> option val.

  Lemma load_missing t : load st t = Missing -> st t = None.
  Proof. unfold load. destruct (st t); [discriminate|reflexivity]. Qed.

  Lemma block_items_missing b : block_items st b = Missing -> st b = None.
  Proof.
    unfold block_items. intro H. apply rbind_missing in H. destruct H as [H|(x & _ & H)].
    - apply load_missing. exact H.
    - exfalso. eapply of_opt_not_missing. exact H.
  Qed.

  Lemma mapseq_elem_missing bl bs p : mapseq_elem st bl bs p = Missing -> exists d, In d bl /\ st d = None.
  Proof.
    unfold mapseq_elem. destruct (nth_error bl (p / bs)) as [b|] eqn:E; [|discriminate].
    intro H. apply rbind_missing in H. destruct H as [H|(x & _ & H)].
    - exists b. split; [eapply nth_error_In; exact E | apply block_items_missing; exact H].
    - exfalso. eapply of_opt_not_missing. exact H.
  Qed.

  Lemma mapslice_elem_missing bl bs len r i :
    mapslice_elem st bl bs len r i = Missing -> exists d, In d bl /\ st d = None.
  Proof.
    unfold mapslice_elem. destruct (range_get r (Z.of_nat i)) as [q|]; [|discriminate].
    match goal with |- context [if ?c then _ else _] => destruct c end; [|discriminate].
    apply mapseq_elem_missing.
  Qed.

  Theorem resolve_missing_blames a : resolve st a = Missing -> exists d, In d (impl_deps a) /\ st d = None.
  Proof.
    induction a as [v|t|xs IH|xs IH|kvs IH|b i IHb IHi|b f IHb|bl bs len|bl bs len r|x IHx|v|t|ts v]
      using arg_ind'; cbn [resolve impl_deps]; intros H; try discriminate.
    - exists t. split; [left; reflexivity | apply load_missing; exact H].
    - apply rmap_missing, rsequence_map_missing in H. destruct H as (x & Hx & H).
      rewrite Forall_forall in IH. destruct (IH x Hx H) as (d & Hd & Hn).
      exists d. split; [apply in_flat_map; exists x; auto | exact Hn].
    - apply rmap_missing, rsequence_map_missing in H. destruct H as (x & Hx & H).
      rewrite Forall_forall in IH. destruct (IH x Hx H) as (d & Hd & Hn).
      exists d. split; [apply in_flat_map; exists x; auto | exact Hn].
    - apply rmap_missing, rsequence_map_missing in H. destruct H as (kv & Hkv & H).
      apply rmap_missing in H.
      rewrite Forall_forall in IH. destruct (IH kv Hkv H) as (d & Hd & Hn).
      exists d. split; [apply in_flat_map; exists kv; auto | exact Hn].
    - apply rbind_missing in H. destruct H as [H|(o & _ & H)].
      + destruct (IHb H) as (d & Hd & Hn). exists d. split; [apply in_or_app; left; exact Hd | exact Hn].
      + apply rbind_missing in H. destruct H as [H|(k & _ & H)].
        * destruct (IHi H) as (d & Hd & Hn). exists d. split; [apply in_or_app; right; exact Hd | exact Hn].
        * exfalso. eapply of_opt_not_missing. exact H.
    - apply rbind_missing in H. destruct H as [H|(o & _ & H)].
      + apply IHb. exact H.
      + exfalso. eapply of_opt_not_missing. exact H.
    - apply rmap_missing, rsequence_map_missing in H. destruct H as (b & Hb & H).
      exists b. split; [exact Hb | apply block_items_missing; exact H].
    - apply rmap_missing, rsequence_map_missing in H. destruct H as (i & _ & H).
      eapply mapslice_elem_missing. exact H.
    - apply IHx. exact H.
  Qed.

  (* if every declared dependency has a result, resolution never meets a missing one *)
  Corollary resolve_defined a : (forall d, In d (impl_deps a) -> st d <> None) -> resolve st a <> Missing.
  Proof.
    intros H E. destruct (resolve_missing_blames a E) as (d & Hd & Hn). exact (H d Hd Hn).
  Qed.
End OneStore.

(* an exception raised while all declared dependencies are stored does not depend on anything else in the store *)
Corollary resolve_raised_stable st st' a :
  (forall d, In d (impl_deps a) -> st d <> None) -> extends_on st st' (impl_deps a) ->
  resolve st a = Raised -> resolve st' a = Raised.
Proof.
  intros _ H E. rewrite <- E. apply (resolve_stable st st' a H). rewrite E. discriminate.
Qed.

(* ---- (e) COMPLETENESS OF THE WALK ---------------------------------------------------------------- *)
(* t occurs in the argument, outside NoHash wrappers and outside objects neither value() nor the walk looks
   into; for an opaque object the walk does look into (instances of container subclasses) the tasks are the
   [declared] ones: the syntactic reading of "a task underneath a derived object" *)
Inductive occurs (t : tid) : arg -> Prop :=
| occ_task : occurs t (ATask t)
| occ_list xs x : In x xs -> occurs t x -> occurs t (AList xs)
| occ_tuple xs x : In x xs -> occurs t x -> occurs t (ATuple xs)
| occ_dict kvs k x : In (k, x) kvs -> occurs t x -> occurs t (ADict kvs)
| occ_getitem_base b i : occurs t b -> occurs t (AGetitem b i)
| occ_getitem_index b i : occurs t i -> occurs t (AGetitem b i)
| occ_fun b f : occurs t b -> occurs t (AFun b f)
| occ_mapseq bl bs len : In t bl -> occurs t (AMapSeq bl bs len)
| occ_mapslice bl bs len r : In t bl -> occurs t (AMapSlice bl bs len r)
| occ_custom x : occurs t x -> occurs t (ACustom x)
| occ_opaque ts v : In t ts -> occurs t (AOpaque ts v).

Theorem occurs_impl_deps t a : occurs t a <-> In t (impl_deps a).
Proof.
  split.
  - induction 1; cbn [impl_deps].
    + left; reflexivity.
    + apply in_flat_map. exists x. auto.
    + apply in_flat_map. exists x. auto.
    + apply in_flat_map. exists (k, x). auto.
    + apply in_or_app. left. assumption.
    + apply in_or_app. right. assumption.
    + assumption.
    + assumption.
    + assumption.
    + assumption.
    + assumption.
  - induction a as [v|t'|xs IH|xs IH|kvs IH|b i IHb IHi|b f IHb|bl bs len|bl bs len r|x IHx|v|t'|ts v]
      using arg_ind'; cbn [impl_deps]; intros H; try contradiction.
    + destruct H as [<-|[]]. constructor.
    + apply in_flat_map in H. destruct H as (x & Hx & H). rewrite Forall_forall in IH.
      eapply occ_list; [exact Hx | apply IH; assumption].
    + apply in_flat_map in H. destruct H as (x & Hx & H). rewrite Forall_forall in IH.
      eapply occ_tuple; [exact Hx | apply IH; assumption].
    + apply in_flat_map in H. destruct H as ([k x] & Hx & H). rewrite Forall_forall in IH.
      eapply occ_dict; [exact Hx | apply (IH (k, x)); assumption].
    + apply in_app_or in H. destruct H as [H|H]; [apply occ_getitem_base | apply occ_getitem_index]; auto.
    + apply occ_fun. auto.
    + apply occ_mapseq. exact H.
    + apply occ_mapslice. exact H.
    + apply occ_custom. auto.
    + apply occ_opaque. exact H.
Qed.

(* ---- tasks: inputs and invocation ---------------------------------------------------------------- *)
(* d occurs in some positional or keyword argument of the task *)
Definition task_occurs (d : tid) (t : task) : Prop :=
  (exists a, In a (t_args t) /\ occurs d a) \/ (exists k a, In (k, a) (t_kwargs t) /\ occurs d a).

Theorem task_occurs_deps d t : task_occurs d t <-> In d (task_deps t).
Proof.
  unfold task_occurs, task_deps. rewrite in_app_iff, !in_flat_map. split.
  - intros [(a & Ha & H)|(k & a & Ha & H)].
    + left. exists a. split; [exact Ha | apply occurs_impl_deps; exact H].
    + right. exists (k, a). split; [exact Ha | apply occurs_impl_deps; exact H].
  - intros [(a & Ha & H)|([k a] & Ha & H)].
    + left. exists a. split; [exact Ha | apply occurs_impl_deps; exact H].
    + right. exists k, a. split; [exact Ha | apply occurs_impl_deps; exact H].
Qed.

Lemma task_deps_arg t a : In a (t_args t) -> incl (impl_deps a) (task_deps t).
Proof. intros Ha d Hd. unfold task_deps. apply in_or_app. left. apply in_flat_map. exists a. auto. Qed.

Lemma task_deps_kwarg t kv : In kv (t_kwargs t) -> incl (impl_deps (snd kv)) (task_deps t).
Proof. intros Ha d Hd. unfold task_deps. apply in_or_app. right. apply in_flat_map. exists kv. auto. Qed.

Theorem task_inputs_stable st st' t :
  extends_on st st' (task_deps t) -> stable (task_inputs st t) (task_inputs st' t).
Proof.
  intro H. unfold task_inputs. apply stable_rbind.
  - apply stable_rsequence_map. apply Forall_forall. intros a Ha.
    apply resolve_stable. eapply extends_on_incl; [apply task_deps_arg; exact Ha | exact H].
  - intro a. apply stable_rbind; [|intro; apply stable_refl].
    apply stable_rsequence_map. apply Forall_forall. intros kv Hkv. apply stable_rmap.
    apply resolve_stable. eapply extends_on_incl; [apply task_deps_kwarg; exact Hkv | exact H].
Qed.

Theorem task_inputs_frame st st' t :
  (forall d, In d (task_deps t) -> st d = st' d) -> task_inputs st t = task_inputs st' t.
Proof.
  intro H. unfold task_inputs. f_equal.
  - apply rsequence_map_ext. intros a Ha. apply resolve_frame.
    intros d Hd. apply H. eapply task_deps_arg; eassumption.
  - f_equal. (* the continuation mentions the store as well *)
    assert (E : map (fun kv => rmap (fun v => (fst kv, v)) (resolve st (snd kv))) (t_kwargs t) =
                map (fun kv => rmap (fun v => (fst kv, v)) (resolve st' (snd kv))) (t_kwargs t)).
    { apply map_ext_in. intros kv Hkv. f_equal. apply resolve_frame.
      intros d Hd. apply H. eapply task_deps_kwarg; eassumption. }
    rewrite E. reflexivity.
Qed.

Theorem task_run_frame kinds st st' t :
  (forall d, In d (task_deps t) -> st d = st' d) -> task_run kinds st t = task_run kinds st' t.
Proof. intro H. unfold task_run. rewrite (task_inputs_frame st st' t H). reflexivity. Qed.

Theorem task_inputs_missing_blames st t :
  task_inputs st t = Missing -> exists d, In d (task_deps t) /\ st d = None.
Proof.
  unfold task_inputs. intro H. apply rbind_missing in H. destruct H as [H|(a & _ & H)].
  - apply rsequence_map_missing in H. destruct H as (x & Hx & H).
    destruct (resolve_missing_blames st x H) as (d & Hd & Hn).
    exists d. split; [eapply task_deps_arg; eassumption | exact Hn].
  - apply rbind_missing in H. destruct H as [H|(k & _ & H)]; [|discriminate].
    apply rsequence_map_missing in H. destruct H as (kv & Hkv & H). apply rmap_missing in H.
    destruct (resolve_missing_blames st (snd kv) H) as (d & Hd & Hn).
    exists d. split; [eapply task_deps_kwarg; eassumption | exact Hn].
Qed.

Theorem task_run_missing_blames kinds st t :
  task_run kinds st t = FMissing -> exists d, In d (task_deps t) /\ st d = None.
Proof.
  unfold task_run. destruct (task_inputs st t) as [[a k]| |] eqn:E.
  - destruct (fsem _ _ _ _); discriminate.
  - intros _. apply task_inputs_missing_blames. exact E.
  - discriminate.
Qed.

(* can_run() true (every declared dependency stored) => run() never dies on a missing result *)
Corollary task_run_defined kinds st t :
  (forall d, In d (task_deps t) -> st d <> None) -> task_run kinds st t <> FMissing.
Proof.
  intros H E. destruct (task_run_missing_blames kinds st t E) as (d & Hd & Hn). exact (H d Hd Hn).
Qed.

(* once a task could be run, what it does is fixed: results stored later (by other workers) change nothing *)
Theorem task_run_monotone kinds st st' t :
  store_le st st' -> task_run kinds st t <> FMissing -> task_run kinds st' t = task_run kinds st t.
Proof.
  intros H N. unfold task_run in *.
  pose proof (task_inputs_stable st st' t (store_le_extends st st' _ H)) as S. unfold stable in S.
  destruct (task_inputs st t) as [[a k]| |] eqn:E.
  - rewrite S by discriminate. reflexivity.
  - contradiction.
  - rewrite S by discriminate. reflexivity.
Qed.

(* ---- (d) TRANSPARENCY ---------------------------------------------------------------------------- *)
Section Transparency.
  Variable st : tid -> option val.

  (* value(base[idx]) = value(base)[value(idx)]: base and index are arbitrary arguments (tasks,
     tasklets, containers of tasks ...); base first, then the index (Python's order) *)
  Theorem resolve_getitem b i :
    resolve st (AGetitem b i) =
    rbind (resolve st b) (fun o => rbind (resolve st i) (fun k => of_opt (val_getitem o k))).
  Proof. reflexivity. Qed.

  Corollary resolve_getitem_value b i o k :
    resolve st b = Ok o -> resolve st i = Ok k -> resolve st (AGetitem b i) = of_opt (val_getitem o k).
  Proof. intros Hb Hi. cbn [resolve]. rewrite Hb. cbn. rewrite Hi. reflexivity. Qed.

  (* value(Tasklet(base, f)) = f(value(base)) *)
  Theorem resolve_fun b f : resolve st (AFun b f) = rbind (resolve st b) (fun o => of_opt (tl_apply f o)).
  Proof. reflexivity. Qed.

  Theorem resolve_custom x : resolve st (ACustom x) = resolve st x.
  Proof. reflexivity. Qed.

  Theorem resolve_nohash_val v : resolve st (ANoHashVal v) = Ok v.
  Proof. reflexivity. Qed.

  (* NoHash(task) hands over the task object itself, whatever the store holds *)
  Theorem resolve_nohash_task t : resolve st (ANoHashTask t) = Ok (VTaskRef t).
  Proof. reflexivity. Qed.

  (* containers are resolved element-wise, left to right *)
  Theorem resolve_list xs : resolve st (AList xs) = rmap VList (rsequence (map (resolve st) xs)).
  Proof. reflexivity. Qed.
  Theorem resolve_tuple xs : resolve st (ATuple xs) = rmap VTuple (rsequence (map (resolve st) xs)).
  Proof. reflexivity. Qed.

  Theorem resolve_list_values xs vs :
    Forall2 (fun x v => resolve st x = Ok v) xs vs -> resolve st (AList xs) = Ok (VList vs).
  Proof.
    intro H. cbn [resolve].
    assert (E : rsequence (map (resolve st) xs) = Ok vs).
    { induction H as [|x v xs' vs' Hx _ IH]; cbn; [reflexivity|]. rewrite Hx. cbn. rewrite IH. reflexivity. }
    rewrite E. reflexivity.
  Qed.

  Theorem resolve_dict_values kvs vs :
    Forall2 (fun kx kv => fst kx = fst kv /\ resolve st (snd kx) = Ok (snd kv)) kvs vs ->
    resolve st (ADict kvs) = Ok (VDict vs).
  Proof.
    intro H. cbn [resolve].
    assert (E : rsequence (map (fun kv => rmap (fun v => (fst kv, v)) (resolve st (snd kv))) kvs) = Ok vs).
    { induction H as [|[k x] [k' v] xs' vs' [Hk Hx] _ IH]; cbn; [reflexivity|].
      cbn in Hk, Hx. subst k'. rewrite Hx. cbn. cbn in IH. rewrite IH. reflexivity. }
    rewrite E. reflexivity.
  Qed.

  (* any nesting: a chain of tasklet operations over a base *)
  Inductive tlop := OpIndex (i : arg) | OpFun (f : tlfun).
  Definition derive (a : arg) (op : tlop) : arg :=
    match op with OpIndex i => AGetitem a i | OpFun f => AFun a f end.
  Definition op_apply (o : val) (op : tlop) : res val :=
    match op with
    | OpIndex i => rbind (resolve st i) (fun k => of_opt (val_getitem o k))
    | OpFun f => of_opt (tl_apply f o)
    end.

  Theorem resolve_derive_chain ops : forall base,
    resolve st (fold_left derive ops base) =
    fold_left (fun r op => rbind r (fun o => op_apply o op)) ops (resolve st base).
  Proof.
    induction ops as [|op ops IH]; intro base; cbn [fold_left]; [reflexivity|].
    rewrite IH. f_equal. destruct op; reflexivity.
  Qed.

  (* ---- iteratetask(base, n) = base[0], ..., base[n-1];  return_tuple(n): Tasklet(base, _get_check(i, n)) *)
  Definition iteratetask_args (base : arg) (n : nat) : list arg :=
    map (fun i => AGetitem base (AVal (VInt (Z.of_nat i)))) (seq 0 n).
  Definition return_tuple_args (base : arg) (n : nat) : list arg :=
    map (fun i => AFun base (FGetCheck i n)) (seq 0 n).

  Lemma nth_error_prefix {A} : forall (l : list A) n, n <= length l ->
    map (nth_error l) (seq 0 n) = map Some (firstn n l).
  Proof.
    induction l as [|x t IH]; intros n Hn.
    - cbn in Hn. assert (n = 0) by lia. subst n. reflexivity.
    - destruct n as [|n]; [reflexivity|]. cbn [seq map firstn nth_error]. f_equal.
      rewrite <- seq_shift, map_map. cbn [nth_error]. apply IH. cbn in Hn. lia.
  Qed.

  Lemma py_list_get_nat {A} (l : list A) i : i < length l -> py_list_get l (Z.of_nat i) = nth_error l i.
  Proof.
    intro Hi. unfold py_list_get, znth_error.
    destruct (Z.ltb_spec (Z.of_nat i) 0); [lia|]. cbv beta iota zeta.
    destruct (Z.leb_spec 0 (Z.of_nat i)); [|lia].
    destruct (Z.ltb_spec (Z.of_nat i) (Z.of_nat (length l))); [|lia].
    destruct (Z.ltb_spec (Z.of_nat i) 0); [lia|].
    cbn [andb]. rewrite Nat2Z.id. reflexivity.
  Qed.

  Lemma val_getitem_seq_nat o l i : seq_items o = Some l -> i < length l ->
    val_getitem o (VInt (Z.of_nat i)) = nth_error l i.
  Proof.
    intros Ho Hi. destruct o; try discriminate; injection Ho as ->; cbn [val_getitem];
      apply py_list_get_nat; exact Hi.
  Qed.

  (* a, b, ... = iteratetask(t, n): the i-th item is the i-th element of the value *)
  Theorem iteratetask_unpacks base o l n : resolve st base = Ok o -> seq_items o = Some l -> n <= length l ->
    map (resolve st) (iteratetask_args base n) = map Ok (firstn n l).
  Proof.
    intros Hb Ho Hn. unfold iteratetask_args. rewrite map_map.
    transitivity (map (fun i => of_opt (nth_error l i)) (seq 0 n)).
    - apply map_ext_in. intros i Hi. apply in_seq in Hi.
      rewrite (resolve_getitem_value base (AVal (VInt (Z.of_nat i))) o (VInt (Z.of_nat i)) Hb eq_refl).
      rewrite (val_getitem_seq_nat o l i Ho) by lia. reflexivity.
    - rewrite <- (map_map (nth_error l) of_opt), (nth_error_prefix l n Hn), !map_map. reflexivity.
  Qed.

  Corollary iteratetask_tuple base o l n : resolve st base = Ok o -> seq_items o = Some l -> n <= length l ->
    resolve st (ATuple (iteratetask_args base n)) = Ok (VTuple (firstn n l)).
  Proof.
    intros Hb Ho Hn. cbn [resolve]. rewrite (iteratetask_unpacks base o l n Hb Ho Hn), rsequence_ok. reflexivity.
  Qed.

  (* x, y = f(...) with f decorated by return_tuple(n): the items are the components, provided the
     value has exactly n of them; otherwise every item raises *)
  Theorem return_tuple_unpacks base o l : resolve st base = Ok o -> seq_items o = Some l ->
    map (resolve st) (return_tuple_args base (length l)) = map Ok l.
  Proof.
    intros Hb Ho. unfold return_tuple_args. rewrite map_map.
    transitivity (map (fun i => of_opt (nth_error l i)) (seq 0 (length l))).
    - apply map_ext. intros i. cbn [resolve]. rewrite Hb. cbn [rbind tl_apply]. rewrite Ho, Nat.eqb_refl. reflexivity.
    - rewrite <- (map_map (nth_error l) of_opt), (nth_error_prefix l _ (le_n _)), firstn_all, !map_map. reflexivity.
  Qed.

  Corollary return_tuple_tuple base o l : resolve st base = Ok o -> seq_items o = Some l ->
    resolve st (ATuple (return_tuple_args base (length l))) = Ok (VTuple l).
  Proof.
    intros Hb Ho. cbn [resolve]. rewrite (return_tuple_unpacks base o l Hb Ho), rsequence_ok. reflexivity.
  Qed.

  Theorem return_tuple_wrong_length base o l n i : resolve st base = Ok o -> seq_items o = Some l ->
    length l <> n -> resolve st (AFun base (FGetCheck i n)) = Raised.
  Proof.
    intros Hb Ho Hn. cbn [resolve]. rewrite Hb. cbn [rbind tl_apply]. rewrite Ho.
    destruct (Nat.eqb_spec (length l) n); [contradiction|reflexivity].
  Qed.

  (* ---- mapped sequences ------------------------------------------------------------------------- *)
  (* the block tasks are stored and hold these lists *)
  Definition blocks_stored (blocks : list tid) (vals : list (list val)) : Prop :=
    Forall2 (fun b blk => st b = Some (VList blk)) blocks vals.

  Lemma blocks_stored_items blocks vals : blocks_stored blocks vals ->
    rsequence (map (block_items st) blocks) = Ok vals.
  Proof.
    induction 1 as [|b blk bl vl Hb _ IH]; cbn [map rsequence]; [reflexivity|].
    unfold block_items at 1, load. rewrite Hb. cbn. rewrite IH. reflexivity.
  Qed.

  (* value(mapped sequence) = the concatenation of its blocks' values *)
  Theorem mapseq_value_concat blocks vals bs len : blocks_stored blocks vals ->
    resolve st (AMapSeq blocks bs len) = Ok (VList (concat vals)).
  Proof. intro H. cbn [resolve]. rewrite (blocks_stored_items _ _ H). reflexivity. Qed.

  Lemma blocks_stored_nth blocks vals n : blocks_stored blocks vals ->
    match nth_error blocks n with
    | Some b => exists blk, nth_error vals n = Some blk /\ st b = Some (VList blk)
    | None => nth_error vals n = None
    end.
  Proof.
    intro H. revert n. induction H as [|b blk bl vl Hb _ IH]; intro n.
    - destruct n; reflexivity.
    - destruct n as [|n]; cbn [nth_error]; [exists blk; auto | apply IH].
  Qed.

  Lemma mapseq_elem_block_get blocks vals bs p : blocks_stored blocks vals ->
    mapseq_elem st blocks bs p = of_opt (block_get vals bs p).
  Proof.
    intro H. unfold mapseq_elem, block_get. pose proof (blocks_stored_nth blocks vals (p / bs) H) as Hn.
    destruct (nth_error blocks (p / bs)) as [b|].
    - destruct Hn as (blk & -> & Hb). unfold block_items, load. rewrite Hb. reflexivity.
    - rewrite Hn. reflexivity.
  Qed.

  (* the i-th item of a slice, in terms of Model/Slice.v's block_access_slice over the block values *)
  Lemma mapslice_elem_bslice_get blocks vals bs len r i : blocks_stored blocks vals ->
    mapslice_elem st blocks bs len r i =
    of_opt (bslice_get {| bs_base := {| ba_blocks := vals; ba_bs := bs; ba_len := len |}; bs_range := r |} (Z.of_nat i)).
  Proof.
    intro H. unfold mapslice_elem, bslice_get, ba_get. cbn [bs_base bs_range ba_len ba_blocks ba_bs].
    destruct (range_get r (Z.of_nat i)) as [q|]; [|reflexivity].
    match goal with |- context [if ?c then _ else _] => destruct c end; [|reflexivity].
    apply mapseq_elem_block_get. exact H.
  Qed.

  Theorem mapslice_value_bslice blocks vals bs len r : blocks_stored blocks vals ->
    resolve st (AMapSlice blocks bs len r) =
    rmap VList (of_opt (sequence_opt
      (bslice_value {| bs_base := {| ba_blocks := vals; ba_bs := bs; ba_len := len |}; bs_range := r |}))).
  Proof.
    intro H. cbn [resolve]. f_equal. rewrite <- rsequence_of_opt. unfold bslice_value, bslice_len.
    cbn [bs_range]. rewrite map_map. apply rsequence_map_ext. intros i _.
    apply mapslice_elem_bslice_get. exact H.
  Qed.

  (* what jug.mapreduce.map(f, xs, map_step=bs) builds, once its block tasks have run:
     ys = [f(x) for x in xs], the blocks hold break_up(ys, bs), len = len(xs) *)
  Definition mapseq_wf (blocks : list tid) (bs : nat) (len : Z) (ys : list val) : Prop :=
    1 <= bs /\ len = Z.of_nat (length ys) /\ blocks_stored blocks (map_blocks ys bs).

  Theorem mapseq_value blocks bs len ys : mapseq_wf blocks bs len ys ->
    resolve st (AMapSeq blocks bs len) = Ok (VList ys).
  Proof.
    intros (Hbs & _ & H). rewrite (mapseq_value_concat _ _ _ _ H). unfold map_blocks.
    rewrite break_up_concat by exact Hbs. reflexivity.
  Qed.

  (* a slice with ANY range r (whatever slicing of slicing produced it): the items are the whole
     sequence's value indexed, Python-style (negative = from the end, out of range = IndexError),
     at the positions of range(r) *)
  Theorem mapslice_value_general blocks bs len ys r : mapseq_wf blocks bs len ys ->
    resolve st (AMapSlice blocks bs len r) =
    rmap VList (rsequence (map (fun q => of_opt (py_list_get ys q)) (range_list r))).
  Proof.
    intros (Hbs & Hlen & H). cbn [resolve]. f_equal. unfold range_list. rewrite map_map.
    apply rsequence_map_ext. intros i Hi. apply in_seq in Hi.
    rewrite (mapslice_elem_bslice_get _ _ _ _ _ _ H). f_equal. unfold bslice_get. cbn [bs_range bs_base].
    rewrite range_get_nat by lia. subst len. apply (mapseq_index ys bs Hbs).
  Qed.

  (* m[sl] for a Python slice sl: the same as slicing the whole value, value(m)[sl] *)
  Theorem mapslice_is_list_slice blocks bs len ys sl s e k : mapseq_wf blocks bs len ys ->
    py_indices sl len = Some (s, e, k) ->
    resolve st (AMapSlice blocks bs len {| r_start := s; r_stop := e; r_step := k |}) =
    of_opt (val_getitem (VList ys) (VSlice sl)).
  Proof.
    intros (Hbs & Hlen & H) Hind. rewrite (mapslice_value_bslice _ _ _ _ _ H). subst len.
    assert (Hs : ba_slice (mk_baccess ys bs) sl =
                 Some {| bs_base := mk_baccess ys bs; bs_range := {| r_start := s; r_stop := e; r_step := k |} |}).
    { unfold ba_slice. cbn [mk_baccess ba_len]. rewrite Hind. reflexivity. }
    pose proof (mapseq_slice_value ys bs Hbs sl _ Hs) as Hv.
    cbn [val_getitem]. rewrite Hv. unfold mk_baccess.
    destruct (sequence_opt _); reflexivity.
  Qed.

  Corollary mapslice_is_getitem_of_mapseq blocks bs len ys sl s e k : mapseq_wf blocks bs len ys ->
    py_indices sl len = Some (s, e, k) ->
    resolve st (AMapSlice blocks bs len {| r_start := s; r_stop := e; r_step := k |}) =
    resolve st (AGetitem (AMapSeq blocks bs len) (AVal (VSlice sl))).
  Proof.
    intros Hwf Hind. rewrite (mapslice_is_list_slice _ _ _ _ _ _ _ _ Hwf Hind).
    cbn [resolve]. change (rmap (fun bl => VList (concat bl)) (rsequence (map (block_items st) blocks)))
      with (resolve st (AMapSeq blocks bs len)).
    rewrite (mapseq_value _ _ _ _ Hwf). reflexivity.
  Qed.
End Transparency.

(* ---- a slice of a slice of a mapped sequence = Python's slice of the first slice's value ---------- *)
Lemma sequence_opt_some_inv {A} (l : list (option A)) vs : sequence_opt l = Some vs -> l = map Some vs.
Proof.
  revert vs. induction l as [|o t IH]; intros vs H; cbn in H.
  - injection H as <-. reflexivity.
  - destruct o as [x|]; [|discriminate]. destruct (sequence_opt t) as [t'|]; [|discriminate].
    injection H as <-. cbn. f_equal. apply IH. reflexivity.
Qed.

Lemma nth_error_seq0 n k : k < n -> nth_error (seq 0 n) k = Some k.
Proof.
  intro H. rewrite (nth_error_nth' _ 0) by (rewrite seq_length; exact H). rewrite seq_nth by exact H. reflexivity.
Qed.

Section SliceOfSlice.
  Variable st : tid -> option val.
  Local Open Scope Z_scope.

  Lemma bslice_value_nth {Y} (s : bslice (Y:=Y)) vs p : bslice_value s = map Some vs ->
    0 <= p < bslice_len s -> bslice_get s p = znth_error vs p.
  Proof.
    intros Hv Hp. unfold znth_error. destruct (Z.ltb_spec p 0); [lia|].
    assert (Hk : (Z.to_nat p < Z.to_nat (bslice_len s))%nat) by lia.
    pose proof (f_equal (fun l => nth_error l (Z.to_nat p)) Hv) as E. cbn beta in E.
    unfold bslice_value in E. rewrite !nth_error_map, (nth_error_seq0 _ _ Hk) in E. cbn [option_map] in E.
    rewrite Z2Nat.id in E by lia.
    destruct (nth_error vs (Z.to_nat p)); cbn in E; [injection E as ->; reflexivity | discriminate].
  Qed.

  Theorem mapslice_of_slice blocks bs len ys r sl2 r' vs :
    mapseq_wf st blocks bs len ys -> r_step r <> 0 ->
    resolve st (AMapSlice blocks bs len r) = Ok (VList vs) ->
    range_slice r sl2 = Some r' ->
    resolve st (AMapSlice blocks bs len r') = of_opt (val_getitem (VList vs) (VSlice sl2)).
  Proof.
    intros (Hbs & Hlen & H) Hc Hv Hrs.
    set (B := {| ba_blocks := map_blocks ys bs; ba_bs := bs; ba_len := len |}).
    set (s := {| bs_base := B; bs_range := r |}).
    rewrite (mapslice_value_bslice st _ _ _ _ _ H) in Hv. fold B s in Hv.
    destruct (sequence_opt (bslice_value s)) as [vs'|] eqn:Hseq; [|discriminate].
    cbn in Hv. injection Hv as ->.
    apply sequence_opt_some_inv in Hseq.
    assert (Hlenvs : Z.of_nat (length vs) = bslice_len s).
    { pose proof (f_equal (@length _) Hseq) as E. unfold bslice_value in E. rewrite !map_length, seq_length in E.
      rewrite <- E. apply Z2Nat.id. apply range_len_nonneg. }
    pose proof Hrs as Hrs'. unfold range_slice in Hrs'.
    destruct (py_indices sl2 (range_len r)) as [[[s2 e2] k2]|] eqn:Hind; [|discriminate]. clear Hrs'.
    assert (Hss : bslice_slice s sl2 = Some {| bs_base := B; bs_range := r' |}).
    { unfold bslice_slice. cbn [s bs_range bs_base]. rewrite Hrs. reflexivity. }
    pose proof (mapseq_slice_of_slice s _ sl2 s2 e2 k2 Hc Hind Hss) as Hv2.
    rewrite (mapslice_value_bslice st _ _ _ _ _ H). fold B. rewrite Hv2.
    cbn [val_getitem]. unfold py_list_slice. rewrite Hlenvs. unfold bslice_len. cbn [s bs_range]. rewrite Hind.
    assert (E : map (bslice_get s) (range_list {| r_start := s2; r_stop := e2; r_step := k2 |}) =
                map (znth_error vs) (range_list {| r_start := s2; r_stop := e2; r_step := k2 |})).
    { unfold range_list. rewrite !map_map. apply map_ext_in. intros i Hi. apply in_seq in Hi.
      cbn [r_start r_step]. apply bslice_value_nth; [exact Hseq|].
      apply (slice_positions_in_bounds sl2 _ s2 e2 k2 (Z.of_nat i) (range_len_nonneg _) Hind). lia. }
    rewrite E. destruct (sequence_opt _); reflexivity.
  Qed.
End SliceOfSlice.

(* ---- the bridge to the task graph of C09/C15 (Model/Dag.v) ----------------------------------------- *)
(* the graph node of a task object: its direct dependencies are what the walk declares *)
Definition dag_node (name : positive) (t : task) : Dag.node := (t_id t, name, task_deps t).

(* a consumer of a derived object depends (in the graph) on every task underneath it *)
Theorem consumer_depends_on_underlying (d : Dag.dag) name t u :
  In (dag_node name t) d -> task_occurs u t -> Dag.depends_on d (t_id t) u.
Proof.
  intros Hin Hocc. apply task_occurs_deps in Hocc.
  eapply Dag.dep_step; [|apply Dag.dep_refl].
  exists (dag_node name t). repeat split; assumption.
Qed.

(* ---- opaque objects whose inner tasks are declared (instances of list / tuple / dict subclasses) ---------- *)
(* handed over as it is, whatever the store holds ... *)
Theorem resolve_opaque st ts v : resolve st (AOpaque ts v) = Ok v.
Proof. reflexivity. Qed.

(* ... yet its consumer waits for the declared inner tasks (they are among its dependencies) ... *)
Theorem opaque_declared_waits t ts v u : In (AOpaque ts v) (t_args t) -> In u ts -> In u (task_deps t).
Proof. intros Ha Hu. apply (task_deps_arg t _ Ha). exact Hu. Qed.

(* ... and depends on them in the task graph (hence is invalidated with them, C09) *)
Theorem opaque_declared_depends (d : Dag.dag) name t ts v u :
  In (dag_node name t) d -> In (AOpaque ts v) (t_args t) -> In u ts -> Dag.depends_on d (t_id t) u.
Proof.
  intros Hin Ha Hu. apply (consumer_depends_on_underlying d name t u Hin).
  left. exists (AOpaque ts v). split; [exact Ha | apply occ_opaque; exact Hu].
Qed.

(* ---- a consumer's outcome is a function of ITS OWN argument terms ---------------------------------------- *)
(* the identifier plays no part: two task objects with the same function and the same argument terms do
   the same thing in every store (so sharing one stored result between them is sound) ... *)
Theorem task_run_own_arguments kinds st t1 t2 :
  t_fn t1 = t_fn t2 -> t_args t1 = t_args t2 -> t_kwargs t1 = t_kwargs t2 ->
  task_run kinds st t1 = task_run kinds st t2.
Proof. intros Hf Ha Hk. unfold task_run, task_inputs. rewrite Hf, Ha, Hk. reflexivity. Qed.

(* ... and conversely, for a free function (its result records what it received): two consumers may share
   a result only if their arguments resolve to the same values - consumers of views with different values
   need results of their own *)
Theorem task_run_shared_result kinds st t1 t2 v :
  t_fn t1 = t_fn t2 -> kinds (t_fn t1) = FkApp ->
  task_run kinds st t1 = FRet v -> task_run kinds st t2 = FRet v ->
  task_inputs st t1 = task_inputs st t2.
Proof.
  intros Hf Hk. unfold task_run. rewrite <- Hf, Hk.
  destruct (task_inputs st t1) as [[a1 k1]| |]; try discriminate.
  destruct (task_inputs st t2) as [[a2 k2]| |]; try discriminate.
  cbn. intros [= <-] [= E1 E2]. subst. reflexivity.
Qed.
