(* Facts about Model/Loader.v used by Props/C14.v (barriers, bvalue, the reload loop, check). *)
From Coq Require Import List PArith ZArith Bool Lia.
From JugV Require Import Model.Loader.
Import ListNotations.

(* ------------------------------------------------------------------ stores *)
Lemma stored_true_iff : forall st t, stored st t = true <-> exists v, lookup st t = Some v.
Proof.
  intros st t. unfold stored. destruct (lookup st t) as [v|]; split; intros H.
  - now exists v.
  - reflexivity.
  - discriminate.
  - destruct H as [v H]. discriminate.
Qed.

Lemma stored_false_iff : forall st t, stored st t = false <-> lookup st t = None.
Proof.
  intros st t. unfold stored. destruct (lookup st t); split; intros H; try discriminate; reflexivity.
Qed.

Lemma lookup_cons_eq : forall st t v, lookup ((t, v) :: st) t = Some v.
Proof. intros. simpl. now rewrite Pos.eqb_refl. Qed.

Lemma lookup_cons_neq : forall st t u v, t <> u -> lookup ((t, v) :: st) u = lookup st u.
Proof. intros st t u v H. simpl. destruct (Pos.eqb_spec t u); [contradiction | reflexivity]. Qed.

Lemma lookup_In : forall st t v, lookup st t = Some v -> In (t, v) st.
Proof.
  induction st as [|[k w] r IH]; simpl; intros t v H; [discriminate|].
  destruct (Pos.eqb_spec k t).
  - inversion H; subst. now left.
  - right. now apply IH.
Qed.

Lemma In_lookup_some : forall st t v, In (t, v) st -> exists w, lookup st t = Some w.
Proof.
  induction st as [|[k w] r IH]; simpl; intros t v H; [contradiction|].
  destruct (Pos.eqb_spec k t); [now eexists|].
  destruct H as [H|H]; [inversion H; subst; contradiction | eauto].
Qed.

(* st' has every binding of st *)
Definition extends (st st' : store) : Prop := forall t v, lookup st t = Some v -> lookup st' t = Some v.

Lemma extends_refl : forall st, extends st st.
Proof. intros st t v H; exact H. Qed.

Lemma extends_trans : forall a b c, extends a b -> extends b c -> extends a c.
Proof. intros a b c H1 H2 t v H. apply H2, H1, H. Qed.

Lemma extends_stored : forall st st' t, extends st st' -> stored st t = true -> stored st' t = true.
Proof.
  intros st st' t He H. apply stored_true_iff in H. destruct H as [v H].
  apply stored_true_iff. exists v. now apply He.
Qed.

Lemma extends_cons : forall st t v, stored st t = false -> extends st ((t, v) :: st).
Proof.
  intros st t v Hs u w H. simpl. destruct (Pos.eqb_spec t u).
  - subst. apply stored_false_iff in Hs. congruence.
  - exact H.
Qed.

(* ------------------------------------------------------------------ arguments *)
Section ArgInd.
  Variable P : arg -> Prop.
  Hypothesis Hv : forall v, P (AVal v).
  Hypothesis Ht : forall t, P (ATask t).
  Hypothesis Hx : forall xs, Forall P xs -> P (ATup xs).
  Fixpoint arg_ind' (a : arg) : P a :=
    match a with
    | AVal v => Hv v
    | ATask t => Ht t
    | ATup xs => Hx xs ((fix go (xs : list arg) : Forall P xs :=
                           match xs with
                           | [] => Forall_nil _
                           | x :: r => Forall_cons _ (arg_ind' x) (go r)
                           end) xs)
    end.
End ArgInd.

Lemma resolve_tup : forall f xs,
  resolve f (ATup xs) = match resolve_list f xs with Some vs => Some (VTup vs) | None => None end.
Proof.
  intros f xs. simpl.
  assert (E : (fix go (xs0 : list arg) : option (list val) :=
                 match xs0 with
                 | [] => Some []
                 | x :: r => match resolve f x, go r with
                             | Some v, Some vs => Some (v :: vs)
                             | _, _ => None
                             end
                 end) xs = resolve_list f xs).
  { induction xs as [|x r IH]; [reflexivity|]. simpl. now rewrite IH. }
  now rewrite E.
Qed.

Lemma atids_tup : forall xs, atids (ATup xs) = atids_list xs.
Proof.
  intros xs. simpl. induction xs as [|x r IH]; [reflexivity|]. simpl. now rewrite IH.
Qed.

Opaque resolve atids.
Lemma resolve_val : forall f v, resolve f (AVal v) = Some v.
Proof. reflexivity. Qed.
Lemma resolve_task : forall f t, resolve f (ATask t) = f t.
Proof. reflexivity. Qed.
Lemma atids_val : forall v, atids (AVal v) = [].
Proof. reflexivity. Qed.
Lemma atids_task : forall t, atids (ATask t) = [t].
Proof. reflexivity. Qed.

(* resolve only looks at the tasks occurring in the argument *)
Lemma resolve_ext : forall f g a, (forall t, In t (atids a) -> f t = g t) -> resolve f a = resolve g a.
Proof.
  intros f g a. induction a as [v|t|xs IH] using arg_ind'; intros H.
  - reflexivity.
  - rewrite !resolve_task. apply H. rewrite atids_task. now left.
  - rewrite !resolve_tup. rewrite atids_tup in H.
    assert (E : resolve_list f xs = resolve_list g xs).
    { induction xs as [|x r IHr]; [reflexivity|]. simpl in *.
      inversion IH as [|? ? Hx Hr]; subst.
      rewrite (Hx (fun t Ht => H t (in_or_app _ _ _ (or_introl Ht)))).
      rewrite (IHr Hr (fun t Ht => H t (in_or_app _ _ _ (or_intror Ht)))). reflexivity. }
    now rewrite E.
Qed.

Lemma resolve_list_ext : forall f g xs,
  (forall t, In t (atids_list xs) -> f t = g t) -> resolve_list f xs = resolve_list g xs.
Proof.
  intros f g xs H. induction xs as [|x r IH]; [reflexivity|]. simpl in *.
  rewrite (resolve_ext f g x (fun t Ht => H t (in_or_app _ _ _ (or_introl Ht)))).
  rewrite (IH (fun t Ht => H t (in_or_app _ _ _ (or_intror Ht)))). reflexivity.
Qed.

(* value(a) fails only because some task in it has no result *)
Lemma resolve_none : forall f a, resolve f a = None -> exists t, In t (atids a) /\ f t = None.
Proof.
  intros f a. induction a as [v|t|xs IH] using arg_ind'; intros H.
  - discriminate.
  - rewrite resolve_task in H. exists t. rewrite atids_task. split; [now left | exact H].
  - rewrite resolve_tup in H. rewrite atids_tup.
    assert (E : resolve_list f xs = None) by (destruct (resolve_list f xs); [discriminate | reflexivity]).
    clear H. induction xs as [|x r IHr]; [discriminate|]. simpl in *.
    inversion IH as [|? ? Hx Hr]; subst.
    destruct (resolve f x) eqn:Ex.
    + destruct (resolve_list f r) eqn:Er; [discriminate|].
      destruct (IHr Hr eq_refl) as [t [Ht Hf]]. exists t. split; [apply in_or_app; now right | exact Hf].
    + destruct (Hx eq_refl) as [t [Ht Hf]]. exists t. split; [apply in_or_app; now left | exact Hf].
Qed.

Lemma resolve_list_none : forall f xs, resolve_list f xs = None -> exists t, In t (atids_list xs) /\ f t = None.
Proof.
  intros f xs H. assert (E : resolve f (ATup xs) = None) by (rewrite resolve_tup, H; reflexivity).
  apply resolve_none in E. now rewrite atids_tup in E.
Qed.

Lemma resolve_some_tids : forall f a v, resolve f a = Some v -> forall t, In t (atids a) -> exists w, f t = Some w.
Proof.
  intros f a. induction a as [v0|t0|xs IH] using arg_ind'; intros v H t Ht.
  - rewrite atids_val in Ht. contradiction.
  - rewrite atids_task in Ht. destruct Ht as [<-|[]]. rewrite resolve_task in H. eauto.
  - rewrite resolve_tup in H. rewrite atids_tup in Ht.
    destruct (resolve_list f xs) as [vs|] eqn:E; [|discriminate]. clear H. revert vs E t Ht.
    induction xs as [|x r IHr]; intros vs E t Ht; [contradiction|]. simpl in *.
    inversion IH as [|? ? Hx Hr]; subst.
    destruct (resolve f x) eqn:Ex; [|discriminate].
    destruct (resolve_list f r) eqn:Er; [|discriminate].
    apply in_app_or in Ht. destruct Ht as [Ht|Ht]; [eapply Hx; eauto | eapply IHr; eauto].
Qed.

Lemma resolve_list_some_tids : forall f xs vs, resolve_list f xs = Some vs ->
  forall t, In t (atids_list xs) -> exists w, f t = Some w.
Proof.
  intros f xs vs H t Ht. apply (resolve_some_tids f (ATup xs) (VTup vs)).
  - now rewrite resolve_tup, H.
  - now rewrite atids_tup.
Qed.

Lemma resolve_defined : forall f a, (forall t, In t (atids a) -> exists w, f t = Some w) -> exists v, resolve f a = Some v.
Proof.
  intros f a H. destruct (resolve f a) as [v|] eqn:E; [eauto|].
  apply resolve_none in E. destruct E as [t [Ht Hf]]. destruct (H t Ht) as [w Hw]. congruence.
Qed.

Lemma resolve_list_defined : forall f xs, (forall t, In t (atids_list xs) -> exists w, f t = Some w) ->
  exists vs, resolve_list f xs = Some vs.
Proof.
  intros f xs H. destruct (resolve_list f xs) as [v|] eqn:E; [eauto|].
  apply resolve_list_none in E. destruct E as [t [Ht Hf]]. destruct (H t Ht) as [w Hw]. congruence.
Qed.

(* ------------------------------------------------------------------ the event trace *)
Lemma all_stored_forall : forall st ts, all_stored st ts = true <-> forall t, In t ts -> stored st (tid_of t) = true.
Proof. intros. unfold all_stored. apply forallb_forall. Qed.

Lemma all_stored_false : forall st ts, all_stored st ts = false -> exists t, In t ts /\ stored st (tid_of t) = false.
Proof.
  intros st ts. induction ts as [|t r IH]; simpl; intros H; [discriminate|].
  destruct (stored st (tid_of t)) eqn:E.
  - simpl in H. destruct (IH H) as [u [Hu Hs]]. exists u. split; [now right | exact Hs].
  - exists t. split; [now left | exact E].
Qed.

Lemma tasks_rev_app : forall a b, tasks_rev (a ++ b) = tasks_rev a ++ tasks_rev b.
Proof.
  induction a as [|e a IH]; intros b; [reflexivity|]. destruct e; simpl; rewrite IH; reflexivity.
Qed.

Lemma in_tasks_rev : forall tr t, In t (tasks_rev tr) <-> In (ETask t) tr.
Proof.
  induction tr as [|e r IH]; intros t; simpl; [tauto|].
  destruct e; simpl; rewrite IH; split; intros H; try (now right);
    try (destruct H as [H|H]; [discriminate | exact H]).
  - destruct H as [H|H]; [left; now f_equal | now right].
  - destruct H as [H|H]; [left; now inversion H | now right].
Qed.

(* the loader only appends events *)
Lemma load_from_app : forall st p tr, exists d, fst (load_from st p tr) = d ++ tr.
Proof.
  intros st p. induction p as [r|t k IH|m k IH|k IH|a k IH|h ca body IHb k IHk]; intros tr; simpl.
  - now exists [].
  - destruct (IH (ETask t :: tr)) as [d E]. exists (d ++ [ETask t]). now rewrite E, <- app_assoc.
  - destruct (IH (EMark m :: tr)) as [d E]. exists (d ++ [EMark m]). now rewrite E, <- app_assoc.
  - destruct (all_stored st (tasks_rev tr)).
    + destruct (IH (EBar :: tr)) as [d E]. exists (d ++ [EBar]). now rewrite E, <- app_assoc.
    + now exists [EStop].
  - destruct (resolve (lookup st) a) as [v|].
    + destruct (IH v (EBV a v :: tr)) as [d E]. exists (d ++ [EBV a v]). now rewrite E, <- app_assoc.
    + now exists [EStop].
  - destruct (stored st h).
    + destruct (IHk (ETask (probe h ca) :: tr)) as [d E]. exists (d ++ [ETask (probe h ca)]).
      now rewrite E, <- app_assoc.
    + destruct (IHb tr) as [d1 E1]. destruct (load_from st body tr) as [tr1 [inner|]]; simpl in *.
      * destruct (IHk (ETask (final h inner) :: tr1)) as [d E]. subst tr1.
        exists (d ++ ETask (final h inner) :: d1). rewrite E, <- app_assoc. reflexivity.
      * now exists d1.
Qed.

Lemma load_from_tasks_incl : forall st p tr t,
  In t (tasks_rev tr) -> In t (tasks_rev (fst (load_from st p tr))).
Proof.
  intros st p tr t H. destruct (load_from_app st p tr) as [d E]. rewrite E, tasks_rev_app.
  apply in_or_app. now right.
Qed.

(* (a): what a well-formed trace (most recent event first) looks like *)
Fixpoint good (st : store) (tr : list ev) : Prop :=
  match tr with
  | [] => True
  | e :: r =>
      ~ In EStop r /\ good st r /\
      match e with
      | EBar => all_stored st (tasks_rev r) = true
      | EBV a v => resolve (lookup st) a = Some v
      | _ => True
      end
  end.

Definition stop_iff (tr : list ev) (out : option arg) : Prop :=
  (out = None -> exists r, tr = EStop :: r) /\ (out <> None -> ~ In EStop tr).

Lemma load_from_good : forall st p tr, good st tr -> ~ In EStop tr ->
  good st (fst (load_from st p tr)) /\ stop_iff (fst (load_from st p tr)) (snd (load_from st p tr)).
Proof.
  intros st p. induction p as [r|t k IH|m k IH|k IH|a k IH|h ca body IHb k IHk]; intros tr Hg Hn; simpl.
  - split; [exact Hg|]. split; [discriminate | intros _; exact Hn].
  - apply IH; simpl; [tauto|]. intros [H|H]; [discriminate | tauto].
  - apply IH; simpl; [tauto|]. intros [H|H]; [discriminate | tauto].
  - destruct (all_stored st (tasks_rev tr)) eqn:E.
    + apply IH; simpl; [tauto|]. intros [H|H]; [discriminate | tauto].
    + simpl. split; [tauto|]. split; [eauto | intros H; now elim H].
  - destruct (resolve (lookup st) a) as [v|] eqn:E.
    + apply IH; simpl; [tauto|]. intros [H|H]; [discriminate | tauto].
    + simpl. split; [tauto|]. split; [eauto | intros H; now elim H].
  - destruct (stored st h).
    + apply IHk; simpl; [tauto|]. intros [H|H]; [discriminate | tauto].
    + destruct (IHb tr Hg Hn) as [Hg1 [Hs1 Hs2]].
      destruct (load_from st body tr) as [tr1 [inner|]]; simpl in *.
      * assert (Hn1 : ~ In EStop tr1) by (apply Hs2; discriminate).
        apply IHk; simpl; [tauto|]. intros [H|H]; [discriminate | tauto].
      * split; [exact Hg1|]. split; [exact Hs1 | intros H; now elim H].
Qed.

(* the same, on the event list in program order *)
Lemma good_split_bar : forall st tr a b, good st tr -> tr = a ++ EBar :: b ->
  forall t, In (ETask t) b -> stored st (tid_of t) = true.
Proof.
  intros st tr a. revert tr. induction a as [|e a IH]; intros tr b Hg E t Ht; subst tr.
  - simpl in Hg. destruct Hg as [_ [_ H]]. rewrite all_stored_forall in H. apply H. now apply in_tasks_rev.
  - simpl in Hg. destruct Hg as [_ [Hg _]]. eapply IH; eauto.
Qed.

Lemma good_split_bv : forall st tr a b x v, good st tr -> tr = a ++ EBV x v :: b ->
  resolve (lookup st) x = Some v.
Proof.
  intros st tr a. revert tr. induction a as [|e a IH]; intros tr b x v Hg E; subst tr.
  - simpl in Hg. tauto.
  - simpl in Hg. destruct Hg as [_ [Hg _]]. eapply IH; eauto.
Qed.

Lemma good_split_stop : forall st tr a b, good st tr -> tr = a ++ EStop :: b -> a = [].
Proof.
  intros st tr a b Hg E. destruct a as [|e a]; [reflexivity|]. subst tr. simpl in Hg.
  destruct Hg as [Hn _]. elim Hn. apply in_or_app. right. now left.
Qed.

Lemma load_events : forall st p, l_events (load st p) = rev (fst (load_from st p [])).
Proof. intros. unfold load. destruct (load_from st p []); reflexivity. Qed.
Lemma load_tasks : forall st p, l_tasks (load st p) = rev (tasks_rev (fst (load_from st p []))).
Proof. intros. unfold load. destruct (load_from st p []); reflexivity. Qed.
Lemma load_hasbarrier : forall st p, l_hasbarrier (load st p) = is_none (snd (load_from st p [])).
Proof. intros. unfold load. destruct (load_from st p []); reflexivity. Qed.

Lemma rev_eq_app_cons : forall (A : Type) (l : list A) pre x post,
  rev l = pre ++ x :: post -> l = rev post ++ x :: rev pre.
Proof.
  intros A l pre x post H. rewrite <- (rev_involutive l), H, rev_app_distr. simpl.
  now rewrite <- app_assoc.
Qed.

(* (a1) a barrier() call returns only when every task defined before it - at top level, inside
   the compound builder being run, or before it - has a stored result *)
Lemma barrier_passed_all_stored : forall st p pre post,
  l_events (load st p) = pre ++ EBar :: post ->
  forall t, In (ETask t) pre -> stored st (tid_of t) = true.
Proof.
  intros st p pre post E t Ht. rewrite load_events in E. apply rev_eq_app_cons in E.
  destruct (load_from_good st p [] I (fun H => H)) as [Hg _].
  eapply good_split_bar; eauto. now apply -> in_rev.
Qed.

(* (a2) a bvalue(a) call returns only the stored value *)
Lemma bvalue_passed_value : forall st p pre post a v,
  l_events (load st p) = pre ++ EBV a v :: post -> resolve (lookup st) a = Some v.
Proof.
  intros st p pre post a v E. rewrite load_events in E. apply rev_eq_app_cons in E.
  destruct (load_from_good st p [] I (fun H => H)) as [Hg _]. eapply good_split_bv; eauto.
Qed.

(* (a3) nothing happens after a BarrierError, and the namespace is flagged iff there was one *)
Lemma stop_is_last : forall st p pre post,
  l_events (load st p) = pre ++ EStop :: post -> post = [] /\ l_hasbarrier (load st p) = true.
Proof.
  intros st p pre post E. rewrite load_events in E. apply rev_eq_app_cons in E.
  destruct (load_from_good st p [] I (fun H => H)) as [Hg [Hs1 Hs2]].
  pose proof (good_split_stop _ _ _ _ Hg E) as Hp.
  split.
  - destruct post as [|x post]; [reflexivity|]. simpl in Hp. now destruct (rev post).
  - rewrite load_hasbarrier. destruct (snd (load_from st p [])); [|reflexivity].
    exfalso. apply Hs2; [discriminate|]. rewrite E. apply in_or_app. right. now left.
Qed.

Lemma hasbarrier_stop : forall st p, l_hasbarrier (load st p) = true ->
  exists pre, l_events (load st p) = pre ++ [EStop].
Proof.
  intros st p H. rewrite load_hasbarrier in H. rewrite load_events.
  destruct (load_from_good st p [] I (fun H => H)) as [_ [Hs1 _]].
  destruct (snd (load_from st p [])); [discriminate|]. destruct (Hs1 eq_refl) as [r E].
  rewrite E. simpl. now exists (rev r).
Qed.

(* ------------------------------------------------------------------ (c): a closed barrier means an incomplete task *)
(* Python scoping: a task reference is to a Task object created earlier and still visible *)
Fixpoint wf (sc : list tid) (p : jprog) : Prop :=
  match p with
  | Ret r => incl (atids r) sc
  | Def t k => incl (atids_list (targs t)) sc /\ wf (tid_of t :: sc) k
  | Mark _ k | Barrier k => wf sc k
  | BValue a k => incl (atids a) sc /\ forall v, wf sc (k v)
  | Compound h ca body k => incl (atids_list ca) sc /\ wf sc body /\ wf (h :: sc) k
  end.

Definition scope_loaded (sc : list tid) (tr : list ev) : Prop :=
  forall t, In t sc -> exists u, In u (tasks_rev tr) /\ tid_of u = t.

Lemma scope_loaded_cons : forall sc tr t, scope_loaded sc tr -> scope_loaded (tid_of t :: sc) (ETask t :: tr).
Proof.
  intros sc tr t H u [<-|Hu].
  - exists t. split; [now left | reflexivity].
  - destruct (H u Hu) as [w [Hw E]]. exists w. split; [now right | exact E].
Qed.

Lemma scope_loaded_skip : forall sc tr e, (forall t, e <> ETask t) -> scope_loaded sc tr -> scope_loaded sc (e :: tr).
Proof.
  intros sc tr e He H u Hu. destruct (H u Hu) as [w [Hw E]]. exists w. split; [|exact E].
  destruct e; simpl; auto with datatypes.
Qed.

Lemma scope_loaded_mono : forall sc tr d, scope_loaded sc tr -> scope_loaded sc (d ++ tr).
Proof.
  intros sc tr d H u Hu. destruct (H u Hu) as [w [Hw E]]. exists w. split; [|exact E].
  rewrite tasks_rev_app. apply in_or_app. now right.
Qed.

Lemma stopped_unstored_from : forall st p sc tr, wf sc p -> scope_loaded sc tr ->
  snd (load_from st p tr) = None ->
  exists t, In t (tasks_rev (fst (load_from st p tr))) /\ stored st (tid_of t) = false.
Proof.
  intros st p. induction p as [r|t k IH|m k IH|k IH|a k IH|h ca body IHb k IHk]; intros sc tr Hw Hs Hn; simpl in *.
  - discriminate.
  - destruct Hw as [_ Hw]. apply (IH (tid_of t :: sc) (ETask t :: tr) Hw); [|exact Hn]. now apply scope_loaded_cons.
  - apply (IH sc (EMark m :: tr) Hw); [|exact Hn]. apply scope_loaded_skip; [discriminate | exact Hs].
  - destruct (all_stored st (tasks_rev tr)) eqn:E.
    + apply (IH sc (EBar :: tr) Hw); [|exact Hn]. apply scope_loaded_skip; [discriminate | exact Hs].
    + simpl. now apply all_stored_false.
  - destruct Hw as [Ha Hw]. destruct (resolve (lookup st) a) as [v|] eqn:E.
    + apply (IH v sc (EBV a v :: tr) (Hw v)); [|exact Hn]. apply scope_loaded_skip; [discriminate | exact Hs].
    + simpl. apply resolve_none in E. destruct E as [t [Ht Hl]].
      destruct (Hs t (Ha t Ht)) as [u [Hu Eu]]. exists u. split; [exact Hu|].
      rewrite Eu. now apply stored_false_iff.
  - destruct Hw as [_ [Hwb Hwk]]. destruct (stored st h) eqn:Eh.
    + apply (IHk (h :: sc) (ETask (probe h ca) :: tr) Hwk); [|exact Hn].
      change h with (tid_of (probe h ca)) at 1. now apply scope_loaded_cons.
    + pose proof (IHb sc tr Hwb Hs) as Hb. destruct (load_from_app st body tr) as [d Ed].
      destruct (load_from st body tr) as [tr1 [inner|]]; simpl in *.
      * apply (IHk (h :: sc) (ETask (final h inner) :: tr1) Hwk); [|exact Hn].
        change h with (tid_of (final h inner)) at 1. apply scope_loaded_cons.
        subst tr1. now apply scope_loaded_mono.
      * now apply Hb.
Qed.

Lemma stopped_unstored : forall st p, wf [] p -> l_hasbarrier (load st p) = true ->
  exists t, In t (l_tasks (load st p)) /\ stored st (tid_of t) = false.
Proof.
  intros st p Hw H. rewrite load_hasbarrier in H. rewrite load_tasks.
  destruct (stopped_unstored_from st p [] [] Hw) as [t [Ht Hs]].
  - intros t [].
  - destruct (snd (load_from st p [])); [discriminate | reflexivity].
  - exists t. split; [now apply -> in_rev | exact Hs].
Qed.

Lemma check_closed_barrier : forall st p, wf [] p -> l_hasbarrier (load st p) = true -> check st p = 1.
Proof.
  intros st p Hw H. unfold check. destruct (all_stored st (l_tasks (load st p))) eqn:E; [|reflexivity].
  destruct (stopped_unstored st p Hw H) as [t [Ht Hs]].
  rewrite all_stored_forall in E. rewrite (E t Ht) in Hs. discriminate.
Qed.

Lemma check_zero_iff : forall st p, check st p = 0 <-> forall t, In t (l_tasks (load st p)) -> stored st (tid_of t) = true.
Proof.
  intros st p. unfold check. destruct (all_stored st (l_tasks (load st p))) eqn:E.
  - rewrite all_stored_forall in E. tauto.
  - split; [discriminate|]. intros H. apply all_stored_forall in H. congruence.
Qed.

(* ================================================================== (b): the reload loop *)
(* the store never contradicts the sequential evaluation *)
Definition agrees (st : store) (L : list (tid * val)) : Prop :=
  forall t v w, lookup st t = Some v -> In (t, w) L -> v = w.
(* the sequential evaluation gives one value per identifier (two Task objects with the same hash
   denote the same computation) *)
Definition functional (L : list (tid * val)) : Prop :=
  forall t v w, In (t, v) L -> In (t, w) L -> v = w.

(* what [unfold] guarantees about the path it recorded *)
Fixpoint svalid (env : store) (s : spine) : Prop :=
  match s with
  | SRet r v => resolve (lookup env) r = Some v
  | SDef t v s' =>
      (exists vs, resolve_list (lookup env) (targs t) = Some vs /\ v = tfun t vs) /\
      svalid ((tid_of t, v) :: env) s'
  | SMark _ s' | SBar s' => svalid env s'
  | SBV a v s' => resolve (lookup env) a = Some v /\ svalid env s'
  | SComp h ca sb v s' =>
      (exists vs, resolve_list (lookup env) ca = Some vs) /\ svalid env sb /\ sres sb = v /\
      svalid ((h, v) :: env) s'
  end.

Lemma unfold_svalid : forall p env s w, unfold p env = Some (s, w) -> svalid env s /\ sres s = w.
Proof.
  induction p as [r|t k IH|m k IH|k IH|a k IH|h ca body IHb k IHk]; intros env s w H; simpl in H.
  - destruct (resolve (lookup env) r) eqn:E; inversion H; subst. simpl. auto.
  - destruct (resolve_list (lookup env) (targs t)) as [vs|] eqn:E; [|discriminate].
    destruct (unfold k ((tid_of t, tfun t vs) :: env)) as [[s' w']|] eqn:Ek; inversion H; subst.
    destruct (IH _ _ _ Ek) as [Hv Hr]. simpl. split; [|exact Hr]. split; [eauto | exact Hv].
  - destruct (unfold k env) as [[s' w']|] eqn:Ek; inversion H; subst.
    destruct (IH _ _ _ Ek). simpl. auto.
  - destruct (unfold k env) as [[s' w']|] eqn:Ek; inversion H; subst.
    destruct (IH _ _ _ Ek). simpl. auto.
  - destruct (resolve (lookup env) a) as [v|] eqn:E; [|discriminate].
    destruct (unfold (k v) env) as [[s' w']|] eqn:Ek; inversion H; subst.
    destruct (IH _ _ _ _ Ek). simpl. auto.
  - destruct (resolve_list (lookup env) ca) as [vs|] eqn:E; [|discriminate].
    destruct (unfold body env) as [[sb v]|] eqn:Eb; [|discriminate].
    destruct (unfold k ((h, v) :: env)) as [[s' w']|] eqn:Ek; inversion H; subst.
    destruct (IHb _ _ _ Eb) as [Hb1 Hb2]. destruct (IHk _ _ _ Ek) as [Hk1 Hk2].
    simpl. split; [|exact Hk2]. split; [eauto|]. split; [exact Hb1|]. split; [exact Hb2 | exact Hk1].
Qed.

(* the loader follows the recorded path as long as the store agrees with the recorded values *)
Definition compat (st env : store) : Prop :=
  forall t v w, lookup st t = Some v -> lookup env t = Some w -> v = w.

Lemma compat_cons : forall st env t v, compat st env -> (forall v0, lookup st t = Some v0 -> v0 = v) ->
  compat st ((t, v) :: env).
Proof.
  intros st env t v Hc Ht u a b Ha Hb. simpl in Hb. destruct (Pos.eqb_spec t u).
  - subst. inversion Hb; subst. now apply Ht.
  - eapply Hc; eauto.
Qed.

Lemma resolve_compat : forall st env a v v', compat st env ->
  resolve (lookup env) a = Some v -> resolve (lookup st) a = Some v' -> v' = v.
Proof.
  intros st env a v v' Hc He Hs.
  assert (E : resolve (lookup st) a = resolve (lookup env) a).
  { apply resolve_ext. intros t Ht.
    destruct (resolve_some_tids _ _ _ He t Ht) as [w Hw].
    destruct (resolve_some_tids _ _ _ Hs t Ht) as [w' Hw'].
    rewrite Hw, Hw'. f_equal. eapply Hc; eauto. }
  congruence.
Qed.

Lemma agrees_incl : forall st L L', agrees st L -> incl L' L -> agrees st L'.
Proof. intros st L L' H Hi t v w Hl Hin. eapply H; eauto. Qed.

Lemma load_follows_spine : forall st p env s w tr,
  unfold p env = Some (s, w) -> compat st env -> agrees st (slog s) ->
  load_from st p tr = sload st s tr.
Proof.
  intros st. induction p as [r|t k IH|m k IH|k IH|a k IH|h ca body IHb k IHk];
    intros env s w tr H Hc Ha; simpl in H.
  - destruct (resolve (lookup env) r) eqn:E; inversion H; subst. reflexivity.
  - destruct (resolve_list (lookup env) (targs t)) as [vs|] eqn:E; [|discriminate].
    destruct (unfold k ((tid_of t, tfun t vs) :: env)) as [[s' w']|] eqn:Ek; inversion H; subst.
    simpl. eapply IH; eauto.
    + apply compat_cons; [exact Hc|]. intros v0 Hv0. eapply Ha; eauto. simpl. now left.
    + apply (agrees_incl st _ _ Ha). simpl. apply incl_tl, incl_refl.
  - destruct (unfold k env) as [[s' w']|] eqn:Ek; inversion H; subst. simpl. eapply IH; eauto.
  - destruct (unfold k env) as [[s' w']|] eqn:Ek; inversion H; subst. simpl.
    destruct (all_stored st (tasks_rev tr)); [|reflexivity]. eapply IH; eauto.
  - destruct (resolve (lookup env) a) as [v|] eqn:E; [|discriminate].
    destruct (unfold (k v) env) as [[s' w']|] eqn:Ek; inversion H; subst. simpl.
    destruct (resolve (lookup st) a) as [v'|] eqn:Es; [|reflexivity].
    assert (v' = v) by (eapply resolve_compat; eauto). subst v'. eapply IH; eauto.
  - destruct (resolve_list (lookup env) ca) as [vs|] eqn:E; [|discriminate].
    destruct (unfold body env) as [[sb v]|] eqn:Eb; [|discriminate].
    destruct (unfold k ((h, v) :: env)) as [[s' w']|] eqn:Ek; inversion H; subst.
    simpl in *.
    assert (Hck : compat st ((h, v) :: env)).
    { apply compat_cons; [exact Hc|]. intros v0 Hv0. eapply Ha; eauto. apply in_or_app. right. now left. }
    assert (Hak : agrees st (slog s')).
    { apply (agrees_incl st _ _ Ha). intros x Hx. apply in_or_app. right. now right. }
    destruct (stored st h).
    + eapply IHk; eauto.
    + rewrite (IHb env sb v tr Eb Hc).
      * destruct (sload st sb tr) as [tr1 [inner|]]; [|reflexivity]. eapply IHk; eauto.
      * apply (agrees_incl st _ _ Ha). intros x Hx. apply in_or_app. now left.
Qed.

(* ------------------------------------------------------------------ sload: monotone trace *)
Lemma sload_app : forall st s tr, exists d, fst (sload st s tr) = d ++ tr.
Proof.
  intros st s. induction s as [r v|t v s IH|m s IH|s IH|a v s IH|h ca sb IHb v s IHk]; intros tr; simpl.
  - now exists [].
  - destruct (IH (ETask t :: tr)) as [d E]. exists (d ++ [ETask t]). now rewrite E, <- app_assoc.
  - destruct (IH (EMark m :: tr)) as [d E]. exists (d ++ [EMark m]). now rewrite E, <- app_assoc.
  - destruct (all_stored st (tasks_rev tr)).
    + destruct (IH (EBar :: tr)) as [d E]. exists (d ++ [EBar]). now rewrite E, <- app_assoc.
    + now exists [EStop].
  - destruct (resolve (lookup st) a) as [v'|].
    + destruct (IH (EBV a v' :: tr)) as [d E]. exists (d ++ [EBV a v']). now rewrite E, <- app_assoc.
    + now exists [EStop].
  - destruct (stored st h).
    + destruct (IHk (ETask (probe h ca) :: tr)) as [d E]. exists (d ++ [ETask (probe h ca)]).
      now rewrite E, <- app_assoc.
    + destruct (IHb tr) as [d1 E1]. destruct (sload st sb tr) as [tr1 [inner|]]; simpl in *.
      * destruct (IHk (ETask (final h inner) :: tr1)) as [d E]. subst tr1.
        exists (d ++ ETask (final h inner) :: d1). rewrite E, <- app_assoc. reflexivity.
      * now exists d1.
Qed.

Lemma sload_tasks_incl : forall st s tr t, In t (tasks_rev tr) -> In t (tasks_rev (fst (sload st s tr))).
Proof.
  intros st s tr t H. destruct (sload_app st s tr) as [d E]. rewrite E, tasks_rev_app.
  apply in_or_app. now right.
Qed.

(* ------------------------------------------------------------------ every loaded task computes its sequential value *)
Definition tsound (L : list (tid * val)) (t : task) : Prop :=
  forall st vs, agrees st L -> resolve_list (lookup st) (targs t) = Some vs -> In (tid_of t, tfun t vs) L.

Definition env_in (env : store) (L : list (tid * val)) : Prop :=
  forall t w, lookup env t = Some w -> In (t, w) L.

Lemma env_in_cons : forall env L t v, env_in env L -> In (t, v) L -> env_in ((t, v) :: env) L.
Proof.
  intros env L t v He Hi u w H. simpl in H. destruct (Pos.eqb_spec t u).
  - subst. inversion H; subst. exact Hi.
  - now apply He.
Qed.

Lemma resolve_env_store : forall env L st a v v', env_in env L -> agrees st L ->
  resolve (lookup env) a = Some v -> resolve (lookup st) a = Some v' -> v' = v.
Proof.
  intros env L st a v v' He Ha H1 H2. eapply resolve_compat; eauto.
  intros t x y Hx Hy. eapply Ha; eauto.
Qed.

Lemma resolve_list_env_store : forall env L st xs vs vs', env_in env L -> agrees st L ->
  resolve_list (lookup env) xs = Some vs -> resolve_list (lookup st) xs = Some vs' -> vs' = vs.
Proof.
  intros env L st xs vs vs' He Ha H1 H2.
  assert (E : VTup vs' = VTup vs).
  { apply (resolve_env_store env L st (ATup xs)); auto; rewrite resolve_tup; [now rewrite H1 | now rewrite H2]. }
  now inversion E.
Qed.

Definition tr_sound (st : store) (L : list (tid * val)) (tr : list ev) : Prop :=
  forall t, In t (tasks_rev tr) -> tsound L t \/ stored st (tid_of t) = true.

Lemma tr_sound_cons : forall st L tr t, tr_sound st L tr -> (tsound L t \/ stored st (tid_of t) = true) ->
  tr_sound st L (ETask t :: tr).
Proof. intros st L tr t H Ht u [<-|Hu]; [exact Ht | now apply H]. Qed.

Lemma tr_sound_skip : forall st L tr e, (forall t, e <> ETask t) -> tr_sound st L tr -> tr_sound st L (e :: tr).
Proof.
  intros st L tr e He H u Hu. apply H. destruct e; simpl in Hu; try assumption. now elim (He t).
Qed.

Lemma sload_sound : forall st L s env tr,
  svalid env s -> env_in env L -> incl (slog s) L -> tr_sound st L tr ->
  tr_sound st L (fst (sload st s tr)) /\
  (forall inner, snd (sload st s tr) = Some inner ->
     forall st0 v1, agrees st0 L -> resolve (lookup st0) inner = Some v1 -> v1 = sres s).
Proof.
  intros st L s. induction s as [r v|t v s IH|m s IH|s IH|a v s IH|h ca sb IHb v s IHk];
    intros env tr Hv He Hi Hs; simpl in *.
  - split; [exact Hs|]. intros inner E st0 v1 Ha Hr. inversion E; subst.
    eapply resolve_env_store; eauto.
  - destruct Hv as [[vs [Hvs Ev]] Hv]. apply (IH ((tid_of t, v) :: env)); try assumption.
    + apply env_in_cons; try assumption. apply Hi. now left.
    + intros x Hx. apply Hi. now right.
    + apply tr_sound_cons; try assumption. left. intros st0 vs0 Ha Hr.
      assert (vs0 = vs) by (eapply resolve_list_env_store; eauto). subst vs0. rewrite <- Ev. apply Hi. now left.
  - apply (IH env); try assumption.
  - destruct (all_stored st (tasks_rev tr)).
    + apply (IH env); try assumption.
    + simpl. split; [|discriminate]. apply tr_sound_skip; [discriminate | exact Hs].
  - destruct Hv as [Ha Hv]. destruct (resolve (lookup st) a) as [v'|].
    + apply (IH env); try assumption.
    + simpl. split; [|discriminate]. apply tr_sound_skip; [discriminate | exact Hs].
  - destruct Hv as [_ [Hvb [Er Hvk]]].
    assert (Hh : In (h, v) L) by (apply Hi, in_or_app; right; now left).
    assert (Hik : incl (slog s) L) by (intros x Hx; apply Hi, in_or_app; right; now right).
    assert (Hib : incl (slog sb) L) by (intros x Hx; apply Hi, in_or_app; now left).
    destruct (stored st h) eqn:Eh.
    + apply (IHk ((h, v) :: env)); try assumption.
      * apply env_in_cons; try assumption.
      * apply tr_sound_cons; try assumption. right. exact Eh.
    + destruct (IHb env tr Hvb He Hib Hs) as [Hs1 Hr1].
      destruct (sload st sb tr) as [tr1 [inner|]]; simpl in *.
      * apply (IHk ((h, v) :: env)); try assumption.
        -- apply env_in_cons; try assumption.
        -- apply tr_sound_cons; try assumption. left. intros st0 vs0 Ha Hr. simpl in Hr.
           destruct (resolve (lookup st0) inner) as [v1|] eqn:E1; [|discriminate]. injection Hr as <-. simpl.
           rewrite (Hr1 inner eq_refl st0 v1 Ha E1), Er. exact Hh.
      * split; [exact Hs1 | discriminate].
Qed.

(* ------------------------------------------------------------------ every loaded task refers to tasks loaded before it *)
Fixpoint closed_rev (ts : list task) : Prop :=          (* most recent first *)
  match ts with
  | [] => True
  | t :: r => (forall u, In u (atids_list (targs t)) -> In u (map tid_of r)) /\ closed_rev r
  end.

Definition env_loaded (env : store) (tr : list ev) : Prop :=
  forall t w, lookup env t = Some w -> In t (map tid_of (tasks_rev tr)).

Lemma env_loaded_cons : forall env tr t v, env_loaded env tr -> env_loaded ((tid_of t, v) :: env) (ETask t :: tr).
Proof.
  intros env tr t v H u w Hu. simpl in *. destruct (Pos.eqb_spec (tid_of t) u); [now left|].
  right. eapply H; eauto.
Qed.

Lemma env_loaded_skip : forall env tr e, (forall t, e <> ETask t) -> env_loaded env tr -> env_loaded env (e :: tr).
Proof.
  intros env tr e He H u w Hu. specialize (H u w Hu). destruct e; simpl; try assumption. now right.
Qed.

Lemma env_loaded_mono : forall env tr d, env_loaded env tr -> env_loaded env (d ++ tr).
Proof.
  intros env tr d H u w Hu. rewrite tasks_rev_app, map_app. apply in_or_app. right. eapply H; eauto.
Qed.

Lemma resolve_env_tids : forall env tr a v, env_loaded env tr -> resolve (lookup env) a = Some v ->
  forall u, In u (atids a) -> In u (map tid_of (tasks_rev tr)).
Proof.
  intros env tr a v He Hr u Hu. destruct (resolve_some_tids _ _ _ Hr u Hu) as [w Hw]. eapply He; eauto.
Qed.

Lemma resolve_list_env_tids : forall env tr xs vs, env_loaded env tr -> resolve_list (lookup env) xs = Some vs ->
  forall u, In u (atids_list xs) -> In u (map tid_of (tasks_rev tr)).
Proof.
  intros env tr xs vs He Hr u Hu. destruct (resolve_list_some_tids _ _ _ Hr u Hu) as [w Hw]. eapply He; eauto.
Qed.

Lemma closed_rev_skip : forall tr e, (forall t, e <> ETask t) -> closed_rev (tasks_rev tr) -> closed_rev (tasks_rev (e :: tr)).
Proof. intros tr e He H. destruct e; simpl; try assumption. now elim (He t). Qed.

Lemma sload_closed : forall st s env tr,
  svalid env s -> env_loaded env tr -> closed_rev (tasks_rev tr) ->
  closed_rev (tasks_rev (fst (sload st s tr))) /\
  (forall inner, snd (sload st s tr) = Some inner ->
     forall u, In u (atids inner) -> In u (map tid_of (tasks_rev (fst (sload st s tr))))).
Proof.
  intros st s. induction s as [r v|t v s IH|m s IH|s IH|a v s IH|h ca sb IHb v s IHk];
    intros env tr Hv He Hc; simpl in *.
  - split; [exact Hc|]. intros inner E u Hu. inversion E; subst. eapply resolve_env_tids; eauto.
  - destruct Hv as [[vs [Hvs Ev]] Hv]. apply (IH ((tid_of t, v) :: env)); try assumption.
    + now apply env_loaded_cons.
    + simpl. split; [|exact Hc]. intros u Hu. eapply resolve_list_env_tids; eauto.
  - apply (IH env); try assumption.
  - destruct (all_stored st (tasks_rev tr)).
    + apply (IH env); try assumption.
    + simpl. split; [exact Hc | discriminate].
  - destruct Hv as [Ha Hv]. destruct (resolve (lookup st) a) as [v'|].
    + apply (IH env); try assumption.
    + simpl. split; [exact Hc | discriminate].
  - destruct Hv as [[vs Hca] [Hvb [Er Hvk]]]. destruct (stored st h) eqn:Eh.
    + apply (IHk ((h, v) :: env)); try assumption.
      * change h with (tid_of (probe h ca)) at 1. now apply env_loaded_cons.
      * simpl. split; [|exact Hc]. intros u Hu. eapply resolve_list_env_tids; eauto.
    + destruct (IHb env tr Hvb He Hc) as [Hc1 Hi1]. destruct (sload_app st sb tr) as [d Ed].
      destruct (sload st sb tr) as [tr1 [inner|]]; simpl in *.
      * apply (IHk ((h, v) :: env)); try assumption.
        -- change h with (tid_of (final h inner)) at 1. apply env_loaded_cons. subst tr1.
           now apply env_loaded_mono.
        -- simpl. split; [|exact Hc1]. intros u Hu. rewrite app_nil_r in Hu. now apply (Hi1 inner eq_refl).
      * split; [exact Hc1 | discriminate].
Qed.

(* ------------------------------------------------------------------ running what was loaded *)
Lemma exec_task_extends : forall st t, extends st (fst (exec_task st t)).
Proof.
  intros st t. unfold exec_task. destruct (stored st (tid_of t)) eqn:E; [apply extends_refl|].
  destruct (resolve_list (lookup st) (targs t)); [|apply extends_refl]. simpl. now apply extends_cons.
Qed.

Lemma exec_all_extends : forall ts st, extends st (fst (exec_all st ts)).
Proof.
  induction ts as [|t r IH]; intros st; simpl; [apply extends_refl|].
  pose proof (exec_task_extends st t) as H1. destruct (exec_task st t) as [st1 e1].
  pose proof (IH st1) as H2. destruct (exec_all st1 r) as [st2 e2]. simpl in *.
  eapply extends_trans; eauto.
Qed.

Lemma exec_all_app : forall a b st,
  fst (exec_all st (a ++ b)) = fst (exec_all (fst (exec_all st a)) b).
Proof.
  induction a as [|t a IH]; intros b st; simpl; [reflexivity|].
  destruct (exec_task st t) as [st1 e1]. specialize (IH b st1).
  destruct (exec_all st1 (a ++ b)) as [st2 e2]. destruct (exec_all st1 a) as [st3 e3]. simpl in *.
  rewrite IH. destruct (exec_all st3 b). reflexivity.
Qed.

Lemma exec_all_agrees : forall L ts st, functional L -> agrees st L ->
  (forall t, In t ts -> tsound L t \/ stored st (tid_of t) = true) ->
  agrees (fst (exec_all st ts)) L.
Proof.
  intros L. induction ts as [|t r IH]; intros st Hf Ha Hs; simpl; [exact Ha|].
  assert (H1 : agrees (fst (exec_task st t)) L).
  { unfold exec_task. destruct (stored st (tid_of t)) eqn:E; [exact Ha|].
    destruct (resolve_list (lookup st) (targs t)) as [vs|] eqn:Er; [|exact Ha]. simpl.
    destruct (Hs t (or_introl eq_refl)) as [Ht|Ht]; [|congruence].
    intros u v w Hl Hin. simpl in Hl. destruct (Pos.eqb_spec (tid_of t) u).
    - subst u. inversion Hl; subst. eapply Hf; eauto.
    - eapply Ha; eauto. }
  pose proof (exec_task_extends st t) as Hx.
  destruct (exec_task st t) as [st1 e1]. simpl in *.
  specialize (IH st1 Hf H1). destruct (exec_all st1 r) as [st2 e2]. simpl in *. apply IH.
  intros u Hu. destruct (Hs u (or_intror Hu)) as [H|H]; [now left | right; eapply extends_stored; eauto].
Qed.

Lemma exec_task_stores : forall st t,
  (forall u, In u (atids_list (targs t)) -> stored st u = true) -> stored (fst (exec_task st t)) (tid_of t) = true.
Proof.
  intros st t H. unfold exec_task. destruct (stored st (tid_of t)) eqn:E; [exact E|].
  destruct (resolve_list_defined (lookup st) (targs t)) as [vs Hvs].
  - intros u Hu. apply stored_true_iff. now apply H.
  - rewrite Hvs. simpl. apply stored_true_iff. eexists. apply lookup_cons_eq.
Qed.

(* a list in which every task refers only to earlier ones runs to completion *)
Lemma exec_all_complete : forall ts st, closed_rev ts ->
  forall t, In t ts -> stored (fst (exec_all st (rev ts))) (tid_of t) = true.
Proof.
  induction ts as [|t0 r IH]; intros st Hc t Ht; [contradiction|].
  simpl in Hc. destruct Hc as [Ha Hc]. simpl rev. rewrite exec_all_app. simpl.
  set (st1 := fst (exec_all st (rev r))).
  pose proof (exec_task_extends st1 t0) as Hx.
  assert (H0 : stored (fst (exec_task st1 t0)) (tid_of t0) = true).
  { apply exec_task_stores. intros u Hu. specialize (Ha u Hu). apply in_map_iff in Ha.
    destruct Ha as [x [Ex Hx']]. subst u. now apply IH. }
  destruct (exec_task st1 t0) as [st2 e2]. simpl in *.
  destruct Ht as [<-|Ht]; [exact H0|]. apply (extends_stored st1 st2); [exact Hx | now apply IH].
Qed.

(* ------------------------------------------------------------------ progress of the reload loop *)
(* number of barrier()/bvalue() calls behind the loader when it stops or finishes; the calls inside
   a collapsed compound count as behind it *)
Fixpoint sprog (st : store) (s : spine) (tr : list ev) : nat :=
  match s with
  | SRet _ _ => 0
  | SDef t _ s' => sprog st s' (ETask t :: tr)
  | SMark m s' => sprog st s' (EMark m :: tr)
  | SBar s' => if all_stored st (tasks_rev tr) then S (sprog st s' (EBar :: tr)) else 0
  | SBV a _ s' =>
      match resolve (lookup st) a with
      | Some v => S (sprog st s' (EBV a v :: tr))
      | None => 0
      end
  | SComp h ca sb _ s' =>
      if stored st h then sbn sb + sprog st s' (ETask (probe h ca) :: tr)
      else match sload st sb tr with
           | (tr1, Some inner) => sprog st sb tr + sprog st s' (ETask (final h inner) :: tr1)
           | (_, None) => sprog st sb tr
           end
  end.

Lemma sprog_bound : forall st s tr,
  sprog st s tr <= sbn s /\ (snd (sload st s tr) = None -> sprog st s tr < sbn s).
Proof.
  intros st s. induction s as [r v|t v s IH|m s IH|s IH|a v s IH|h ca sb IHb v s IHk]; intros tr; simpl.
  - split; [lia | discriminate].
  - apply IH.
  - apply IH.
  - destruct (all_stored st (tasks_rev tr)).
    + destruct (IH (EBar :: tr)) as [H1 H2]. split; [lia|]. intros H. specialize (H2 H). lia.
    + split; lia.
  - destruct (resolve (lookup st) a) as [v'|].
    + destruct (IH (EBV a v' :: tr)) as [H1 H2]. split; [lia|]. intros H. specialize (H2 H). lia.
    + split; lia.
  - destruct (stored st h).
    + destruct (IHk (ETask (probe h ca) :: tr)) as [H1 H2]. split; [lia|]. intros H. specialize (H2 H). lia.
    + destruct (IHb tr) as [Hb1 Hb2]. destruct (sload st sb tr) as [tr1 [inner|]]; simpl in *.
      * destruct (IHk (ETask (final h inner) :: tr1)) as [H1 H2]. split; [lia|]. intros H. specialize (H2 H). lia.
      * split; [lia|]. intros _. specialize (Hb2 eq_refl). lia.
Qed.

Definition tasks_stored (st : store) (tr : list ev) : Prop :=
  forall t, In t (tasks_rev tr) -> stored st (tid_of t) = true.

Lemma tasks_stored_cons : forall st tr t, tasks_stored st tr -> stored st (tid_of t) = true -> tasks_stored st (ETask t :: tr).
Proof. intros st tr t H Ht u [<-|Hu]; [exact Ht | now apply H]. Qed.

Lemma tasks_stored_skip : forall st tr e, (forall t, e <> ETask t) -> tasks_stored st tr -> tasks_stored st (e :: tr).
Proof. intros st tr e He H u Hu. apply H. destruct e; simpl in Hu; try assumption. now elim (He t). Qed.

Lemma resolve_extends : forall st st' a v, extends st st' -> resolve (lookup st) a = Some v -> resolve (lookup st') a = Some v.
Proof.
  intros st st' a v He H. rewrite <- H. apply resolve_ext. intros t Ht.
  destruct (resolve_some_tids _ _ _ H t Ht) as [w Hw]. rewrite Hw. now apply He.
Qed.

(* one phase later: st' has a result for everything the previous load defined *)
Lemma sload_progress : forall st st' s env tr tr',
  extends st st' -> svalid env s -> env_loaded env tr ->
  tasks_stored st' (fst (sload st s tr)) -> tasks_stored st' tr' ->
  (forall r, snd (sload st s tr) = Some r ->
     snd (sload st' s tr') = Some r /\ tasks_stored st' (fst (sload st' s tr')) /\
     sprog st s tr <= sprog st' s tr') /\
  (snd (sload st s tr) = None -> sprog st s tr < sprog st' s tr').
Proof.
  intros st st' s. induction s as [r v|t v s IH|m s IH|s IH|a v s IH|h ca sb IHb v s IHk];
    intros env tr tr' Hx Hv He Hl Hr; simpl in *.
  - split; [|discriminate]. intros r0 E. inversion E; subst. auto.
  - destruct Hv as [_ Hv]. apply (IH ((tid_of t, v) :: env)); try assumption.
    + now apply env_loaded_cons.
    + apply tasks_stored_cons; try assumption. apply Hl. apply sload_tasks_incl. now left.
  - apply (IH env); try assumption.
  - assert (E' : all_stored st' (tasks_rev tr') = true) by (apply all_stored_forall; exact Hr).
    rewrite E'. destruct (all_stored st (tasks_rev tr)).
    + destruct (IH env (EBar :: tr) (EBar :: tr')) as [H1 H2]; try assumption.
      split.
      * intros r E. destruct (H1 r E) as [A [B C]]. split; [exact A|]. split; [exact B | lia].
      * intros E. specialize (H2 E). lia.
    + simpl. split; [discriminate | lia].
  - destruct Hv as [Ha Hv]. destruct (resolve (lookup st) a) as [v1|] eqn:E1.
    + rewrite (resolve_extends st st' a v1 Hx E1).
      destruct (IH env (EBV a v1 :: tr) (EBV a v1 :: tr')) as [H1 H2]; try assumption.
      split.
      * intros r E. destruct (H1 r E) as [A [B C]]. split; [exact A|]. split; [exact B | lia].
      * intros E. specialize (H2 E). lia.
    + simpl in *. split; [discriminate|]. intros _.
      destruct (resolve_defined (lookup st') a) as [v2 E2].
      * intros u Hu. pose proof (resolve_env_tids env tr a v He Ha u Hu) as Hin.
        apply in_map_iff in Hin. destruct Hin as [x [Ex Hin]]. subst u.
        apply stored_true_iff. apply Hl. simpl. exact Hin.
      * rewrite E2. lia.
  - destruct Hv as [_ [Hvb [Er Hvk]]]. destruct (stored st h) eqn:Eh.
    + rewrite (extends_stored st st' h Hx Eh).
      destruct (IHk ((h, v) :: env) (ETask (probe h ca) :: tr) (ETask (probe h ca) :: tr')) as [H1 H2]; try assumption.
      * change h with (tid_of (probe h ca)) at 1. now apply env_loaded_cons.
      * apply tasks_stored_cons; try assumption. simpl. eapply extends_stored; eauto.
      * split.
        -- intros r E. destruct (H1 r E) as [A [B C]]. split; [exact A|]. split; [exact B | lia].
        -- intros E. specialize (H2 E). lia.
    + destruct (sload_app st sb tr) as [d Ed]. pose proof (sprog_bound st sb tr) as [Pb1 Pb2].
      destruct (sload st sb tr) as [tr1 [inner|]] eqn:Eb; simpl in *.
      * (* the builder finished: its final task was loaded, so it is stored in st' and the compound collapses *)
        assert (Hh : stored st' h = true).
        { apply (Hl (final h inner)). apply sload_tasks_incl. now left. }
        rewrite Hh.
        destruct (IHk ((h, v) :: env) (ETask (final h inner) :: tr1) (ETask (probe h ca) :: tr')) as [H1 H2]; try assumption.
        -- change h with (tid_of (final h inner)) at 1. apply env_loaded_cons. subst tr1. now apply env_loaded_mono.
        -- apply tasks_stored_cons; try assumption.
        -- split.
           ++ intros r E. destruct (H1 r E) as [A [B C]]. split; [exact A|]. split; [exact B | lia].
           ++ intros E. specialize (H2 E). lia.
      * split; [discriminate|]. intros _. specialize (Pb2 eq_refl).
        destruct (stored st' h).
        -- lia.
        -- destruct (IHb env tr tr') as [_ H2]; try assumption.
           ++ rewrite Eb. exact Hl.
           ++ rewrite Eb in H2. specialize (H2 eq_refl).
              destruct (sload st' sb tr') as [tr1' [inner'|]]; lia.
Qed.

(* ------------------------------------------------------------------ one phase, then all of them *)
Definition sphase (st : store) (s : spine) : store :=
  fst (exec_all st (rev (tasks_rev (fst (sload st s []))))).

Lemma sphase_facts : forall s st, svalid [] s -> functional (slog s) -> agrees st (slog s) ->
  extends st (sphase st s) /\ agrees (sphase st s) (slog s) /\ tasks_stored (sphase st s) (fst (sload st s [])).
Proof.
  intros s st Hv Hf Ha. unfold sphase. split; [apply exec_all_extends|]. split.
  - apply exec_all_agrees; [exact Hf | exact Ha|]. intros t Ht. apply in_rev in Ht.
    destruct (sload_sound st (slog s) s [] [] Hv) as [Hs _].
    + intros t0 w H. discriminate.
    + apply incl_refl.
    + intros t0 [].
    + now apply Hs.
  - intros t Ht. apply exec_all_complete; [|exact Ht].
    destruct (sload_closed st s [] [] Hv) as [Hc _]; [|exact I|exact Hc].
    intros t0 w H. discriminate.
Qed.

Lemma run_phases_S : forall f st p,
  fst (run_phases (S f) st p) =
  if l_hasbarrier (load st p) then fst (run_phases f (fst (exec_all st (l_tasks (load st p)))) p)
  else fst (exec_all st (l_tasks (load st p))).
Proof.
  intros f st p. simpl. destruct (exec_all st (l_tasks (load st p))) as [st1 ex]. simpl.
  destruct (l_hasbarrier (load st p)); [|reflexivity]. destruct (run_phases f st1 p). reflexivity.
Qed.

Lemma compat_nil : forall st, compat st [].
Proof. intros st t v w _ H. discriminate. Qed.

Lemma run_phases_spine : forall p s w, unfold p [] = Some (s, w) -> functional (slog s) ->
  forall fuel st, agrees st (slog s) ->
  (snd (sload st s []) <> None /\ 1 <= fuel) \/ sbn s < sprog st s [] + fuel ->
  let stF := fst (run_phases fuel st p) in
  extends st stF /\ agrees stF (slog s) /\ snd (sload stF s []) <> None /\ tasks_stored stF (fst (sload stF s [])).
Proof.
  intros p s w Hu Hf. destruct (unfold_svalid _ _ _ _ Hu) as [Hv _].
  induction fuel as [|f IH]; intros st Ha Hm.
  - exfalso. destruct Hm as [[_ H]|H]; [lia|]. pose proof (sprog_bound st s []) as [B _]. lia.
  - cbv zeta. rewrite run_phases_S, load_tasks, load_hasbarrier.
    rewrite (load_follows_spine st p [] s w [] Hu (compat_nil st) Ha).
    fold (sphase st s). destruct (sphase_facts s st Hv Hf Ha) as [Hx [Ha' Hl]].
    assert (Henv : env_loaded [] []) by (intros t0 w0 H; discriminate).
    assert (Hnil : tasks_stored (sphase st s) []) by (intros t0 []).
    destruct (sload_progress st (sphase st s) s [] [] [] Hx Hv Henv Hl Hnil) as [P1 P2].
    destruct (snd (sload st s [])) as [r|] eqn:Eo; simpl.
    + destruct (P1 r eq_refl) as [A [B _]]. split; [exact Hx|]. split; [exact Ha'|]. split; [congruence | exact B].
    + specialize (P2 eq_refl). pose proof (sprog_bound st s []) as [_ Bd]. rewrite Eo in Bd. specialize (Bd eq_refl).
      destruct (IH (sphase st s) Ha') as [X1 [X2 [X3 X4]]].
      * right. destruct Hm as [[H _]|H]; [now elim H | lia].
      * split; [eapply extends_trans; eauto|]. auto.
Qed.

Lemma stop_env_loaded : forall st s tr, snd (sload st s tr) <> None ->
  forall t v, In (t, v) (stop_env s) -> exists u, In u (tasks_rev (fst (sload st s tr))) /\ tid_of u = t.
Proof.
  intros st s. induction s as [r v|t v s IH|m s IH|s IH|a v s IH|h ca sb IHb v s IHk];
    intros tr Hn x y Hin; simpl in *.
  - contradiction.
  - destruct Hin as [E|Hin]; [|(eapply IH; eauto)]. inversion E; subst. exists t. split; [|reflexivity].
    apply sload_tasks_incl. now left.
  - (eapply IH; eauto).
  - destruct (all_stored st (tasks_rev tr)); [(eapply IH; eauto) | now elim Hn].
  - destruct (resolve (lookup st) a); [(eapply IH; eauto) | now elim Hn].
  - destruct (stored st h).
    + destruct Hin as [E|Hin]; [|(eapply IHk; eauto)]. inversion E; subst. exists (probe x ca). split; [|reflexivity].
      apply sload_tasks_incl. now left.
    + destruct (sload st sb tr) as [tr1 [inner|]]; [|now elim Hn].
      destruct Hin as [E|Hin]; [|(eapply IHk; eauto)]. inversion E; subst. exists (final x inner). split; [|reflexivity].
      apply sload_tasks_incl. now left.
Qed.

Lemma stop_env_slog : forall s, incl (stop_env s) (slog s).
Proof.
  induction s as [r v|t v s IH|m s IH|s IH|a v s IH|h ca sb IHb v s IHk]; simpl; intros x Hx; auto.
  - destruct Hx as [E|Hx]; [now left | right; now apply IH].
  - apply in_or_app. right. destruct Hx as [E|Hx]; [now left | right; now apply IHk].
Qed.

(* (b) the reload loop of `jug execute`: as many phases as the sequential evaluation has
   barrier()/bvalue() calls, plus one, always suffice; at the end nothing is closed, everything
   loaded is stored, and every stored value of a task of the program is its sequential value *)
Lemma reload_loop_correct : forall p s st0,
  seq_eval p = Some s -> functional (slog s) -> agrees st0 (slog s) ->
  let st := fst (run_phases (sbn s + 1) st0 p) in
  l_hasbarrier (load st p) = false /\
  (forall t, In t (l_tasks (load st p)) -> stored st (tid_of t) = true) /\
  check st p = 0 /\
  extends st0 st /\
  agrees st (slog s) /\
  (forall t v, In (t, v) (stop_env s) -> lookup st t = Some v).
Proof.
  intros p s st0 Hs Hf Ha. unfold seq_eval in Hs.
  destruct (unfold p []) as [[s0 w]|] eqn:Hu; inversion Hs; subst s0.
  destruct (run_phases_spine p s w Hu Hf (sbn s + 1) st0 Ha) as [X1 [X2 [X3 X4]]]; [right; lia|].
  cbv zeta. set (st := fst (run_phases (sbn s + 1) st0 p)) in *.
  pose proof (load_follows_spine st p [] s w [] Hu (compat_nil st) X2) as E.
  assert (Hall : forall t, In t (l_tasks (load st p)) -> stored st (tid_of t) = true).
  { intros t Ht. rewrite load_tasks, E in Ht. apply in_rev in Ht. now apply X4. }
  split.
  - rewrite load_hasbarrier, E. destruct (snd (sload st s [])); [reflexivity | now elim X3].
  - split; [exact Hall|]. split; [now apply check_zero_iff|]. split; [exact X1|]. split; [exact X2|].
    intros t v Hin. destruct (stop_env_loaded st s [] X3 t v Hin) as [u [Hu1 Hu2]].
    specialize (X4 u Hu1). rewrite Hu2 in X4. apply stored_true_iff in X4. destruct X4 as [v' Hv'].
    rewrite Hv'. f_equal. eapply X2; eauto. now apply stop_env_slog.
Qed.

(* the phases never need more fuel: with more, the result is the same *)
Lemma run_phases_stable : forall p st, l_hasbarrier (load st p) = false ->
  forall f, fst (run_phases (S f) st p) = fst (exec_all st (l_tasks (load st p))).
Proof. intros p st H f. now rewrite run_phases_S, H. Qed.

(* ------------------------------------------------------------------ functionalb *)
Section ValInd.
  Variable P : val -> Prop.
  Hypothesis Hi : forall z, P (VInt z).
  Hypothesis Ht : forall vs, Forall P vs -> P (VTup vs).
  Fixpoint val_ind' (v : val) : P v :=
    match v with
    | VInt z => Hi z
    | VTup vs => Ht vs ((fix go (vs : list val) : Forall P vs :=
                           match vs with
                           | [] => Forall_nil _
                           | x :: r => Forall_cons _ (val_ind' x) (go r)
                           end) vs)
    end.
End ValInd.

Lemma val_eqb_eq : forall a b, val_eqb a b = true -> a = b.
Proof.
  induction a as [z|vs IH] using val_ind'; intros b H; destruct b as [z'|ws]; simpl in H; try discriminate.
  - apply Z.eqb_eq in H. now subst.
  - f_equal. revert ws H. induction vs as [|x r IHr]; intros ws H; destruct ws as [|y ws]; try discriminate; [reflexivity|].
    inversion IH as [|? ? Hx Hr]; subst. apply andb_true_iff in H. destruct H as [H1 H2].
    f_equal; [now apply Hx | now apply IHr].
Qed.

Lemma functionalb_sound : forall L, functionalb L = true -> functional L.
Proof.
  intros L H t v w Hv Hw. unfold functionalb in H. rewrite forallb_forall in H.
  pose proof (H _ Hv) as A. pose proof (H _ Hw) as B. simpl in *.
  destruct (lookup L t) as [x|]; [|discriminate]. apply val_eqb_eq in A, B. congruence.
Qed.

Lemma agrees_nil : forall L, agrees [] L.
Proof. intros L t v w H. discriminate. Qed.

(* ------------------------------------------------------------------ the two steps, spelled out *)
Lemma load_from_barrier : forall st k tr,
  load_from st (Barrier k) tr =
  if all_stored st (tasks_rev tr) then load_from st k (EBar :: tr) else (EStop :: tr, None).
Proof. reflexivity. Qed.

Lemma load_from_bvalue : forall st a k tr,
  load_from st (BValue a k) tr =
  match resolve (lookup st) a with
  | Some v => load_from st (k v) (EBV a v :: tr)
  | None => (EStop :: tr, None)
  end.
Proof. reflexivity. Qed.
