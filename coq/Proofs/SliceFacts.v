(* Facts about Model/Slice.v: Python slice/range arithmetic and block_access(_slice). *)
From Coq Require Import List Arith ZArith Bool Lia.
From JugV Require Import Model.MapReduce Model.Slice Proofs.MapReduceFacts.
Import ListNotations.
Local Open Scope Z_scope.

(* ---- arithmetic helpers ---------------------------------------------------------------- *)
Lemma div_bounds a b : 0 < b -> b * (a / b) <= a < b * (a / b) + b.
Proof. intro Hb. pose proof (Z.div_mod a b ltac:(lia)). pose proof (Z.mod_pos_bound a b Hb). lia. Qed.

Lemma len_scale c k d : 0 < c -> 0 < k -> (d * c + c - 1) / (c * k) = d / k.
Proof.
  intros Hc Hk. rewrite <- Z.div_div by lia.
  replace (d * c + c - 1) with (d * c + (c - 1)) by lia.
  rewrite Z.div_add_l by lia. rewrite (Z.div_small (c - 1) c) by lia. f_equal. lia.
Qed.

(* ---- slice.indices stays inside the sequence -------------------------------------------- *)
Lemma py_indices_bounds sl n s e k : 0 <= n -> py_indices sl n = Some (s, e, k) ->
  k <> 0 /\ (0 < k -> 0 <= s <= n /\ 0 <= e <= n) /\ (k < 0 -> -1 <= s <= n - 1 /\ -1 <= e <= n - 1).
Proof.
  intros Hn. unfold py_indices.
  set (st := match sl_step sl with None => 1 | Some s0 => s0 end).
  destruct (st =? 0) eqn:E0; [discriminate|]. apply Z.eqb_neq in E0.
  intros [= <- <- <-]. split; [exact E0|].
  destruct (st <? 0) eqn:Eneg; [apply Z.ltb_lt in Eneg | apply Z.ltb_ge in Eneg].
  - split; [lia|]. intros _.
    destruct (sl_start sl) as [v|]; destruct (sl_stop sl) as [w|];
      repeat match goal with |- context [?x <? 0] => destruct (Z.ltb_spec x 0) end; lia.
  - split; [|lia]. intros _.
    destruct (sl_start sl) as [v|]; destruct (sl_stop sl) as [w|];
      repeat match goal with |- context [?x <? 0] => destruct (Z.ltb_spec x 0) end; lia.
Qed.

Lemma range_len_nonneg r : 0 <= range_len r.
Proof.
  unfold range_len.
  destruct (Z.ltb_spec 0 (r_step r)).
  - destruct (Z.ltb_spec (r_start r) (r_stop r)); [|lia].
    pose proof (div_bounds (r_stop r - r_start r - 1) (r_step r) ltac:(lia)). nia.
  - destruct (Z.ltb_spec (r_step r) 0); [|lia].
    destruct (Z.ltb_spec (r_stop r) (r_start r)); [|lia].
    pose proof (div_bounds (r_start r - r_stop r - 1) (- r_step r) ltac:(lia)). nia.
Qed.

(* the i-th element of a range lies strictly between start (inclusive) and stop (exclusive) *)
Lemma range_elem_bounds r i : 0 <= i < range_len r ->
  (0 < r_step r -> r_start r <= r_start r + i * r_step r < r_stop r) /\
  (r_step r < 0 -> r_stop r < r_start r + i * r_step r <= r_start r).
Proof.
  unfold range_len. intros Hi.
  destruct (Z.ltb_spec 0 (r_step r)) as [Hpos|Hnp].
  - split; [intros _|lia].
    destruct (Z.ltb_spec (r_start r) (r_stop r)); [|lia].
    pose proof (div_bounds (r_stop r - r_start r - 1) (r_step r) Hpos). nia.
  - destruct (Z.ltb_spec (r_step r) 0) as [Hneg|]; [|lia].
    split; [lia|intros _].
    destruct (Z.ltb_spec (r_stop r) (r_start r)); [|lia].
    pose proof (div_bounds (r_start r - r_stop r - 1) (- r_step r) ltac:(lia)). nia.
Qed.

(* every position selected by a slice of a sequence of length n is a valid index 0 <= p < n:
   in particular never negative, so the "negative index counts from the end" rule of
   block_access.__getitem__ can never re-interpret it *)
Theorem slice_positions_in_bounds sl n s e k i : 0 <= n -> py_indices sl n = Some (s, e, k) ->
  0 <= i < range_len {| r_start := s; r_stop := e; r_step := k |} ->
  0 <= s + i * k < n.
Proof.
  intros Hn Hind Hi.
  destruct (py_indices_bounds sl n s e k Hn Hind) as (Hk & Hpos & Hneg).
  destruct (range_elem_bounds _ i Hi) as [Hp Hq]. cbn [r_start r_stop r_step] in *.
  destruct (Z.lt_trichotomy k 0) as [Hlt|[Heq|Hgt]]; [|lia|].
  - specialize (Hneg Hlt). specialize (Hq Hlt). lia.
  - specialize (Hpos Hgt). specialize (Hp Hgt). lia.
Qed.

(* ---- slicing a range = selecting the positions Python's list slicing selects ------------- *)
Lemma range_slice_len a c s e k : c <> 0 -> k <> 0 ->
  range_len {| r_start := a + s * c; r_stop := a + e * c; r_step := c * k |} =
  range_len {| r_start := s; r_stop := e; r_step := k |}.
Proof.
  intros Hc Hk. unfold range_len. cbn [r_start r_stop r_step].
  destruct (Z.lt_trichotomy c 0) as [Hcn|[?|Hcp]]; [|lia|];
  destruct (Z.lt_trichotomy k 0) as [Hkn|[?|Hkp]]; try lia.
  - (* c<0, k<0 : product positive *)
    destruct (Z.ltb_spec 0 (c * k)); [|nia].
    destruct (Z.ltb_spec 0 k); [lia|]. destruct (Z.ltb_spec k 0); [|lia].
    destruct (Z.ltb_spec (a + s * c) (a + e * c)); destruct (Z.ltb_spec e s); try nia.
    f_equal.
    replace (a + e * c - (a + s * c) - 1) with ((s - e - 1) * (- c) + (- c) - 1) by ring.
    replace (c * k) with ((- c) * (- k)) by ring.
    apply len_scale; lia.
  - (* c<0, k>0 : product negative *)
    destruct (Z.ltb_spec 0 (c * k)); [nia|]. destruct (Z.ltb_spec (c * k) 0); [|nia].
    destruct (Z.ltb_spec 0 k); [|lia].
    destruct (Z.ltb_spec (a + e * c) (a + s * c)); destruct (Z.ltb_spec s e); try nia.
    f_equal.
    replace (a + s * c - (a + e * c) - 1) with ((e - s - 1) * (- c) + (- c) - 1) by ring.
    replace (- (c * k)) with ((- c) * k) by ring.
    apply len_scale; lia.
  - (* c>0, k<0 *)
    destruct (Z.ltb_spec 0 (c * k)); [nia|]. destruct (Z.ltb_spec (c * k) 0); [|nia].
    destruct (Z.ltb_spec 0 k); [lia|]. destruct (Z.ltb_spec k 0); [|lia].
    destruct (Z.ltb_spec (a + e * c) (a + s * c)); destruct (Z.ltb_spec e s); try nia.
    f_equal.
    replace (a + s * c - (a + e * c) - 1) with ((s - e - 1) * c + c - 1) by ring.
    replace (- (c * k)) with (c * (- k)) by ring.
    apply len_scale; lia.
  - (* c>0, k>0 *)
    destruct (Z.ltb_spec 0 (c * k)); [|nia].
    destruct (Z.ltb_spec 0 k); [|lia].
    destruct (Z.ltb_spec (a + s * c) (a + e * c)); destruct (Z.ltb_spec s e); try nia.
    f_equal.
    replace (a + e * c - (a + s * c) - 1) with ((e - s - 1) * c + c - 1) by ring.
    apply len_scale; lia.
Qed.

Theorem range_slice_list r sl r' s e k : r_step r <> 0 ->
  py_indices sl (range_len r) = Some (s, e, k) -> range_slice r sl = Some r' ->
  range_list r' = map (fun p => r_start r + p * r_step r)
                      (range_list {| r_start := s; r_stop := e; r_step := k |}).
Proof.
  intros Hc Hind. unfold range_slice. rewrite Hind. intros [= <-].
  destruct (py_indices_bounds sl _ s e k (range_len_nonneg r) Hind) as (Hk & _).
  unfold range_list. rewrite range_slice_len by assumption.
  cbn [r_start r_stop r_step]. rewrite map_map. apply map_ext. intro i. ring.
Qed.

  Lemma range_get_nat r i : (i < Z.to_nat (range_len r))%nat ->
    range_get r (Z.of_nat i) = Some (r_start r + Z.of_nat i * r_step r).
  Proof.
    intro Hi. unfold range_get.
    destruct (Z.ltb_spec (Z.of_nat i) 0); [lia|].
    destruct (Z.leb_spec 0 (Z.of_nat i)); [|lia].
    destruct (Z.ltb_spec (Z.of_nat i) (range_len r)); [reflexivity|lia].
  Qed.


(* ---- values: block_access / block_access_slice versus Python list indexing and slicing ---- *)
Section Values.
  Context {Y : Type}.
  Variables (ys : list Y) (bs : nat).
  Hypothesis Hbs : (1 <= bs)%nat.

  Lemma ba_get_inbounds q : 0 <= q < Z.of_nat (length ys) ->
    ba_get (mk_baccess ys bs) q = znth_error ys q.
  Proof.
    intros Hq. unfold ba_get, mk_baccess, znth_error. cbn [ba_len ba_blocks ba_bs].
    destruct (Z.ltb_spec q 0); [lia|].
    destruct (Z.leb_spec 0 q); [|lia]. destruct (Z.ltb_spec q (Z.of_nat (length ys))); [|lia].
    cbn [andb]. unfold map_blocks. apply block_get_break_up; [exact Hbs | lia].
  Qed.

  (* m[p] for an int p: Python list indexing, including negative p and IndexError *)
  Theorem mapseq_index p : ba_get (mk_baccess ys bs) p = py_list_get ys p.
  Proof.
    unfold py_list_get. unfold ba_get at 1. cbn [mk_baccess ba_len].
    set (n := Z.of_nat (length ys)).
    set (p' := if p <? 0 then p + n else p).
    destruct ((0 <=? p') && (p' <? n)) eqn:E; [|reflexivity].
    apply andb_true_iff in E as [E1 E2]. apply Z.leb_le in E1. apply Z.ltb_lt in E2.
    pose proof (ba_get_inbounds p' ltac:(subst n; lia)) as H.
    unfold ba_get in H. cbn [mk_baccess ba_len ba_blocks ba_bs] in H. fold n in H.
    destruct (Z.ltb_spec p' 0); [lia|].
    destruct (Z.leb_spec 0 p'); [|lia]. destruct (Z.ltb_spec p' n); [|lia].
    exact H.
  Qed.

  (* value(m[sl]) = [m(x) for x in xs][sl], for every slice (any start/stop/step, None or not) *)
  Theorem mapseq_slice_value sl s : ba_slice (mk_baccess ys bs) sl = Some s ->
    py_list_slice ys sl = Some (bslice_value s).
  Proof.
    unfold ba_slice, py_list_slice. cbn [mk_baccess ba_len].
    destruct (py_indices sl (Z.of_nat (length ys))) as [[[st e] k]|] eqn:Hind; [|discriminate].
    intros [= <-]. f_equal. unfold bslice_value, bslice_len, range_list. cbn [bs_range bs_base].
    rewrite map_map. apply map_ext_in. intros i Hi. apply in_seq in Hi.
    unfold bslice_get. cbn [bs_range bs_base].
    rewrite range_get_nat by lia. cbn [r_start r_step].
    symmetry. apply ba_get_inbounds.
    apply (slice_positions_in_bounds sl _ st e k (Z.of_nat i) (Nat2Z.is_nonneg _) Hind). lia.
  Qed.

End Values.

  (* a slice of a slice selects, from the first slice, exactly the positions Python selects *)
  Theorem mapseq_slice_of_slice {Y : Type} (s s2 : bslice (Y:=Y)) sl2 st e k : r_step (bs_range s) <> 0 ->
    py_indices sl2 (bslice_len s) = Some (st, e, k) -> bslice_slice s sl2 = Some s2 ->
    bslice_value s2 = map (bslice_get s) (range_list {| r_start := st; r_stop := e; r_step := k |}).
  Proof.
    intros Hc Hind. unfold bslice_slice.
    destruct (range_slice (bs_range s) sl2) as [r'|] eqn:Hrs; [|discriminate]. intros [= <-].
    pose proof (range_slice_list _ _ _ _ _ _ Hc Hind Hrs) as Hlist.
    destruct (py_indices_bounds sl2 _ st e k (range_len_nonneg _) Hind) as (Hk & _).
    assert (Hlen : range_len r' = range_len {| r_start := st; r_stop := e; r_step := k |}).
    { unfold range_slice in Hrs. unfold bslice_len in Hind. rewrite Hind in Hrs. injection Hrs as <-.
      apply range_slice_len; assumption. }
    unfold bslice_value, bslice_len. cbn [bs_range bs_base].
    unfold range_list at 1. rewrite map_map. rewrite Hlen.
    apply map_ext_in. intros i Hi. apply in_seq in Hi.
    unfold bslice_get at 1. cbn [bs_range bs_base].
    rewrite range_get_nat by lia.
    assert (Hel : r_start r' + Z.of_nat i * r_step r' =
                  r_start (bs_range s) + (st + Z.of_nat i * k) * r_step (bs_range s)).
    { unfold range_slice in Hrs. unfold bslice_len in Hind. rewrite Hind in Hrs. injection Hrs as <-.
      cbn [r_start r_step]. ring. }
    rewrite Hel. unfold bslice_get. cbn [r_start r_step].
    assert (Hin : 0 <= st + Z.of_nat i * k < bslice_len s).
    { apply (slice_positions_in_bounds sl2 _ st e k (Z.of_nat i) (range_len_nonneg _) Hind). lia. }
    unfold range_get. fold (bslice_len s).
    destruct (Z.ltb_spec (st + Z.of_nat i * k) 0); [lia|].
    destruct (Z.leb_spec 0 (st + Z.of_nat i * k)); [|lia].
    destruct (Z.ltb_spec (st + Z.of_nat i * k) (bslice_len s)); [|lia].
    reflexivity.
  Qed.
