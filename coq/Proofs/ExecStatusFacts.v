(* C15 <-> the execution protocol: what the five columns of `jug status` MEAN operationally.
   Model/Status.v [classify] is computed from can_load of the task and of its dependencies and from the
   state of its lock; C15's theorems say that jug's status code computes that classification.  Here
   the classification of a task in ANY reachable state of the N-worker execution protocol
   (Model/Exec.v) is related to what workers can and cannot do in that state:
     Complete - the function of the task can never be started (again);
     Waiting  - a dependency has no result and no worker can start the function now;
     Failed   - no worker can acquire its lock (until failed locks are cleaned up);
     Active   - some worker holds its lock: it is between get() and release() on that task, or it died there;
     Ready    - nothing stands in the way: ANY idle worker can take the lock, find the result missing
                under the lock and call the function, right now. *)
From Coq Require Import List Arith Bool PArith.
From JugV Require Import Model.Dag Model.Status.
From JugV Require Import Model.Exec Proofs.ExecFacts Proofs.ExecTheorems.
Import ListNotations.

(* what `jug status` reads off the shared state *)
Definition st_view {V} (s : st V) : Dag.store := fun t => stored s t.
Definition lk_view {V} (s : st V) : Dag.locks :=
  fun t => match Exec.locks s t with LFree => Free | LHeld _ => Held | LFailed => Failed end.
Definition node_of {V} (C : cfg V) (t : tid) (nm : fname) : node := (t, nm, c_deps C t).

Definition truth {V} (C : cfg V) (s : st V) (t : tid) (c : cat) : Prop :=
  match c with
  | Complete => results s t <> None /\ forall w, step C s (EStart w t) = None
  | Waiting => results s t = None /\ (exists d, In d (c_deps C t) /\ results s d = None) /\
               forall w, step C s (EStart w t) = None
  | CFailed => results s t = None /\ Exec.locks s t = LFailed /\ forall w, step C s (ELock w t true) = None
  | Active => results s t = None /\
              exists w, Exec.locks s t = LHeld w /\ (holding (w_pc (ws s w)) = Some t \/ w_pc (ws s w) = PDead)
  | Ready => results s t = None /\ (forall d, In d (c_deps C t) -> results s d <> None) /\ Exec.locks s t = LFree /\
             (In t (c_tasks C) -> forall w, w_pc (ws s w) = PIdle ->
                exists s', run C s [ELock w t true; ECanLoad w t false; EStart w t] = Some s' /\
                           w_pc (ws s' w) = PRunning t)
  end.

Section S.
  Context {V : Type}.
  Variable C : cfg V.
  Hypothesis F : framed C.

  Lemma mem_In : forall t l, In t l -> Exec.mem t l = true.
  Proof.
    intros t l H. unfold Exec.mem. apply existsb_exists. exists t. split; auto. apply Pos.eqb_refl.
  Qed.

  Lemma forallb_stored : forall (s : st V) l, forallb (st_view s) l = true <-> (forall d, In d l -> results s d <> None).
  Proof.
    intros s l. rewrite forallb_forall. unfold st_view, stored. split; intros H d Hin; specialize (H d Hin).
    - destruct (results s d); [discriminate | discriminate].
    - destruct (results s d); [reflexivity | congruence].
  Qed.

  Lemma forallb_stored_false : forall (s : st V) l, forallb (st_view s) l = false -> exists d, In d l /\ results s d = None.
  Proof.
    intros s l. induction l as [|d l IH]; simpl; intros H; [discriminate|].
    apply andb_false_iff in H. destruct H as [H|H].
    - exists d. split; auto. unfold st_view, stored in H. destruct (results s d); [discriminate | reflexivity].
    - destruct (IH H) as [x [Hx Hr]]. exists x. auto.
  Qed.

  Lemma lock_step : forall (s : st V) w t, w_pc (ws s w) = PIdle -> Exec.locks s t = LFree -> Exec.mem t (c_tasks C) = true ->
    exists s1, step C s (ELock w t true) = Some s1 /\ w_pc (ws s1 w) = PLocked t /\ results s1 = results s.
  Proof.
    intros s w t Hpc El Hm. unfold step, step0. rewrite Hpc, El, Hm. eexists. split; [reflexivity|].
    simpl. unfold updw. rewrite Nat.eqb_refl. split; reflexivity.
  Qed.

  Lemma canload_step : forall (s : st V) w t, w_pc (ws s w) = PLocked t -> results s t = None ->
    exists s2, step C s (ECanLoad w t false) = Some s2 /\ w_pc (ws s2 w) = PCleared t /\ results s2 = results s.
  Proof.
    intros s w t Hpc Hn. unfold step, step0. rewrite Hpc. unfold stored. rewrite Hn. simpl. rewrite Pos.eqb_refl.
    eexists. split; [reflexivity|]. simpl. unfold updw. rewrite Nat.eqb_refl. split; reflexivity.
  Qed.

  Lemma start_step : forall (s : st V) w t, w_pc (ws s w) = PCleared t -> forallb (stored s) (c_deps C t) = true ->
    exists s3, step C s (EStart w t) = Some s3 /\ w_pc (ws s3 w) = PRunning t.
  Proof.
    intros s w t Hpc Hd. unfold step, step0. rewrite Hpc, Pos.eqb_refl, Hd. simpl.
    eexists. split; [reflexivity|]. simpl. unfold updw. rewrite Nat.eqb_refl. reflexivity.
  Qed.

  Theorem status_tells_the_truth : forall r0 tr s, reach C r0 tr s ->
    forall t nm, truth C s t (classify (st_view s) (lk_view s) (node_of C t nm)).
  Proof.
    intros r0 tr s R t nm. assert (I := reach_Inv C F r0 tr s R).
    unfold classify, node_of, n_tid, n_deps, can_run. simpl fst. simpl snd.
    destruct (st_view s t) eqn:Est.
    - (* Complete *)
      assert (Hr : results s t <> None) by (unfold st_view, stored in Est; destruct (results s t); [discriminate | discriminate]).
      split; auto. intros w. apply no_start_when_stored; auto.
    - assert (Hn : results s t = None) by (unfold st_view, stored in Est; destruct (results s t); [discriminate | reflexivity]).
      match goal with |- context [forallb ?f ?l] => destruct (forallb f l) eqn:Ed end.
      + assert (Ed' := proj1 (forallb_stored s (c_deps C t)) Ed). clear Ed. rename Ed' into Ed.
        unfold lock_cat, cl_is_failed, cl_is_locked, lk_view.
        destruct (Exec.locks s t) as [|w|] eqn:El; simpl.
        * (* Ready *)
          split; auto. split; auto. split; auto. intros Hin w Hpc.
          assert (Hm := mem_In _ _ Hin).
          assert (Hd : forallb (stored s) (c_deps C t) = true).
          { apply forallb_forall. intros d Hd. specialize (Ed d Hd). unfold stored. destruct (results s d); congruence. }
          destruct (lock_step s w t Hpc El Hm) as [s1 [E1 [P1 R1]]].
          destruct (canload_step s1 w t P1) as [s2 [E2 [P2 R2]]]; [rewrite R1; exact Hn|].
          destruct (start_step s2 w t P2) as [s3 [E3 P3]].
          { rewrite <- Hd. clear Hd. generalize (c_deps C t). intros l.
            induction l as [|d l IH]; simpl; [reflexivity|]. rewrite IH. unfold stored. rewrite R2, R1. reflexivity. }
          exists s3. split; [|exact P3]. simpl. rewrite E1, E2, E3. reflexivity.
        * (* Active *)
          split; auto. exists w. split; auto. apply (I_held C _ I); auto.
        * (* Failed *)
          split; auto. split; auto. intros w. apply failed_not_acquired; auto.
      + (* Waiting *)
        destruct (forallb_stored_false _ _ Ed) as [d [Hin Hd]].
        split; auto. split; [exists d; auto|].
        intros w. destruct (step C s (EStart w t)) eqn:E; auto.
        exfalso. apply (start_needs_deps C _ _ _ _ E d Hin). exact Hd.
  Qed.
End S.
