(* End-to-end statements over runs of the execution protocol from an initial store, in the form the
   property files cite them; and their instantiation on the programs of Model/ExecCase.v. *)
From Coq Require Import List Arith Bool PArith ZArith Lia.
From JugV Require Import Model.MapReduce Model.Slice Model.Deps Model.Exec Model.ExecCase
  Proofs.DepsFacts Proofs.ExecFacts Proofs.ExecProgFacts.
Import ListNotations.

(* the only assumption on task functions: calling one reads the store at its dependencies only *)
Definition framed {V} (C : cfg V) : Prop :=
  forall t r r', (forall d, In d (c_deps C t) -> r d = r' d) -> c_sem C t r = c_sem C t r'.
(* the dependency relation is acyclic and the task set is closed under it *)
Definition ranked {V} (C : cfg V) (rank : tid -> nat) : Prop := forall t d, In d (c_deps C t) -> rank d < rank t.
Definition closed {V} (C : cfg V) : Prop := forall t d, In t (c_tasks C) -> In d (c_deps C t) -> In d (c_tasks C).

(* s is reached from the store r0 by the events tr of any number of workers, in any interleaving *)
Definition reach {V} (C : cfg V) (r0 : tid -> option V) (tr : list (ev V)) (s : st V) : Prop :=
  Sound C r0 /\ run C (init r0) tr = Some s.

Definition all_workers : wid -> bool := fun _ => true.

Section Generic.
  Context {V : Type} (C : cfg V) (HF : framed C).

  Lemma reach_Inv : forall r0 tr s, reach C r0 tr s -> Inv C s.
  Proof. intros r0 tr s [Hs Hr]. eapply Inv_run; eauto. apply Inv_init; auto. Qed.

  Lemma reach_app : forall r0 tr s tr' s', reach C r0 tr s -> run C s tr' = Some s' -> reach C r0 (tr ++ tr') s'.
  Proof.
    intros r0 tr s tr' s' [Hs Hr] H. split; auto. revert Hr. generalize (init r0).
    induction tr as [|e tr IH]; simpl; intros s1 Hr.
    - inversion Hr; subst; auto.
    - destruct (step C s1 e); [|discriminate]. auto.
  Qed.

  (* ---- C02 *)
  Theorem never_concurrently : forall r0 tr s w w' t, reach C r0 tr s -> running s w t -> running s w' t -> w = w'.
  Proof. intros. eapply mutex; eauto. eapply reach_Inv; eauto. Qed.

  Theorem not_started_once_stored : forall r0 tr s tr' s' t, reach C r0 tr s -> results s t <> None ->
    run C s tr' = Some s' ->
    (forall w, step C s (EStart w t) = None) /\ execs s' t = execs s t /\ results s' t = results s t.
  Proof.
    intros r0 tr s tr' s' t R Hr H. assert (I := reach_Inv _ _ _ R). split; [|split].
    - intros w. apply no_start_when_stored; auto.
    - eapply stored_never_started_again; eauto.
    - destruct (results s t) eqn:E; [|congruence]. eapply results_mono_run; eauto.
  Qed.

  Theorem called_exactly_once : forall r0 tr s, reach C r0 tr s -> forallb quiet tr = true ->
    forall t, execs s t <= 1 /\ (r0 t <> None -> execs s t = 0) /\ (r0 t = None -> results s t <> None -> execs s t = 1).
  Proof. intros r0 tr s [Hs Hr] Q. eapply exactly_once; eauto. Qed.

  (* ---- C03 *)
  Theorem dependencies_first : forall r0 tr s w t s', reach C r0 tr s -> step C s (EStart w t) = Some s' ->
    (forall d, In d (c_deps C t) -> results s d <> None) /\ (forall a, anc C a t -> results s a <> None).
  Proof.
    intros r0 tr s w t s' R H. assert (I := reach_Inv _ _ _ R). split.
    - eapply start_needs_deps; eauto.
    - eapply start_needs_all_ancestors; eauto.
  Qed.

  (* what is returned, and then stored, is the function applied to the stored results *)
  Theorem returns_function_of_stored_results : forall r0 tr s w t v s', reach C r0 tr s ->
    step C s (EDump w t v) = Some s' ->
    exists v', results s' t = Some v' /\ c_sem C t (results s') = Ret v' /\ c_sem C t (results s) = Ret v'.
  Proof. intros r0 tr s w t v s' R H. eapply dump_is_sem; eauto. eapply reach_Inv; eauto. Qed.

  (* ---- C11 *)
  Theorem failure_stores_nothing_and_blocks_dependents : forall r0 tr s w t s1 tr' s', reach C r0 tr s ->
    step C s (ERaise w t) = Some s1 -> run C s1 tr' = Some s' ->
    results s' t = None /\
    (forall x, doomed C (results s1) x -> results s' x = None) /\
    (forall x d w', In d (c_deps C x) -> doomed C (results s1) d -> step C s' (EStart w' x) = None).
  Proof.
    intros r0 tr s w t s1 tr' s' R H H'. assert (I := reach_Inv _ _ _ R).
    assert (I1 : Inv C s1) by (eapply Inv_step; eauto).
    assert (I' : Inv C s') by (eapply Inv_run; eauto).
    assert (D := raise_dooms C _ _ _ _ H).
    split; [|split].
    - exact (proj1 (doomed_forever C HF tr' s1 s' t I1 D H')).
    - intros x Hx. exact (proj1 (doomed_forever C HF tr' s1 s' x I1 Hx H')).
    - intros x d w' Hin Hd. eapply doomed_dependent_never_starts; eauto.
      exact (proj2 (doomed_forever C HF tr' s1 s' d I1 Hd H')).
  Qed.

  (* ---- C12 / C13 *)
  Theorem left_workers_hold_no_lock : forall r0 tr s w c t, reach C r0 tr s -> w_pc (ws s w) = PDone c -> locks s t <> LHeld w.
  Proof. intros. eapply done_holds_nothing; eauto. eapply reach_Inv; eauto. Qed.

  Theorem stopped_worker_is_harmless : forall r0 tr s w tr' s', reach C r0 tr s -> w_intr (ws s w) = true ->
    run C s tr' = Some s' ->
    w_intr (ws s' w) = true /\
    (forall t v, ~ In (EDump w t v) tr') /\ (forall t, ~ In (EStart w t) tr') /\ (forall t, ~ In (ELock w t true) tr').
  Proof.
    intros r0 tr s w tr' s' R Hi H. assert (I := reach_Inv _ _ _ R). split; [eapply interrupted_stays; eauto|].
    revert s I Hi H R. generalize tr. clear tr. induction tr' as [|e tr' IH]; simpl; intros tr s I Hi H R.
    - repeat split; intros; intros [].
    - destruct (step C s e) eqn:E; [|discriminate].
      assert (I1 : Inv C s0) by (eapply Inv_step; eauto).
      destruct (step_inv_some _ _ _ _ E) as [s1 [E1 E2]].
      assert (Hi1 : w_intr (ws s0 w) = true) by (subst; simpl; eapply intr_kept; eauto).
      assert (R1 : reach C r0 (tr ++ [e]) s0) by (eapply reach_app; eauto; simpl; rewrite E; reflexivity).
      destruct (IH _ _ I1 Hi1 H R1) as [A [B D]].
      assert (Hne : forall e', actor e' = Some w ->
                 (exists t v, e' = EDump w t v) \/ (exists t, e' = EStart w t) \/ (exists t, e' = ELock w t true) -> e <> e').
      { intros e' Ha Hk Heq. subst e'.
        destruct (I_intr C s I w Hi) as [[t Hp] | [Hp | [[c Hp] | Hp]]];
          destruct Hk as [[t' [v' X]] | [[t' X] | [t' X]]]; subst e; unfold step0 in E1; rewrite Hp in E1; discriminate. }
      repeat split.
      + intros t v [X | X]; [|eapply A; eauto]. eapply (Hne (EDump w t v)); eauto.
      + intros t [X | X]; [|eapply B; eauto]. eapply (Hne (EStart w t)); eauto.
      + intros t [X | X]; [|eapply D; eauto]. eapply (Hne (ELock w t true)); eauto 6.
  Qed.

  (* ---- completeness and recovery, C01 (b), C11 (c), C12, C13 *)
  Variable rank : tid -> nat.
  Hypothesis HR : ranked C rank.
  Hypothesis HC : closed C.

  Theorem values_are_sequential : forall r0 tr s order, reach C r0 tr s -> topo C [] order ->
    forall t v, In t order -> results s t = Some v -> seq_eval C order r0 t = Some v.
  Proof. intros r0 tr s order [Hs Hr] Ht. eapply results_equal_sequential; eauto. Qed.

  Theorem complete_at_quiescence : forall r0 tr s, reach C r0 tr s -> forallb (okev C) tr = true ->
    quiescent all_workers s -> (exists w c, w_pc (ws s w) = PDone c) ->
    forall t, In t (c_tasks C) -> (results s t <> None <-> ~ doomed C (results s) t).
  Proof.
    intros r0 tr s [Hs Hr] Q Hq [w [c Hw]].
    eapply (complete_run C HF rank HR all_workers 1 HC tr (init r0) s); eauto.
    apply Restart_init; auto.
  Qed.

  (* a later execute by new workers F, started once no lock is held any more (all earlier workers have
     left - after a stop request or not - or are dead and their stale locks have been removed),
     completes the computation *)
  Theorem later_execute_completes : forall r0 tr s (F : wid -> bool) tr' s', reach C r0 tr s ->
    (forall t w, locks s t <> LHeld w) ->
    (forall w, F w = true -> ws s w = fresh_w) ->
    (forall w, F w = false -> live (w_pc (ws s w)) = false) ->
    forallb (okev C) tr' = true -> run C s tr' = Some s' ->
    quiescent F s' -> (exists w c, F w = true /\ w_pc (ws s' w) = PDone c) ->
    forall t, In t (c_tasks C) -> (results s' t <> None <-> ~ doomed C (results s') t).
  Proof.
    intros r0 tr s F tr' s' [Hs Hr] Hl Hf Hn Q H' Hq Hw.
    assert (I : Inv C s) by (eapply Inv_run; eauto; apply Inv_init; auto).
    assert (IF : InvF C s) by (exact (InvF_run C HF tr (init r0) s (Inv_init C r0 Hs) (InvF_init C r0) Hr)).
    assert (T : Timed s) by (exact (Timed_run C tr (init r0) s (Timed_init r0) Hr)).
    eapply (complete_run C HF rank HR F (now s) HC tr' s s'); eauto. eapply Restart_of_quiet; eauto.
  Qed.
End Generic.

(* ---- the programs of Model/ExecCase.v meet the hypotheses --------------------------------------- *)
Theorem programs_are_framed : forall p, framed (prog_cfg p).
Proof. intros p t r r' H. apply prog_sem_frame. exact H. Qed.

Theorem programs_are_ranked : forall p, wf_prog p = true -> ranked (prog_cfg p) (prog_rank p).
Proof. intros p H t d. apply prog_rank_deps. exact H. Qed.

Theorem programs_are_closed : forall p, wf_prog p = true -> closed (prog_cfg p).
Proof. intros p H t d. apply prog_tasks_closed. exact H. Qed.

(* in a program, "the function applied to the stored results" is literally: the free function applied
   to the arguments resolved (value()) against the store *)
Theorem program_call_is_resolution : forall p t st v, c_sem (prog_cfg p) t st = Ret v ->
  exists x a k, find_task (p_tasks p) t = Some x /\ task_inputs st x = Ok (a, k) /\
                fsem (kind_of (p_kinds p) (t_fn x)) (t_fn x) a k = Some v.
Proof.
  intros p t st v H. simpl in H. unfold prog_sem in H.
  destruct (find_task (p_tasks p) t) as [x|] eqn:Ef; [|discriminate].
  unfold task_run in H. destruct (task_inputs st x) as [[a k]| |] eqn:Ei; try discriminate.
  destruct (fsem _ _ a k) eqn:Es; [|discriminate]. inversion H; subst. eauto 8.
Qed.

(* ---- programs with barriers run by many workers: barrier edges are extra scheduling dependencies,
   and every theorem of the protocol applies to them --------------------------------------------- *)
Theorem bprograms_are_framed : forall bp, framed (bprog_cfg bp).
Proof. intros bp t r r' H. apply bprog_sem_frame. exact H. Qed.

Theorem bprograms_are_ranked : forall bp, wf_bprog bp = true -> ranked (bprog_cfg bp) (bprog_rank bp).
Proof. intros bp H t d. apply bprog_rank_deps. exact H. Qed.

Theorem bprograms_are_closed : forall bp, wf_bprog bp = true -> closed (bprog_cfg bp).
Proof. intros bp H t d. apply bprog_tasks_closed. exact H. Qed.

(* any number of workers, any interleaving, any number of barrier phases: whatever is stored is the
   sequential value (barriers only delay: sequential evaluation of the underlying program ignores
   them), and when every worker has left every task that neither raises nor depends on a raising one
   - barrier edges included - is stored *)
Theorem barrier_program_values_are_sequential : forall bp, wf_bprog bp = true ->
  forall r0 tr s order, reach (bprog_cfg bp) r0 tr s -> topo (bprog_cfg bp) [] order ->
  forall t v, In t order -> results s t = Some v -> seq_eval (bprog_cfg bp) order r0 t = Some v.
Proof.
  intros bp Hw. eapply values_are_sequential; [apply bprograms_are_framed | apply bprograms_are_ranked; auto].
Qed.

Theorem barrier_program_complete : forall bp, wf_bprog bp = true ->
  forall r0 tr s, reach (bprog_cfg bp) r0 tr s -> forallb (okev (bprog_cfg bp)) tr = true ->
  quiescent all_workers s -> (exists w c, w_pc (ws s w) = PDone c) ->
  forall t, In t (c_tasks (bprog_cfg bp)) -> (results s t <> None <-> ~ doomed (bprog_cfg bp) (results s) t).
Proof.
  intros bp Hw. eapply complete_at_quiescence;
    [apply bprograms_are_framed | apply bprograms_are_ranked; auto | apply bprograms_are_closed; auto].
Qed.

(* a task after a barrier is never started before everything in front of the barrier is stored *)
Theorem nothing_after_a_barrier_starts_early : forall bp r0 tr s w t s', reach (bprog_cfg bp) r0 tr s ->
  step (bprog_cfg bp) s (EStart w t) = Some s' ->
  forall d, In d (extra_of (bp_extra bp) t) -> In t (map t_id (p_tasks (bp_prog bp))) -> results s d <> None.
Proof.
  intros bp r0 tr s w t s' R H d Hd Ht.
  destruct (dependencies_first (bprog_cfg bp) (bprograms_are_framed bp) r0 tr s w t s' R H) as [X _].
  apply X. simpl. unfold bprog_deps. apply in_or_app. right.
  assert (Hm : mem t (map t_id (p_tasks (bp_prog bp))) = true) by (apply mem_In'; exact Ht).
  rewrite Hm. exact Hd.
Qed.

(* --- any number of workers killed, in any order (a node or the whole cluster going down) --- *)
Definition is_crash {V} (e : ev V) : bool := match e with ECrash _ => true | _ => false end.
Definition crashed_in {V} (tr : list (ev V)) (w : wid) : Prop := In (ECrash w) tr.

Lemma crash_storm_dead_stays : forall (V : Type) (C : cfg V) (tr : list (ev V)) (s s' : st V) w,
  forallb is_crash tr = true -> run C s tr = Some s' -> w_pc (ws s w) = PDead -> w_pc (ws s' w) = PDead.
Proof.
  intros V C tr. induction tr as [|e tr IH]; intros s s' w Hc Hr Hd; simpl in *.
  - inversion Hr; subst. exact Hd.
  - apply andb_true_iff in Hc. destruct Hc as [He Hc].
    destruct (step C s e) as [s1|] eqn:Hs; [|discriminate].
    destruct e; try discriminate.
    destruct (crash_effect C s s1 w0 Hs) as [_ [_ [D1 O1]]].
    apply (IH s1 s' w Hc Hr).
    destruct (Nat.eq_dec w w0) as [E|E]; [subst; exact D1 | rewrite (O1 w E); exact Hd].
Qed.

(* a trace that consists of kills only changes no result and no lock; every killed worker is dead and
   every other worker is exactly as it was *)
Theorem crash_storm_effect : forall (V : Type) (C : cfg V) (tr : list (ev V)) (s s' : st V),
  forallb is_crash tr = true -> run C s tr = Some s' ->
  results s' = results s /\ locks s' = locks s /\
  (forall w, crashed_in tr w -> w_pc (ws s' w) = PDead) /\
  (forall w, ~ crashed_in tr w -> ws s' w = ws s w).
Proof.
  intros V C tr. induction tr as [|e tr IH]; intros s s' Hc Hr.
  - simpl in Hr. inversion Hr; subst. repeat split; auto. intros w [].
  - assert (Hc0 := Hc). assert (Hr0 := Hr). simpl in Hc, Hr.
    apply andb_true_iff in Hc. destruct Hc as [He Hc].
    destruct (step C s e) as [s1|] eqn:Hs; [|discriminate].
    destruct e; try discriminate.
    destruct (crash_effect C s s1 w Hs) as [R1 [L1 [D1 O1]]].
    destruct (IH s1 s' Hc Hr) as [R2 [L2 [D2 O2]]].
    split; [congruence|]. split; [congruence|]. split.
    + intros w0 [Hw|Hw].
      * inversion Hw; subst w0. exact (crash_storm_dead_stays V C tr s1 s' w Hc Hr D1).
      * apply D2. exact Hw.
    + intros w0 Hn. rewrite O2 by (intro Hi; apply Hn; right; exact Hi).
      apply O1. intro E. apply Hn. left. now subst.
Qed.

(* ... and if every lock holder is among the killed (or was dead already), the operator's
   `cleanup --locks-only` is possible right afterwards, frees every lock, and the store still holds
   exactly the results it held before the first kill *)
Theorem crash_storm_then_cleanup : forall (V : Type) (C : cfg V), framed C ->
  forall r0 tr0 s tr s1, reach C r0 tr0 s ->
  forallb is_crash tr = true -> run C s tr = Some s1 ->
  (forall t w, locks s t = LHeld w -> crashed_in tr w \/ live (w_pc (ws s w)) = false) ->
  exists s2, step C s1 ERemoveLocks = Some s2 /\ reach C r0 (tr0 ++ tr ++ [ERemoveLocks]) s2 /\
             results s2 = results s /\ (forall t, locks s2 t = LFree) /\ ws s2 = ws s1.
Proof.
  intros V C HF r0 tr0 s tr s1 R Hc Hr Hh.
  destruct (crash_storm_effect V C tr s s1 Hc Hr) as [R1 [L1 [D1 O1]]].
  assert (R1' : reach C r0 (tr0 ++ tr) s1) by (eapply reach_app; eauto).
  assert (I1 : Inv C s1) by (eapply reach_Inv; eauto).
  destruct (remove_locks_effect C s1 I1) as [s2 [S2 [R2 [L2 W2]]]].
  - intros t w Hl. rewrite L1 in Hl. destruct (Hh t w Hl) as [Hk|Hd].
    + rewrite (D1 w Hk). reflexivity.
    + assert (Hn : ~ crashed_in tr w \/ crashed_in tr w).
      { clear -Hc Hr Hd. revert s Hr Hd. induction tr as [|e tr IH]; intros s Hr Hd; [left; intros []|].
        simpl in Hc, Hr. apply andb_true_iff in Hc. destruct Hc as [He Hc].
        destruct (step C s e) as [sx|] eqn:Hs; [|discriminate]. destruct e; try discriminate.
        destruct (Nat.eq_dec w w0) as [E|E]; [right; left; now subst|].
        destruct (crash_effect C s sx w0 Hs) as [_ [_ [_ O]]].
        destruct (IH Hc sx Hr) as [A|A]; [rewrite (O w E); exact Hd | left | right; right; exact A].
        intros [X|X]; [inversion X; congruence | exact (A X)]. }
      destruct Hn as [Hn|Hk]; [rewrite (O1 w Hn); exact Hd | rewrite (D1 w Hk); reflexivity].
  - exists s2. split; [exact S2|]. split.
    + rewrite app_assoc. eapply reach_app; [exact R1'|]. simpl. rewrite S2. reflexivity.
    + split; [congruence | split; [exact L2 | exact W2]].
Qed.

(* whether a worker is among the killed is decidable *)
Lemma crashed_in_dec : forall (V : Type) (tr : list (ev V)) w,
  forallb is_crash tr = true -> crashed_in tr w \/ ~ crashed_in tr w.
Proof.
  intros V tr w. induction tr as [|e tr IH]; intros Hc; [right; intros []|].
  simpl in Hc. apply andb_true_iff in Hc. destruct Hc as [He Hc]. destruct e; try discriminate.
  destruct (Nat.eq_dec w w0) as [E|E]; [left; left; now subst|].
  destruct (IH Hc) as [A|A]; [left; right; exact A | right].
  intros [X|X]; [inversion X; congruence | exact (A X)].
Qed.

(* recovery, end to end: everything that is not one of the new workers F is killed (or had left already) - in any
   state reachable by any number of workers, at any point of their protocols -, the operator removes the stale
   locks, the new workers run: at their quiescence every task that can have a result has one.  (That the results
   are the sequential values and that nothing already stored is computed again are C01 (a) and C02 for the whole
   trace.) *)
Theorem recovery_end_to_end : forall (V : Type) (C : cfg V), framed C ->
  forall rank, ranked C rank -> closed C ->
  forall r0 tr0 s tr s1 (F : wid -> bool), reach C r0 tr0 s ->
  forallb is_crash tr = true -> run C s tr = Some s1 ->
  (forall w, F w = false -> crashed_in tr w \/ live (w_pc (ws s w)) = false) ->
  (forall w, F w = true -> ws s w = fresh_w /\ ~ crashed_in tr w) ->
  (forall t w, locks s t = LHeld w -> F w = false) ->
  exists s2, step C s1 ERemoveLocks = Some s2 /\ results s2 = results s /\
    forall tr' s', forallb (okev C) tr' = true -> run C s2 tr' = Some s' ->
      quiescent F s' -> (exists w c, F w = true /\ w_pc (ws s' w) = PDone c) ->
      forall t, In t (c_tasks C) -> (results s' t <> None <-> ~ doomed C (results s') t).
Proof.
  intros V C HF rank HR HC r0 tr0 s tr s1 F R Hc Hr Hn Hf Hl.
  destruct (crash_storm_effect V C tr s s1 Hc Hr) as [_ [_ [D1 O1]]].
  destruct (crash_storm_then_cleanup V C HF r0 tr0 s tr s1 R Hc Hr) as [s2 [S2 [R2 [E2 [L2 W2]]]]].
  - intros t w Hh. apply Hn. exact (Hl t w Hh).
  - exists s2. split; [exact S2|]. split; [exact E2|].
    intros tr' s' Q H' Hq Hw.
    eapply (later_execute_completes C HF rank HR HC r0 _ s2 F tr' s' R2); eauto.
    + intros t w. rewrite L2. discriminate.
    + intros w Fw. rewrite W2. destruct (Hf w Fw) as [A B]. rewrite (O1 w B). exact A.
    + intros w Fw. rewrite W2. destruct (Hn w Fw) as [A|A].
      * rewrite (D1 w A). reflexivity.
      * destruct (crashed_in_dec V tr w Hc) as [B|B]; [rewrite (D1 w B); reflexivity | rewrite (O1 w B); exact A].
Qed.

(* --- a stop request is never blocked: the worker's own next events take it out of execution_loop --- *)
(* what a worker at program point p does when asked to stop: the finally clause releases the lock it holds
   (if it holds one), then execution_loop is left with the exception's exit status *)
Definition stop_trace {V} (p : pc V) (w : wid) (code : nat) : list (ev V) :=
  EInterrupt w :: (match holding p with Some t => [EUnlock w t] | None => [] end) ++ [EExit w code].

Ltac stop_fin :=
  eexists; (split; [reflexivity|]);
  cbn [ws tick set_w set_lock results locks]; rewrite ?updw_same; cbn [w_pc set_pc];
  (split; [reflexivity|]); (split; [reflexivity|]); split;
  [ intro t0; unfold upd; reflexivity
  | intros w' Hn; rewrite ?updw_other by exact Hn; reflexivity ].
Ltac stop_holding H :=
  rewrite H; unfold stop_trace, holding; cbn [app run];
  unfold step at 1, step0; rewrite H; cbn [option_map];
  unfold step at 1, step0; cbn [ws tick set_w]; rewrite updw_same; cbn [w_pc act set_intr]; rewrite Pos.eqb_refl; cbn [option_map];
  unfold step at 1, step0; cbn [ws tick set_w set_lock]; rewrite updw_same; cbn [w_pc w_intr act set_intr orb option_map];
  stop_fin.

Theorem stop_request_leads_to_exit : forall (V : Type) (C : cfg V) (s : st V) w code,
  (w_pc (ws s w) = PIdle \/ exists t, w_pc (ws s w) = PLocked t \/ w_pc (ws s w) = PCleared t \/ w_pc (ws s w) = PSkip t \/
                                 w_pc (ws s w) = PRunning t \/ (exists v, w_pc (ws s w) = PRan t v) \/ w_pc (ws s w) = PStored t) ->
  exists s', run C s (stop_trace (w_pc (ws s w)) w code) = Some s' /\
    w_pc (ws s' w) = PDone code /\ results s' = results s /\
    (forall t, locks s' t = match holding (w_pc (ws s w)) with
                            | Some t' => if Pos.eqb t t' then LFree else locks s t
                            | None => locks s t end) /\
    (forall w', w' <> w -> ws s' w' = ws s w').
Proof.
  intros V C s w code H.
  destruct H as [H | [t [H | [H | [H | [H | [[v H] | H]]]]]]]; [|stop_holding H ..].
  rewrite H; unfold stop_trace, holding; cbn [app run].
  unfold step at 1, step0; rewrite H; cbn [option_map].
  unfold step at 1, step0; cbn [ws tick set_w]; rewrite updw_same; cbn [w_pc w_intr act set_intr orb option_map].
  eexists; (split; [reflexivity|]);
  cbn [ws tick set_w set_lock results locks]; rewrite ?updw_same; cbn [w_pc set_pc];
  (split; [reflexivity|]); (split; [reflexivity|]); split;
  [ intro t0; reflexivity | intros w' Hn; rewrite ?updw_other by exact Hn; reflexivity ].
Qed.
