(* C09 - proofs about Model/Invalidate.v. *)
From Coq Require Import List PArith Bool Arith Lia.
From JugV Require Import Model.Dag Model.Invalidate Proofs.DagFacts.
Import ListNotations.

Lemma mem_ext : forall t a b, (In t a <-> In t b) -> mem t a = mem t b.
Proof.
  intros t a b H. destruct (mem t a) eqn:A; destruct (mem t b) eqn:B; auto.
  - apply mem_In in A. apply H in A. apply mem_In in A. congruence.
  - apply mem_In in B. apply H in B. apply mem_In in B. congruence.
Qed.

Lemma filter_len : forall {A} (f : A -> bool) l, length (filter f l) <= length l.
Proof. intros A f l. induction l as [|a r IH]; simpl; [lia|]. destruct (f a); simpl; lia. Qed.

Lemma depends_on_src : forall d a c, depends_on d a c -> a = c \/ In a (tids d).
Proof.
  intros d a c H. destruct H as [a | a b c [n [Hn [T _]]] _]; [left; reflexivity|].
  right. apply In_tids. exists n. auto.
Qed.

(* ================================================================================================ *)
(* the command-line algorithm                                                                       *)
Section Cli.
  Variable d : dag.
  Variable m : matcher.
  Hypothesis W : wf_dag d.

  (* the specification: t is, or depends (transitively) on, a task whose name matches *)
  Definition invalid_spec (t : tid) : Prop :=
    exists n, In n d /\ m (n_name n) = true /\ depends_on d t (n_tid n).

  Lemma spec_unfold : forall n, In n d ->
    (invalid_spec (n_tid n) <-> m (n_name n) = true \/ exists x, In x (n_deps n) /\ invalid_spec x).
  Proof.
    intros n Hn. split.
    - intros [n0 [H0 [M D]]]. inversion D as [a E1 E2 | a b c E D2 E1 E2]; subst.
      + left. destruct (wf_agree d n n0 W Hn H0) as [N _]; [symmetry; assumption|]. rewrite <- N. exact M.
      + right. exists b. split.
        * apply (edge_deps d n b W Hn). exact E.
        * exists n0. auto.
    - intros [M | [x [Hx [n0 [H0 [M D]]]]]].
      + exists n. repeat split; auto. apply dep_refl.
      + exists n0. repeat split; auto. eapply dep_step; [apply edge_of_node; eassumption | exact D].
  Qed.

  (* the memo table only ever holds true answers *)
  Definition cache_ok (c : cache) : Prop :=
    forall t b, cache_get c t = Some b -> (b = true <-> invalid_spec t).

  Lemma cache_ok_cons : forall c t b, cache_ok c -> (b = true <-> invalid_spec t) -> cache_ok ((t, b) :: c).
  Proof.
    intros c t b C H t' b' G. simpl in G. destruct (Pos.eqb t t') eqn:E.
    - apply Pos.eqb_eq in E. inversion G; subst. exact H.
    - apply C. exact G.
  Qed.

  Definition rec_of (f : nat) : cache -> tid -> bool * cache :=
    fun c x => match find_node d x with
               | Some nx => isinvalid f d m c nx
               | None => (false, c)
               end.

  Lemma isinvalid_S : forall f c n, isinvalid (S f) d m c n =
    match cache_get c (n_tid n) with
    | Some b => (b, c)
    | None => if m (n_name n) then (true, (n_tid n, true) :: c)
              else let '(b, c') := any_dep (rec_of f) (n_deps n) c in (b, (n_tid n, b) :: c')
    end.
  Proof. reflexivity. Qed.

  Variable rank : tid -> nat.
  Hypothesis Rdep : forall n x, In n d -> In x (n_deps n) -> rank x < rank (n_tid n).

  Lemma isinvalid_correct : forall fuel n c, In n d -> rank (n_tid n) < fuel -> cache_ok c ->
    cache_ok (snd (isinvalid fuel d m c n)) /\
    (fst (isinvalid fuel d m c n) = true <-> invalid_spec (n_tid n)).
  Proof.
    induction fuel as [|f IH]; intros n c Hn L C; [lia|].
    rewrite isinvalid_S. destruct (cache_get c (n_tid n)) as [b|] eqn:G.
    - simpl. split; [exact C | apply C; exact G].
    - destruct (m (n_name n)) eqn:M.
      + simpl. assert (S1 : invalid_spec (n_tid n)) by (apply spec_unfold; auto).
        split; [apply cache_ok_cons; auto; tauto | tauto].
      + assert (A : forall ds c0, (forall x, In x ds -> In x (n_deps n)) -> cache_ok c0 ->
                  cache_ok (snd (any_dep (rec_of f) ds c0)) /\
                  (fst (any_dep (rec_of f) ds c0) = true <-> exists x, In x ds /\ invalid_spec x)).
        { induction ds as [|x r IHds]; intros c0 Hds C0; simpl.
          - split; [exact C0|]. split; [discriminate | intros [x [[] _]]].
          - assert (Hx : In x (n_deps n)) by (apply Hds; left; reflexivity).
            destruct (find_node_in d x (wf_deps_in d n x W Hn Hx)) as [nx F].
            destruct (find_node_some d x nx F) as [Hnx T].
            assert (R : rec_of f c0 x = isinvalid f d m c0 nx).
            { unfold rec_of. rewrite F. reflexivity. }
            rewrite R.
            destruct (IH nx c0 Hnx) as [C1 B1].
            { rewrite T. pose proof (Rdep n x Hn Hx). lia. }
            { exact C0. }
            rewrite T in B1.
            destruct (isinvalid f d m c0 nx) as [b c1] eqn:I. simpl in C1, B1.
            destruct b.
            + simpl. split; [exact C1|]. split; [|reflexivity]. intros _. exists x. split; [left; reflexivity | tauto].
            + destruct (IHds c1) as [C2 B2]; [intros y Hy; apply Hds; right; exact Hy | exact C1 |].
              split; [exact C2|]. rewrite B2. split.
              * intros [y [Hy Sy]]. exists y. split; [right; exact Hy | exact Sy].
              * intros [y [[Hy|Hy] Sy]].
                -- subst y. apply B1 in Sy. discriminate.
                -- exists y. auto. }
        destruct (A (n_deps n) c) as [C1 B1]; [intros x Hx; exact Hx | exact C |].
        destruct (any_dep (rec_of f) (n_deps n) c) as [b c1] eqn:I. simpl in C1, B1. simpl.
        assert (S1 : b = true <-> invalid_spec (n_tid n)).
        { rewrite (spec_unfold n Hn). rewrite B1. rewrite M. intuition discriminate. }
        split; [apply cache_ok_cons; assumption | exact S1].
  Qed.

  Hypothesis Rlt : forall n, In n d -> rank (n_tid n) < length d.

  Lemma cli_filter_correct : forall ns c, (forall n, In n ns -> In n d) -> cache_ok c ->
    forall n, In n (cli_filter (S (length d)) d m c ns) <-> In n ns /\ invalid_spec (n_tid n).
  Proof.
    induction ns as [|a r IH]; intros c Sub C n; [simpl; tauto|].
    change (cli_filter (S (length d)) d m c (a :: r)) with
      (let '(b, c') := isinvalid (S (length d)) d m c a in
       if b then a :: cli_filter (S (length d)) d m c' r else cli_filter (S (length d)) d m c' r).
    destruct (isinvalid_correct (S (length d)) a c) as [C1 B1].
    { apply Sub. left. reflexivity. }
    { pose proof (Rlt a (Sub a (or_introl eq_refl))). lia. }
    { exact C. }
    destruct (isinvalid (S (length d)) d m c a) as [b c1] eqn:I. simpl in C1, B1.
    assert (Sub2 : forall x, In x r -> In x d) by (intros x Hx; apply Sub; right; exact Hx).
    specialize (IH c1 Sub2 C1 n).
    destruct b; simpl; rewrite IH.
    - split.
      + intros [H|[H S1]]; [subst n; split; [left; reflexivity | tauto] | tauto].
      + intros [[H|H] S1]; [left; exact H | right; tauto].
    - split.
      + intros [H S1]. tauto.
      + intros [[H|H] S1]; [subst n; apply B1 in S1; discriminate | tauto].
  Qed.

  Lemma cache_ok_nil : cache_ok [].
  Proof. intros t b G. discriminate. Qed.

  Lemma cli_nodes_spec_r : forall n, In n (cli_invalid_nodes d m) <-> In n d /\ invalid_spec (n_tid n).
  Proof. intros n. unfold cli_invalid_nodes. apply cli_filter_correct; [auto | apply cache_ok_nil]. Qed.

  (* (a) the command-line algorithm returns exactly the tasks that are, or depend on, a match *)
  Lemma cli_invalid_spec_r : forall t, In t (cli_invalid d m) <-> In t (tids d) /\ invalid_spec t.
  Proof.
    intros t. unfold cli_invalid. rewrite in_map_iff. split.
    - intros [n [T H]]. apply cli_nodes_spec_r in H. destruct H as [H S1]. subst t. split; [|exact S1].
      apply In_tids. exists n. auto.
    - intros [H S1]. apply In_tids in H. destruct H as [n [Hn T]]. exists n. split; [exact T|].
      apply cli_nodes_spec_r. subst t. auto.
  Qed.

  (* a task that matches, or depends on a match, is one of the jugfile's tasks unless it is only
     mentioned as a missing dependency - impossible in a well-formed graph *)
  Lemma invalid_spec_in : forall t, invalid_spec t -> In t (tids d).
  Proof.
    intros t [n [Hn [_ D]]]. destruct (depends_on_src d t (n_tid n) D) as [E|E]; [|exact E].
    subst t. apply In_tids. exists n. auto.
  Qed.

  Lemma cli_invalid_spec_r' : forall t, In t (cli_invalid d m) <-> invalid_spec t.
  Proof.
    intros t. rewrite cli_invalid_spec_r. split; [tauto|]. intros H. split; [apply invalid_spec_in|]; exact H.
  Qed.

  (* (c) the store: exactly those results go, every other key is untouched *)
  Lemma cli_store_spec_r : forall st t,
    (invalid_spec t -> cli_store d m st t = false) /\
    (~ invalid_spec t -> cli_store d m st t = st t).
  Proof.
    intros st t. unfold cli_store, remove_keys. split; intros H.
    - apply cli_invalid_spec_r' in H. apply mem_In in H. rewrite H. apply andb_false_r.
    - assert (mem t (cli_invalid d m) = false) as F.
      { apply mem_false. intros I. apply H. apply cli_invalid_spec_r'. exact I. }
      rewrite F. apply andb_true_r.
  Qed.

  Lemma cli_removed_spec_r : forall st t,
    In t (cli_removed d m st) <-> invalid_spec t /\ st t = true.
  Proof. intros st t. unfold cli_removed. rewrite filter_In, cli_invalid_spec_r'. tauto. Qed.

  (* (d) invalidation keeps the stored results dependency-closed *)
  Lemma cli_store_closed_r : forall st, closed d st -> closed d (cli_store d m st).
  Proof.
    intros st Cl n Hn S1 x Hx.
    destruct (cli_store_spec_r st (n_tid n)) as [A1 A2].
    destruct (cli_store_spec_r st x) as [B1 B2].
    assert (NI : ~ invalid_spec (n_tid n)).
    { intros I. rewrite (A1 I) in S1. discriminate. }
    assert (NX : ~ invalid_spec x).
    { intros I. apply NI. apply spec_unfold; [exact Hn|]. right. exists x. auto. }
    rewrite (B2 NX). rewrite (A2 NI) in S1. eapply Cl; eauto.
  Qed.
End Cli.

(* the same facts with the numbering taken from [wf_dag] *)
Lemma cli_nodes_spec : forall d m, wf_dag d ->
  forall n, In n (cli_invalid_nodes d m) <-> In n d /\ invalid_spec d m (n_tid n).
Proof. intros d m W0. pose proof W0 as W. destruct W0 as [_ [_ [rank [Rlt Rdep]]]]. exact (cli_nodes_spec_r d m W rank Rdep Rlt). Qed.

Lemma cli_invalid_spec : forall d m, wf_dag d ->
  forall t, In t (cli_invalid d m) <-> In t (tids d) /\ invalid_spec d m t.
Proof. intros d m W0. pose proof W0 as W. destruct W0 as [_ [_ [rank [Rlt Rdep]]]]. exact (cli_invalid_spec_r d m W rank Rdep Rlt). Qed.

Lemma cli_invalid_spec' : forall d m, wf_dag d -> forall t, In t (cli_invalid d m) <-> invalid_spec d m t.
Proof. intros d m W0. pose proof W0 as W. destruct W0 as [_ [_ [rank [Rlt Rdep]]]]. exact (cli_invalid_spec_r' d m W rank Rdep Rlt). Qed.

Lemma cli_store_spec : forall d m, wf_dag d -> forall st t,
  (invalid_spec d m t -> cli_store d m st t = false) /\
  (~ invalid_spec d m t -> cli_store d m st t = st t).
Proof. intros d m W0. pose proof W0 as W. destruct W0 as [_ [_ [rank [Rlt Rdep]]]]. exact (cli_store_spec_r d m W rank Rdep Rlt). Qed.

Lemma cli_removed_spec : forall d m, wf_dag d -> forall st t,
  In t (cli_removed d m st) <-> invalid_spec d m t /\ st t = true.
Proof. intros d m W0. pose proof W0 as W. destruct W0 as [_ [_ [rank [Rlt Rdep]]]]. exact (cli_removed_spec_r d m W rank Rdep Rlt). Qed.

Lemma cli_store_closed : forall d m, wf_dag d -> forall st, closed d st -> closed d (cli_store d m st).
Proof. intros d m W0. pose proof W0 as W. destruct W0 as [_ [_ [rank [Rlt Rdep]]]]. exact (cli_store_closed_r d m W rank Rdep Rlt). Qed.


(* ================================================================================================ *)
(* the shell's work-list                                                                            *)
Lemma rdeps_In : forall re x y, In y (rdeps re x) <-> In (x, y) re.
Proof.
  intros re x y. unfold rdeps. rewrite in_map_iff. split.
  - intros [[a b] [E H]]. simpl in E. subst b. apply filter_In in H. destruct H as [H T].
    simpl in T. apply Pos.eqb_eq in T. subst a. exact H.
  - intros H. exists (x, y). split; [reflexivity|]. apply filter_In. split; [exact H|]. simpl. apply Pos.eqb_refl.
Qed.

Lemma rev_edges_In : forall d x y, In (x, y) (rev_edges d) <-> edge d y x.
Proof.
  intros d x y. unfold rev_edges. rewrite in_flat_map. split.
  - intros [n [Hn H]]. apply in_map_iff in H. destruct H as [z [E Hz]]. inversion E; subst.
    exists n. auto.
  - intros [n [Hn [T Hx]]]. exists n. split; [exact Hn|]. apply in_map_iff. exists x. subst y. auto.
Qed.

Definition pending (re : list (tid * tid)) (seen : list tid) : nat :=
  length (filter (fun p => negb (mem (fst p) seen)) re).

Lemma pending_step : forall re t seen, ~ In t seen ->
  pending re seen = pending re (t :: seen) + length (rdeps re t).
Proof.
  intros re t seen N. unfold pending, rdeps. rewrite map_length.
  induction re as [|[a b] r IH]; simpl; [reflexivity|].
  destruct (Pos.eqb a t) eqn:E.
  - apply Pos.eqb_eq in E. subst a. apply mem_false in N. rewrite N. simpl. simpl in IH. rewrite IH. lia.
  - simpl. destruct (mem a seen); simpl; simpl in IH; rewrite IH; lia.
Qed.

Section Shell.
  Variable d : dag.
  Variable s : tid.
  Let re := rev_edges d.

  Lemma shell_loop_sound : forall fuel queue seen,
    (forall x, In x queue -> depends_on d x s) -> (forall x, In x seen -> depends_on d x s) ->
    forall x, In x (fst (shell_loop fuel re queue seen)) -> depends_on d x s.
  Proof.
    induction fuel as [|f IH]; intros queue seen Q S1 x; simpl.
    - intros H. apply in_rev in H. auto.
    - destruct queue as [|t rest]; simpl.
      + intros H. apply in_rev in H. auto.
      + destruct (mem t seen) eqn:M.
        * apply IH; [intros y Hy; apply Q; right; exact Hy | exact S1].
        * apply IH.
          -- intros y Hy. apply in_app_or in Hy. destruct Hy as [Hy|Hy].
             ++ apply in_rev in Hy. apply filter_In in Hy. destruct Hy as [Hy _].
                apply rdeps_In in Hy. apply rev_edges_In in Hy.
                eapply dep_step; [exact Hy | apply Q; left; reflexivity].
             ++ apply Q. right. exact Hy.
          -- intros y [Hy|Hy]; [subst y; apply Q; left; reflexivity | apply S1; exact Hy].
  Qed.

  Lemma shell_loop_complete : forall fuel queue seen, length queue + pending re seen <= fuel ->
    (forall x, In x seen -> In x (fst (shell_loop fuel re queue seen))) /\
    (forall x, In x queue -> In x (fst (shell_loop fuel re queue seen))) /\
    ((forall x y, In x seen -> In (x, y) re -> In y seen \/ In y queue) ->
     forall x y, In x (fst (shell_loop fuel re queue seen)) -> In (x, y) re ->
                 In y (fst (shell_loop fuel re queue seen))) /\
    snd (shell_loop fuel re queue seen) = [].
  Proof.
    induction fuel as [|f IH]; intros queue seen L.
    - destruct queue as [|t rest]; [|simpl in L; lia]. simpl. repeat split.
      + intros x H. apply in_rev. rewrite rev_involutive. exact H.
      + intros x [].
      + intros H x y Hx Hy. apply in_rev in Hx. destruct (H x y Hx Hy) as [A|[]].
        apply in_rev. rewrite rev_involutive. exact A.
    - destruct queue as [|t rest].
      + simpl. repeat split.
        * intros x H. apply in_rev. rewrite rev_involutive. exact H.
        * intros x [].
        * intros H x y Hx Hy. apply in_rev in Hx. destruct (H x y Hx Hy) as [A|[]].
          apply in_rev. rewrite rev_involutive. exact A.
      + simpl. destruct (mem t seen) eqn:M.
        * destruct (IH rest seen) as [A [B [C D]]]; [simpl in L; lia|].
          repeat split; auto.
          -- intros x [Hx|Hx]; [subst x; apply A; apply mem_In; exact M | apply B; exact Hx].
          -- intros H. apply C. intros x y Hx Hy. destruct (H x y Hx Hy) as [G|[G|G]]; auto.
             subst y. left. apply mem_In. exact M.
        * apply mem_false in M.
          set (new := filter (fun x => negb (mem x (t :: seen))) (rdeps re t)).
          destruct (IH (rev new ++ rest) (t :: seen)) as [A [B [C D]]].
          { rewrite app_length, rev_length. pose proof (pending_step re t seen M) as P.
            pose proof (filter_len (fun x => negb (mem x (t :: seen))) (rdeps re t)) as F.
            fold new in F. simpl in L. lia. }
          repeat split; auto.
          -- intros x Hx. apply A. right. exact Hx.
          -- intros x [Hx|Hx]; [subst x; apply A; left; reflexivity | apply B; apply in_or_app; right; exact Hx].
          -- intros H. apply C. intros x y Hx Hy. destruct Hx as [Hx|Hx].
             ++ subst x. destruct (mem y (t :: seen)) eqn:My.
                ** left. apply mem_In. exact My.
                ** right. apply in_or_app. left. apply in_rev. rewrite rev_involutive.
                   apply filter_In. split; [apply rdeps_In; exact Hy | rewrite My; reflexivity].
             ++ destruct (H x y Hx Hy) as [G|[G|G]].
                ** left. right. exact G.
                ** left. left. exact G.
                ** right. apply in_or_app. right. exact G.
  Qed.

  Lemma pending_le : forall seen, pending re seen <= length re.
  Proof. intros. unfold pending. apply filter_len. Qed.

  (* (b) the shell's invalidate(t) removes exactly t and everything that depends on it *)
  Lemma shell_invalid_spec : forall t, In t (shell_invalid d s) <-> depends_on d t s.
  Proof.
    intros t. unfold shell_invalid. fold re. split.
    - apply shell_loop_sound.
      + intros x [Hx|[]]. subst x. apply dep_refl.
      + intros x [].
    - intros D.
      destruct (shell_loop_complete (shell_fuel d) [s] []) as [_ [B [C _]]].
      { unfold shell_fuel. fold re. pose proof (pending_le []). simpl. lia. }
      assert (Cl : forall x y, In x (fst (shell_loop (shell_fuel d) re [s] [])) -> In (x, y) re ->
                               In y (fst (shell_loop (shell_fuel d) re [s] []))).
      { apply C. intros x y []. }
      induction D as [a | a b c E D IH].
      + apply B. left. reflexivity.
      + apply (Cl b a); [apply IH; assumption | apply rev_edges_In; exact E].
  Qed.

  Lemma shell_queue_exhausted : snd (shell_loop (shell_fuel d) re [s] []) = [].
  Proof.
    destruct (shell_loop_complete (shell_fuel d) [s] []) as [_ [_ [_ D]]]; [|exact D].
    unfold shell_fuel. fold re. pose proof (pending_le []). simpl. lia.
  Qed.
End Shell.

Lemma depends_on_b_spec : forall d a c, depends_on_b d a c = true <-> depends_on d a c.
Proof. intros d a c. unfold depends_on_b. rewrite mem_In. apply shell_invalid_spec. Qed.

Lemma shell_session_spec : forall d seeds t,
  In t (shell_session d seeds) <-> exists s, In s seeds /\ depends_on d t s.
Proof.
  intros d seeds t. unfold shell_session. rewrite in_flat_map. split; intros [s [A B]]; exists s; split; auto.
  - apply shell_invalid_spec. exact B.
  - apply shell_invalid_spec. exact B.
Qed.

Lemma seeds_of_spec : forall d m s,
  In s (seeds_of d m) <-> exists n, In n d /\ m (n_name n) = true /\ n_tid n = s.
Proof.
  intros d m s. unfold seeds_of. rewrite in_map_iff. split.
  - intros [n [T H]]. apply filter_In in H. exists n. tauto.
  - intros [n [A [B C]]]. exists n. split; [exact C|]. apply filter_In. auto.
Qed.

(* command line and shell remove the same set for the same target *)
Lemma cli_eq_shell : forall d m, wf_dag d ->
  forall t, In t (cli_invalid d m) <-> exists n, In n d /\ m (n_name n) = true /\ In t (shell_invalid d (n_tid n)).
Proof.
  intros d m W t. rewrite (cli_invalid_spec' d m W). unfold invalid_spec.
  split; intros [n [A [B C]]]; exists n; repeat split; auto; apply shell_invalid_spec; exact C.
Qed.

Lemma cli_eq_shell_session : forall d m, wf_dag d ->
  forall t, In t (cli_invalid d m) <-> In t (shell_session d (seeds_of d m)).
Proof.
  intros d m W t. rewrite (cli_invalid_spec' d m W), shell_session_spec. unfold invalid_spec. split.
  - intros [n [A [B C]]]. exists (n_tid n). split; [apply seeds_of_spec; exists n; auto | exact C].
  - intros [s [A C]]. apply seeds_of_spec in A. destruct A as [n [A [B T]]]. subst s. exists n. auto.
Qed.

Lemma cli_eq_shell_one : forall d m s, wf_dag d -> In s (tids d) ->
  (forall n, In n d -> (m (n_name n) = true <-> n_tid n = s)) ->
  forall t, In t (cli_invalid d m) <-> In t (shell_invalid d s).
Proof.
  intros d m s W Hs Sel t. rewrite (cli_invalid_spec' d m W), shell_invalid_spec. unfold invalid_spec. split.
  - intros [n [A [B C]]]. apply (Sel n A) in B. subst s. exact C.
  - intros D. apply In_tids in Hs. destruct Hs as [n [A T]]. exists n. repeat split; auto.
    + apply (Sel n A). exact T.
    + subst s. exact D.
Qed.

Lemma shell_store_eq_cli : forall d m st, wf_dag d ->
  forall t, shell_store d (seeds_of d m) st t = cli_store d m st t.
Proof.
  intros d m st W t. unfold shell_store, cli_store, remove_keys. f_equal. f_equal.
  apply mem_ext. symmetry. apply cli_eq_shell_session. exact W.
Qed.

(* ================================================================================================ *)
(* the following execute                                                                            *)
(* what has been run so far, relative to the store [st0] the execute started from *)
Definition exec_inv (d : dag) (st0 st : store) (log : list tid) : Prop :=
  (forall t, st t = true <-> st0 t = true \/ In t log) /\
  (forall t, In t log -> In t (tids d) /\ st0 t = false) /\
  NoDup log.

Lemma exec_pass_inv : forall d st0 ns st log, (forall n, In n ns -> In n d) -> exec_inv d st0 st log ->
  exec_inv d st0 (fst (exec_pass ns st log)) (snd (exec_pass ns st log)).
Proof.
  intros d st0. induction ns as [|n r IH]; intros st log Sub I; simpl; [exact I|].
  assert (Sub2 : forall x, In x r -> In x d) by (intros x Hx; apply Sub; right; exact Hx).
  destruct (st (n_tid n)) eqn:S1; [apply IH; assumption|].
  destruct (forallb st (n_deps n)); [|apply IH; assumption].
  apply IH; [assumption|]. destruct I as [A [B C]]. split; [|split].
  - intros t. unfold st_add. rewrite orb_true_iff, Pos.eqb_eq, A. simpl. intuition.
  - intros t [H|H].
    + subst t. split; [apply In_tids; exists n; split; [apply Sub; left; reflexivity | reflexivity]|].
      destruct (st0 (n_tid n)) eqn:E; [|reflexivity].
      assert (st (n_tid n) = true) by (apply A; left; exact E). congruence.
    + apply B. exact H.
  - constructor; [|exact C]. intros H.
    assert (st (n_tid n) = true) by (apply A; right; exact H). congruence.
Qed.

Lemma exec_pass_mono : forall ns st log t, st t = true -> fst (exec_pass ns st log) t = true.
Proof.
  induction ns as [|a r IH]; simpl; intros st log t H; [exact H|].
  destruct (st (n_tid a)); [apply IH; exact H|].
  destruct (forallb st (n_deps a)); [|apply IH; exact H].
  apply IH. unfold st_add. rewrite H. apply orb_true_r.
Qed.

(* a task whose dependencies are stored when a pass begins has a result when it ends *)
Lemma exec_pass_progress : forall ns st log n, In n ns -> forallb st (n_deps n) = true ->
  fst (exec_pass ns st log) (n_tid n) = true.
Proof.
  induction ns as [|a r IH]; intros st log n H F; [contradiction|]. simpl. destruct H as [H|H].
  - subst a. destruct (st (n_tid n)) eqn:S1; [apply exec_pass_mono; exact S1|].
    rewrite F. apply exec_pass_mono. unfold st_add. rewrite Pos.eqb_refl. reflexivity.
  - destruct (st (n_tid a)) eqn:S1; [apply IH; auto|].
    destruct (forallb st (n_deps a)) eqn:Fa; [|apply IH; auto].
    apply IH; [exact H|]. apply forallb_forall. intros x Hx. unfold st_add.
    rewrite (proj1 (forallb_forall _ _) F x Hx). apply orb_true_r.
Qed.

Lemma exec_rounds_spec : forall d st0 (rank : tid -> nat),
  (forall n x, In n d -> In x (n_deps n) -> In x (tids d)) ->
  (forall n x, In n d -> In x (n_deps n) -> rank x < rank (n_tid n)) ->
  forall k st log j, exec_inv d st0 st log ->
    (forall n, In n d -> rank (n_tid n) < j -> st (n_tid n) = true) ->
    exec_inv d st0 (fst (exec_rounds k d st log)) (snd (exec_rounds k d st log)) /\
    (forall n, In n d -> rank (n_tid n) < j + k -> fst (exec_rounds k d st log) (n_tid n) = true).
Proof.
  intros d st0 rank Din Rdep. induction k as [|k IH]; intros st log j I L.
  - simpl. split; [exact I|]. intros n Hn R. apply L; [exact Hn | lia].
  - simpl. destruct (IH (fst (exec_pass d st log)) (snd (exec_pass d st log)) (S j)) as [I2 L2].
    + apply exec_pass_inv; auto.
    + intros n Hn R. destruct (Nat.lt_ge_cases (rank (n_tid n)) j) as [Lt|Ge].
      * apply exec_pass_mono. apply L; assumption.
      * apply exec_pass_progress; [exact Hn|]. apply forallb_forall. intros x Hx.
        pose proof (Rdep n x Hn Hx) as Rx.
        destruct (proj1 (In_tids d x) (Din n x Hn Hx)) as [nx [Hnx T]]. rewrite <- T. apply L; [exact Hnx|].
        rewrite T. lia.
    + split; [exact I2|]. intros n Hn R. apply L2; [exact Hn | lia].
Qed.

(* one execute runs exactly the tasks without a stored result, each once, and afterwards
   every task has one - in whatever order the tasks were created *)
Lemma exec_spec : forall d st, wf_dag d ->
  (forall t, In t (exec_log d st) <-> In t (tids d) /\ st t = false) /\
  NoDup (exec_log d st) /\
  (forall t, exec_store d st t = true <-> st t = true \/ In t (tids d)).
Proof.
  intros d st [Din [_ [rank [Rlt Rdep]]]].
  destruct (exec_rounds_spec d st rank Din Rdep (length d) st [] 0) as [[A [B C]] L].
  { split; [|split]; [intros t; simpl; tauto | intros t [] | constructor]. }
  { intros n _ R. lia. }
  assert (Fin : forall t, In t (tids d) -> fst (exec_rounds (length d) d st []) t = true).
  { intros t Ht. apply In_tids in Ht. destruct Ht as [n [Hn T]]. subst t. apply L; [exact Hn|]. simpl. apply Rlt. exact Hn. }
  unfold exec_log, exec_store. split; [|split].
  - intros t. rewrite <- in_rev. split.
    + apply B.
    + intros [Ht S1]. destruct (proj1 (A t) (Fin t Ht)) as [H|H]; [congruence | exact H].
  - apply NoDup_rev. exact C.
  - intros t. split.
    + intros H. apply A in H. destruct H as [H|H]; [left; exact H | right; apply B; exact H].
    + intros [H|H]; [apply A; left; exact H | apply Fin; exact H].
Qed.

(* (e) after an invalidation, execute re-runs exactly the invalidated tasks (and whatever had no
   result before) *)
Lemma exec_after_invalidate : forall d m st, wf_dag d ->
  (forall t, In t (exec_log d (cli_store d m st)) <->
             In t (tids d) /\ (st t = false \/ invalid_spec d m t)) /\
  NoDup (exec_log d (cli_store d m st)).
Proof.
  intros d m st W. destruct (exec_spec d (cli_store d m st) W) as [A [B _]]. split; [|exact B].
  intros t. rewrite A. destruct (cli_store_spec d m W st t) as [C1 C2]. split.
  - intros [H1 H2]. split; [exact H1|]. destruct (st t) eqn:S1; [|left; reflexivity]. right.
    destruct (mem t (cli_invalid d m)) eqn:M.
    + apply mem_In in M. apply (cli_invalid_spec' d m W). exact M.
    + unfold cli_store, remove_keys in H2. rewrite S1, M in H2. discriminate.
  - intros [H1 [H2|H2]]; split; auto.
    + unfold cli_store, remove_keys. rewrite H2. reflexivity.
Qed.
