(* C01 (d): the execution protocol does not care which store backend carries the results.
   The dump / load / can_load calls of ANY accepted run, replayed on the bookkeeping model of each
   backend (Model/Store.v: file store with or without compress_numpy and pack, dict store, redis
   store), leave every task loadable with exactly the value the protocol's abstract store holds. *)
From Coq Require Import List Arith Bool PArith ZArith.
From JugV Require Import Model.Exec Model.Store Proofs.ExecFacts Proofs.StoreFacts.
Import ListNotations.

(* the store operations a trace performs, in order *)
Definition store_ops (tr : list (ev valid)) : list sop :=
  flat_map (fun e => match e with
                     | EDump _ t v => [SDump t v]
                     | ELoad _ t _ => [SLoad t]
                     | ECanLoad _ t _ => [SCanLoad t]
                     | _ => []
                     end) tr.

Section S.
  Variable C : cfg valid.
  Hypothesis eqb_sound : forall a b, c_eqb C a b = true -> a = b.

  Lemma step_hist : forall (s s' : st valid) e hist, Exec.step C s e = Some s' ->
    (forall t, last_write hist t = results s t) ->
    forall t, last_write (rev (store_ops [e]) ++ hist) t = results s' t.
  Proof.
    intros s s' e hist H Hh t. destruct (step_inv_some C _ _ _ H) as [s1 [H1 E]]. subst s'. simpl results.
    destruct e; break_step H1; norm; simpl; auto.
    all: try solve [destruct b; simpl; auto].
    match goal with Hq : c_eqb C _ _ = true |- _ => apply eqb_sound in Hq; subst end.
    unfold upd. destruct (Pos.eqb t t1); auto.
  Qed.

  Lemma run_hist : forall tr (s s' : st valid) hist, Exec.run C s tr = Some s' ->
    (forall t, last_write hist t = results s t) ->
    forall t, last_write (rev (store_ops tr) ++ hist) t = results s' t.
  Proof.
    assert (Hc : forall e tr, store_ops (e :: tr) = store_ops [e] ++ store_ops tr).
    { intros e tr. unfold store_ops. simpl. now rewrite app_nil_r. }
    induction tr as [|e tr IH]; intros s s' hist H Hh t; simpl in H.
    - inversion H; subst. apply Hh.
    - destruct (Exec.step C s e) eqn:E; [|discriminate].
      rewrite Hc, rev_app_distr, <- app_assoc. eapply IH; eauto. eapply step_hist; eauto.
  Qed.

  (* the abstract store of the protocol is the "last write" reading of the store operations performed *)
  Theorem results_are_last_writes : forall tr s, Exec.run C (init (fun _ => None)) tr = Some s ->
    forall t, results s t = last_write (rev (store_ops tr)) t.
  Proof.
    intros tr s H t. rewrite <- (run_hist tr _ _ [] H); [now rewrite app_nil_r | reflexivity].
  Qed.

  (* hence every backend model, fed the store operations of the run, answers load / can_load exactly
     as the protocol's store: file store (with or without compress_numpy; small results may be packed:
     [venv] decides what is small), dict store, redis store *)
  Theorem backends_carry_the_results : forall tr s, Exec.run C (init (fun _ => None)) tr = Some s ->
    forall t : tid,
      and (forall Ev compress, f_load (fst (Store.run (fstep Ev) (f_init compress) (store_ops tr))) t = results s t)
     (and (forall backed, aget t (d_mem (fst (Store.run dstep (d_init backed) (store_ops tr)))) = results s t)
          (aget t (fst (Store.run rstep [] (store_ops tr))) = results s t)).
  Proof.
    intros tr s H t. rewrite (results_are_last_writes tr s H t). split; [|split].
    - intros Ev compress. apply (file_store_last_write Ev compress).
    - intros backed. destruct (dict_store_refines backed (store_ops tr)) as [X _].
      + right. unfold store_ops. intros Hin. apply in_flat_map in Hin. destruct Hin as [e [_ Hin]].
        destruct e; simpl in Hin; intuition discriminate.
      + rewrite X. apply spec_is_last_write.
    - destruct (redis_store_refines (store_ops tr)) as [X _]. rewrite X. apply spec_is_last_write.
  Qed.
End S.
