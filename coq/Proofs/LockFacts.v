(* Facts about Model/LockPrims.v: the primitive-level lock programs of every repaired backend
   refine the atomic lock specification [spec_op], for all numbers of clients, all histories and
   all well-formed schedules.  The original redis GETSET program does not (witnesses at the end). *)
From Coq Require Import List ZArith Bool Arith Lia.
From JugV Require Import Model.LockPrims.
Import ListNotations.

(* positions inside an operation that exist in the repaired programs *)
Definition mid_ok (b : backend) (o : lockop) : Prop :=
  match b, o with
  | BFile, OGet | BFile, OIsFailed | BKeep, OGet | BKeep, OIsFailed | BRedis, OFail => True
  | _, _ => False
  end.

Definition wf_cond (o : lockop) (pc : nat) (c : cid) (g : gst) : Prop :=
  match pc, o with
  | O, ORelease | O, OFail => g = GHeld c \/ g = GFailed
  | _, _ => True
  end.

Lemma upd_same : forall st n v, upd st n v n = v.
Proof. intros. unfold upd. now rewrite Nat.eqb_refl. Qed.

Lemma upd_other : forall st n v m, m <> n -> upd st n v m = st m.
Proof. intros st n v m H. unfold upd. destruct (Nat.eqb m n) eqn:E; auto. apply Nat.eqb_eq in E. contradiction. Qed.

Lemma upd_id : forall st n v m, st n = v -> upd st n v m = st m.
Proof. intros st n v m H. unfold upd. destruct (Nat.eqb m n) eqn:E; auto. apply Nat.eqb_eq in E. now subst. Qed.

Lemma updg_same : forall g n x, updg g n x n = x.
Proof. intros. unfold updg. now rewrite Nat.eqb_refl. Qed.

Lemma updg_other : forall g n x m, m <> n -> updg g n x m = g m.
Proof. intros g n x m H. unfold updg. destruct (Nat.eqb m n) eqn:E; auto. apply Nat.eqb_eq in E. contradiction. Qed.

Lemma updc_same : forall f c x, updc f c x c = x.
Proof. intros. unfold updc. now rewrite Nat.eqb_refl. Qed.

Lemma updc_other : forall f c x d, d <> c -> updc f c x d = f d.
Proof. intros f c x d H. unfold updc. destruct (Nat.eqb d c) eqn:E; auto. apply Nat.eqb_eq in E. contradiction. Qed.

(* ------------------------------------------------------------------ one primitive step, locally *)
(* what one step of operation o at pc does, given that the store value of name n represents
   the ghost status g *)
Definition local_post (P : params) (b : backend) (o : lockop) (n : name) (pc : nat) (c : cid)
           (g : gst) (st : lkstate) : Prop :=
  let sr := runp P st (op_prim P b o n pc) in
  match op_next P b o pc (snd sr) with
  | Next pc' =>
      pc' = 1 /\ pc = 0 /\ mid_ok b o /\ (forall m, fst sr m = st m) /\
      ghost_upd g o c pc None = g /\ (b = BRedis -> g = GHeld c)
  | Done r =>
      r = snd (spec_op o c g) /\
      (forall m, fst sr m = upd st n (repr P b (fst (spec_op o c g))) m) /\
      ghost_upd g o c pc (Some r) = fst (spec_op o c g)
  end.

Ltac zfacts P :=
  repeat match goal with
         | H : negb _ = true |- _ => apply negb_true_iff in H
         | H : _ && _ = true |- _ => apply andb_prop in H; destruct H
         end.

Lemma local_step : forall P b o n pc c g st,
  params_ok P b = true -> repaired b = true ->
  st n = repr P b g ->
  (pc = 0 \/ (pc = 1 /\ mid_ok b o)) ->
  wf_cond o pc c g ->
  (b = BRedis -> pc = 1 -> g = GHeld c) ->
  local_post P b o n pc c g st.
Proof.
  intros P b o n pc c g st Hok Hrep Hst Hpos Hwf Hmid.
  unfold params_ok in Hok. zfacts P.
  unfold local_post.
  destruct b; try discriminate Hrep; clear Hrep.
  - (* BFile *)
    cbn [isfailedv lockedv failedv] in *.
    destruct Hpos as [-> | [-> Hm]];
      destruct o; cbn [mid_ok] in *; try contradiction;
      destruct g; cbn [wf_cond] in Hwf;
      try (destruct Hwf as [Hwf | Hwf]; discriminate Hwf);
      cbn [op_prim runp repr lockedv failedv] in *; rewrite ?Hst; cbn [fst snd is_some op_next spec_op ghost_upd isfailedv];
      rewrite ?Z.eqb_refl, ?H;
      repeat split; auto; try discriminate;
      intros m; cbn [repr lockedv failedv]; try (rewrite upd_id; auto; rewrite Hst; reflexivity).
  - (* BKeep *)
    cbn [isfailedv lockedv failedv] in *.
    destruct Hpos as [-> | [-> Hm]];
      destruct o; cbn [mid_ok] in *; try contradiction;
      destruct g; cbn [wf_cond] in Hwf;
      try (destruct Hwf as [Hwf | Hwf]; discriminate Hwf);
      cbn [op_prim runp repr lockedv failedv] in *; rewrite ?Hst; cbn [fst snd is_some op_next spec_op ghost_upd isfailedv];
      rewrite ?H, ?H1;
      repeat split; auto; try discriminate;
      intros m; cbn [repr lockedv failedv]; try (rewrite upd_id; auto; rewrite Hst; reflexivity).
  - (* BRedis *)
    cbn [isfailedv lockedv failedv] in *.
    assert (HFL : Z.eqb (p_F P) (p_L P) = false) by (rewrite Z.eqb_sym; assumption).
    destruct Hpos as [-> | [-> Hm]];
      destruct o; cbn [mid_ok] in *; try contradiction;
      try specialize (Hmid eq_refl eq_refl);
      destruct g; cbn [wf_cond] in Hwf;
      try (destruct Hwf as [Hwf | Hwf]; discriminate Hwf);
      try (match type of Hmid with _ = _ => discriminate Hmid end);
      cbn [op_prim runp repr lockedv failedv] in *; rewrite ?Hst;
      cbn [fst snd is_some op_next redis_fail_next spec_op ghost_upd isfailedv];
      rewrite ?Z.eqb_refl, ?H, ?HFL; cbn [orb fst snd ghost_upd];
      repeat split; auto; try discriminate;
      first [ solve [intros _; destruct Hwf as [Hwf | Hwf]; [exact Hwf | discriminate Hwf]]
            | intros m; cbn [repr lockedv failedv]; try (rewrite upd_id; auto; rewrite Hst; reflexivity) ].
  - (* BDict *)
    cbn [isfailedv lockedv failedv] in *.
    apply andb_prop in H0; destruct H0 as [Ha Hb]; apply negb_true_iff in Ha, Hb.
    assert (HFL : Z.eqb (p_dF P) (p_dL P) = false) by (rewrite Z.eqb_sym; assumption).
    assert (H0L : Z.eqb (p_d0 P) (p_dL P) = false) by (rewrite Z.eqb_sym; assumption).
    assert (H0F : Z.eqb (p_d0 P) (p_dF P) = false) by (rewrite Z.eqb_sym; assumption).
    destruct Hpos as [-> | [-> Hm]];
      destruct o; cbn [mid_ok] in *; try contradiction;
      destruct g; cbn [wf_cond] in Hwf;
      try (destruct Hwf as [Hwf | Hwf]; discriminate Hwf);
      cbn [op_prim runp dict_op repr lockedv failedv] in *; rewrite ?Hst;
      rewrite ?Z.eqb_refl, ?H, ?HFL, ?H0L, ?H0F, ?Ha, ?Hb;
      cbn [fst snd orb]; rewrite ?upd_same, ?Hst;
      cbn [fst snd is_some op_next spec_op ghost_upd isfailedv];
      rewrite ?Z.eqb_refl, ?H, ?HFL, ?H0L, ?H0F, ?Ha, ?Hb;
      repeat split; auto; try discriminate;
      intros m; cbn [repr lockedv failedv]; try (rewrite upd_id; auto; rewrite Hst; reflexivity).
Qed.

(* ------------------------------------------------------------------ the global invariant *)
Definition Inv (P : params) (b : backend) (k : cfg) : Prop :=
  (forall n, sh k n = repr P b (gh k n)) /\
  (forall c o n pc, cur (cls k c) = Some (o, n, pc) ->
     pc = 1 /\ mid_ok b o /\ (b = BRedis -> gh k n = GHeld c)).

Lemma pick_cases : forall cl o n pc rest, pick cl = Some (o, n, pc, rest) ->
  (cur cl = Some (o, n, pc) /\ rest = todo cl) \/ (cur cl = None /\ pc = 0 /\ todo cl = (o, n) :: rest).
Proof.
  intros cl o n pc rest H. unfold pick in H. destruct (cur cl) as [[[o' n'] pc']|] eqn:E.
  - inversion H; subst. left; auto.
  - destruct (todo cl) as [|[o' n'] r] eqn:T; [discriminate|]. inversion H; subst. right; auto.
Qed.

Lemma wf_step_cond : forall k c o n pc rest, pick (cls k c) = Some (o, n, pc, rest) ->
  wf_step k c = true -> wf_cond o pc c (gh k n).
Proof.
  intros k c o n pc rest Hp Hw. unfold wf_step in Hw. rewrite Hp in Hw. unfold wf_cond.
  destruct pc; destruct o; auto; destruct (gh k n); try discriminate; auto;
    apply Nat.eqb_eq in Hw; subst; auto.
Qed.

Lemma spec_keeps_other_holder : forall b o c d pc,
  d <> c -> b = BRedis -> wf_cond o pc c (GHeld d) ->
  (pc = 0 \/ (pc = 1 /\ mid_ok b o)) -> (b = BRedis -> pc = 1 -> GHeld d = GHeld c) ->
  fst (spec_op o c (GHeld d)) = GHeld d.
Proof.
  intros b o c d pc Hdc -> Hwf Hpos Hmid.
  destruct o; cbn; auto.
  - destruct Hpos as [-> | [-> Hm]]; [| cbn in Hm; contradiction].
    cbn in Hwf. destruct Hwf as [Hwf | Hwf]; [inversion Hwf; contradiction | discriminate].
  - destruct Hpos as [-> | [-> Hm]].
    + cbn in Hwf. destruct Hwf as [Hwf | Hwf]; [inversion Hwf; contradiction | discriminate].
    + specialize (Hmid eq_refl eq_refl). inversion Hmid; contradiction.
Qed.

Definition step_post (P : params) (b : backend) (k : cfg) (c : cid) (o : lockop) (n : name) (pc : nat) : Prop :=
  let k' := fst (sched_step P b k c) in
  exists e, snd (sched_step P b k c) = Some e /\ e_c e = c /\ e_op e = o /\ e_n e = n /\ e_pc e = pc /\
    match e_ret e with
    | None => (forall m, sh k' m = sh k m) /\ (forall m, gh k' m = gh k m)
    | Some r => r = snd (spec_op o c (gh k n)) /\ gh k' n = fst (spec_op o c (gh k n)) /\
                (forall m, m <> n -> gh k' m = gh k m) /\ (forall m, m <> n -> sh k' m = sh k m)
    end.

Lemma step_main : forall P b k c o n pc rest,
  params_ok P b = true -> repaired b = true -> Inv P b k -> wf_step k c = true ->
  pick (cls k c) = Some (o, n, pc, rest) ->
  step_post P b k c o n pc /\ Inv P b (fst (sched_step P b k c)).
Proof.
  intros P b k c o n pc rest Hok Hrep [Hsh Hcl] Hwf Hp.
  assert (Hwc := wf_step_cond _ _ _ _ _ _ Hp Hwf).
  assert (Hpos : pc = 0 \/ (pc = 1 /\ mid_ok b o)).
  { destruct (pick_cases _ _ _ _ _ Hp) as [[Hc _] | [_ [H0 _]]]; auto.
    destruct (Hcl _ _ _ _ Hc) as [H1 [Hm _]]; auto. }
  assert (Hmid : b = BRedis -> pc = 1 -> gh k n = GHeld c).
  { intros Hb H1. destruct (pick_cases _ _ _ _ _ Hp) as [[Hc _] | [_ [H0 _]]]; [| lia].
    destruct (Hcl _ _ _ _ Hc) as [_ [_ Hg]]; auto. }
  assert (HL := local_step P b o n pc c (gh k n) (sh k) Hok Hrep (Hsh n) Hpos Hwc Hmid).
  unfold step_post, sched_step. rewrite Hp. unfold local_post in HL.
  set (sr := runp P (sh k) (op_prim P b o n pc)) in *.
  destruct (op_next P b o pc (snd sr)) as [pc' | r]; cbn [fst snd].
  - (* a non-final primitive: nothing changes *)
    destruct HL as [-> [-> [Hm [Hst [Hg Hr]]]]].
    assert (Hgh : forall m, updg (gh k) n (ghost_upd (gh k n) o c 0 None) m = gh k m).
    { intros m. rewrite Hg. unfold updg. destruct (Nat.eqb m n) eqn:E; auto. apply Nat.eqb_eq in E; now subst. }
    split.
    + eexists; split; [reflexivity|]. cbn. repeat split; auto.
    + split; cbn [sh gh cls].
      * intros m. rewrite Hst, Hgh. apply Hsh.
      * intros d o' n' pc' Hc. rewrite Hgh.
        destruct (Nat.eq_dec d c) as [-> | Hd].
        -- rewrite updc_same in Hc. cbn in Hc. inversion Hc; subst. auto.
        -- rewrite updc_other in Hc by auto. apply (Hcl _ _ _ _ Hc).
  - (* the final primitive: the operation takes effect as in the atomic specification *)
    destruct HL as [Hr [Hst Hg]].
    split.
    + eexists; split; [reflexivity|]. cbn. repeat split; auto.
      * rewrite updg_same. exact Hg.
      * intros m Hm. apply updg_other; auto.
      * intros m Hm. rewrite Hst. apply upd_other; auto.
    + split; cbn [sh gh cls].
      * intros m. rewrite Hst, Hg. destruct (Nat.eq_dec m n) as [-> | Hm].
        -- now rewrite upd_same, updg_same.
        -- rewrite upd_other, updg_other by auto. apply Hsh.
      * intros d o' n' pc' Hc.
        destruct (Nat.eq_dec d c) as [-> | Hd].
        -- rewrite updc_same in Hc. cbn in Hc. discriminate.
        -- rewrite updc_other in Hc by auto. destruct (Hcl _ _ _ _ Hc) as [H1 [Hm Hgd]].
           repeat split; auto. intros Hb. specialize (Hgd Hb).
           destruct (Nat.eq_dec n' n) as [-> | Hn].
           ++ rewrite updg_same, Hg. rewrite Hgd in *.
              apply (spec_keeps_other_holder b o c d pc); auto.
           ++ rewrite updg_other by auto. exact Hgd.
Qed.

(* ------------------------------------------------------------------ runs *)
Lemma Inv_init : forall P b hists, Inv P b (init hists).
Proof.
  intros P b hists. split; cbn.
  - intros n. reflexivity.
  - intros c o n pc H. discriminate.
Qed.

Lemma step_cases : forall P b k c,
  params_ok P b = true -> repaired b = true -> Inv P b k -> wf_step k c = true ->
  ((sched_step P b k c = (k, None)) \/ (exists o n pc, step_post P b k c o n pc))
  /\ Inv P b (fst (sched_step P b k c)).
Proof.
  intros P b k c Hok Hrep HI Hwf.
  destruct (pick (cls k c)) as [[[[o n] pc] rest]|] eqn:Hp.
  - destruct (step_main P b k c o n pc rest Hok Hrep HI Hwf Hp) as [Hs HI'].
    split; auto. right. exists o, n, pc. exact Hs.
  - unfold sched_step. rewrite Hp. split; auto.
Qed.

Lemma Inv_run : forall P b s k,
  params_ok P b = true -> repaired b = true -> Inv P b k -> wf_run P b k s = true ->
  Inv P b (fst (run P b k s)).
Proof.
  intros P b s. induction s as [|c s IH]; intros k Hok Hrep HI Hwf; cbn in *; auto.
  apply andb_prop in Hwf. destruct Hwf as [Hw1 Hw2].
  apply IH; auto. apply step_cases; auto.
Qed.

Lemma run_app : forall P b s1 s2 k,
  run P b k (s1 ++ s2) =
  (fst (run P b (fst (run P b k s1)) s2), snd (run P b k s1) ++ snd (run P b (fst (run P b k s1)) s2)).
Proof.
  intros P b s1. induction s1 as [|c s1 IH]; intros s2 k; cbn [app run fst snd].
  - destruct (run P b k s2); reflexivity.
  - rewrite IH. cbn [fst snd]. destruct (snd (sched_step P b k c)); reflexivity.
Qed.

Lemma wf_run_app : forall P b s1 s2 k,
  wf_run P b k (s1 ++ s2) = wf_run P b k s1 && wf_run P b (fst (run P b k s1)) s2.
Proof.
  intros P b s1. induction s1 as [|c s1 IH]; intros s2 k; cbn [app wf_run run fst]; auto.
  rewrite IH, andb_assoc. reflexivity.
Qed.

Lemma Inv_reach : forall P b hists s,
  params_ok P b = true -> repaired b = true -> wf_run P b (init hists) s = true ->
  Inv P b (fst (run P b (init hists) s)).
Proof. intros. apply Inv_run; auto. apply Inv_init. Qed.

(* the ghost status is a function of the OBSERVABLE trace only (Model: ghost_ev, status_after) *)
Lemma ghost_observable : forall P b s k,
  gh (fst (run P b k s)) = fold_left ghost_ev (snd (run P b k s)) (gh k).
Proof.
  intros P b s. induction s as [|c s IH]; intros k; cbn [run fst snd]; auto.
  rewrite IH. unfold sched_step.
  destruct (pick (cls k c)) as [[[[o n] pc] rest]|]; cbn [fst snd fold_left]; reflexivity.
Qed.

(* ------------------------------------------------------------------ one step from an invariant state *)
Section Step.
  Variables (P : params) (b : backend) (k : cfg) (c : cid) (e : event).
  Hypothesis Hok : params_ok P b = true.
  Hypothesis Hrep : repaired b = true.
  Hypothesis HI : Inv P b k.
  Hypothesis Hwf : wf_step k c = true.
  Hypothesis He : snd (sched_step P b k c) = Some e.
  Let k' := fst (sched_step P b k c).

  Lemma step_event : step_post P b k c (e_op e) (e_n e) (e_pc e).
  Proof.
    destruct (step_cases P b k c Hok Hrep HI Hwf) as [[Hs | [o [n [pc Hs]]]] _].
    - rewrite Hs in He. discriminate.
    - assert (Hs' := Hs). destruct Hs' as [e' [He' [_ [Ho [Hn [Hpc _]]]]]].
      rewrite He in He'. inversion He'; subst e'. subst. exact Hs.
  Qed.

  Lemma step_facts :
    e_c e = c /\
    match e_ret e with
    | None => (forall m, sh k' m = sh k m) /\ (forall m, gh k' m = gh k m)
    | Some r => r = snd (spec_op (e_op e) c (gh k (e_n e))) /\
                gh k' (e_n e) = fst (spec_op (e_op e) c (gh k (e_n e))) /\
                (forall m, m <> e_n e -> gh k' m = gh k m) /\ (forall m, m <> e_n e -> sh k' m = sh k m)
    end.
  Proof.
    destruct step_event as [e' [He' [Hc [_ [_ [_ H]]]]]].
    rewrite He in He'. inversion He'; subst e'. auto.
  Qed.

  (* T4: a step of an operation on another name changes nothing for this name *)
  Lemma step_other_name : forall n, e_n e <> n -> sh k' n = sh k n /\ gh k' n = gh k n.
  Proof.
    intros n Hn. destruct step_facts as [_ H]. destruct (e_ret e).
    - destruct H as [_ [_ [Hg Hs]]]. split; [apply Hs | apply Hg]; auto.
    - destruct H as [Hs Hg]. auto.
  Qed.

  (* how the status of any name can change in one step *)
  Lemma step_ghost : forall n,
    gh k' n = gh k n \/
    (e_n e = n /\ exists r, e_ret e = Some r /\ r = snd (spec_op (e_op e) c (gh k n)) /\
                            gh k' n = fst (spec_op (e_op e) c (gh k n))).
  Proof.
    intros n. destruct (Nat.eq_dec (e_n e) n) as [Hn | Hn].
    - destruct step_facts as [_ H]. destruct (e_ret e) as [r|].
      + right. split; auto. exists r. subst n. destruct H as [H1 [H2 _]]. auto.
      + left. apply H.
    - left. apply step_other_name; auto.
  Qed.

  Lemma step_wf_cond : wf_cond (e_op e) (e_pc e) c (gh k (e_n e)).
  Proof.
    unfold sched_step in He. destruct (pick (cls k c)) as [[[[o n] pc] rest]|] eqn:Hp; [|discriminate].
    cbn in He. inversion He; subst e; cbn. eapply wf_step_cond; eauto.
  Qed.

  Lemma step_release_pc0 : e_op e = ORelease -> e_pc e = 0.
  Proof.
    intros Ho. unfold sched_step in He.
    destruct (pick (cls k c)) as [[[[o n] pc] rest]|] eqn:Hp; [|discriminate].
    cbn in He. inversion He; subst e; cbn in *. subst o.
    destruct (pick_cases _ _ _ _ _ Hp) as [[Hc _] | [_ [H0 _]]]; auto.
    destruct HI as [_ Hcl]. destruct (Hcl _ _ _ _ Hc) as [_ [Hm _]].
    destruct b; cbn in Hm; contradiction.
  Qed.

  (* T1: while d holds n, every get on n that returns, returns False, and only d's own
     release / fail ends the tenure *)
  Lemma step_held : forall n d, gh k n = GHeld d ->
    (e_op e = OGet -> e_n e = n -> forall r, e_ret e = Some r -> r = OB false) /\
    (gh k' n = GHeld d \/ (e_c e = d /\ e_n e = n /\ (e_op e = ORelease \/ e_op e = OFail))).
  Proof.
    intros n d Hg. split.
    - intros Ho Hn r Hr. destruct step_facts as [_ H]. rewrite Hr in H. destruct H as [H _].
      rewrite Ho, Hn, Hg in H. exact H.
    - destruct (step_ghost n) as [H | [Hn [r [Hr [_ H]]]]]; [left; congruence|].
      rewrite Hg in H. destruct step_facts as [Hc _].
      assert (Hw := step_wf_cond). rewrite Hn, Hg in Hw.
      destruct (e_op e) eqn:Ho; cbn in H; auto.
      + right. assert (Hp := step_release_pc0 Ho). rewrite Hp in Hw. cbn in Hw.
        destruct Hw as [Hw | Hw]; [inversion Hw; subst; auto | discriminate].
      + right. destruct (e_pc e) eqn:Hpc.
        * cbn in Hw. destruct Hw as [Hw | Hw]; [inversion Hw; subst; auto | discriminate].
        * (* second primitive of redis fail: the invariant says c is the holder *)
          unfold sched_step in He.
          destruct (pick (cls k c)) as [[[[o nn] pc] rest]|] eqn:Hp; [|discriminate].
          cbn in He. inversion He; subst e; cbn in *. subst.
          destruct (pick_cases _ _ _ _ _ Hp) as [[Hcu _] | [_ [H0 _]]]; [|discriminate].
          destruct HI as [_ Hcl]. destruct (Hcl _ _ _ _ Hcu) as [_ [Hm Hgd]].
          destruct b; cbn in Hm; try contradiction. specialize (Hgd eq_refl).
          rewrite Hg in Hgd. inversion Hgd; subst. auto.
  Qed.

  (* T3: a failed lock is seen as locked and failed by everybody, cannot be acquired, and
     stays failed until a release begins *)
  Lemma step_failed : forall n, gh k n = GFailed ->
    sh k n = Some (failedv P b) /\
    (e_n e = n -> forall r, e_ret e = Some r ->
       (e_op e = OGet -> r = OB false) /\ (e_op e = OIsLocked -> r = OB true) /\
       (e_op e = OIsFailed -> r = OB true) /\ (e_op e = OFail -> r = OB true)) /\
    (gh k' n = GFailed \/ (e_n e = n /\ e_op e = ORelease)).
  Proof.
    intros n Hg. split; [|split].
    - destruct HI as [Hsh _]. rewrite Hsh, Hg. reflexivity.
    - intros Hn r Hr. destruct step_facts as [_ H]. rewrite Hr in H. destruct H as [H _].
      rewrite Hn, Hg in H. repeat split; intros Ho; rewrite Ho in H; exact H.
    - destruct (step_ghost n) as [H | [Hn [r [Hr [_ H]]]]]; [left; congruence|].
      rewrite Hg in H. destruct (e_op e) eqn:Ho; cbn in H; auto.
  Qed.

  (* T2 / T5: on a free lock the get that returns wins; the exclusive-create primitive succeeds;
     the lock stays free until some get returns True *)
  Lemma step_free : forall n, gh k n = GFree ->
    sh k n = None /\
    (e_n e = n -> forall r, e_ret e = Some r ->
       (e_op e = OGet -> r = OB true /\ gh k' n = GHeld c) /\
       (e_op e = OIsLocked -> r = OB false) /\ (e_op e = OIsFailed -> r = OB false)) /\
    (gh k' n = GFree \/ (e_n e = n /\ e_op e = OGet /\ e_ret e = Some (OB true) /\ gh k' n = GHeld c)).
  Proof.
    intros n Hg. split; [|split].
    - destruct HI as [Hsh _]. rewrite Hsh, Hg. reflexivity.
    - intros Hn r Hr. destruct step_facts as [_ H]. rewrite Hr in H. destruct H as [H [H2 _]].
      rewrite Hn, Hg in H, H2. split; [|split]; intros Ho; rewrite Ho in H, H2; cbn in H, H2; auto.
    - destruct (step_ghost n) as [H | [Hn [r [Hr [Hrv H]]]]]; [left; congruence|].
      rewrite Hg in H, Hrv. assert (Hw := step_wf_cond). rewrite Hn, Hg in Hw.
      destruct (e_op e) eqn:Ho; cbn in H, Hrv; auto.
      + right. subst r. auto.
  Qed.
End Step.
