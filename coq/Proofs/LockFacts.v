(* Facts about Model/LockPrims.v: the primitive-level lock programs of every repaired backend
   refine the atomic lock specification [spec_op], for all numbers of clients, all histories and
   all well-formed schedules.  The original redis GETSET program does not (witnesses at the end). *)
From Coq Require Import List ZArith Bool Arith Lia.
From JugV Require Import Model.LockPrims.
Import ListNotations.

(* positions inside an operation that exist in the repaired programs *)
Definition mid_ok (b : backend) (o : lockop) : Prop :=
  match b, o with
  | BFile, OGet | BFile, OIsFailed | BKeep, OGet | BKeep, OIsFailed | BRedis, OFail => True
  | _, _ => False
  end.

Definition wf_cond (o : lockop) (pc : nat) (c : cid) (g : gst) : Prop :=
  match pc, o with
  | O, ORelease | O, OFail => g = GHeld c \/ g = GFailed
  | _, _ => True
  end.

Lemma upd_same : forall st n v, upd st n v n = v.
Proof. intros. unfold upd. now rewrite Nat.eqb_refl. Qed.

Lemma upd_other : forall st n v m, m <> n -> upd st n v m = st m.
Proof. intros st n v m H. unfold upd. destruct (Nat.eqb m n) eqn:E; auto. apply Nat.eqb_eq in E. contradiction. Qed.

Lemma upd_id : forall st n v m, st n = v -> upd st n v m = st m.
Proof. intros st n v m H. unfold upd. destruct (Nat.eqb m n) eqn:E; auto. apply Nat.eqb_eq in E. now subst. Qed.

Lemma updg_same : forall g n x, updg g n x n = x.
Proof. intros. unfold updg. now rewrite Nat.eqb_refl. Qed.

Lemma updg_other : forall g n x m, m <> n -> updg g n x m = g m.
Proof. intros g n x m H. unfold updg. destruct (Nat.eqb m n) eqn:E; auto. apply Nat.eqb_eq in E. contradiction. Qed.

Lemma updc_same : forall f c x, updc f c x c = x.
Proof. intros. unfold updc. now rewrite Nat.eqb_refl. Qed.

Lemma updc_other : forall f c x d, d <> c -> updc f c x d = f d.
Proof. intros f c x d H. unfold updc. destruct (Nat.eqb d c) eqn:E; auto. apply Nat.eqb_eq in E. contradiction. Qed.

(* ------------------------------------------------------------------ one primitive step, locally *)
(* what one step of operation o at pc does, given that the store value of name n represents
   the ghost status g *)
Definition local_post (P : params) (b : backend) (o : lockop) (n : name) (pc : nat) (c : cid)
           (g : gst) (st : lkstate) : Prop :=
  let sr := runp P st (op_prim P b o n pc) in
  match op_next P b o pc (snd sr) with
  | Next pc' =>
      pc' = 1 /\ pc = 0 /\ mid_ok b o /\ (forall m, fst sr m = st m) /\
      ghost_upd g o c pc None = g /\ (b = BRedis -> g = GHeld c)
  | Done r =>
      r = snd (spec_op o c g) /\
      (forall m, fst sr m = upd st n (repr P b (fst (spec_op o c g))) m) /\
      ghost_upd g o c pc (Some r) = fst (spec_op o c g)
  end.

Ltac zfacts P :=
  repeat match goal with
         | H : negb _ = true |- _ => apply negb_true_iff in H
         | H : _ && _ = true |- _ => apply andb_prop in H; destruct H
         end.

Lemma local_step : forall P b o n pc c g st,
  params_ok P b = true -> repaired b = true ->
  st n = repr P b g ->
  (pc = 0 \/ (pc = 1 /\ mid_ok b o)) ->
  wf_cond o pc c g ->
  (b = BRedis -> pc = 1 -> g = GHeld c) ->
  local_post P b o n pc c g st.
Proof.
  intros P b o n pc c g st Hok Hrep Hst Hpos Hwf Hmid.
  unfold params_ok in Hok. zfacts P.
  unfold local_post.
  destruct b; try discriminate Hrep; clear Hrep.
  - (* BFile *)
    cbn [isfailedv lockedv failedv] in *.
    destruct Hpos as [-> | [-> Hm]];
      destruct o; cbn [mid_ok] in *; try contradiction;
      destruct g; cbn [wf_cond] in Hwf;
      try (destruct Hwf as [Hwf | Hwf]; discriminate Hwf);
      cbn [op_prim runp repr lockedv failedv] in *; rewrite ?Hst; cbn [fst snd is_some op_next spec_op ghost_upd isfailedv];
      rewrite ?Z.eqb_refl, ?H;
      repeat split; auto; try discriminate;
      intros m; cbn [repr lockedv failedv]; try (rewrite upd_id; auto; rewrite Hst; reflexivity).
  - (* BKeep *)
    cbn [isfailedv lockedv failedv] in *.
    destruct Hpos as [-> | [-> Hm]];
      destruct o; cbn [mid_ok] in *; try contradiction;
      destruct g; cbn [wf_cond] in Hwf;
      try (destruct Hwf as [Hwf | Hwf]; discriminate Hwf);
      cbn [op_prim runp repr lockedv failedv] in *; rewrite ?Hst; cbn [fst snd is_some op_next spec_op ghost_upd isfailedv];
      rewrite ?H, ?H1;
      repeat split; auto; try discriminate;
      intros m; cbn [repr lockedv failedv]; try (rewrite upd_id; auto; rewrite Hst; reflexivity).
  - (* BRedis *)
    cbn [isfailedv lockedv failedv] in *.
    assert (HFL : Z.eqb (p_F P) (p_L P) = false) by (rewrite Z.eqb_sym; assumption).
    destruct Hpos as [-> | [-> Hm]];
      destruct o; cbn [mid_ok] in *; try contradiction;
      try specialize (Hmid eq_refl eq_refl);
      destruct g; cbn [wf_cond] in Hwf;
      try (destruct Hwf as [Hwf | Hwf]; discriminate Hwf);
      try (match type of Hmid with _ = _ => discriminate Hmid end);
      cbn [op_prim runp repr lockedv failedv] in *; rewrite ?Hst;
      cbn [fst snd is_some op_next redis_fail_next spec_op ghost_upd isfailedv];
      rewrite ?Z.eqb_refl, ?H, ?HFL; cbn [orb fst snd ghost_upd];
      repeat split; auto; try discriminate;
      first [ solve [intros _; destruct Hwf as [Hwf | Hwf]; [exact Hwf | discriminate Hwf]]
            | intros m; cbn [repr lockedv failedv]; try (rewrite upd_id; auto; rewrite Hst; reflexivity) ].
  - (* BDict *)
    cbn [isfailedv lockedv failedv] in *.
    apply andb_prop in H0; destruct H0 as [Ha Hb]; apply negb_true_iff in Ha, Hb.
    assert (HFL : Z.eqb (p_dF P) (p_dL P) = false) by (rewrite Z.eqb_sym; assumption).
    assert (H0L : Z.eqb (p_d0 P) (p_dL P) = false) by (rewrite Z.eqb_sym; assumption).
    assert (H0F : Z.eqb (p_d0 P) (p_dF P) = false) by (rewrite Z.eqb_sym; assumption).
    destruct Hpos as [-> | [-> Hm]];
      destruct o; cbn [mid_ok] in *; try contradiction;
      destruct g; cbn [wf_cond] in Hwf;
      try (destruct Hwf as [Hwf | Hwf]; discriminate Hwf);
      cbn [op_prim runp dict_op repr lockedv failedv] in *; rewrite ?Hst;
      rewrite ?Z.eqb_refl, ?H, ?HFL, ?H0L, ?H0F, ?Ha, ?Hb;
      cbn [fst snd orb]; rewrite ?upd_same, ?Hst;
      cbn [fst snd is_some op_next spec_op ghost_upd isfailedv];
      rewrite ?Z.eqb_refl, ?H, ?HFL, ?H0L, ?H0F, ?Ha, ?Hb;
      repeat split; auto; try discriminate;
      intros m; cbn [repr lockedv failedv]; try (rewrite upd_id; auto; rewrite Hst; reflexivity).
Qed.

(* ------------------------------------------------------------------ the global invariant *)
Definition Inv (P : params) (b : backend) (k : cfg) : Prop :=
  (forall n, sh k n = repr P b (gh k n)) /\
  (forall c o n pc, cur (cls k c) = Some (o, n, pc) ->
     pc = 1 /\ mid_ok b o /\ (b = BRedis -> gh k n = GHeld c)).

Lemma pick_cases : forall cl o n pc rest, pick cl = Some (o, n, pc, rest) ->
  (cur cl = Some (o, n, pc) /\ rest = todo cl) \/ (cur cl = None /\ pc = 0 /\ todo cl = (o, n) :: rest).
Proof.
  intros cl o n pc rest H. unfold pick in H. destruct (cur cl) as [[[o' n'] pc']|] eqn:E.
  - inversion H; subst. left; auto.
  - destruct (todo cl) as [|[o' n'] r] eqn:T; [discriminate|]. inversion H; subst. right; auto.
Qed.

Lemma wf_step_cond : forall k c o n pc rest, pick (cls k c) = Some (o, n, pc, rest) ->
  wf_step k c = true -> wf_cond o pc c (gh k n).
Proof.
  intros k c o n pc rest Hp Hw. unfold wf_step in Hw. rewrite Hp in Hw. unfold wf_cond.
  destruct pc; destruct o; auto; destruct (gh k n); try discriminate; auto;
    apply Nat.eqb_eq in Hw; subst; auto.
Qed.

Lemma spec_keeps_other_holder : forall b o c d pc,
  d <> c -> b = BRedis -> wf_cond o pc c (GHeld d) ->
  (pc = 0 \/ (pc = 1 /\ mid_ok b o)) -> (b = BRedis -> pc = 1 -> GHeld d = GHeld c) ->
  fst (spec_op o c (GHeld d)) = GHeld d.
Proof.
  intros b o c d pc Hdc -> Hwf Hpos Hmid.
  destruct o; cbn; auto.
  - destruct Hpos as [-> | [-> Hm]]; [| cbn in Hm; contradiction].
    cbn in Hwf. destruct Hwf as [Hwf | Hwf]; [inversion Hwf; contradiction | discriminate].
  - destruct Hpos as [-> | [-> Hm]].
    + cbn in Hwf. destruct Hwf as [Hwf | Hwf]; [inversion Hwf; contradiction | discriminate].
    + specialize (Hmid eq_refl eq_refl). inversion Hmid; contradiction.
Qed.

Definition step_post (P : params) (b : backend) (k : cfg) (c : cid) (o : lockop) (n : name) (pc : nat) : Prop :=
  let k' := fst (sched_step P b k c) in
  exists e, snd (sched_step P b k c) = Some e /\ e_c e = c /\ e_op e = o /\ e_n e = n /\ e_pc e = pc /\
    match e_ret e with
    | None => (forall m, sh k' m = sh k m) /\ (forall m, gh k' m = gh k m)
    | Some r => r = snd (spec_op o c (gh k n)) /\ gh k' n = fst (spec_op o c (gh k n)) /\
                (forall m, m <> n -> gh k' m = gh k m) /\ (forall m, m <> n -> sh k' m = sh k m)
    end.

Lemma step_main : forall P b k c o n pc rest,
  params_ok P b = true -> repaired b = true -> Inv P b k -> wf_step k c = true ->
  pick (cls k c) = Some (o, n, pc, rest) ->
  step_post P b k c o n pc /\ Inv P b (fst (sched_step P b k c)).
Proof.
  intros P b k c o n pc rest Hok Hrep [Hsh Hcl] Hwf Hp.
  assert (Hwc := wf_step_cond _ _ _ _ _ _ Hp Hwf).
  assert (Hpos : pc = 0 \/ (pc = 1 /\ mid_ok b o)).
  { destruct (pick_cases _ _ _ _ _ Hp) as [[Hc _] | [_ [H0 _]]]; auto.
    destruct (Hcl _ _ _ _ Hc) as [H1 [Hm _]]; auto. }
  assert (Hmid : b = BRedis -> pc = 1 -> gh k n = GHeld c).
  { intros Hb H1. destruct (pick_cases _ _ _ _ _ Hp) as [[Hc _] | [_ [H0 _]]]; [| lia].
    destruct (Hcl _ _ _ _ Hc) as [_ [_ Hg]]; auto. }
  assert (HL := local_step P b o n pc c (gh k n) (sh k) Hok Hrep (Hsh n) Hpos Hwc Hmid).
  unfold step_post, sched_step. rewrite Hp. unfold local_post in HL.
  set (sr := runp P (sh k) (op_prim P b o n pc)) in *.
  destruct (op_next P b o pc (snd sr)) as [pc' | r]; cbn [fst snd].
  - (* a non-final primitive: nothing changes *)
    destruct HL as [-> [-> [Hm [Hst [Hg Hr]]]]].
    assert (Hgh : forall m, updg (gh k) n (ghost_upd (gh k n) o c 0 None) m = gh k m).
    { intros m. rewrite Hg. unfold updg. destruct (Nat.eqb m n) eqn:E; auto. apply Nat.eqb_eq in E; now subst. }
    split.
    + eexists; split; [reflexivity|]. cbn. repeat split; auto.
    + split; cbn [sh gh cls].
      * intros m. rewrite Hst, Hgh. apply Hsh.
      * intros d o' n' pc' Hc. rewrite Hgh.
        destruct (Nat.eq_dec d c) as [-> | Hd].
        -- rewrite updc_same in Hc. cbn in Hc. inversion Hc; subst. auto.
        -- rewrite updc_other in Hc by auto. apply (Hcl _ _ _ _ Hc).
  - (* the final primitive: the operation takes effect as in the atomic specification *)
    destruct HL as [Hr [Hst Hg]].
    split.
    + eexists; split; [reflexivity|]. cbn. repeat split; auto.
      * rewrite updg_same. exact Hg.
      * intros m Hm. apply updg_other; auto.
      * intros m Hm. rewrite Hst. apply upd_other; auto.
    + split; cbn [sh gh cls].
      * intros m. rewrite Hst, Hg. destruct (Nat.eq_dec m n) as [-> | Hm].
        -- now rewrite upd_same, updg_same.
        -- rewrite upd_other, updg_other by auto. apply Hsh.
      * intros d o' n' pc' Hc.
        destruct (Nat.eq_dec d c) as [-> | Hd].
        -- rewrite updc_same in Hc. cbn in Hc. discriminate.
        -- rewrite updc_other in Hc by auto. destruct (Hcl _ _ _ _ Hc) as [H1 [Hm Hgd]].
           repeat split; auto. intros Hb. specialize (Hgd Hb).
           destruct (Nat.eq_dec n' n) as [-> | Hn].
           ++ rewrite updg_same, Hg. rewrite Hgd in *.
              apply (spec_keeps_other_holder b o c d pc); auto.
           ++ rewrite updg_other by auto. exact Hgd.
Qed.

(* ------------------------------------------------------------------ runs *)
Lemma Inv_init : forall P b hists, Inv P b (init hists).
Proof.
  intros P b hists. split; cbn.
  - intros n. reflexivity.
  - intros c o n pc H. discriminate.
Qed.

Lemma step_cases : forall P b k c,
  params_ok P b = true -> repaired b = true -> Inv P b k -> wf_step k c = true ->
  ((sched_step P b k c = (k, None)) \/ (exists o n pc, step_post P b k c o n pc))
  /\ Inv P b (fst (sched_step P b k c)).
Proof.
  intros P b k c Hok Hrep HI Hwf.
  destruct (pick (cls k c)) as [[[[o n] pc] rest]|] eqn:Hp.
  - destruct (step_main P b k c o n pc rest Hok Hrep HI Hwf Hp) as [Hs HI'].
    split; auto. right. exists o, n, pc. exact Hs.
  - unfold sched_step. rewrite Hp. split; auto.
Qed.

Lemma Inv_run : forall P b s k,
  params_ok P b = true -> repaired b = true -> Inv P b k -> wf_run P b k s = true ->
  Inv P b (fst (run P b k s)).
Proof.
  intros P b s. induction s as [|c s IH]; intros k Hok Hrep HI Hwf; cbn in *; auto.
  apply andb_prop in Hwf. destruct Hwf as [Hw1 Hw2].
  apply IH; auto. apply step_cases; auto.
Qed.

Lemma run_app : forall P b s1 s2 k,
  run P b k (s1 ++ s2) =
  (fst (run P b (fst (run P b k s1)) s2), snd (run P b k s1) ++ snd (run P b (fst (run P b k s1)) s2)).
Proof.
  intros P b s1. induction s1 as [|c s1 IH]; intros s2 k; cbn [app run fst snd].
  - destruct (run P b k s2); reflexivity.
  - rewrite IH. cbn [fst snd]. destruct (snd (sched_step P b k c)); reflexivity.
Qed.

Lemma wf_run_app : forall P b s1 s2 k,
  wf_run P b k (s1 ++ s2) = wf_run P b k s1 && wf_run P b (fst (run P b k s1)) s2.
Proof.
  intros P b s1. induction s1 as [|c s1 IH]; intros s2 k; cbn [app wf_run run fst]; auto.
  rewrite IH, andb_assoc. reflexivity.
Qed.

Lemma Inv_reach : forall P b hists s,
  params_ok P b = true -> repaired b = true -> wf_run P b (init hists) s = true ->
  Inv P b (fst (run P b (init hists) s)).
Proof. intros. apply Inv_run; auto. apply Inv_init. Qed.

(* the ghost status is a function of the OBSERVABLE trace only (Model: ghost_ev, status_after) *)
Lemma ghost_observable : forall P b s k,
  gh (fst (run P b k s)) = fold_left ghost_ev (snd (run P b k s)) (gh k).
Proof.
  intros P b s. induction s as [|c s IH]; intros k; cbn [run fst snd]; auto.
  rewrite IH. unfold sched_step.
  destruct (pick (cls k c)) as [[[[o n] pc] rest]|]; cbn [fst snd fold_left]; reflexivity.
Qed.

(* ------------------------------------------------------------------ one step from an invariant state *)
Section Step.
  Variables (P : params) (b : backend) (k : cfg) (c : cid) (e : event).
  Hypothesis Hok : params_ok P b = true.
  Hypothesis Hrep : repaired b = true.
  Hypothesis HI : Inv P b k.
  Hypothesis Hwf : wf_step k c = true.
  Hypothesis He : snd (sched_step P b k c) = Some e.
  Let k' := fst (sched_step P b k c).

  Lemma step_event : step_post P b k c (e_op e) (e_n e) (e_pc e).
  Proof.
    destruct (step_cases P b k c Hok Hrep HI Hwf) as [[Hs | [o [n [pc Hs]]]] _].
    - rewrite Hs in He. discriminate.
    - assert (Hs' := Hs). destruct Hs' as [e' [He' [_ [Ho [Hn [Hpc _]]]]]].
      rewrite He in He'. inversion He'; subst e'. subst. exact Hs.
  Qed.

  Lemma step_facts :
    e_c e = c /\
    match e_ret e with
    | None => (forall m, sh k' m = sh k m) /\ (forall m, gh k' m = gh k m)
    | Some r => r = snd (spec_op (e_op e) c (gh k (e_n e))) /\
                gh k' (e_n e) = fst (spec_op (e_op e) c (gh k (e_n e))) /\
                (forall m, m <> e_n e -> gh k' m = gh k m) /\ (forall m, m <> e_n e -> sh k' m = sh k m)
    end.
  Proof.
    destruct step_event as [e' [He' [Hc [_ [_ [_ H]]]]]].
    rewrite He in He'. inversion He'; subst e'. auto.
  Qed.

  (* T4: a step of an operation on another name changes nothing for this name *)
  Lemma step_other_name : forall n, e_n e <> n -> sh k' n = sh k n /\ gh k' n = gh k n.
  Proof.
    intros n Hn. destruct step_facts as [_ H]. destruct (e_ret e).
    - destruct H as [_ [_ [Hg Hs]]]. split; [apply Hs | apply Hg]; auto.
    - destruct H as [Hs Hg]. auto.
  Qed.

  (* how the status of any name can change in one step *)
  Lemma step_ghost : forall n,
    gh k' n = gh k n \/
    (e_n e = n /\ exists r, e_ret e = Some r /\ r = snd (spec_op (e_op e) c (gh k n)) /\
                            gh k' n = fst (spec_op (e_op e) c (gh k n))).
  Proof.
    intros n. destruct (Nat.eq_dec (e_n e) n) as [Hn | Hn].
    - destruct step_facts as [_ H]. destruct (e_ret e) as [r|].
      + right. split; auto. exists r. subst n. destruct H as [H1 [H2 _]]. auto.
      + left. apply H.
    - left. apply step_other_name; auto.
  Qed.

  Lemma step_wf_cond : wf_cond (e_op e) (e_pc e) c (gh k (e_n e)).
  Proof.
    unfold sched_step in He. destruct (pick (cls k c)) as [[[[o n] pc] rest]|] eqn:Hp; [|discriminate].
    cbn in He. inversion He; subst e; cbn. eapply wf_step_cond; eauto.
  Qed.

  Lemma step_release_pc0 : e_op e = ORelease -> e_pc e = 0.
  Proof.
    intros Ho. unfold sched_step in He.
    destruct (pick (cls k c)) as [[[[o n] pc] rest]|] eqn:Hp; [|discriminate].
    cbn in He. inversion He; subst e; cbn in *. subst o.
    destruct (pick_cases _ _ _ _ _ Hp) as [[Hc _] | [_ [H0 _]]]; auto.
    destruct HI as [_ Hcl]. destruct (Hcl _ _ _ _ Hc) as [_ [Hm _]].
    destruct b; cbn in Hm; contradiction.
  Qed.

  (* T1: while d holds n, every get on n that returns, returns False, and only d's own
     release / fail ends the tenure *)
  Lemma step_held : forall n d, gh k n = GHeld d ->
    (e_op e = OGet -> e_n e = n -> forall r, e_ret e = Some r -> r = OB false) /\
    (gh k' n = GHeld d \/ (e_c e = d /\ e_n e = n /\ (e_op e = ORelease \/ e_op e = OFail))).
  Proof.
    intros n d Hg. split.
    - intros Ho Hn r Hr. destruct step_facts as [_ H]. rewrite Hr in H. destruct H as [H _].
      rewrite Ho, Hn, Hg in H. exact H.
    - destruct (step_ghost n) as [H | [Hn [r [Hr [_ H]]]]]; [left; congruence|].
      rewrite Hg in H. destruct step_facts as [Hc _].
      assert (Hw := step_wf_cond). rewrite Hn, Hg in Hw.
      destruct (e_op e) eqn:Ho; cbn in H; auto.
      + right. assert (Hp := step_release_pc0 Ho). rewrite Hp in Hw. cbn in Hw.
        destruct Hw as [Hw | Hw]; [inversion Hw; subst; auto | discriminate].
      + right. destruct (e_pc e) eqn:Hpc.
        * cbn in Hw. destruct Hw as [Hw | Hw]; [inversion Hw; subst; auto | discriminate].
        * (* second primitive of redis fail: the invariant says c is the holder *)
          unfold sched_step in He.
          destruct (pick (cls k c)) as [[[[o nn] pc] rest]|] eqn:Hp; [|discriminate].
          cbn in He. inversion He; subst e; cbn in *. subst.
          destruct (pick_cases _ _ _ _ _ Hp) as [[Hcu _] | [_ [H0 _]]]; [|discriminate].
          destruct HI as [_ Hcl]. destruct (Hcl _ _ _ _ Hcu) as [_ [Hm Hgd]].
          destruct b; cbn in Hm; try contradiction. specialize (Hgd eq_refl).
          rewrite Hg in Hgd. inversion Hgd; subst. auto.
  Qed.

  (* T3: a failed lock is seen as locked and failed by everybody, cannot be acquired, and
     stays failed until a release begins *)
  Lemma step_failed : forall n, gh k n = GFailed ->
    sh k n = Some (failedv P b) /\
    (e_n e = n -> forall r, e_ret e = Some r ->
       (e_op e = OGet -> r = OB false) /\ (e_op e = OIsLocked -> r = OB true) /\
       (e_op e = OIsFailed -> r = OB true) /\ (e_op e = OFail -> r = OB true)) /\
    (gh k' n = GFailed \/ (e_n e = n /\ e_op e = ORelease)).
  Proof.
    intros n Hg. split; [|split].
    - destruct HI as [Hsh _]. rewrite Hsh, Hg. reflexivity.
    - intros Hn r Hr. destruct step_facts as [_ H]. rewrite Hr in H. destruct H as [H _].
      rewrite Hn, Hg in H. repeat split; intros Ho; rewrite Ho in H; exact H.
    - destruct (step_ghost n) as [H | [Hn [r [Hr [_ H]]]]]; [left; congruence|].
      rewrite Hg in H. destruct (e_op e) eqn:Ho; cbn in H; auto.
  Qed.

  (* T2 / T5: on a free lock the get that returns wins; the exclusive-create primitive succeeds;
     the lock stays free until some get returns True *)
  Lemma step_free : forall n, gh k n = GFree ->
    sh k n = None /\
    (e_n e = n -> forall r, e_ret e = Some r ->
       (e_op e = OGet -> r = OB true /\ gh k' n = GHeld c) /\
       (e_op e = OIsLocked -> r = OB false) /\ (e_op e = OIsFailed -> r = OB false)) /\
    (gh k' n = GFree \/ (e_n e = n /\ e_op e = OGet /\ e_ret e = Some (OB true) /\ gh k' n = GHeld c)).
  Proof.
    intros n Hg. split; [|split].
    - destruct HI as [Hsh _]. rewrite Hsh, Hg. reflexivity.
    - intros Hn r Hr. destruct step_facts as [_ H]. rewrite Hr in H. destruct H as [H [H2 _]].
      rewrite Hn, Hg in H, H2. split; [|split]; intros Ho; rewrite Ho in H, H2; cbn in H, H2; auto.
    - destruct (step_ghost n) as [H | [Hn [r [Hr [Hrv H]]]]]; [left; congruence|].
      rewrite Hg in H, Hrv. assert (Hw := step_wf_cond). rewrite Hn, Hg in Hw.
      destruct (e_op e) eqn:Ho; cbn in H, Hrv; auto.
      + right. subst r. auto.
  Qed.

  (* the second primitive of a fail (redis) is only ever executed by the holder *)
  Lemma step_mid_fail : e_op e = OFail -> e_pc e <> 0 -> gh k (e_n e) = GHeld c.
  Proof.
    intros Ho Hpc. unfold sched_step in He.
    destruct (pick (cls k c)) as [[[[o n] pc] rest]|] eqn:Hp; [|discriminate].
    cbn in He. inversion He; subst e; cbn in *. subst o.
    destruct (pick_cases _ _ _ _ _ Hp) as [[Hcu _] | [_ [H0 _]]]; [|contradiction].
    destruct HI as [_ Hcl]. destruct (Hcl _ _ _ _ Hcu) as [_ [Hm Hgd]].
    destruct b; cbn in Hm; try contradiction. auto.
  Qed.

  Lemma step_gh : forall m, gh k' m = ghost_ev (gh k) e m.
  Proof.
    intros m. unfold k'. unfold sched_step in *.
    destruct (pick (cls k c)) as [[[[o n] pc] rest]|]; [|discriminate].
    cbn in He. inversion He; subst e. reflexivity.
  Qed.
End Step.

Lemma step_none : forall P b k c, snd (sched_step P b k c) = None -> fst (sched_step P b k c) = k.
Proof.
  intros P b k c H. unfold sched_step in *.
  destruct (pick (cls k c)) as [[[[o n] pc] rest]|]; [discriminate | reflexivity].
Qed.

(* ================================================================== whole traces *)
(* what one event tells, relative to the observable status g before it *)
Definition ev_ok (g : name -> gst) (e : event) : Prop :=
  wf_cond (e_op e) (e_pc e) (e_c e) (g (e_n e)) /\
  (e_op e = ORelease -> e_pc e = 0) /\
  (e_op e = OFail -> e_pc e <> 0 -> g (e_n e) = GHeld (e_c e)) /\
  match e_ret e with
  | None => ghost_upd (g (e_n e)) (e_op e) (e_c e) (e_pc e) None = g (e_n e)
  | Some r => r = snd (spec_op (e_op e) (e_c e) (g (e_n e))) /\
              ghost_upd (g (e_n e)) (e_op e) (e_c e) (e_pc e) (Some r) = fst (spec_op (e_op e) (e_c e) (g (e_n e)))
  end.

Fixpoint trace_ok (g : name -> gst) (tr : list event) : Prop :=
  match tr with
  | [] => True
  | e :: r => ev_ok g e /\ trace_ok (ghost_ev g e) r
  end.

Lemma ghost_ev_same : forall g e,
  ghost_ev g e (e_n e) = ghost_upd (g (e_n e)) (e_op e) (e_c e) (e_pc e) (e_ret e).
Proof. intros. unfold ghost_ev. apply updg_same. Qed.

Lemma ghost_ev_other : forall g e n, e_n e <> n -> ghost_ev g e n = g n.
Proof. intros g e n H. unfold ghost_ev. apply updg_other. auto. Qed.

Lemma ghost_ev_ext : forall g g' e, (forall m, g m = g' m) -> forall m, ghost_ev g e m = ghost_ev g' e m.
Proof.
  intros g g' e H m. unfold ghost_ev, updg. destruct (Nat.eqb m (e_n e)); auto. now rewrite H.
Qed.

Lemma step_ev_ok : forall P b k c e g,
  params_ok P b = true -> repaired b = true -> Inv P b k -> wf_step k c = true ->
  snd (sched_step P b k c) = Some e -> (forall m, g m = gh k m) -> ev_ok g e.
Proof.
  intros P b k c e g Hok Hrep HI Hwf He Hg.
  destruct (step_facts P b k c e Hok Hrep HI Hwf He) as [Hc Hf].
  unfold ev_ok. rewrite Hg, Hc.
  split; [eapply step_wf_cond; eauto|].
  split; [eapply step_release_pc0; eauto|].
  split; [eapply step_mid_fail; eauto|].
  assert (Hgh : gh (fst (sched_step P b k c)) (e_n e) = ghost_ev (gh k) e (e_n e)) by (eapply step_gh; eauto).
  rewrite ghost_ev_same, Hc in Hgh.
  destruct (e_ret e) as [r|].
  - destruct Hf as [Hr [Hg' _]]. split; auto. rewrite <- Hgh. exact Hg'.
  - destruct Hf as [_ Hg']. rewrite <- Hgh. apply Hg'.
Qed.

Lemma run_trace_ok : forall P b s k g,
  params_ok P b = true -> repaired b = true -> Inv P b k -> wf_run P b k s = true ->
  (forall m, g m = gh k m) -> trace_ok g (snd (run P b k s)).
Proof.
  intros P b s. induction s as [|c s IH]; intros k g Hok Hrep HI Hwf Hg; cbn [run snd fst]; [exact I|].
  cbn [wf_run] in Hwf. apply andb_prop in Hwf. destruct Hwf as [Hw1 Hw2].
  destruct (step_cases P b k c Hok Hrep HI Hw1) as [_ HI'].
  destruct (snd (sched_step P b k c)) as [e|] eqn:He.
  - cbn [trace_ok]. split; [apply (step_ev_ok P b k c e g); auto|].
    apply IH with (k := fst (sched_step P b k c)); auto.
    intros m. rewrite (step_gh P b k c e He m). apply ghost_ev_ext. exact Hg.
  - apply IH with (k := fst (sched_step P b k c)); auto.
    intros m. rewrite (step_none P b k c He). apply Hg.
Qed.

Lemma trace_ok_init : forall P b hists s,
  params_ok P b = true -> repaired b = true -> wf_run P b (init hists) s = true ->
  trace_ok all_free (trace_of P b hists s).
Proof.
  intros. unfold trace_of. apply run_trace_ok; auto. apply Inv_init.
Qed.

Lemma trace_ok_app : forall a b g, trace_ok g (a ++ b) -> trace_ok g a /\ trace_ok (fold_left ghost_ev a g) b.
Proof.
  induction a as [|x a IH]; intros b g H; cbn in *; auto.
  destruct H as [Hx H]. destruct (IH _ _ H) as [H1 H2]. auto.
Qed.

Lemma lockop_eqb_eq : forall a b, lockop_eqb a b = true -> a = b.
Proof.
  intros [] []; cbn; intros; try discriminate; try reflexivity.
  match goal with H : (_ =? _)%Z = true |- _ => apply Z.eqb_eq in H; subst end. reflexivity.
Qed.

Lemma oores_true : forall x, oores_eqb x (Some (OB true)) = true -> x = Some (OB true).
Proof. intros [[[]| |]|]; cbn; intros; try discriminate; reflexivity. Qed.

Lemma ores_eqb_refl : forall x, ores_eqb x x = true.
Proof. intros [[]| |]; reflexivity. Qed.

(* ---- the three statuses persist as long as nothing ends them *)
Lemma held_kept : forall n c tr g,
  trace_ok g tr -> g n = GHeld c ->
  (forall x, In x tr -> ~ (e_c x = c /\ e_n x = n /\ (e_op x = ORelease \/ e_op x = OFail))) ->
  fold_left ghost_ev tr g n = GHeld c.
Proof.
  intros n c tr. induction tr as [|a tr IH]; intros g Hok Hg Hno; cbn [fold_left]; auto.
  destruct Hok as [Hev Hrest]. apply IH; auto; [|intros x Hx; apply Hno; right; exact Hx].
  destruct (Nat.eq_dec (e_n a) n) as [Hn | Hn]; [|rewrite ghost_ev_other; auto].
  assert (Hno' := Hno a (or_introl eq_refl)).
  subst n. rewrite ghost_ev_same. destruct Hev as (Hwf & Hrel & Hmid & Hret). rewrite Hg in *.
  destruct (e_op a) eqn:Ho; cbn [ghost_upd]; auto.
  - destruct (e_ret a) as [r|]; auto. destruct Hret as [Hr _]. cbn in Hr. subst r. reflexivity.
  - exfalso. rewrite (Hrel eq_refl) in Hwf. cbn in Hwf.
    destruct Hwf as [Hw | Hw]; [|discriminate]. inversion Hw. apply Hno'. auto.
  - exfalso. destruct (e_pc a) eqn:Hpc.
    + cbn in Hwf. destruct Hwf as [Hw | Hw]; [|discriminate]. inversion Hw. apply Hno'. auto.
    + assert (Hw : GHeld c = GHeld (e_c a)) by (apply Hmid; auto). inversion Hw. apply Hno'. auto.
Qed.

Lemma failed_kept : forall n tr g,
  trace_ok g tr -> g n = GFailed ->
  (forall x, In x tr -> ~ (e_n x = n /\ e_op x = ORelease)) ->
  fold_left ghost_ev tr g n = GFailed.
Proof.
  intros n tr. induction tr as [|a tr IH]; intros g Hok Hg Hno; cbn [fold_left]; auto.
  destruct Hok as [Hev Hrest]. apply IH; auto; [|intros x Hx; apply Hno; right; exact Hx].
  destruct (Nat.eq_dec (e_n a) n) as [Hn | Hn]; [|rewrite ghost_ev_other; auto].
  assert (Hno' := Hno a (or_introl eq_refl)).
  subst n. rewrite ghost_ev_same. destruct Hev as (Hwf & Hrel & Hmid & Hret). rewrite Hg in *.
  destruct (e_op a) eqn:Ho; cbn [ghost_upd]; auto.
  - destruct (e_ret a) as [r|]; auto. destruct Hret as [Hr _]. cbn in Hr. subst r. reflexivity.
  - exfalso. apply Hno'. auto.
  - destruct (e_ret a) as [[[]| |]|]; reflexivity.
Qed.

Lemma free_kept : forall n tr g,
  trace_ok g tr -> g n = GFree ->
  (forall x, In x tr -> e_n x = n -> e_op x = OGet -> e_ret x = None) ->
  fold_left ghost_ev tr g n = GFree.
Proof.
  intros n tr. induction tr as [|a tr IH]; intros g Hok Hg Hno; cbn [fold_left]; auto.
  destruct Hok as [Hev Hrest]. apply IH; auto; [|intros x Hx; apply Hno; right; exact Hx].
  destruct (Nat.eq_dec (e_n a) n) as [Hn | Hn]; [|rewrite ghost_ev_other; auto].
  assert (Hno' := Hno a (or_introl eq_refl) Hn).
  subst n. rewrite ghost_ev_same. destruct Hev as (Hwf & Hrel & Hmid & Hret). rewrite Hg in *.
  destruct (e_op a) eqn:Ho; cbn [ghost_upd]; auto.
  - rewrite (Hno' eq_refl). reflexivity.
  - exfalso. rewrite (Hrel eq_refl) in Hwf. cbn in Hwf. destruct Hwf; discriminate.
  - exfalso. destruct (e_pc a) eqn:Hpc.
    + cbn in Hwf. destruct Hwf; discriminate.
    + assert (Hw : GFree = GHeld (e_c a)) by (apply Hmid; auto). discriminate.
Qed.

(* ---- T1 *)
Lemma trace_exclusion : forall g0 tr1 e1 tr2 e2 tr3 n c r,
  trace_ok g0 (tr1 ++ e1 :: tr2 ++ e2 :: tr3) ->
  e_op e1 = OGet -> e_n e1 = n -> e_c e1 = c -> e_ret e1 = Some (OB true) ->
  (forall x, In x tr2 -> ~ (e_c x = c /\ e_n x = n /\ (e_op x = ORelease \/ e_op x = OFail))) ->
  e_op e2 = OGet -> e_n e2 = n -> e_ret e2 = Some r -> r = OB false.
Proof.
  intros g0 tr1 e1 tr2 e2 tr3 n c r Hok Ho1 Hn1 Hc1 Hr1 Hno Ho2 Hn2 Hr2.
  apply trace_ok_app in Hok. destruct Hok as [_ Hok]. cbn [trace_ok] in Hok. destruct Hok as [_ Hok].
  apply trace_ok_app in Hok. destruct Hok as [Hok2 Hok3]. cbn [trace_ok] in Hok3. destruct Hok3 as [Hev _].
  set (g1 := fold_left ghost_ev tr1 g0) in *.
  assert (Hg : ghost_ev g1 e1 n = GHeld c).
  { subst n. rewrite ghost_ev_same, Ho1, Hr1, Hc1. reflexivity. }
  assert (Hk := held_kept n c tr2 _ Hok2 Hg Hno).
  destruct Hev as (_ & _ & _ & Hret). rewrite Hr2, Hn2, Hk, Ho2 in Hret. destruct Hret as [Hr _]. exact Hr.
Qed.

(* ---- T2 / T5: a free lock is won by the first get that returns *)
Lemma free_then_get_wins : forall g tr2 e tr3 n r,
  trace_ok g (tr2 ++ e :: tr3) -> g n = GFree ->
  (forall x, In x tr2 -> e_n x = n -> e_op x = OGet -> e_ret x = None) ->
  e_op e = OGet -> e_n e = n -> e_ret e = Some r -> r = OB true.
Proof.
  intros g tr2 e tr3 n r Hok Hg Hno Ho Hn Hr.
  apply trace_ok_app in Hok. destruct Hok as [Hok2 Hok3]. cbn [trace_ok] in Hok3. destruct Hok3 as [Hev _].
  assert (Hk := free_kept n tr2 g Hok2 Hg Hno).
  destruct Hev as (_ & _ & _ & Hret). rewrite Hr, Hn, Hk, Ho in Hret. destruct Hret as [Hr' _]. exact Hr'.
Qed.

Lemma trace_free_get_wins : forall g0 tr1 tr2 e tr3 n r,
  trace_ok g0 (tr1 ++ tr2 ++ e :: tr3) -> fold_left ghost_ev tr1 g0 n = GFree ->
  (forall x, In x tr2 -> e_n x = n -> e_op x = OGet -> e_ret x = None) ->
  e_op e = OGet -> e_n e = n -> e_ret e = Some r -> r = OB true.
Proof.
  intros g0 tr1 tr2 e tr3 n r Hok Hg Hno Ho Hn Hr.
  apply trace_ok_app in Hok. destruct Hok as [_ Hok].
  eapply free_then_get_wins; eauto.
Qed.

Lemma trace_reacquire : forall g0 tr1 e1 tr2 e2 tr3 n r,
  trace_ok g0 (tr1 ++ e1 :: tr2 ++ e2 :: tr3) ->
  e_op e1 = ORelease -> e_n e1 = n ->
  (forall x, In x tr2 -> e_n x = n -> e_op x = OGet -> e_ret x = None) ->
  e_op e2 = OGet -> e_n e2 = n -> e_ret e2 = Some r -> r = OB true.
Proof.
  intros g0 tr1 e1 tr2 e2 tr3 n r Hok Ho1 Hn1 Hno Ho2 Hn2 Hr2.
  apply trace_ok_app in Hok. destruct Hok as [_ Hok]. cbn [trace_ok] in Hok. destruct Hok as [Hev1 Hok].
  eapply free_then_get_wins; eauto.
  subst n. rewrite ghost_ev_same, Ho1. destruct Hev1 as (_ & Hrel & _). rewrite (Hrel Ho1). reflexivity.
Qed.

(* ---- T2: exactly one winner *)
Lemma get_won_inv : forall n e, get_won n e = true -> e_n e = n /\ e_op e = OGet /\ e_ret e = Some (OB true).
Proof.
  intros n e H. unfold get_won, ev_on in H.
  apply andb_prop in H. destruct H as [H H3]. apply andb_prop in H. destruct H as [H1 H2].
  apply Nat.eqb_eq in H1. apply lockop_eqb_eq in H2. apply oores_true in H3. auto.
Qed.

Lemma get_returned_false : forall n e, get_returned n e = false -> e_n e = n -> e_op e = OGet -> e_ret e = None.
Proof.
  intros n e H Hn Ho. unfold get_returned, ev_on in H. rewrite Hn, Ho, Nat.eqb_refl in H. cbn in H.
  destruct (e_ret e); [discriminate | reflexivity].
Qed.

Lemma get_returned_inv : forall n e, get_returned n e = true -> e_n e = n /\ e_op e = OGet /\ exists r, e_ret e = Some r.
Proof.
  intros n e H. unfold get_returned, ev_on in H.
  apply andb_prop in H. destruct H as [H H3]. apply andb_prop in H. destruct H as [H1 H2].
  apply Nat.eqb_eq in H1. apply lockop_eqb_eq in H2. destruct (e_ret e) as [r|]; [|discriminate]. eauto.
Qed.

Lemma no_win_while_held : forall n c tr g,
  trace_ok g tr -> g n = GHeld c ->
  (forall x, In x tr -> e_n x = n -> e_op x <> ORelease /\ e_op x <> OFail) ->
  filter (get_won n) tr = [].
Proof.
  intros n c tr. induction tr as [|a tr IH]; intros g Hok Hg Hno; cbn [filter]; auto.
  assert (Hstay : ghost_ev g a n = GHeld c).
  { apply (held_kept n c [a] g); auto.
    - cbn [trace_ok] in *. destruct Hok; auto.
    - intros x [Hx | []] (_ & Hn & Hop). subst x.
      destruct (Hno a (or_introl eq_refl) Hn) as [H1 H2]. destruct Hop; contradiction. }
  destruct Hok as [Hev Hrest].
  destruct (get_won n a) eqn:W.
  - exfalso. apply get_won_inv in W. destruct W as (Hn & Ho & Hr).
    destruct Hev as (_ & _ & _ & Hret). rewrite Hr, Hn, Hg, Ho in Hret. destruct Hret as [Hret _]. discriminate.
  - apply (IH (ghost_ev g a)); auto. intros x Hx. apply Hno. right. exact Hx.
Qed.

Lemma one_winner : forall n tr g,
  trace_ok g tr -> g n = GFree ->
  (forall x, In x tr -> e_n x = n -> e_op x <> ORelease /\ e_op x <> OFail) ->
  length (filter (get_won n) tr) <= 1 /\
  (existsb (get_returned n) tr = true -> length (filter (get_won n) tr) = 1).
Proof.
  intros n tr. induction tr as [|a tr IH]; intros g Hok Hg Hno; cbn [filter existsb].
  - split; [cbn; lia | discriminate].
  - assert (Hno' : forall x, In x tr -> e_n x = n -> e_op x <> ORelease /\ e_op x <> OFail)
      by (intros x Hx; apply Hno; right; exact Hx).
    destruct (get_returned n a) eqn:R.
    + apply get_returned_inv in R. destruct R as (Hn & Ho & r & Hr).
      destruct Hok as [Hev Hrest]. assert (Hev' := Hev).
      destruct Hev' as (_ & _ & _ & Hret). rewrite Hr, Hn, Hg, Ho in Hret. cbn in Hret. destruct Hret as [Hrv _]. subst r.
      assert (W : get_won n a = true).
      { unfold get_won, ev_on. rewrite Hn, Ho, Hr, Nat.eqb_refl. reflexivity. }
      rewrite W.
      assert (Hg' : ghost_ev g a n = GHeld (e_c a)).
      { subst n. rewrite ghost_ev_same, Ho, Hr. reflexivity. }
      rewrite (no_win_while_held n (e_c a) tr _ Hrest Hg' Hno'). cbn. split; [lia | reflexivity].
    + assert (W : get_won n a = false).
      { destruct (get_won n a) eqn:W; auto. apply get_won_inv in W. destruct W as (Hn & Ho & Hr).
        rewrite (get_returned_false n a R Hn Ho) in Hr. discriminate. }
      rewrite W. cbn [orb].
      assert (Hg' : ghost_ev g a n = GFree).
      { apply (free_kept n [a] g); auto.
        - cbn [trace_ok] in *. destruct Hok; auto.
        - intros x [Hx | []] Hn Ho. subst x. apply (get_returned_false n a R Hn Ho). }
      destruct Hok as [Hev Hrest]. apply (IH (ghost_ev g a)); auto.
Qed.

Lemma trace_one_winner : forall g0 tr1 tr2 n,
  trace_ok g0 (tr1 ++ tr2) -> fold_left ghost_ev tr1 g0 n = GFree ->
  (forall x, In x tr2 -> e_n x = n -> e_op x <> ORelease /\ e_op x <> OFail) ->
  length (filter (get_won n) tr2) <= 1 /\
  (existsb (get_returned n) tr2 = true -> length (filter (get_won n) tr2) = 1).
Proof.
  intros g0 tr1 tr2 n Hok Hg Hno. apply trace_ok_app in Hok. destruct Hok as [_ Hok].
  eapply one_winner; eauto.
Qed.

(* ---- T3 *)
Lemma trace_failed_sticky : forall g0 tr1 e1 tr2 e2 tr3 n r,
  trace_ok g0 (tr1 ++ e1 :: tr2 ++ e2 :: tr3) ->
  e_op e1 = OFail -> e_n e1 = n -> e_ret e1 = Some (OB true) ->
  (forall x, In x tr2 -> ~ (e_n x = n /\ e_op x = ORelease)) ->
  e_n e2 = n -> e_ret e2 = Some r ->
  (e_op e2 = OGet -> r = OB false) /\ (e_op e2 = OIsLocked -> r = OB true) /\
  (e_op e2 = OIsFailed -> r = OB true) /\ (e_op e2 = OFail -> r = OB true).
Proof.
  intros g0 tr1 e1 tr2 e2 tr3 n r Hok Ho1 Hn1 Hr1 Hno Hn2 Hr2.
  apply trace_ok_app in Hok. destruct Hok as [_ Hok]. cbn [trace_ok] in Hok. destruct Hok as [_ Hok].
  apply trace_ok_app in Hok. destruct Hok as [Hok2 Hok3]. cbn [trace_ok] in Hok3. destruct Hok3 as [Hev _].
  set (g1 := fold_left ghost_ev tr1 g0) in *.
  assert (Hg : ghost_ev g1 e1 n = GFailed).
  { subst n. rewrite ghost_ev_same, Ho1, Hr1. reflexivity. }
  assert (Hk := failed_kept n tr2 _ Hok2 Hg Hno).
  destruct Hev as (_ & _ & _ & Hret). rewrite Hr2, Hn2, Hk in Hret. destruct Hret as [Hr _].
  repeat split; intros Ho; rewrite Ho in Hr; exact Hr.
Qed.

(* ---- T6 / T4: the trace is a sequential run of the atomic specification *)
Lemma spec_of_trace_ok : forall tr g g',
  (forall m, g m = g' m) -> trace_ok g tr ->
  spec_accepts g' tr = true /\ (forall m, spec_final g' tr m = fold_left ghost_ev tr g m).
Proof.
  induction tr as [|e tr IH]; intros g g' Hext Hok; cbn [spec_accepts spec_final fold_left].
  - split; auto.
  - destruct Hok as [Hev Hrest]. destruct Hev as (_ & _ & _ & Hret).
    destruct (e_ret e) as [v|] eqn:Hr.
    + destruct Hret as [Hv Hg]. rewrite <- (Hext (e_n e)). rewrite <- Hv, ores_eqb_refl. cbn [andb].
      apply (IH (ghost_ev g e)); auto.
      intros m. unfold ghost_ev, updg. destruct (Nat.eqb m (e_n e)); auto. rewrite Hr. exact Hg.
    + apply (IH (ghost_ev g e)); auto.
      intros m. unfold ghost_ev, updg. destruct (Nat.eqb m (e_n e)) eqn:E; auto.
      apply Nat.eqb_eq in E. subst m. rewrite Hr, Hret. apply Hext.
Qed.

Lemma spec_accepts_name : forall tr g n,
  spec_accepts g tr = true -> spec_accepts1 (g n) (filter (ev_on n) tr) = true.
Proof.
  induction tr as [|e tr IH]; intros g n H; cbn [filter spec_accepts spec_accepts1] in *; auto.
  unfold ev_on at 1. destruct (Nat.eqb (e_n e) n) eqn:E.
  - apply Nat.eqb_eq in E. cbn [spec_accepts1]. destruct (e_ret e) as [v|]; [|apply IH; exact H].
    apply andb_prop in H. destruct H as [H1 H2]. subst n. rewrite H1. cbn [andb].
    specialize (IH _ (e_n e) H2). rewrite updg_same in IH. exact IH.
  - apply Nat.eqb_neq in E. destruct (e_ret e) as [v|]; [|apply IH; exact H].
    apply andb_prop in H. destruct H as [_ H2].
    specialize (IH _ n H2). rewrite updg_other in IH by auto. exact IH.
Qed.

(* ================================================================== theorems about runs *)
Section Runs.
  Variables (P : params) (b : backend) (hists : list (list (lockop * name))) (s : list cid).
  Hypothesis Hok : params_ok P b = true.
  Hypothesis Hrep : repaired b = true.
  Hypothesis Hwf : wf_run P b (init hists) s = true.
  Let tr := trace_of P b hists s.

  Lemma Htr : trace_ok all_free tr.
  Proof. apply trace_ok_init; auto. Qed.

  Lemma run_exclusion : forall tr1 e1 tr2 e2 tr3 n c r,
    tr = tr1 ++ e1 :: tr2 ++ e2 :: tr3 ->
    e_op e1 = OGet -> e_n e1 = n -> e_c e1 = c -> e_ret e1 = Some (OB true) ->
    (forall x, In x tr2 -> ~ (e_c x = c /\ e_n x = n /\ (e_op x = ORelease \/ e_op x = OFail))) ->
    e_op e2 = OGet -> e_n e2 = n -> e_ret e2 = Some r -> r = OB false.
  Proof. intros tr1 e1 tr2 e2 tr3 n c r E. assert (H := Htr). rewrite E in H. eapply trace_exclusion; eauto. Qed.

  Lemma run_free_get_wins : forall tr1 tr2 e tr3 n r,
    tr = tr1 ++ tr2 ++ e :: tr3 -> status_after tr1 n = GFree ->
    (forall x, In x tr2 -> e_n x = n -> e_op x = OGet -> e_ret x = None) ->
    e_op e = OGet -> e_n e = n -> e_ret e = Some r -> r = OB true.
  Proof. intros tr1 tr2 e tr3 n r E. assert (H := Htr). rewrite E in H. eapply trace_free_get_wins; eauto. Qed.

  Lemma run_one_winner : forall tr1 tr2 n,
    tr = tr1 ++ tr2 -> status_after tr1 n = GFree ->
    (forall x, In x tr2 -> e_n x = n -> e_op x <> ORelease /\ e_op x <> OFail) ->
    length (filter (get_won n) tr2) <= 1 /\
    (existsb (get_returned n) tr2 = true -> length (filter (get_won n) tr2) = 1).
  Proof. intros tr1 tr2 n E. assert (H := Htr). rewrite E in H. eapply trace_one_winner; eauto. Qed.

  Lemma run_failed_sticky : forall tr1 e1 tr2 e2 tr3 n r,
    tr = tr1 ++ e1 :: tr2 ++ e2 :: tr3 ->
    e_op e1 = OFail -> e_n e1 = n -> e_ret e1 = Some (OB true) ->
    (forall x, In x tr2 -> ~ (e_n x = n /\ e_op x = ORelease)) ->
    e_n e2 = n -> e_ret e2 = Some r ->
    (e_op e2 = OGet -> r = OB false) /\ (e_op e2 = OIsLocked -> r = OB true) /\
    (e_op e2 = OIsFailed -> r = OB true) /\ (e_op e2 = OFail -> r = OB true).
  Proof. intros tr1 e1 tr2 e2 tr3 n r E. assert (H := Htr). rewrite E in H. eapply trace_failed_sticky; eauto. Qed.

  Lemma run_reacquire : forall tr1 e1 tr2 e2 tr3 n r,
    tr = tr1 ++ e1 :: tr2 ++ e2 :: tr3 ->
    e_op e1 = ORelease -> e_n e1 = n ->
    (forall x, In x tr2 -> e_n x = n -> e_op x = OGet -> e_ret x = None) ->
    e_op e2 = OGet -> e_n e2 = n -> e_ret e2 = Some r -> r = OB true.
  Proof. intros tr1 e1 tr2 e2 tr3 n r E. assert (H := Htr). rewrite E in H. eapply trace_reacquire; eauto. Qed.

  Lemma run_linearizable :
    spec_accepts all_free tr = true /\
    (forall n, spec_final all_free tr n = status_after tr n) /\
    (forall n, sh (cfg_after P b hists s) n = repr P b (spec_final all_free tr n)).
  Proof.
    destruct (spec_of_trace_ok tr all_free all_free (fun m => eq_refl) Htr) as [H1 H2].
    split; auto. split; [exact H2|].
    intros n. rewrite H2. unfold status_after, tr, trace_of, cfg_after.
    destruct (Inv_reach P b hists s Hok Hrep Hwf) as [Hsh _]. rewrite Hsh, ghost_observable. reflexivity.
  Qed.

  Lemma run_per_name : forall n, spec_accepts1 GFree (filter (ev_on n) tr) = true.
  Proof.
    intros n. destruct run_linearizable as [H _]. apply (spec_accepts_name tr all_free n H).
  Qed.

  (* at every primitive boundary of the run the store holds exactly the observable status *)
  Lemma run_store_status : forall s1 s2 n, s = s1 ++ s2 ->
    sh (cfg_after P b hists s1) n = repr P b (status_after (trace_of P b hists s1) n).
  Proof.
    intros s1 s2 n E. rewrite E, wf_run_app in Hwf. apply andb_prop in Hwf. destruct Hwf as [Hw1 _].
    unfold status_after, trace_of, cfg_after.
    destruct (Inv_reach P b hists s1 Hok Hrep Hw1) as [Hsh _]. rewrite Hsh, ghost_observable. reflexivity.
  Qed.

  (* one primitive: a non-final one changes nothing at all; a final one nothing for other names *)
  Lemma run_step_frame : forall s1 c s2 e, s = s1 ++ c :: s2 ->
    let k := cfg_after P b hists s1 in
    let k' := fst (sched_step P b k c) in
    snd (sched_step P b k c) = Some e ->
    (e_ret e = None -> forall m, sh k' m = sh k m) /\
    (forall m, m <> e_n e -> sh k' m = sh k m /\ status_after (trace_of P b hists s1 ++ [e]) m = status_after (trace_of P b hists s1) m).
  Proof.
    intros s1 c s2 e E k k' He. rewrite E, wf_run_app in Hwf. apply andb_prop in Hwf. destruct Hwf as [Hw1 Hw2].
    cbn [wf_run] in Hw2. apply andb_prop in Hw2. destruct Hw2 as [Hwc _].
    assert (HI := Inv_reach P b hists s1 Hok Hrep Hw1).
    destruct (step_facts P b k c e Hok Hrep HI Hwc He) as [_ Hf].
    split.
    - intros Hr. rewrite Hr in Hf. apply Hf.
    - intros m Hm. split.
      + destruct (step_other_name P b k c e Hok Hrep HI Hwc He m) as [H _]; auto.
      + unfold status_after. rewrite fold_left_app. cbn [fold_left]. apply ghost_ev_other. auto.
  Qed.
End Runs.

(* ------------------------------------------------------------------ time passes *)
(* a "time passes" step (operation OTick d of any client, at any point of any run, on ANY backend and
   for any constants) issues the primitive PTick d, returns, and changes neither the store nor the
   status of any lock *)
Lemma ghost_ev_tick : forall g e d m, e_op e = OTick d -> ghost_ev g e m = g m.
Proof.
  intros g e d m H. unfold ghost_ev. rewrite H. cbn [ghost_upd]. unfold updg.
  destruct (Nat.eqb m (e_n e)) eqn:E; auto. apply Nat.eqb_eq in E. now subst.
Qed.

Lemma tick_step : forall P b k c e d,
  snd (sched_step P b k c) = Some e -> e_op e = OTick d ->
  e_prim e = PTick d /\ e_resp e = RU /\ e_ret e = Some OU /\
  (forall m, sh (fst (sched_step P b k c)) m = sh k m) /\
  (forall m, gh (fst (sched_step P b k c)) m = gh k m).
Proof.
  intros P b k c e d He Ho. unfold sched_step in *.
  destruct (pick (cls k c)) as [[[[o n] pc] rest]|]; [|discriminate He].
  assert (Hop : o = OTick d).
  { destruct (op_next P b o pc (snd (runp P (sh k) (op_prim P b o n pc)))); cbn in He; inversion He; subst e; exact Ho. }
  subst o.
  assert (Hp : op_prim P b (OTick d) n pc = PTick d) by (destruct b; reflexivity).
  rewrite Hp in *. cbn [runp fst snd] in *.
  assert (Hn : op_next P b (OTick d) pc RU = Done OU) by (destruct b; try reflexivity; destruct pc; reflexivity).
  rewrite Hn in *. cbn [fst snd] in *. inversion He; subst e. cbn.
  repeat split; auto.
  intros m. unfold updg. destruct (Nat.eqb m n) eqn:E; auto. apply Nat.eqb_eq in E. now subst.
Qed.

Lemma status_after_snoc : forall tr e m, status_after (tr ++ [e]) m = ghost_ev (status_after tr) e m.
Proof. intros. unfold status_after. rewrite fold_left_app. reflexivity. Qed.

Theorem run_time_passes : forall P b hists s1 c e d,
  let k := cfg_after P b hists s1 in
  let k' := fst (sched_step P b k c) in
  snd (sched_step P b k c) = Some e -> e_op e = OTick d ->
  e_prim e = PTick d /\ e_ret e = Some OU /\
  (forall m, sh k' m = sh k m) /\
  (forall m, status_after (trace_of P b hists s1 ++ [e]) m = status_after (trace_of P b hists s1) m).
Proof.
  intros P b hists s1 c e d k k' He Ho.
  destruct (tick_step P b k c e d He Ho) as (H1 & _ & H3 & H4 & _).
  repeat split; auto. intros m. rewrite status_after_snoc. apply (ghost_ev_tick _ e d m Ho).
Qed.

(* ------------------------------------------------------------------ the store is reopened *)
(* a reopen step (operation OReopen, at any point of any run, on ANY backend and for any constants)
   issues the primitive PReopen, returns, and changes neither the store nor the status of any lock *)
Lemma ghost_ev_reopen : forall g e m, e_op e = OReopen -> ghost_ev g e m = g m.
Proof.
  intros g e m H. unfold ghost_ev. rewrite H. cbn [ghost_upd]. unfold updg.
  destruct (Nat.eqb m (e_n e)) eqn:E; auto. apply Nat.eqb_eq in E. now subst.
Qed.

Lemma reopen_step : forall P b k c e,
  snd (sched_step P b k c) = Some e -> e_op e = OReopen ->
  e_prim e = PReopen /\ e_resp e = RU /\ e_ret e = Some OU /\
  (forall m, sh (fst (sched_step P b k c)) m = sh k m) /\
  (forall m, gh (fst (sched_step P b k c)) m = gh k m).
Proof.
  intros P b k c e He Ho. unfold sched_step in *.
  destruct (pick (cls k c)) as [[[[o n] pc] rest]|]; [|discriminate He].
  assert (Hop : o = OReopen).
  { destruct (op_next P b o pc (snd (runp P (sh k) (op_prim P b o n pc)))); cbn in He; inversion He; subst e; exact Ho. }
  subst o.
  assert (Hp : op_prim P b OReopen n pc = PReopen) by (destruct b; reflexivity).
  rewrite Hp in *. cbn [runp fst snd] in *.
  assert (Hn : op_next P b OReopen pc RU = Done OU) by (destruct b; try reflexivity; destruct pc; reflexivity).
  rewrite Hn in *. cbn [fst snd] in *. inversion He; subst e. cbn.
  repeat split; auto.
  intros m. unfold updg. destruct (Nat.eqb m n) eqn:E; auto. apply Nat.eqb_eq in E. now subst.
Qed.

Theorem run_reopen : forall P b hists s1 c e,
  let k := cfg_after P b hists s1 in
  let k' := fst (sched_step P b k c) in
  snd (sched_step P b k c) = Some e -> e_op e = OReopen ->
  e_prim e = PReopen /\ e_ret e = Some OU /\
  (forall m, sh k' m = sh k m) /\
  (forall m, status_after (trace_of P b hists s1 ++ [e]) m = status_after (trace_of P b hists s1) m).
Proof.
  intros P b hists s1 c e k k' He Ho.
  destruct (reopen_step P b k c e He Ho) as (H1 & _ & H3 & H4 & _).
  repeat split; auto. intros m. rewrite status_after_snoc. apply (ghost_ev_reopen _ e m Ho).
Qed.
