(* C14 x the execution protocol: why barriers may be modelled as EXTRA SCHEDULING DEPENDENCIES.

   Model/ExecCase.v [bprogram] gives every task of the sequential unfolding of a jugfile a list of extra
   dependencies ([bp_extra]): the tasks defined before the last barrier() in front of it and the tasks
   under the argument of every bvalue() in front of it; Props/C14.v's many-worker theorems are about the
   protocol with these edges.  Here the edges are computed from the loader's own model (Model/Loader.v:
   the recorded sequential path [spine] of a jugfile) and shown to be exactly what loading does: on ANY
   store, the tasks that loading the jugfile puts into alltasks are the tasks all of whose extra
   dependencies are stored.  So "a worker can only execute what it loaded" = "a task waits for its extra
   dependencies".  (Paths without CompoundTask; compounds are C18's subject.) *)
From Coq Require Import List Arith Bool PArith.
From JugV Require Import Model.Loader Proofs.LoaderFacts.
Import ListNotations.

Fixpoint compound_free (s : spine) : bool :=
  match s with
  | SRet _ _ => true
  | SDef _ _ s' | SMark _ s' | SBar s' | SBV _ _ s' => compound_free s'
  | SComp _ _ _ _ _ => false
  end.

(* [defd]: hashes of the tasks defined so far; [bar]: what every later task waits for *)
Fixpoint extras (s : spine) (defd bar : list tid) : list (tid * list tid) :=
  match s with
  | SRet _ _ => []
  | SDef t _ s' => (tid_of t, bar) :: extras s' (tid_of t :: defd) bar
  | SMark _ s' => extras s' defd bar
  | SBar s' => extras s' defd (defd ++ bar)
  | SBV a _ s' => extras s' defd (atids a ++ bar)
  | SComp _ _ _ _ _ => []
  end.

Definition satisfied (st : store) (ex : list tid) : Prop := forall u, In u ex -> stored st u = true.

Lemma extras_grow : forall s defd bar t ex, In (t, ex) (extras s defd bar) -> incl bar ex.
Proof.
  induction s as [r v|t0 v s IH|m s IH|s IH|a v s IH|h cargs sb IHb v s IH]; intros defd bar t ex H; simpl in H.
  - contradiction.
  - destruct H as [H|H]; [inversion H; subst; apply incl_refl | eapply IH; eauto].
  - eapply IH; eauto.
  - apply IH in H. intros u Hu. apply H. apply in_or_app. now right.
  - apply IH in H. intros u Hu. apply H. apply in_or_app. now right.
  - contradiction.
Qed.

Lemma stored_lookup : forall st t, stored st t = true <-> exists w, lookup st t = Some w.
Proof.
  intros st t. unfold stored. destruct (lookup st t); split; intros H; eauto; try discriminate.
  destruct H; discriminate.
Qed.

Definition loaded_ids (st : store) (s : spine) (tr : list ev) : list tid :=
  map tid_of (tasks_rev (fst (sload st s tr))).

Lemma loader_is_extras : forall s, compound_free s = true ->
  forall st tr bar, satisfied st bar ->
  forall t, In t (loaded_ids st s tr) <->
            In t (map tid_of (tasks_rev tr)) \/
            exists ex, In (t, ex) (extras s (map tid_of (tasks_rev tr)) bar) /\ satisfied st ex.
Proof.
  unfold loaded_ids.
  induction s as [r v|t0 v s IH|m s IH|s IH|a v s IH|h cargs sb IHb v s IH]; intros CF st tr bar Hb t; simpl in CF.
  - simpl. split; [auto | intros [H|[ex [[] _]]]; auto].
  - simpl sload. rewrite (IH CF st (ETask t0 :: tr) bar Hb). simpl tasks_rev. simpl map. simpl extras. split.
    + intros [[H|H]|[ex [H S]]].
      * right. exists bar. split; [left; congruence | exact Hb].
      * now left.
      * right. exists ex. split; [now right | exact S].
    + intros [H|[ex [[H|H] S]]].
      * left. now right.
      * inversion H; subst. left. now left.
      * right. exists ex. auto.
  - simpl sload. rewrite (IH CF st (EMark m :: tr) bar Hb). reflexivity.
  - simpl sload. simpl extras. destruct (all_stored st (tasks_rev tr)) eqn:A.
    + assert (Hb' : satisfied st (map tid_of (tasks_rev tr) ++ bar)).
      { intros u Hu. apply in_app_or in Hu. destruct Hu as [Hu|Hu]; [|auto].
        apply in_map_iff in Hu. destruct Hu as [x [<- Hx]]. apply (proj1 (all_stored_forall st _) A x Hx). }
      rewrite (IH CF st (EBar :: tr) _ Hb'). reflexivity.
    + simpl. split; [auto|]. intros [H|[ex [H S]]]; auto. exfalso.
      apply all_stored_false in A. destruct A as [x [Hx Hn]].
      apply extras_grow in H. assert (Hs := S (tid_of x)). rewrite Hs in Hn; [discriminate|].
      apply H. apply in_or_app. left. apply in_map. exact Hx.
  - simpl sload. simpl extras. destruct (resolve (lookup st) a) as [v'|] eqn:R.
    + assert (Hb' : satisfied st (atids a ++ bar)).
      { intros u Hu. apply in_app_or in Hu. destruct Hu as [Hu|Hu]; [|auto].
        apply stored_lookup. eapply resolve_some_tids; eauto. }
      rewrite (IH CF st (EBV a v' :: tr) _ Hb'). reflexivity.
    + simpl. split; [auto|]. intros [H|[ex [H S]]]; auto. exfalso.
      apply resolve_none in R. destruct R as [u [Hu Hn]].
      apply extras_grow in H. assert (Hs := S u). 
      assert (X : stored st u = true) by (apply Hs; apply H; apply in_or_app; now left).
      apply stored_lookup in X. destruct X as [w Hw]. congruence.
  - discriminate.
Qed.

(* from the top of the jugfile: loading it on store [st] puts into alltasks exactly the tasks whose extra
   dependencies - the barrier / bvalue edges of the sequential unfolding - are all stored in [st] *)
Theorem loading_is_waiting_for_the_extra_dependencies : forall s st, compound_free s = true ->
  forall t, In t (loaded_ids st s []) <-> exists ex, In (t, ex) (extras s [] []) /\ satisfied st ex.
Proof.
  intros s st CF t. rewrite (loader_is_extras s CF st [] []); [|intros u []].
  simpl. split; [intros [[]|H]; exact H | intros H; right; exact H].
Qed.

(* ... and on the jugfile itself (not only its recorded path): [load] follows the path recorded by the
   sequential evaluation as long as the store holds the sequential values *)
Theorem load_is_waiting_for_the_extra_dependencies : forall p s w st,
  unfold p [] = Some (s, w) -> compound_free s = true -> agrees st (slog s) ->
  forall t, In t (map tid_of (l_tasks (load st p))) <->
            exists ex, In (t, ex) (extras s [] []) /\ satisfied st ex.
Proof.
  intros p s w st U CF A t.
  assert (E : load_from st p [] = sload st s []).
  { eapply load_follows_spine; eauto. intros u v0 w0 _ Hl. discriminate. }
  rewrite <- (loading_is_waiting_for_the_extra_dependencies s st CF t). unfold loaded_ids, load.
  rewrite E. destruct (sload st s []) as [tr out]. simpl.
  rewrite map_rev. rewrite <- in_rev. reflexivity.
Qed.
