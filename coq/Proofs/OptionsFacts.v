(* Facts about Model/Options.v (C20).  General: parametric in the option table; the side
   conditions are the decidable predicates [table_ok], [absent_none_for], [positional_shape]
   of the model, discharged for the generated table in Proofs/OptionsGen.v. *)
From Coq Require Import List ZArith Bool String Ascii Lia.
From JugV Require Import Model.Options.
Import ListNotations.
Local Open Scope string_scope.
Local Open Scope list_scope.

(* ------------------------------------------------------------------ association lists *)
Lemma lookup_app : forall k a b, lookup k (a ++ b) = orelse (lookup k a) (lookup k b).
Proof.
  intros k a b. induction a as [|[k' v] a IH]; simpl; [reflexivity|].
  destruct (String.eqb k' k); [reflexivity|exact IH].
Qed.

Lemma mem_str_In : forall s l, mem_str s l = true <-> In s l.
Proof.
  intros s l. unfold mem_str. rewrite existsb_exists. split.
  - intros [x [Hin Heq]]. apply String.eqb_eq in Heq. subst. exact Hin.
  - intros H. exists s. split; [exact H|apply String.eqb_refl].
Qed.

Definition all_non_none (l : layer) : Prop := Forall (fun kv => snd kv <> VNone) l.

Lemma lookup_non_none : forall k l v, all_non_none l -> lookup k l = Some v -> v <> VNone.
Proof.
  intros k l v H. induction H as [|[k' v'] l Hx Hl IH]; simpl; [discriminate|].
  destruct (String.eqb k' k).
  - intros E. inversion E. subst. exact Hx.
  - exact IH.
Qed.

Lemma lookup_In_key : forall k l v, lookup k l = Some v -> In k (map fst l).
Proof.
  intros k l v. induction l as [|[k' v'] l IH]; simpl; [discriminate|].
  destruct (String.eqb k' k) eqn:E.
  - intros _. left. apply String.eqb_eq. exact E.
  - intros H. right. exact (IH H).
Qed.

Lemma lookup_not_key : forall k l, ~ In k (map fst l) -> lookup k l = None.
Proof.
  intros k l H. destruct (lookup k l) eqn:E; [|reflexivity].
  exfalso. apply H. exact (lookup_In_key _ _ _ E).
Qed.

(* ------------------------------------------------------------------ explicit values are never None *)
Lemma typed_not_none : forall t raw v, typed t raw = Some v -> v <> VNone.
Proof.
  intros t raw v. destruct t; simpl.
  - intros E. inversion E. discriminate.
  - destruct (parse_int raw); simpl; intros E; inversion E. discriminate.
Qed.

Lemma given_value_not_none : forall e raw v,
  const_not_none e = true -> given_value e raw = Some v -> v <> VNone.
Proof.
  intros e raw v. unfold const_not_none, given_value. destruct (a_action e) as [|c| | |].
  - intros _. apply typed_not_none.
  - intros Hc E. inversion E. subst. destruct v; simpl in Hc; try discriminate.
  - intros _ E. inversion E. discriminate.
  - intros _ E. inversion E. discriminate.
  - discriminate.
Qed.

Lemma find_flag_In : forall es flag e, find_flag es flag = Some e -> In e es.
Proof. intros es flag e H. unfold find_flag in H. apply find_some in H. exact (proj1 H). Qed.

Lemma apply_opts_inv : forall (P : string * optval -> Prop) es opts acc seen acc' seen',
  (forall e raw v, In e es -> given_value e raw = Some v -> P (a_dest e, v)) ->
  Forall P acc -> apply_opts es opts acc seen = Some (acc', seen') -> Forall P acc'.
Proof.
  intros P es opts. induction opts as [|[flag raw] r IH]; intros acc seen acc' seen' Hes Hacc; simpl.
  - intros E. inversion E. subst. exact Hacc.
  - destruct (find_flag es flag) as [e|] eqn:Ef; [|discriminate].
    destruct (mutex_conflict e seen); [discriminate|].
    destruct (given_value e raw) as [v|] eqn:Eg; [|discriminate].
    intros E. refine (IH _ _ _ _ Hes _ E). constructor; [|exact Hacc].
    exact (Hes e raw v (find_flag_In _ _ _ Ef) Eg).
Qed.

Lemma assign_pos_inv : forall (P : string * optval -> Prop) pes toks acc acc',
  (forall e v, In e pes -> (exists t, typed (a_type e) t = Some v) \/ (exists l, v = VList l) -> P (a_dest e, v)) ->
  Forall P acc -> assign_pos pes toks acc = Some acc' -> Forall P acc'.
Proof.
  intros P pes. induction pes as [|e r IH]; intros toks acc acc' Hp Hacc; simpl.
  - destruct toks; [|discriminate]. intros E. inversion E. subst. exact Hacc.
  - assert (Hr : forall e0 v, In e0 r ->
              (exists t, typed (a_type e0) t = Some v) \/ (exists l, v = VList l) -> P (a_dest e0, v)).
    { intros e0 v Hin. apply Hp. right. exact Hin. }
    destruct (a_nargs e); destruct toks as [|t ts]; try discriminate.
    + destruct (typed (a_type e) t) as [v|] eqn:Et; [|discriminate].
      intros E. refine (IH _ _ _ Hr _ E). constructor; [|exact Hacc].
      apply Hp; [left; reflexivity|]. left. exists t. exact Et.
    + intros E. exact (IH _ _ _ Hr Hacc E).
    + destruct (typed (a_type e) t) as [v|] eqn:Et; [|discriminate].
      intros E. refine (IH _ _ _ Hr _ E). constructor; [|exact Hacc].
      apply Hp; [left; reflexivity|]. left. exists t. exact Et.
    + intros E. exact (IH _ _ _ Hr Hacc E).
    + intros E. refine (IH _ _ _ Hr _ E). constructor; [|exact Hacc].
      apply Hp; [left; reflexivity|]. right. eexists. reflexivity.
Qed.

Lemma applicable_incl : forall T sub e, In e (applicable T sub) -> In e (all_entries T).
Proof.
  intros T sub e. unfold applicable, all_entries. rewrite !in_app_iff. intros [H|H].
  - left. apply filter_In in H. exact (proj1 H).
  - right. exact H.
Qed.

Lemma explicit_non_none : forall T c ex,
  forallb const_not_none (all_entries T) = true -> explicit T c = Some ex -> all_non_none ex.
Proof.
  intros T c ex Hc. rewrite forallb_forall in Hc. unfold explicit.
  destruct (negb (mem_str (c_sub c) (t_subcommands T))); [discriminate|].
  set (es := applicable T (c_sub c)).
  destruct (apply_opts (filter (fun e => negb (is_positional e)) es) (c_opts c) [] [])
    as [[acc1 seen]|] eqn:E1; [|discriminate].
  destruct (negb (required_ok es seen)); [discriminate|].
  destruct (assign_pos (filter is_positional es) (c_pos c) []) as [acc2|] eqn:E2; [|discriminate].
  intros E. inversion E. subst ex. unfold all_non_none. apply Forall_app. split.
  - refine (assign_pos_inv _ _ _ _ _ _ (Forall_nil _) E2). intros e v _ [[t Ht]|[l Hl]]; simpl.
    + exact (typed_not_none _ _ _ Ht).
    + subst v. discriminate.
  - refine (apply_opts_inv _ _ _ _ _ _ _ _ (Forall_nil _) E1). intros e raw v Hin Hg. simpl.
    apply (given_value_not_none e raw v); [|exact Hg]. apply Hc.
    apply filter_In in Hin. exact (applicable_incl T (c_sub c) e (proj1 Hin)).
Qed.

(* ------------------------------------------------------------------ absent values *)
Lemma lookup_base_ns : forall k es v, lookup k (base_ns es) = Some v ->
  exists e, In e es /\ a_dest e = k /\ absent_value e = Some v.
Proof.
  intros k es v. induction es as [|e r IH]; simpl; [discriminate|].
  rewrite lookup_app. destruct (absent_value e) as [v0|] eqn:Ea; simpl.
  - destruct (String.eqb (a_dest e) k) eqn:Ek.
    + intros E. inversion E. subst v0. exists e. split; [left; reflexivity|].
      split; [apply String.eqb_eq; exact Ek|exact Ea].
    + intros H. destruct (IH H) as [e' [Hin H']]. exists e'. split; [right; exact Hin|exact H'].
  - intros H. destruct (IH H) as [e' [Hin H']]. exists e'. split; [right; exact Hin|exact H'].
Qed.

Lemma base_ns_has : forall es e v, In e es -> absent_value e = Some v ->
  exists v', lookup (a_dest e) (base_ns es) = Some v'.
Proof.
  intros es e v. induction es as [|e0 r IH]; simpl; [intros []|].
  intros [H|H] Ha; rewrite lookup_app.
  - subst e0. rewrite Ha. simpl. rewrite String.eqb_refl. eexists. reflexivity.
  - unfold orelse.
    match goal with |- exists v', match ?X with Some _ => _ | None => _ end = _ => destruct X eqn:E end.
    + eexists. reflexivity.
    + exact (IH H Ha).
Qed.

(* the command-line layer of the code = what was written explicitly, when the absent values of
   the arguments stored under k are None *)
Lemma cmd_lookup_ns : forall T c ex k,
  forallb const_not_none (all_entries T) = true ->
  forallb (fun e => negb (String.eqb (a_dest e) (t_subdest T))) (all_entries T) = true ->
  explicit T c = Some ex ->
  absent_none_for T (c_sub c) k = true ->
  cmd_lookup (ex ++ base_ns (applicable T (c_sub c)) ++ [(t_subdest T, VStr (c_sub c))]) k
  = lookup k (ex ++ [(t_subdest T, VStr (c_sub c))]).
Proof.
  intros T c ex k Hc Hsd Hex Habs. unfold cmd_lookup. rewrite !lookup_app.
  destruct (lookup k ex) as [v|] eqn:E; simpl.
  - pose proof (lookup_non_none _ _ _ (explicit_non_none _ _ _ Hc Hex) E) as Hv.
    destruct v; try reflexivity. congruence.
  - destruct (lookup k (base_ns (applicable T (c_sub c)))) as [v|] eqn:B; simpl.
    + destruct (lookup_base_ns _ _ _ B) as [e [Hin [Hd Ha]]].
      unfold absent_none_for in Habs. rewrite forallb_forall in Habs. specialize (Habs e Hin).
      rewrite Hd, String.eqb_refl in Habs. simpl in Habs. unfold absent_is_none in Habs. rewrite Ha in Habs.
      rewrite forallb_forall in Hsd. specialize (Hsd e (applicable_incl _ _ _ Hin)).
      rewrite Hd in Hsd. rewrite String.eqb_sym in Hsd.
      destruct (String.eqb (t_subdest T) k); [discriminate|].
      destruct v; try discriminate. reflexivity.
    + destruct (String.eqb (t_subdest T) k); reflexivity.
Qed.

(* ------------------------------------------------------------------ the configuration layer *)
Lemma read_config_lookup : forall T cfg acc ini k,
  read_config T cfg acc = Some ini ->
  match cfg_given cfg k with
  | Some s => exists v, impl_coerce (t_coerce T) (t_false_strings T) (defaults_lookup T k) s = Some v
                        /\ lookup k ini = Some v
  | None => lookup k ini = lookup k acc
  end.
Proof.
  intros T cfg. induction cfg as [|[[sec key] value] r IH]; intros acc ini k; simpl.
  - intros E. inversion E. reflexivity.
  - destruct (impl_coerce (t_coerce T) (t_false_strings T) (defaults_lookup T (new_name sec key)) value)
      as [v|] eqn:Ec; [|discriminate].
    intros E. specialize (IH _ _ k E). destruct (cfg_given r k) as [s|]; [exact IH|].
    simpl in IH. destruct (String.eqb (new_name sec key) k) eqn:Ek.
    + apply String.eqb_eq in Ek. rewrite <- Ek. exists v. split; [exact Ec|]. rewrite <- Ek in IH. exact IH.
    + exact IH.
Qed.

Lemma read_config_none : forall T cfg acc,
  read_config T cfg acc = None <->
  exists sec key value, In (sec, key, value) cfg /\
    impl_coerce (t_coerce T) (t_false_strings T) (defaults_lookup T (new_name sec key)) value = None.
Proof.
  intros T cfg. induction cfg as [|[[sec key] value] r IH]; intros acc; simpl.
  - split; [discriminate|]. intros [s [k [v [[] _]]]].
  - destruct (impl_coerce (t_coerce T) (t_false_strings T) (defaults_lookup T (new_name sec key)) value)
      as [v|] eqn:Ec.
    + rewrite IH. split.
      * intros [s [k [v' [Hin H]]]]. exists s, k, v'. split; [right; exact Hin|exact H].
      * intros [s [k [v' [[Hin|Hin] H]]]].
        -- inversion Hin. subst. rewrite Ec in H. discriminate.
        -- exists s, k, v'. split; assumption.
    + split; [|reflexivity]. intros _. exists sec, key, value. split; [left; reflexivity|exact Ec].
Qed.

Lemma false_strings_mem : forall T s, false_strings_ok T = true ->
  mem_str s (t_false_strings T) = mem_str s spec_false_strings.
Proof.
  intros T s H. unfold false_strings_ok in H. apply andb_true_iff in H. destruct H as [H1 H2].
  rewrite forallb_forall in H1, H2. apply Bool.eq_iff_eq_true. rewrite !mem_str_In. split; intros Hin.
  - apply mem_str_In. exact (H1 _ Hin).
  - apply mem_str_In. exact (H2 _ Hin).
Qed.

(* with the helper-based shape the code's coercion is the specified one *)
Lemma impl_coerce_spec : forall T old value,
  coerce_is_helper T = true -> false_strings_ok T = true ->
  impl_coerce (t_coerce T) (t_false_strings T) old value = spec_coerce old value.
Proof.
  intros T old value Hm Hf. unfold coerce_is_helper in Hm. destruct (t_coerce T); [discriminate|].
  destruct old as [[| | | | |]|]; simpl; try reflexivity.
  unfold str_to_bool. rewrite (false_strings_mem T _ Hf). reflexivity.
Qed.

Lemma table_ok_parts : forall T, table_ok T = true ->
  forallb const_not_none (all_entries T) = true /\
  forallb (fun e => negb (String.eqb (a_dest e) (t_subdest T))) (all_entries T) = true /\
  coerce_is_helper T = true /\ false_strings_ok T = true.
Proof.
  intros T H. unfold table_ok in H. repeat (apply andb_true_iff in H; destruct H as [H ?]). auto.
Qed.

(* ------------------------------------------------------------------ main theorem: resolution = specification *)
Theorem resolve_correct : forall T c cfg ns ini k,
  table_ok T = true ->
  namespace T c = Some ns ->
  read_config T cfg [] = Some ini ->
  absent_none_for T (c_sub c) k = true ->
  impl_resolve T ns ini k = spec_resolve T c cfg k.
Proof.
  intros T c cfg ns ini k Hok Hns Hini Habs.
  destruct (table_ok_parts T Hok) as [Hc [Hsd [Hm Hf]]].
  unfold namespace in Hns. destruct (explicit T c) as [ex|] eqn:Hex; [|discriminate].
  inversion Hns. subst ns. unfold impl_resolve, spec_resolve, cmd_given. rewrite Hex.
  rewrite (cmd_lookup_ns T c ex k Hc Hsd Hex Habs).
  destruct (lookup k (ex ++ [(t_subdest T, VStr (c_sub c))])) as [v|]; simpl; [reflexivity|].
  pose proof (read_config_lookup T cfg [] ini k Hini) as Hl.
  destruct (cfg_given cfg k) as [s|].
  - destruct Hl as [v [Hv Hl]]. rewrite Hl. simpl. rewrite <- (impl_coerce_spec T _ _ Hm Hf). symmetry. exact Hv.
  - rewrite Hl. reflexivity.
Qed.

(* the configuration file is rejected exactly when some value cannot be converted as specified *)
Lemma read_config_fails_iff : forall T cfg, table_ok T = true ->
  (read_config T cfg [] = None <-> cfg_unconvertible T cfg = true).
Proof.
  intros T cfg Hok. destruct (table_ok_parts T Hok) as [_ [_ [Hm Hf]]].
  rewrite read_config_none. unfold cfg_unconvertible. rewrite existsb_exists. split.
  - intros [s [k [v [Hin H]]]]. exists (s, k, v). split; [exact Hin|].
    rewrite <- (impl_coerce_spec T _ _ Hm Hf). rewrite H. reflexivity.
  - intros [[[s k] v] [Hin H]]. exists s, k, v. split; [exact Hin|].
    rewrite (impl_coerce_spec T _ _ Hm Hf). destruct (spec_coerce _ v); [discriminate|reflexivity].
Qed.

(* ------------------------------------------------------------------ positionals: jugfile and user_args *)
Lemma apply_opts_keys : forall es opts acc seen acc' seen',
  apply_opts es opts acc seen = Some (acc', seen') ->
  forall k, In k (map fst acc') -> In k (map fst acc) \/ exists e, In e es /\ a_dest e = k.
Proof.
  intros es opts. induction opts as [|[flag raw] r IH]; intros acc seen acc' seen'; simpl.
  - intros E. inversion E. subst. intros k H. left. exact H.
  - destruct (find_flag es flag) as [e|] eqn:Ef; [|discriminate].
    destruct (mutex_conflict e seen); [discriminate|].
    destruct (given_value e raw) as [v|]; [|discriminate].
    intros E k Hk. destruct (IH _ _ _ _ E k Hk) as [H|H]; [|right; exact H].
    simpl in H. destruct H as [H|H]; [|left; exact H].
    right. exists e. split; [exact (find_flag_In _ _ _ Ef)|exact H].
Qed.

Definition pos_layer (toks : list string) : layer :=
  match toks with
  | [] => []
  | [t] => [("jugfile", VStr t)]
  | t :: ts => [("user_args", VList ts); ("jugfile", VStr t)]
  end.

Lemma positional_shape_explicit : forall T c ex,
  positional_shape T (c_sub c) = true -> explicit T c = Some ex ->
  exists acc1, ex = pos_layer (c_pos c) ++ acc1 /\
               ~ In "user_args" (map fst acc1) /\ ~ In "jugfile" (map fst acc1).
Proof.
  intros T c ex Hsh. unfold explicit.
  destruct (negb (mem_str (c_sub c) (t_subcommands T))); [discriminate|].
  set (es := applicable T (c_sub c)) in *.
  destruct (apply_opts (filter (fun e => negb (is_positional e)) es) (c_opts c) [] [])
    as [[acc1 seen]|] eqn:E1; [|discriminate].
  destruct (negb (required_ok es seen)); [discriminate|].
  unfold positional_shape in Hsh. fold es in Hsh. apply andb_true_iff in Hsh. destruct Hsh as [Hp Hno].
  destruct (filter is_positional es) as [|e1 [|e2 [|e3 l]]]; try discriminate.
  repeat (apply andb_true_iff in Hp; destruct Hp as [Hp ?]).
  apply String.eqb_eq in Hp.
  match goal with H : String.eqb (a_dest e2) "user_args" = true |- _ => apply String.eqb_eq in H; rename H into Hd2 end.
  destruct (a_nargs e1) eqn:N1; try discriminate. destruct (a_type e1) eqn:T1; try discriminate.
  destruct (a_nargs e2) eqn:N2; try discriminate.
  intros E. exists acc1.
  assert (Hkeys : ~ In "user_args" (map fst acc1) /\ ~ In "jugfile" (map fst acc1)).
  { rewrite forallb_forall in Hno.
    assert (Hk : forall k, In k (map fst acc1) -> exists e, In e es /\ is_positional e = false /\ a_dest e = k).
    { intros k Hk. destruct (apply_opts_keys _ _ _ _ _ _ E1 k Hk) as [[]|[e [Hin Hd]]].
      apply filter_In in Hin. destruct Hin as [Hin Hnp]. exists e. split; [exact Hin|]. split; [|exact Hd].
      destruct (is_positional e); [discriminate|reflexivity]. }
    split; intros Hin; destruct (Hk _ Hin) as [e [He [Hnp Hd]]]; specialize (Hno e He);
      rewrite Hnp, Hd in Hno; simpl in Hno; discriminate. }
  split; [|exact Hkeys].
  revert E. destruct (c_pos c) as [|t [|t2 ts]]; simpl; rewrite N1; simpl; rewrite ?T1; simpl; rewrite N2;
    simpl; rewrite ?Hp, ?Hd2; intros E; inversion E; reflexivity.
Qed.

Lemma positional_shape_user_args : forall T c ex,
  positional_shape T (c_sub c) = true -> explicit T c = Some ex ->
  lookup "user_args" (ex ++ base_ns (applicable T (c_sub c)) ++ [(t_subdest T, VStr (c_sub c))])
  = Some (VList (tl (c_pos c))).
Proof.
  intros T c ex Hsh Hex. destruct (positional_shape_explicit T c ex Hsh Hex) as [acc1 [Hexeq [Hua _]]].
  subst ex. rewrite !lookup_app. destruct (c_pos c) as [|t [|t2 ts]]; simpl; try reflexivity;
    rewrite (lookup_not_key _ _ Hua); simpl.
  all: unfold positional_shape in Hsh; apply andb_true_iff in Hsh; destruct Hsh as [Hp Hno];
    set (es := applicable T (c_sub c)) in *;
    destruct (filter is_positional es) as [|e1 [|e2 [|e3 l]]] eqn:Ef; try discriminate;
    repeat (apply andb_true_iff in Hp; destruct Hp as [Hp ?]);
    match goal with H : String.eqb (a_dest e2) "user_args" = true |- _ => apply String.eqb_eq in H; rename H into Hd2 end;
    apply String.eqb_eq in Hp;
    destruct (absent_value e2) as [[| | | |[|]|]|] eqn:Ea2; try discriminate;
    assert (Hin2 : In e2 es) by (assert (Hx : In e2 (filter is_positional es)) by (rewrite Ef; right; left; reflexivity);
                                apply filter_In in Hx; exact (proj1 Hx));
    destruct (base_ns_has es e2 _ Hin2 Ea2) as [v' Hv']; rewrite Hd2 in Hv'; rewrite Hv'; simpl;
    destruct (lookup_base_ns _ _ _ Hv') as [e [Hin [Hd Ha]]];
    rewrite forallb_forall in Hno; specialize (Hno e Hin); rewrite Hd in Hno; simpl in Hno;
    rewrite orb_false_r in Hno;
    assert (Hx : In e (filter is_positional es)) by (apply filter_In; split; assumption);
    rewrite Ef in Hx; destruct Hx as [Hx|[Hx|[]]]; subst e;
    [rewrite Hp in Hd; discriminate | rewrite Ea2 in Ha; inversion Ha; reflexivity].
Qed.

(* ------------------------------------------------------------------ the whole of options.parse = its specification *)
Theorem run_is_spec : forall T c cfg date keys,
  table_ok T = true ->
  (explicit T c <> None -> positional_shape T (c_sub c) = true) ->
  (forall k, In k ("jugdir" :: "jugfile" :: keys) -> absent_none_for T (c_sub c) k = true) ->
  run T c cfg date keys = spec_run T c cfg date keys.
Proof.
  intros T c cfg date keys Hok Hsh Habs. unfold run, spec_run, namespace.
  destruct (explicit T c) as [ex|] eqn:Hex; [|reflexivity].
  specialize (Hsh ltac:(discriminate)).
  destruct (read_config T cfg []) as [ini|] eqn:Hini.
  - assert (Hu : cfg_unconvertible T cfg = false).
    { destruct (cfg_unconvertible T cfg) eqn:E; [|reflexivity].
      apply (read_config_fails_iff T cfg Hok) in E. congruence. }
    rewrite Hu.
    assert (Hns : namespace T c = Some (ex ++ base_ns (applicable T (c_sub c)) ++ [(t_subdest T, VStr (c_sub c))])).
    { unfold namespace. rewrite Hex. reflexivity. }
    assert (Hres : forall k, In k ("jugdir" :: "jugfile" :: keys) ->
              impl_resolve T (ex ++ base_ns (applicable T (c_sub c)) ++ [(t_subdest T, VStr (c_sub c))]) ini k
              = spec_resolve T c cfg k).
    { intros k Hk. exact (resolve_correct T c cfg _ ini k Hok Hns Hini (Habs k Hk)). }
    rewrite (Hres "jugdir" ltac:(left; reflexivity)).
    rewrite (Hres "jugfile" ltac:(right; left; reflexivity)).
    destruct (spec_resolve T c cfg "jugdir") as [[| | |d| |]|]; try reflexivity.
    destruct (spec_resolve T c cfg "jugfile") as [[| | |f| |]|]; try reflexivity.
    destruct (expand d (drop_last3 f) date) as [dir|]; [|reflexivity].
    rewrite (positional_shape_user_args T c ex Hsh Hex). f_equal.
    apply map_ext_in. intros k Hk. destruct (String.eqb k "jugdir"); [reflexivity|].
    apply Hres. right. right. exact Hk.
  - apply (read_config_fails_iff T cfg Hok) in Hini. rewrite Hini. reflexivity.
Qed.

(* the jugfile named on the command line is the first positional word *)
Lemma jugfile_given : forall T c ex,
  forallb (fun e => negb (String.eqb (a_dest e) (t_subdest T))) (all_entries T) = true ->
  positional_shape T (c_sub c) = true -> explicit T c = Some ex ->
  cmd_given T c "jugfile" = option_map VStr (hd_error (c_pos c)).
Proof.
  intros T c ex Hsd Hsh Hex. unfold cmd_given. rewrite Hex.
  destruct (positional_shape_explicit T c ex Hsh Hex) as [acc1 [Hexeq [_ Hjf]]]. subst ex.
  assert (Hne : String.eqb (t_subdest T) "jugfile" = false).
  { unfold positional_shape in Hsh. apply andb_true_iff in Hsh. destruct Hsh as [Hp _].
    set (es := applicable T (c_sub c)) in *.
    destruct (filter is_positional es) as [|e1 [|e2 [|e3 l]]] eqn:Ef; try discriminate.
    repeat (apply andb_true_iff in Hp; destruct Hp as [Hp ?]). apply String.eqb_eq in Hp.
    assert (Hin : In e1 es).
    { assert (Hx : In e1 (filter is_positional es)) by (rewrite Ef; left; reflexivity).
      apply filter_In in Hx. exact (proj1 Hx). }
    rewrite forallb_forall in Hsd. specialize (Hsd e1 (applicable_incl _ _ _ Hin)).
    rewrite Hp in Hsd. rewrite String.eqb_sym. destruct (String.eqb "jugfile" (t_subdest T)); [discriminate|reflexivity]. }
  rewrite !lookup_app. destruct (c_pos c) as [|t [|t2 ts]]; simpl; try reflexivity.
  rewrite (lookup_not_key _ _ Hjf). simpl. rewrite Hne. reflexivity.
Qed.

(* ------------------------------------------------------------------ store location *)
Theorem store_location_depends_on : forall T c1 c2 cfg date,
  table_ok T = true ->
  (forall c, explicit T c <> None -> positional_shape T (c_sub c) = true) ->
  (forall c k, In k ["jugdir"; "jugfile"] -> absent_none_for T (c_sub c) k = true) ->
  explicit T c1 <> None -> explicit T c2 <> None ->
  cmd_given T c1 "jugdir" = cmd_given T c2 "jugdir" ->
  cmd_given T c1 "jugfile" = cmd_given T c2 "jugfile" ->
  store_location T c1 cfg date = store_location T c2 cfg date.
Proof.
  intros T c1 c2 cfg date Hok Hsh Habs H1 H2 Hd Hf. unfold store_location.
  assert (Hk : forall c k, In k ["jugdir"; "jugfile"; "jugdir"] -> absent_none_for T (c_sub c) k = true).
  { intros c k [H|[H|[H|[]]]]; apply Habs; subst k; simpl; auto. }
  rewrite (run_is_spec T c1 cfg date ["jugdir"] Hok (Hsh c1) (Hk c1)).
  rewrite (run_is_spec T c2 cfg date ["jugdir"] Hok (Hsh c2) (Hk c2)).
  unfold spec_run, spec_resolve.
  destruct (explicit T c1); [|congruence]. destruct (explicit T c2); [|congruence].
  rewrite Hd, Hf. destruct (cfg_unconvertible T cfg); [reflexivity|].
  destruct (match cmd_given T c2 "jugdir" with Some v => Some v | None => _ end) as [[| | |d| |]|]; try reflexivity.
  destruct (match cmd_given T c2 "jugfile" with Some v => Some v | None => _ end) as [[| | |f| |]|]; try reflexivity.
  destruct (expand d (drop_last3 f) date); reflexivity.
Qed.

(* ------------------------------------------------------------------ lifting the decidable side conditions *)
Lemma absent_none_except_for : forall T but sub k,
  absent_none_except but T = true -> k <> but -> absent_none_for T sub k = true.
Proof.
  intros T but sub k H Hk. unfold absent_none_except in H. rewrite forallb_forall in H.
  unfold absent_none_for. apply forallb_forall. intros e Hin.
  specialize (H e (applicable_incl _ _ _ Hin)). apply orb_true_iff in H. destruct H as [H|H].
  - rewrite H. apply orb_true_r.
  - apply String.eqb_eq in H. destruct (String.eqb (a_dest e) k) eqn:E; [|reflexivity].
    apply String.eqb_eq in E. congruence.
Qed.

Lemma explicit_sub_known : forall T c, explicit T c <> None -> In (c_sub c) (t_subcommands T).
Proof.
  intros T c. unfold explicit. destruct (mem_str (c_sub c) (t_subcommands T)) eqn:E; simpl.
  - intros _. apply mem_str_In. exact E.
  - intros H. congruence.
Qed.

Lemma positional_shape_all_sub : forall T c,
  positional_shape_all T = true -> explicit T c <> None -> positional_shape T (c_sub c) = true.
Proof.
  intros T c H Hex. unfold positional_shape_all in H. rewrite forallb_forall in H.
  apply H. exact (explicit_sub_known T c Hex).
Qed.

(* the default template puts the store next to the jugfile *)
Lemma expand_default_template : forall stem date,
  expand "%(jugfile)s.jugdata" stem date = FmtOk (stem ++ ".jugdata").
Proof. intros. reflexivity. Qed.

(* ------------------------------------------------------------------ discovery of the configuration file *)
Lemma first_existing_skip_absent : forall before rest,
  (forall x, In x before -> x = CAbsent) -> first_existing (before ++ rest) = first_existing rest.
Proof.
  intros before rest H. induction before as [|x before IH]; simpl; [reflexivity|].
  rewrite (H x (or_introl eq_refl)). simpl. apply IH. intros y Hy. apply H. right. exact Hy.
Qed.

Lemma first_existing_here : forall x rest, x <> CAbsent -> first_existing (x :: rest) = Some x.
Proof. intros x rest H. simpl. destruct x; [congruence|reflexivity|reflexivity]. Qed.

(* the candidate that is read: the first one that exists, whatever follows it *)
Lemma first_existing_is_first : forall before x after,
  (forall y, In y before -> y = CAbsent) -> x <> CAbsent ->
  first_existing (before ++ x :: after) = Some x.
Proof.
  intros before x after Hb Hx. rewrite (first_existing_skip_absent before (x :: after) Hb).
  exact (first_existing_here x after Hx).
Qed.

Lemma first_existing_none : forall cands,
  (forall y, In y cands -> y = CAbsent) -> first_existing cands = None.
Proof.
  intros cands H. rewrite <- (app_nil_r cands). rewrite (first_existing_skip_absent cands [] H). reflexivity.
Qed.

Lemma discovered_config_first : forall before x after,
  (forall y, In y before -> y = CAbsent) -> x <> CAbsent ->
  discovered_config (before ++ x :: after) = match x with CFile cfg => cfg | _ => [] end.
Proof.
  intros before x after Hb Hx. unfold discovered_config.
  rewrite (first_existing_is_first before x after Hb Hx). reflexivity.
Qed.

(* a lower-priority file never influences anything once a higher-priority candidate exists *)
Theorem run_discovered_ignores_lower : forall T c before x after after' date keys,
  (forall y, In y before -> y = CAbsent) -> x <> CAbsent ->
  run_discovered T c (before ++ x :: after) date keys = run_discovered T c (before ++ x :: after') date keys.
Proof.
  intros T c before x after after' date keys Hb Hx. unfold run_discovered.
  rewrite (discovered_config_first before x after Hb Hx), (discovered_config_first before x after' Hb Hx).
  reflexivity.
Qed.

Theorem run_discovered_first_file : forall T c before cfg after date keys,
  (forall y, In y before -> y = CAbsent) ->
  run_discovered T c (before ++ CFile cfg :: after) date keys = run T c cfg date keys.
Proof.
  intros T c before cfg after date keys Hb. unfold run_discovered.
  rewrite (discovered_config_first before (CFile cfg) after Hb); [reflexivity|discriminate].
Qed.

Theorem run_discovered_nothing : forall T c cands date keys,
  (forall y, In y cands -> y = CAbsent) -> run_discovered T c cands date keys = run T c [] date keys.
Proof.
  intros T c cands date keys H. unfold run_discovered, discovered_config.
  rewrite (first_existing_none cands H). reflexivity.
Qed.

(* the same for home directories: two homes that agree on the candidate paths up to and including
   the first one that exists give every command the same options, whatever else they hold *)
Theorem run_home_ignores_lower : forall T c higher p lower h h' date keys,
  (forall q, In q higher -> home_at h q = CAbsent) ->
  home_at h p <> CAbsent ->
  (forall q, In q (higher ++ [p]) -> home_at h' q = home_at h q) ->
  run_home T c (higher ++ p :: lower) h date keys = run_home T c (higher ++ p :: lower) h' date keys.
Proof.
  intros T c higher p lower h h' date keys Hh Hp Hagree. unfold run_home, candidates_in.
  rewrite !map_app. simpl.
  assert (Hb : forall y, In y (map (home_at h) higher) -> y = CAbsent).
  { intros y Hy. apply in_map_iff in Hy. destruct Hy as [q [E Hq]]. subst y. exact (Hh q Hq). }
  assert (E1 : map (home_at h') higher = map (home_at h) higher).
  { apply map_ext_in. intros q Hq. apply Hagree. apply in_or_app. left. exact Hq. }
  assert (E2 : home_at h' p = home_at h p).
  { apply Hagree. apply in_or_app. right. left. reflexivity. }
  rewrite E1, E2.
  exact (run_discovered_ignores_lower T c _ (home_at h p) _ _ date keys Hb Hp).
Qed.
