(* The programs of Model/ExecCase.v meet the hypotheses of Proofs/ExecFacts.v: calling a task reads
   the store at its dependencies only, dependencies are defined earlier, the task set is closed. *)
From Coq Require Import List Arith Bool PArith Lia.
From JugV Require Import Model.MapReduce Model.Slice Model.Deps Model.Exec Model.ExecCase Proofs.DepsFacts Proofs.ExecFacts.
Import ListNotations.

Lemma prog_sem_frame : forall p t r r',
  (forall d, In d (c_deps (prog_cfg p) t) -> r d = r' d) -> c_sem (prog_cfg p) t r = c_sem (prog_cfg p) t r'.
Proof.
  intros p t r r' H. simpl in *. unfold prog_sem, prog_deps in *.
  destruct (find_task (p_tasks p) t) as [x|]; auto.
  rewrite (task_run_frame (kind_of (p_kinds p)) r r' x H). reflexivity.
Qed.

(* position of a task in the program, from 1; 0 = not a task *)
Fixpoint pos_of (l : list task) (t : tid) : nat :=
  match l with
  | [] => 0
  | x :: r => if Pos.eqb (t_id x) t then S (length r) else pos_of r t
  end.

(* later tasks have SMALLER pos_of; rank = number of tasks - that, so that dependencies rank lower *)
Definition prog_rank (p : program) (t : tid) : nat := length (p_tasks p) - pos_of (p_tasks p) t.

Lemma find_task_id : forall l t x, find_task l t = Some x -> t_id x = t /\ In x l.
Proof.
  induction l as [|y l IH]; simpl; intros t x H; [discriminate|].
  destruct (Pos.eqb (t_id y) t) eqn:E.
  - inversion H; subst. apply Pos.eqb_eq in E. auto.
  - destruct (IH _ _ H). auto.
Qed.

Lemma find_task_in : forall l t, In t (map t_id l) -> exists x, find_task l t = Some x.
Proof.
  induction l as [|y l IH]; simpl; intros t H; [contradiction|].
  destruct (Pos.eqb (t_id y) t) eqn:E; eauto.
  destruct H as [H | H]; [subst; rewrite Pos.eqb_refl in E; discriminate | auto].
Qed.

Lemma mem_In' : forall t l, mem t l = true <-> In t l.
Proof.
  intros. unfold mem. rewrite existsb_exists. split.
  - intros [x [Hx E]]. apply Pos.eqb_eq in E. now subst.
  - intros H. exists t. split; auto. apply Pos.eqb_refl.
Qed.

Lemma pos_of_le : forall l t, pos_of l t <= length l.
Proof. induction l as [|y l IH]; simpl; intros t; auto. destruct (Pos.eqb (t_id y) t); [lia|]. specialize (IH t). lia. Qed.

Lemma pos_of_pos : forall l t, In t (map t_id l) -> 0 < pos_of l t.
Proof.
  induction l as [|y l IH]; simpl; intros t H; [contradiction|].
  destruct (Pos.eqb (t_id y) t) eqn:E; [lia|].
  destruct H as [H | H]; [subst; rewrite Pos.eqb_refl in E; discriminate | auto].
Qed.

(* in a well-formed list with the ids of [seen] defined before it: every dependency of a member is
   in [seen] or is an EARLIER member *)
Lemma wf_tasks_deps : forall l seen, wf_tasks seen l = true ->
  forall x d, find_task l (t_id x) = Some x -> In d (task_deps x) ->
    In d seen \/ (In d (map t_id l) /\ pos_of l (t_id x) < pos_of l d).
Proof.
  induction l as [|y l IH]; simpl; intros seen H x d Hf Hd; [discriminate|].
  apply andb_true_iff in H. destruct H as [H H3]. apply andb_true_iff in H. destruct H as [H1 H2].
  apply negb_true_iff in H1.
  destruct (Pos.eqb (t_id y) (t_id x)) eqn:E.
  - inversion Hf; subst. left. rewrite forallb_forall in H2. apply mem_In'. auto.
  - destruct (IH _ H3 x d Hf Hd) as [X | [X Y]].
    + destruct X as [X | X].
      * right. subst d. split; [left; auto|]. rewrite Pos.eqb_refl.
        assert (Z := pos_of_le l (t_id x)). lia.
      * left. auto.
    + right. split; [right; auto|]. destruct (Pos.eqb (t_id y) d) eqn:Ed; auto.
      assert (Z := pos_of_le l (t_id x)). lia.
Qed.

Theorem prog_rank_deps : forall p, wf_prog p = true ->
  forall t d, In d (c_deps (prog_cfg p) t) -> prog_rank p d < prog_rank p t.
Proof.
  intros p Hw t d Hd. simpl in Hd. unfold prog_deps in Hd.
  destruct (find_task (p_tasks p) t) as [x|] eqn:Ef; [|contradiction].
  destruct (find_task_id _ _ _ Ef) as [Ex Hin]. subst t.
  destruct (wf_tasks_deps _ _ Hw x d Ef Hd) as [[] | [X Y]].
  unfold prog_rank. assert (Z := pos_of_le (p_tasks p) d).
  assert (Z' := pos_of_pos (p_tasks p) (t_id x)).
  assert (In (t_id x) (map t_id (p_tasks p))) by (apply in_map; auto). specialize (Z' H). lia.
Qed.

Theorem prog_tasks_closed : forall p, wf_prog p = true ->
  forall t d, In t (c_tasks (prog_cfg p)) -> In d (c_deps (prog_cfg p) t) -> In d (c_tasks (prog_cfg p)).
Proof.
  intros p Hw t d Ht Hd. simpl in *. unfold prog_deps in Hd.
  destruct (find_task (p_tasks p) t) as [x|] eqn:Ef; [|contradiction].
  destruct (find_task_id _ _ _ Ef) as [Ex Hin]. subst t.
  destruct (wf_tasks_deps _ _ Hw x d Ef Hd) as [[] | [X _]]. auto.
Qed.

(* ---- programs with barrier edges -------------------------------------------------------------- *)
Lemma bprog_sem_frame : forall bp t r r',
  (forall d, In d (c_deps (bprog_cfg bp) t) -> r d = r' d) -> c_sem (bprog_cfg bp) t r = c_sem (bprog_cfg bp) t r'.
Proof.
  intros bp t r r' H. simpl in *. apply (prog_sem_frame (bp_prog bp)). simpl. intros d Hd. apply H.
  unfold bprog_deps. apply in_or_app. left. exact Hd.
Qed.

Lemma wf_btasks_deps : forall extra l seen, wf_btasks extra seen l = true ->
  forall x d, find_task l (t_id x) = Some x -> In d (task_deps x ++ extra_of extra (t_id x)) ->
    In d seen \/ (In d (map t_id l) /\ pos_of l (t_id x) < pos_of l d).
Proof.
  intros extra. induction l as [|y l IH]; simpl; intros seen H x d Hf Hd; [discriminate|].
  apply andb_true_iff in H. destruct H as [H H3]. apply andb_true_iff in H. destruct H as [H1 H2].
  apply negb_true_iff in H1.
  destruct (Pos.eqb (t_id y) (t_id x)) eqn:E.
  - inversion Hf; subst. left. rewrite forallb_forall in H2. apply mem_In'. auto.
  - destruct (IH _ H3 x d Hf Hd) as [X | [X Y]].
    + destruct X as [X | X].
      * right. subst d. split; [left; auto|]. rewrite Pos.eqb_refl.
        assert (Z := pos_of_le l (t_id x)). lia.
      * left. auto.
    + right. split; [right; auto|]. destruct (Pos.eqb (t_id y) d) eqn:Ed; auto.
      assert (Z := pos_of_le l (t_id x)). lia.
Qed.

Lemma bprog_deps_in : forall bp t d, In d (c_deps (bprog_cfg bp) t) ->
  exists x, find_task (p_tasks (bp_prog bp)) t = Some x /\ In d (task_deps x ++ extra_of (bp_extra bp) t).
Proof.
  intros bp t d Hd. simpl in Hd. unfold bprog_deps, prog_deps in Hd.
  destruct (find_task (p_tasks (bp_prog bp)) t) as [x|] eqn:Ef.
  - exists x. split; auto. apply in_app_or in Hd. apply in_or_app. destruct Hd as [Hd | Hd]; auto.
    destruct (mem t _); [auto | contradiction].
  - exfalso. apply in_app_or in Hd. destruct Hd as [[] | Hd].
    destruct (mem t (map t_id (p_tasks (bp_prog bp)))) eqn:Em; [|contradiction].
    apply mem_In' in Em. destruct (find_task_in _ _ Em) as [x Hx]. congruence.
Qed.

Definition bprog_rank (bp : bprogram) (t : tid) : nat := prog_rank (bp_prog bp) t.

Theorem bprog_rank_deps : forall bp, wf_bprog bp = true ->
  forall t d, In d (c_deps (bprog_cfg bp) t) -> bprog_rank bp d < bprog_rank bp t.
Proof.
  intros bp Hw t d Hd. destruct (bprog_deps_in _ _ _ Hd) as [x [Ef Hin]].
  destruct (find_task_id _ _ _ Ef) as [Ex Hx]. subst t.
  destruct (wf_btasks_deps _ _ _ Hw x d Ef Hin) as [[] | [X Y]].
  unfold bprog_rank, prog_rank. assert (Z := pos_of_le (p_tasks (bp_prog bp)) d).
  assert (Z' := pos_of_pos (p_tasks (bp_prog bp)) (t_id x)).
  assert (In (t_id x) (map t_id (p_tasks (bp_prog bp)))) by (apply in_map; auto). specialize (Z' H). lia.
Qed.

Theorem bprog_tasks_closed : forall bp, wf_bprog bp = true ->
  forall t d, In t (c_tasks (bprog_cfg bp)) -> In d (c_deps (bprog_cfg bp) t) -> In d (c_tasks (bprog_cfg bp)).
Proof.
  intros bp Hw t d Ht Hd. destruct (bprog_deps_in _ _ _ Hd) as [x [Ef Hin]].
  destruct (find_task_id _ _ _ Ef) as [Ex Hx]. subst t.
  destruct (wf_btasks_deps _ _ _ Hw x d Ef Hin) as [[] | [X _]]. simpl. auto.
Qed.
