(* Facts about Model/Dag.v shared by C09 and C15. *)
From Coq Require Import List PArith Bool Arith Lia.
From JugV Require Import Model.Dag.
Import ListNotations.

Lemma mem_In : forall x l, mem x l = true <-> In x l.
Proof.
  intros x l. unfold mem. rewrite existsb_exists. split.
  - intros [y [Hy He]]. apply Pos.eqb_eq in He. subst. exact Hy.
  - intros H. exists x. split; [exact H | apply Pos.eqb_refl].
Qed.

Lemma mem_false : forall x l, mem x l = false <-> ~ In x l.
Proof.
  intros x l. rewrite <- mem_In. destruct (mem x l); intuition congruence.
Qed.

Lemma subset_b_spec : forall a b, subset_b a b = true <-> (forall x, In x a -> In x b).
Proof.
  intros a b. unfold subset_b. rewrite forallb_forall. split.
  - intros H x Hx. apply mem_In. apply H. exact Hx.
  - intros H x Hx. apply mem_In. apply H. exact Hx.
Qed.

Lemma seteq_b_spec : forall a b, seteq_b a b = true <-> (forall x, In x a <-> In x b).
Proof.
  intros a b. unfold seteq_b. rewrite andb_true_iff, !subset_b_spec. split.
  - intros [H1 H2] x. split; auto.
  - intros H. split; intros x Hx; apply H; exact Hx.
Qed.

Lemma st_of_In : forall l t, st_of l t = true <-> In t l.
Proof. intros. unfold st_of. apply mem_In. Qed.

Lemma tids_app : forall p s, tids (p ++ s) = tids p ++ tids s.
Proof. intros. unfold tids. apply map_app. Qed.

Lemma In_tids : forall d t, In t (tids d) <-> exists n, In n d /\ n_tid n = t.
Proof.
  intros d t. unfold tids. rewrite in_map_iff. split; intros [n [A B]]; exists n; tauto.
Qed.

(* ---- find_node --------------------------------------------------------------------------------- *)
Lemma find_node_some : forall d t n, find_node d t = Some n -> In n d /\ n_tid n = t.
Proof.
  induction d as [|a r IH]; simpl; intros t n H; [discriminate|].
  destruct (Pos.eqb (n_tid a) t) eqn:E.
  - inversion H; subst. apply Pos.eqb_eq in E. auto.
  - destruct (IH _ _ H). auto.
Qed.

(* a hash that occurs in a prefix is found inside that prefix *)
Lemma find_in_prefix : forall p x, In x (tids p) ->
  exists nx px sx, p = px ++ nx :: sx /\ n_tid nx = x /\ forall rest, find_node (p ++ rest) x = Some nx.
Proof.
  induction p as [|a r IH]; simpl; intros x H; [contradiction|].
  destruct (Pos.eqb (n_tid a) x) eqn:E.
  - apply Pos.eqb_eq in E. exists a, [], r. simpl. repeat split; auto.
  - destruct H as [H|H]; [apply Pos.eqb_neq in E; contradiction|].
    destruct (IH x H) as [nx [px [sx [P [T F]]]]].
    exists nx, (a :: px), sx. subst r. simpl. repeat split; auto.
Qed.

(* ---- well-formedness ------------------------------------------------------------------------------ *)
Lemma agrees_b_spec : forall n' n, agrees_b n' n = true <-> agrees n' n.
Proof.
  intros n' n. unfold agrees_b, agrees. destruct (Pos.eqb (n_tid n') (n_tid n)) eqn:E.
  - apply Pos.eqb_eq in E. rewrite andb_true_iff, Pos.eqb_eq, seteq_b_spec. tauto.
  - apply Pos.eqb_neq in E. split; [intros _ H; contradiction | reflexivity].
Qed.

Lemma wf_from_spec : forall d e, wf_from e d = true <->
  (forall p n s, d = p ++ n :: s ->
     (forall x, In x (n_deps n) -> In x (tids (e ++ p))) /\ (forall n', In n' (e ++ p) -> agrees n' n)).
Proof.
  induction d as [|a r IH]; intros e; simpl.
  - split; [|reflexivity]. intros _ p n s H. destruct p; discriminate.
  - rewrite !andb_true_iff, subset_b_spec, forallb_forall, IH. split.
    + intros [[A B] C] p n s H. destruct p as [|a' p'].
      * simpl in H. inversion H; subst. rewrite app_nil_r. split.
        -- exact A.
        -- intros n' Hn'. apply agrees_b_spec. apply B. exact Hn'.
      * simpl in H. inversion H; subst.
        replace (e ++ a' :: p') with ((e ++ [a']) ++ p') by (rewrite <- app_assoc; reflexivity).
        apply C with (s := s). reflexivity.
    + intros H. split; [split|].
      * destruct (H [] a r eq_refl) as [A _]. rewrite app_nil_r in A. exact A.
      * intros n' Hn'. apply agrees_b_spec. destruct (H [] a r eq_refl) as [_ B]. apply B.
        rewrite app_nil_r. exact Hn'.
      * intros p n s E. subst r.
        replace ((e ++ [a]) ++ p) with (e ++ a :: p) by (rewrite <- app_assoc; reflexivity).
        apply (H (a :: p) n s). reflexivity.
Qed.

Lemma wf_dagb_spec : forall d, wf_dagb d = true <-> wf_dag d.
Proof. intros d. unfold wf_dagb, wf_dag. rewrite wf_from_spec. simpl. tauto. Qed.

Lemma wf_prefix : forall p s, wf_dag (p ++ s) -> wf_dag p.
Proof.
  intros p s H p0 n s0 E. apply (H p0 n (s0 ++ s)). subst p. rewrite <- app_assoc. reflexivity.
Qed.

Lemma wf_deps_in : forall d n x, wf_dag d -> In n d -> In x (n_deps n) -> In x (tids d).
Proof.
  intros d n x W Hn Hx. destruct (in_split _ _ Hn) as [p [s E]].
  destruct (W p n s E) as [A _]. subst d. rewrite tids_app. apply in_or_app. left. apply A. exact Hx.
Qed.

(* objects with the same hash have the same name and the same dependency set *)
Lemma wf_agree : forall d n n', wf_dag d -> In n d -> In n' d -> n_tid n' = n_tid n ->
  n_name n' = n_name n /\ (forall x, In x (n_deps n') <-> In x (n_deps n)).
Proof.
  intros d n n' W Hn Hn' T. destruct (in_split _ _ Hn) as [p [s E]]. subst d.
  apply in_app_or in Hn'. destruct Hn' as [H|[H|H]].
  - destruct (W p n s eq_refl) as [_ B]. apply (B n' H T).
  - subst n'. split; [reflexivity | tauto].
  - destruct (in_split _ _ H) as [p2 [s2 E2]]. subst s.
    destruct (W (p ++ n :: p2) n' s2) as [_ B].
    + rewrite <- app_assoc. reflexivity.
    + assert (In n (p ++ n :: p2)) as I by (apply in_or_app; right; left; reflexivity).
      destruct (B n I (eq_sym T)) as [N D]. split; [auto|]. intros x. symmetry. apply D.
Qed.

Lemma edge_of_node : forall d n b, In n d -> In b (n_deps n) -> edge d (n_tid n) b.
Proof. intros d n b Hn Hb. exists n. auto. Qed.

Lemma edge_deps : forall d n b, wf_dag d -> In n d -> (edge d (n_tid n) b <-> In b (n_deps n)).
Proof.
  intros d n b W Hn. split.
  - intros [n' [Hn' [T Hb]]]. destruct (wf_agree d n n' W Hn Hn' T) as [_ D]. apply D. exact Hb.
  - apply edge_of_node. exact Hn.
Qed.

Lemma depends_on_trans : forall d a b c, depends_on d a b -> depends_on d b c -> depends_on d a c.
Proof.
  intros d a b c H. induction H; intros H2; [exact H2|]. eapply dep_step; eauto.
Qed.

Lemma depends_on_edge : forall d a b, edge d a b -> depends_on d a b.
Proof. intros. eapply dep_step; [eassumption | apply dep_refl]. Qed.

(* in a well-formed graph every proper dependency is a task of the jugfile *)
Lemma depends_on_in : forall d a c, wf_dag d -> depends_on d a c -> a = c \/ In c (tids d).
Proof.
  intros d a c W H. induction H as [a | a b c E H IH]; [left; reflexivity|].
  right. destruct IH as [IH|IH]; [|exact IH]. subst c.
  destruct E as [n [Hn [T Hb]]]. eapply wf_deps_in; eauto.
Qed.

(* ---- closed_b ------------------------------------------------------------------------------------- *)
Lemma closed_b_spec : forall d st, closed_b d st = true <-> closed d st.
Proof.
  intros d st. unfold closed_b, closed. rewrite forallb_forall. split.
  - intros H n Hn S x Hx. specialize (H n Hn). rewrite S in H. simpl in H.
    rewrite forallb_forall in H. apply H. exact Hx.
  - intros H n Hn. destruct (st (n_tid n)) eqn:S; simpl; [|reflexivity].
    rewrite forallb_forall. intros x Hx. eapply H; eauto.
Qed.

(* ---- the executable closure computes reachability --------------------------------------------------- *)
Section Closure.
  Variable d : dag.
  Variable sel : node -> bool.
  Hypothesis W : wf_dag d.
  Hypothesis SelOk : forall n n', In n d -> In n' d -> n_tid n = n_tid n' -> sel n = sel n'.

  Definition reach_sel (t : tid) : Prop :=
    exists n, In n d /\ sel n = true /\ depends_on d t (n_tid n).

  Lemma reach_sel_unfold : forall n, In n d ->
    (reach_sel (n_tid n) <-> sel n = true \/ exists x, In x (n_deps n) /\ reach_sel x).
  Proof.
    intros n Hn. split.
    - intros [n0 [H0 [M D]]]. inversion D as [a E1 E2 | a b c E D2 E1 E2]; subst.
      + left. rewrite (SelOk n n0 Hn H0); auto.
      + right. exists b. split.
        * apply (edge_deps d n b W Hn). exact E.
        * exists n0. auto.
    - intros [M | [x [Hx [n0 [H0 [M D]]]]]].
      + exists n. repeat split; auto. apply dep_refl.
      + exists n0. repeat split; auto. eapply dep_step; [apply edge_of_node; eassumption | exact D].
  Qed.

  Lemma closure_from_spec : forall r p acc, d = p ++ r ->
    (forall t, In t acc <-> In t (tids p) /\ reach_sel t) ->
    forall t, In t (closure_from sel r acc) <-> In t (tids d) /\ reach_sel t.
  Proof.
    induction r as [|n r IH]; intros p acc E A t.
    - simpl. rewrite app_nil_r in E. rewrite E. apply A.
    - assert (Hn : In n d) by (rewrite E; apply in_or_app; right; left; reflexivity).
      assert (E2 : d = (p ++ [n]) ++ r) by (rewrite <- app_assoc; exact E).
      assert (B : sel n || existsb (fun x => mem x acc) (n_deps n) = true <-> reach_sel (n_tid n)).
      { rewrite (reach_sel_unfold n Hn). rewrite orb_true_iff, existsb_exists. split.
        - intros [H|[x [Hx M]]]; [left; exact H|]. right. exists x. split; [exact Hx|].
          apply mem_In in M. apply A in M. tauto.
        - intros [H|[x [Hx R]]]; [left; exact H|]. right. exists x. split; [exact Hx|].
          apply mem_In. apply A. split; [|exact R]. destruct (W p n r E) as [D _]. apply D. exact Hx. }
      simpl. destruct (sel n || existsb (fun x => mem x acc) (n_deps n)) eqn:C.
      + apply (IH (p ++ [n])); [exact E2|]. intros u. rewrite tids_app. simpl. split.
        * intros [H|H]; [subst u; split; [apply in_or_app; right; left; reflexivity | apply B; reflexivity]|].
          apply A in H. destruct H as [H1 H2]. split; [apply in_or_app; left; exact H1 | exact H2].
        * intros [H1 H2]. apply in_app_or in H1. destruct H1 as [H1|[H1|[]]]; [right; apply A; tauto | left; exact H1].
      + apply (IH (p ++ [n])); [exact E2|]. intros u. rewrite tids_app. simpl. split.
        * intros H. apply A in H. destruct H as [H1 H2]. split; [apply in_or_app; left; exact H1 | exact H2].
        * intros [H1 H2]. apply in_app_or in H1. destruct H1 as [H1|[H1|[]]]; [apply A; tauto|].
          subst u. apply B in H2. congruence.
  Qed.

  Lemma closure_spec : forall t, In t (closure sel d) <-> In t (tids d) /\ reach_sel t.
  Proof.
    intros t. unfold closure. apply (closure_from_spec d [] []); [reflexivity|].
    intros u. simpl. tauto.
  Qed.
End Closure.

Lemma depends_on_b_spec : forall d a c, wf_dag d -> (depends_on_b d a c = true <-> depends_on d a c).
Proof.
  intros d a c W. unfold depends_on_b. rewrite orb_true_iff, Pos.eqb_eq, mem_In.
  rewrite (closure_spec d (fun n => Pos.eqb (n_tid n) c) W).
  2:{ intros n n' _ _ T. rewrite T. reflexivity. }
  split.
  - intros [H|[_ [n [_ [T D]]]]]; [subst; apply dep_refl|]. apply Pos.eqb_eq in T. subst c. exact D.
  - intros D. destruct (Pos.eqb a c) eqn:E; [apply Pos.eqb_eq in E; left; exact E|]. right.
    apply Pos.eqb_neq in E. split.
    + destruct D as [a | a b c [n [Hn [T _]]] _]; [congruence|]. apply In_tids. exists n. auto.
    + destruct (depends_on_in d a c W D) as [H|H]; [congruence|].
      apply In_tids in H. destruct H as [n [Hn T]]. exists n. repeat split; auto.
      * apply Pos.eqb_eq. exact T.
      * rewrite T. exact D.
Qed.
