(* Facts about Model/Dag.v shared by C09 and C15. *)
From Coq Require Import List PArith Bool Arith Lia.
From JugV Require Import Model.Dag.
Import ListNotations.

Lemma mem_In : forall x l, mem x l = true <-> In x l.
Proof.
  intros x l. unfold mem. rewrite existsb_exists. split.
  - intros [y [Hy He]]. apply Pos.eqb_eq in He. subst. exact Hy.
  - intros H. exists x. split; [exact H | apply Pos.eqb_refl].
Qed.

Lemma mem_false : forall x l, mem x l = false <-> ~ In x l.
Proof.
  intros x l. rewrite <- mem_In. destruct (mem x l); intuition congruence.
Qed.

Lemma subset_b_spec : forall a b, subset_b a b = true <-> (forall x, In x a -> In x b).
Proof.
  intros a b. unfold subset_b. rewrite forallb_forall. split.
  - intros H x Hx. apply mem_In. apply H. exact Hx.
  - intros H x Hx. apply mem_In. apply H. exact Hx.
Qed.

Lemma seteq_b_spec : forall a b, seteq_b a b = true <-> (forall x, In x a <-> In x b).
Proof.
  intros a b. unfold seteq_b. rewrite andb_true_iff, !subset_b_spec. split.
  - intros [H1 H2] x. split; auto.
  - intros H. split; intros x Hx; apply H; exact Hx.
Qed.

Lemma st_of_In : forall l t, st_of l t = true <-> In t l.
Proof. intros. unfold st_of. apply mem_In. Qed.

Lemma tids_app : forall p s, tids (p ++ s) = tids p ++ tids s.
Proof. intros. unfold tids. apply map_app. Qed.

Lemma In_tids : forall d t, In t (tids d) <-> exists n, In n d /\ n_tid n = t.
Proof.
  intros d t. unfold tids. rewrite in_map_iff. split; intros [n [A B]]; exists n; tauto.
Qed.

(* ---- find_node --------------------------------------------------------------------------------- *)
Lemma find_node_some : forall d t n, find_node d t = Some n -> In n d /\ n_tid n = t.
Proof.
  induction d as [|a r IH]; simpl; intros t n H; [discriminate|].
  destruct (Pos.eqb (n_tid a) t) eqn:E.
  - inversion H; subst. apply Pos.eqb_eq in E. auto.
  - destruct (IH _ _ H). auto.
Qed.

(* a hash that occurs in a prefix is found inside that prefix *)
Lemma find_in_prefix : forall p x, In x (tids p) ->
  exists nx px sx, p = px ++ nx :: sx /\ n_tid nx = x /\ forall rest, find_node (p ++ rest) x = Some nx.
Proof.
  induction p as [|a r IH]; simpl; intros x H; [contradiction|].
  destruct (Pos.eqb (n_tid a) x) eqn:E.
  - apply Pos.eqb_eq in E. exists a, [], r. simpl. repeat split; auto.
  - destruct H as [H|H]; [apply Pos.eqb_neq in E; contradiction|].
    destruct (IH x H) as [nx [px [sx [P [T F]]]]].
    exists nx, (a :: px), sx. subst r. simpl. repeat split; auto.
Qed.

(* ---- well-formedness ------------------------------------------------------------------------------ *)
Lemma find_node_in : forall d x, In x (tids d) -> exists nx, find_node d x = Some nx.
Proof.
  induction d as [|a r IH]; simpl; intros x H; [contradiction|].
  destruct (Pos.eqb (n_tid a) x) eqn:E; [eexists; reflexivity|].
  destruct H as [H|H]; [apply Pos.eqb_neq in E; contradiction | apply IH; exact H].
Qed.

Lemma agrees_b_spec : forall n' n, agrees_b n' n = true <-> agrees n' n.
Proof.
  intros n' n. unfold agrees_b, agrees. destruct (Pos.eqb (n_tid n') (n_tid n)) eqn:E.
  - apply Pos.eqb_eq in E. rewrite andb_true_iff, Pos.eqb_eq, seteq_b_spec. tauto.
  - apply Pos.eqb_neq in E. split; [intros _ H; contradiction | reflexivity].
Qed.

(* the executable check is sound: whatever candidate order it tried, if the check passes the
   graph is well-formed (the numbering is the position in the candidate) *)
Lemma wf_with_sound : forall o d, wf_with o d = true -> wf_dag d.
Proof.
  intros o d H. unfold wf_with in H. rewrite !andb_true_iff, !forallb_forall in H.
  destruct H as [[A B] C]. split; [|split].
  - intros n x Hn Hx. specialize (A n Hn). rewrite subset_b_spec in A. apply A. exact Hx.
  - intros n n' Hn Hn'. specialize (B n Hn). rewrite forallb_forall in B. apply agrees_b_spec. apply B. exact Hn'.
  - exists (fun t => index_of t o). split.
    + intros n Hn. specialize (C n Hn). rewrite andb_true_iff in C. destruct C as [C _].
      apply Nat.ltb_lt. exact C.
    + intros n x Hn Hx. specialize (C n Hn). rewrite andb_true_iff, forallb_forall in C. destruct C as [_ C].
      apply Nat.ltb_lt. apply C. exact Hx.
Qed.

Lemma wf_dagb_sound : forall d, wf_dagb d = true -> wf_dag d.
Proof. intros d. unfold wf_dagb. apply wf_with_sound. Qed.

Lemma wf_deps_in : forall d n x, wf_dag d -> In n d -> In x (n_deps n) -> In x (tids d).
Proof. intros d n x [A _] Hn Hx. eapply A; eauto. Qed.

(* objects with the same hash have the same name and the same dependency set *)
Lemma wf_agree : forall d n n', wf_dag d -> In n d -> In n' d -> n_tid n' = n_tid n ->
  n_name n' = n_name n /\ (forall x, In x (n_deps n') <-> In x (n_deps n)).
Proof. intros d n n' [_ [B _]] Hn Hn' T. apply (B n n' Hn Hn' T). Qed.

(* ---- the special case: created in dependency order ---------------------------------------------------- *)
Lemma ordered_from_spec : forall d e, ordered_from e d = true <->
  (forall p n s, d = p ++ n :: s -> forall x, In x (n_deps n) -> In x (e ++ tids p)).
Proof.
  induction d as [|a r IH]; intros e; simpl.
  - split; [|reflexivity]. intros _ p n s H. destruct p; discriminate.
  - rewrite andb_true_iff, subset_b_spec, IH. split.
    + intros [A C] p n s H. destruct p as [|a' p'].
      * simpl in H. inversion H; subst. simpl. rewrite app_nil_r. exact A.
      * simpl in H. inversion H; subst. intros x Hx. specialize (C p' n s eq_refl x Hx).
        simpl. rewrite <- app_assoc in C. exact C.
    + intros H. split.
      * intros x Hx. specialize (H [] a r eq_refl x Hx). simpl in H. rewrite app_nil_r in H. exact H.
      * intros p n s E x Hx. subst r. specialize (H (a :: p) n s eq_refl x Hx). simpl in H.
        rewrite <- app_assoc. exact H.
Qed.

Lemma ordered_dagb_spec : forall d, ordered_dagb d = true <-> ordered_dag d.
Proof. intros d. unfold ordered_dagb, ordered_dag. rewrite ordered_from_spec. simpl. tauto. Qed.

Lemma index_of_app_l : forall t a b, In t a -> index_of t (a ++ b) = index_of t a /\ index_of t a < length a.
Proof.
  induction a as [|x r IH]; intros b H; [contradiction|]. simpl.
  destruct (Pos.eqb x t) eqn:E; [split; [reflexivity | lia]|].
  destruct H as [H|H]; [apply Pos.eqb_neq in E; contradiction|].
  destruct (IH b H) as [I1 I2]. split; [rewrite I1; reflexivity | lia].
Qed.

Lemma index_of_first : forall t l, In t l -> exists p s, l = p ++ t :: s /\ ~ In t p /\ index_of t l = length p.
Proof.
  induction l as [|x r IH]; intros H; [contradiction|]. simpl.
  destruct (Pos.eqb x t) eqn:E.
  - apply Pos.eqb_eq in E. subst x. exists [], r. simpl. auto.
  - destruct H as [H|H]; [apply Pos.eqb_neq in E; contradiction|].
    destruct (IH H) as [p [s [L [N I]]]]. exists (x :: p), s. subst r. simpl. repeat split; auto.
    intros [F|F]; [apply Pos.eqb_neq in E; contradiction | contradiction].
Qed.

(* a graph created in dependency order is well-formed (numbering: first position of the hash) *)
Lemma ordered_wf : forall d, ordered_dag d -> (forall n n', In n d -> In n' d -> agrees n' n) -> wf_dag d.
Proof.
  intros d O A. split; [|split].
  - intros n x Hn Hx. destruct (in_split _ _ Hn) as [p [s E]]. specialize (O p n s E x Hx).
    subst d. rewrite tids_app. apply in_or_app. left. exact O.
  - exact A.
  - exists (fun t => index_of t (tids d)). split.
    + intros n Hn. assert (I : In (n_tid n) (tids d)) by (apply In_tids; exists n; auto).
      destruct (index_of_app_l (n_tid n) (tids d) [] I) as [_ L]. unfold tids in L at 2. rewrite map_length in L. exact L.
    + intros n x Hn Hx.
      assert (I : In (n_tid n) (tids d)) by (apply In_tids; exists n; auto).
      destruct (index_of_first _ _ I) as [tp [ts [L [N Ix]]]]. rewrite Ix.
      (* the first object with that hash: split d at the same position *)
      unfold tids in L. apply map_eq_app in L. destruct L as [p [r [E [Mp Mr]]]].
      destruct r as [|n0 s]; [discriminate|]. simpl in Mr. inversion Mr as [[T0 Ms]].
      assert (H0 : In n0 d) by (rewrite E; apply in_or_app; right; left; reflexivity).
      destruct (A n n0 Hn H0 T0) as [_ D]. apply D in Hx.
      specialize (O p n0 s E x Hx).
      destruct (index_of_app_l x (tids p) (tids (n0 :: s)) O) as [I1 I2].
      rewrite E, tids_app, I1. unfold tids in I2 at 2. rewrite map_length in I2.
      rewrite <- Mp. rewrite map_length. exact I2.
Qed.

Lemma edge_of_node : forall d n b, In n d -> In b (n_deps n) -> edge d (n_tid n) b.
Proof. intros d n b Hn Hb. exists n. auto. Qed.

Lemma edge_deps : forall d n b, wf_dag d -> In n d -> (edge d (n_tid n) b <-> In b (n_deps n)).
Proof.
  intros d n b W Hn. split.
  - intros [n' [Hn' [T Hb]]]. destruct (wf_agree d n n' W Hn Hn' T) as [_ D]. apply D. exact Hb.
  - apply edge_of_node. exact Hn.
Qed.

Lemma depends_on_trans : forall d a b c, depends_on d a b -> depends_on d b c -> depends_on d a c.
Proof.
  intros d a b c H. induction H; intros H2; [exact H2|]. eapply dep_step; eauto.
Qed.

Lemma depends_on_edge : forall d a b, edge d a b -> depends_on d a b.
Proof. intros. eapply dep_step; [eassumption | apply dep_refl]. Qed.

(* in a well-formed graph every proper dependency is a task of the jugfile *)
Lemma depends_on_in : forall d a c, wf_dag d -> depends_on d a c -> a = c \/ In c (tids d).
Proof.
  intros d a c W H. induction H as [a | a b c E H IH]; [left; reflexivity|].
  right. destruct IH as [IH|IH]; [|exact IH]. subst c.
  destruct E as [n [Hn [T Hb]]]. eapply wf_deps_in; eauto.
Qed.

(* ---- closed_b ------------------------------------------------------------------------------------- *)
Lemma closed_b_spec : forall d st, closed_b d st = true <-> closed d st.
Proof.
  intros d st. unfold closed_b, closed. rewrite forallb_forall. split.
  - intros H n Hn S x Hx. specialize (H n Hn). rewrite S in H. simpl in H.
    rewrite forallb_forall in H. apply H. exact Hx.
  - intros H n Hn. destruct (st (n_tid n)) eqn:S; simpl; [|reflexivity].
    rewrite forallb_forall. intros x Hx. eapply H; eauto.
Qed.

