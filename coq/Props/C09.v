(* C09 - invalidation removes exactly the results that depend on the target.
   Statements only; every proof is [exact <lemma>].

   Vocabulary (Model/Dag.v, Model/Invalidate.v): a loaded jugfile is [d : dag], the list of its
   task objects in creation order, each (hash, function name, hashes of its direct dependencies
   as Task.dependencies() yields them).  Creation order need NOT be dependency order (a container
   handed to a task may be filled with tasks afterwards).  [wf_dag d]: every dependency is a task
   of the jugfile, objects with equal hash have equal name and dependency set, and the graph is
   acyclic (a topological numbering below [length d] exists).  [depends_on d t c]:
   t = c or t depends on c through a chain of direct dependencies.  [m : fname -> bool] is the
   target matcher (any predicate on names).  [st : tid -> bool] is can_load, ANY store state.
   [cli_invalid] = the memoised depth-first search of InvalidateCommand.run; [shell_invalid] = the
   reverse-edge work-list of the shell's invalidate(); [exec_log] = what one sequential execute runs. *)
From Coq Require Import List PArith Bool.
From JugV Require Import Model.Dag Model.Invalidate Proofs.DagFacts Proofs.InvalidateFacts.
Import ListNotations.

(* (a) `jug invalidate --target T` hands to remove_many exactly the tasks whose name matches T or
       that depend, directly or transitively, on such a task *)
Theorem C09_cli_exact : forall (d : dag) (m : matcher), wf_dag d ->
  forall t, In t (cli_invalid d m) <->
            In t (tids d) /\ exists n, In n d /\ m (n_name n) = true /\ depends_on d t (n_tid n).
Proof. exact cli_invalid_spec. Qed.
Print Assumptions C09_cli_exact.

(* (b) the shell's invalidate(s) visits exactly s and its dependents - on every graph, cyclic or
       not - and its work-list is empty when the fuel of the model runs out *)
Theorem C09_shell_exact : forall (d : dag) (s : tid),
  (forall t, In t (shell_invalid d s) <-> depends_on d t s) /\
  snd (shell_loop (shell_fuel d) (rev_edges d) [s] []) = [].
Proof. exact (fun d s => conj (shell_invalid_spec d s) (shell_queue_exhausted d s)). Qed.
Print Assumptions C09_shell_exact.

(* command line and shell agree for the same target: the command-line set is the union of the
   shell's sets over the tasks whose name matches ... *)
Theorem C09_cli_eq_shell : forall (d : dag) (m : matcher), wf_dag d ->
  forall t, In t (cli_invalid d m) <->
            exists n, In n d /\ m (n_name n) = true /\ In t (shell_invalid d (n_tid n)).
Proof. exact cli_eq_shell. Qed.
Print Assumptions C09_cli_eq_shell.

(* ... in particular, when the target selects exactly the task s, the two sets are equal ... *)
Theorem C09_cli_eq_shell_single : forall (d : dag) (m : matcher) (s : tid), wf_dag d -> In s (tids d) ->
  (forall n, In n d -> (m (n_name n) = true <-> n_tid n = s)) ->
  forall t, In t (cli_invalid d m) <-> In t (shell_invalid d s).
Proof. exact cli_eq_shell_one. Qed.
Print Assumptions C09_cli_eq_shell_single.

(* ... and a shell session invalidating every matching task leaves the same store as the command *)
Theorem C09_shell_store_eq_cli : forall (d : dag) (m : matcher) (st : store), wf_dag d ->
  forall t, shell_store d (seeds_of d m) st t = cli_store d m st t.
Proof. exact shell_store_eq_cli. Qed.
Print Assumptions C09_shell_store_eq_cli.

(* (c) store effect, for every prior store state: no matching task and no dependent of one has a
       result afterwards, every other key (of the jugfile or not) is untouched, and remove_many
       reports exactly the invalidated keys that had a result *)
Theorem C09_store_effect : forall (d : dag) (m : matcher), wf_dag d -> forall (st : store) (t : tid),
  let target := exists n, In n d /\ m (n_name n) = true /\ depends_on d t (n_tid n) in
  (target -> cli_store d m st t = false) /\
  (~ target -> cli_store d m st t = st t) /\
  (In t (cli_removed d m st) <-> target /\ st t = true).
Proof.
  exact (fun d m W st t => conj (proj1 (cli_store_spec d m W st t))
                                (conj (proj2 (cli_store_spec d m W st t)) (cli_removed_spec d m W st t))).
Qed.
Print Assumptions C09_store_effect.

(* (d) stored results stay dependency-closed: what is left was computed from what is left *)
Theorem C09_closed_preserved : forall (d : dag) (m : matcher), wf_dag d ->
  forall st, closed d st -> closed d (cli_store d m st).
Proof. exact cli_store_closed. Qed.
Print Assumptions C09_closed_preserved.

(* (e) a following execute runs exactly the tasks without a result, each once, and completes the
       store; after an invalidation these are the invalidated tasks plus what had no result before *)
Theorem C09_execute_reruns : forall (d : dag) (m : matcher) (st : store), wf_dag d ->
  (forall t, In t (exec_log d (cli_store d m st)) <->
             In t (tids d) /\ (st t = false \/
                               exists n, In n d /\ m (n_name n) = true /\ depends_on d t (n_tid n))) /\
  NoDup (exec_log d (cli_store d m st)).
Proof. exact exec_after_invalidate. Qed.
Print Assumptions C09_execute_reruns.

Theorem C09_execute_completes : forall (d : dag) (st : store), wf_dag d ->
  (forall t, In t (exec_log d st) <-> In t (tids d) /\ st t = false) /\
  NoDup (exec_log d st) /\
  (forall t, exec_store d st t = true <-> st t = true \/ In t (tids d)).
Proof. exact exec_spec. Qed.
Print Assumptions C09_execute_completes.

(* the boolean checks the harness evaluates: [wf_dagb] is sound for [wf_dag] (it proposes a numbering
   and checks it), [depends_on_b] and [closed_b] decide their propositions; graphs created in
   dependency order (the common case) are well-formed *)
Theorem C09_checks_sound : forall (d : dag),
  (wf_dagb d = true -> wf_dag d) /\
  (forall a c, depends_on_b d a c = true <-> depends_on d a c) /\
  (forall st, closed_b d st = true <-> closed d st) /\
  (ordered_dag d -> (forall n n', In n d -> In n' d -> agrees n' n) -> wf_dag d).
Proof.
  exact (fun d => conj (wf_dagb_sound d) (conj (depends_on_b_spec d) (conj (closed_b_spec d) (ordered_wf d)))).
Qed.
Print Assumptions C09_checks_sound.

(* non-vacuity: 1 = load(), 2 = f(1), 3 = f(1) written a second time (same hash 2), 4 = g(2),
   5 = h(1), 6 = g(4, 5), 7 = k().  Names: load = 10, f = 11, g = 12, h = 13, k = 14.
   Target "f": the command line and the shell (seeded with task 2) both give {2, 4, 6};
   results 1, 5, 7 and the foreign key 99 stay; the following execute runs 2, 4, 6 once each. *)
Example C09_nonvacuous :
  let d : dag := [(1, 10, []); (2, 11, [1]); (2, 11, [1]); (4, 12, [2]); (5, 13, [1]);
                  (6, 12, [4; 5]); (7, 14, [])]%positive in
  let m : matcher := fun nm => Pos.eqb nm 11 in
  let st := st_of [1; 2; 4; 5; 6; 7; 99]%positive in
  wf_dagb d = true /\
  cli_invalid d m = [2; 2; 4; 6]%positive /\
  shell_invalid d 2%positive = [2; 4; 6]%positive /\
  seeds_of d m = [2; 2]%positive /\
  filter (cli_store d m st) [1; 2; 4; 5; 6; 7; 99]%positive = [1; 5; 7; 99]%positive /\
  filter (shell_store d (seeds_of d m) st) [1; 2; 4; 5; 6; 7; 99]%positive = [1; 5; 7; 99]%positive /\
  cli_removed d m st = [2; 2; 4; 6]%positive /\
  closed_b d st = true /\ closed_b d (cli_store d m st) = true /\
  exec_log d (cli_store d m st) = [2; 4; 6]%positive /\
  depends_on_b d 6%positive 1%positive = true /\ depends_on_b d 5%positive 2%positive = false.
Proof. vm_compute. repeat split; reflexivity. Qed.

(* non-vacuity, creation order <> dependency order:
     results = {}; merged = merge(results); results[s] = analyse(load(s)) (twice); report = render(merged)
   1 = merge (depends on 3 and 5, created AFTER it), 2, 4 = load, 3, 5 = analyse, 6 = render.
   Names merge = 10, load = 11, analyse = 12, render = 13.  Target "analyse": {1, 3, 5, 6}. *)
Example C09_nonvacuous_late_dependencies :
  let d : dag := [(1, 10, [3; 5]); (2, 11, []); (3, 12, [2]); (4, 11, []); (5, 12, [4]); (6, 13, [1])]%positive in
  let m : matcher := fun nm => Pos.eqb nm 12 in
  let st := st_of [1; 2; 3; 4; 5; 6]%positive in
  ordered_dagb d = false /\ wf_dagb d = true /\
  cli_invalid d m = [1; 3; 5; 6]%positive /\
  shell_invalid d 3%positive = [3; 1; 6]%positive /\
  filter (cli_store d m st) [1; 2; 3; 4; 5; 6]%positive = [2; 4]%positive /\
  exec_log d (cli_store d m st) = [3; 5; 1; 6]%positive.
Proof. vm_compute. repeat split; reflexivity. Qed.

(* ---- (e'), with the N-worker execution protocol (Model/Exec.v) in place of the sequential execute above ------
   [C] any configuration of the protocol whose dependency lists are the graph's; [r] a sound store of results of
   the jugfile; the invalidated results are removed ([kept d m t] = t is not in [cli_invalid d m]); then EVERY
   quiet run of any number of workers calls the function of no task that kept its result (its value stays) and
   calls the function of an invalidated task exactly once if it ends up stored again. *)
From JugV Require Import Model.MapReduce Model.Slice Model.Deps Model.Exec Model.ExecCase Model.ExecExample
  Proofs.ExecFacts Proofs.ExecTheorems Proofs.ExecInvalidateFacts.

Theorem C09_workers_rerun_exactly_the_invalidated : forall (V : Type) (C : cfg V), framed C ->
  forall d : dag, wf_dag d ->
  (forall n x, In n d -> (In x (c_deps C (n_tid n)) <-> In x (n_deps n))) ->
  forall (m : matcher) (r : tid -> option V), Sound C r -> (forall t, r t <> None -> In t (tids d)) ->
  forall tr s, forallb quiet tr = true ->
  run C (init (fun t => if kept d m t then r t else None)) tr = Some s ->
  forall t, (~ In t (cli_invalid d m) -> r t <> None -> execs s t = 0 /\ results s t = r t) /\
            (In t (cli_invalid d m) -> results s t <> None -> execs s t = 1).
Proof. exact (@invalidate_then_execute). Qed.
Print Assumptions C09_workers_rerun_exactly_the_invalidated.

(* non-vacuity: the three-task chain of Model/ExecExample.v, all results present, `jug invalidate` of the
   middle function: tasks 2 and 3 lose their results; a worker then finds 1 loadable and calls f2 and f3 once *)
Example C09_workers_nonvacuous :
  let d : dag := [(1, 10, []); (2, 11, [1]); (3, 12, [1; 2])]%positive in
  let m : matcher := fun nm => Pos.eqb nm 11 in
  let C := prog_cfg ex_prog in
  let r := Deps.st_of [(1, ex_v1); (2, ex_v2); (3, ex_v3)]%positive in
  let tr := [ ECanLoad 0%nat 1 true; ELock 0%nat 2 true; ECanLoad 0%nat 2 false; ELoad 0%nat 1 ex_v1; EStart 0%nat 2;
              ERet 0%nat 2 ex_v2; EDump 0%nat 2 ex_v2; EUnlock 0%nat 2;
              ELock 0%nat 3 true; ECanLoad 0%nat 3 false; ELoad 0%nat 2 ex_v2; EStart 0%nat 3;
              ERet 0%nat 3 ex_v3; EDump 0%nat 3 ex_v3; EUnlock 0%nat 3; EExit 0%nat 0%nat ]%positive in
  wf_dagb d = true /\ cli_invalid d m = [2; 3]%positive /\
  forallb (fun n => seteq_b (c_deps C (n_tid n)) (n_deps n)) d = true /\
  forallb quiet tr = true /\
  exists s, run C (init (fun t => if kept d m t then r t else None)) tr = Some s /\
            map (execs s) [1; 2; 3]%positive = [0; 1; 1] /\
            map (results s) [1; 2; 3]%positive = [Some ex_v1; Some ex_v2; Some ex_v3].
Proof. vm_compute. repeat split; try reflexivity. eexists. repeat split; reflexivity. Qed.
