(* C17 - map, mapreduce, reduce, currymap agree with the Python built-ins for all splits.
   Statements only; every proof is [exact <lemma>]. *)
From Coq Require Import List Arith ZArith Bool.
From JugV Require Import Model.MapReduce Model.Slice Proofs.MapReduceFacts Proofs.SliceFacts.
Import ListNotations.

(* every input element lies in exactly one block, in order (hence is mapped exactly once) *)
Theorem C17_blocks_partition_input : forall (A : Type) (l : list A) (s : nat),
  1 <= s -> concat (break_up l s) = l.
Proof. exact @break_up_concat. Qed.
Print Assumptions C17_blocks_partition_input.

Theorem C17_blocks_shape : forall (A : Type) (l : list A) (s : nat), 1 <= s ->
  Forall (fun b => b <> [] /\ length b <= s) (break_up l s) /\
  (forall i, S i < length (break_up l s) -> length (nth i (break_up l s) []) = s).
Proof.
  intros A l s Hs. split.
  - exact (break_up_fuel_blocks (length l) l s (le_n _) Hs).
  - intros i. exact (break_up_fuel_full (length l) l s i (le_n _) Hs).
Qed.
Print Assumptions C17_blocks_shape.

(* value(mapreduce(r, m, xs, map_step, reduce_step)) = functools.reduce(r, map(m, xs))
   for every non-empty input, every map_step >= 1, reduce_step >= 2, any ASSOCIATIVE r
   (commutativity is not needed: the tree preserves order). *)
Theorem C17_mapreduce_is_reduce_of_map : forall (X Y : Type) (r : Y -> Y -> Y) (m : X -> Y),
  (forall a b c, r (r a b) c = r a (r b c)) ->
  forall (xs : list X) (map_step reduce_step : nat),
    xs <> [] -> 1 <= map_step -> 2 <= reduce_step ->
    exists y, reduce1 r (map m xs) = Some y /\ mapreduce_value r m xs map_step reduce_step = MrValue y.
Proof. exact @mapreduce_correct. Qed.
Print Assumptions C17_mapreduce_is_reduce_of_map.

Theorem C17_mapreduce_empty : forall (X Y : Type) (r : Y -> Y -> Y) (m : X -> Y) ms rs,
  mapreduce_value r m [] ms rs = MrEmpty.
Proof. exact @mapreduce_empty. Qed.
Print Assumptions C17_mapreduce_empty.

(* reduce_step = 1 is outside the property's range for a reason: the loop never ends *)
Theorem C17_reduce_step_1_diverges : forall (X : Type) fuel (rs : list (node X)),
  2 <= length rs -> red_loop fuel rs 1 = None.
Proof. exact @red_loop_step1_diverges. Qed.
Print Assumptions C17_reduce_step_1_diverges.

(* value(map(m, xs, s)) = [m(x) for x in xs] *)
Theorem C17_map_value : forall (X Y : Type) (m : X -> Y) (xs : list X) (s : nat), 1 <= s ->
  mapseq_value (map_blocks (map m xs) s) = map m xs /\
  map_blocks (map m xs) s = map (map m) (break_up xs s).
Proof. exact @map_value. Qed.
Print Assumptions C17_map_value.

Theorem C17_currymap_value : forall (Y : Type) (ys : list Y) (s : nat), 1 <= s ->
  currymap_values (break_up ys s) = map Some ys.
Proof. exact @currymap_value. Qed.
Print Assumptions C17_currymap_value.

(* m[p] = [m(x) for x in xs][p] for every integer p (negative: from the end; out of range: IndexError) *)
Theorem C17_mapseq_index : forall (Y : Type) (ys : list Y) (bs : nat), 1 <= bs ->
  forall p : Z, ba_get (mk_baccess ys bs) p = py_list_get ys p.
Proof. exact @mapseq_index. Qed.
Print Assumptions C17_mapseq_index.

(* value(m[sl]) = [m(x) for x in xs][sl] for every slice *)
Theorem C17_mapseq_slice : forall (Y : Type) (ys : list Y) (bs : nat), 1 <= bs ->
  forall sl s, ba_slice (mk_baccess ys bs) sl = Some s -> py_list_slice ys sl = Some (bslice_value s).
Proof. exact @mapseq_slice_value. Qed.
Print Assumptions C17_mapseq_slice.

Theorem C17_slice_positions_in_bounds : forall sl n s e k i, (0 <= n)%Z ->
  py_indices sl n = Some (s, e, k) ->
  (0 <= i < range_len {| r_start := s; r_stop := e; r_step := k |})%Z ->
  (0 <= s + i * k < n)%Z.
Proof. exact slice_positions_in_bounds. Qed.
Print Assumptions C17_slice_positions_in_bounds.

Theorem C17_slice_of_slice : forall (Y : Type) (s s2 : bslice (Y:=Y)) sl2 st e k,
  r_step (bs_range s) <> 0%Z ->
  py_indices sl2 (bslice_len s) = Some (st, e, k) -> bslice_slice s sl2 = Some s2 ->
  bslice_value s2 = map (bslice_get s) (range_list {| r_start := st; r_stop := e; r_step := k |}).
Proof. exact @mapseq_slice_of_slice. Qed.
Print Assumptions C17_slice_of_slice.

(* non-vacuity: the hypotheses are met by ordinary inputs and the conclusion is not trivial *)
Example C17_nonvacuous :
  mapreduce_value (@app nat) (fun x => [x]) [1;2;3;4;5;6;7] 2 2 = MrValue [1;2;3;4;5;6;7]
  /\ (exists s, ba_slice (mk_baccess [10;11;12;13;14;15;16]%Z 3)
                  {| sl_start := Some (-2)%Z; sl_stop := None; sl_step := Some (-2)%Z |} = Some s
                /\ bslice_value s = [Some 15; Some 13; Some 11]%Z).
Proof. split; [vm_compute; reflexivity | eexists; split; vm_compute; reflexivity]. Qed.
