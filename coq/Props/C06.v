(* C06 - the store is a faithful key-value map, on every backend, for every operation sequence.
   Statements only; every proof is [exact <lemma>].

   Vocabulary (Model/Store.v): [sop] = dump / load / can_load / remove / remove_many / list / cleanup /
   pack / close+reopen, plus [SPackCrash n] = `jug pack` killed inside update_pack() when the new pack file
   is in place and only n of the result files it replaces are unlinked, followed by a new store object (the
   keys of the other files are then in the pack AND files); [spec_step] = the same operations on a finite map [key -> valid];
   [fstep], [dstep], [rstep] = the bookkeeping of file_store (files + packed + pack file),
   dict_store (dict + backing file) and redis_store; [run step s ops] = final state and the list of
   results; [last_write hist k] = the value of the most recent operation of [hist] (newest first)
   that touched k; [touch op k old] = what [op] does to k.
   [res_agree op rc rs]: results are equal, except that key collections (list, remove_many) agree as
   duplicate-free sets and update_pack's count has no counterpart in the map.
   [res_agree_k op rc rs] (histories with killed packs): the same, except that list() may name a live key
   twice (same set of keys) and cleanup() counts removed objects (pack entries + files), at least one per
   removed key.  [f_reach] = states reachable without a killed pack, [f_reach_k] = reachable by any operations. *)
From Coq Require Import List ZArith PArith Bool Permutation.
From JugV Require Import Model.Store Proofs.StoreFacts.
Import ListNotations.

(* ---- the specification is the history reading of the property -------------------------------- *)
(* after any sequence of operations the map holds, for every key, the value of the last dump not
   followed by a remove / remove_many naming the key or a cleanup not naming it *)
Theorem C06_spec_is_last_write : forall (ops : list sop) (k : key),
  aget k (fst (run spec_step [] ops)) = last_write (rev ops) k.
Proof. exact spec_is_last_write. Qed.
Print Assumptions C06_spec_is_last_write.

(* ---- file store: with and without compress_numpy, packed and unpacked, across reopen --------- *)
Theorem C06_file_store_refines_map : forall (E : venv) (compress_numpy : bool) (ops : list sop),
  (forall n, ~ In (SPackCrash n) ops) ->
  FInv (fst (run (fstep E) (f_init compress_numpy) ops)) /\
  (forall k, f_load (fst (run (fstep E) (f_init compress_numpy) ops)) k = aget k (fst (run spec_step [] ops))) /\
  all_agree res_agree ops (snd (run (fstep E) (f_init compress_numpy) ops)) (snd (run spec_step [] ops)).
Proof. exact (fun E c ops H => file_store_refines E c ops (proj2 (no_crashes_iff ops) H)). Qed.
Print Assumptions C06_file_store_refines_map.

(* the same for every history, killed packs included: a key may then live in the pack and as a file at once
   (with the same value in both places: FInvK), every load / can_load / remove / remove_many answer is still
   exactly the map's, list() names exactly the live keys *)
Theorem C06_file_store_refines_map_with_killed_packs : forall (E : venv) (compress_numpy : bool) (ops : list sop),
  FInvK (fst (run (fstep E) (f_init compress_numpy) ops)) /\
  (forall k, f_load (fst (run (fstep E) (f_init compress_numpy) ops)) k = aget k (fst (run spec_step [] ops))) /\
  all_agree res_agree_k ops (snd (run (fstep E) (f_init compress_numpy) ops)) (snd (run spec_step [] ops)).
Proof. exact file_store_refines_k. Qed.
Print Assumptions C06_file_store_refines_map_with_killed_packs.

(* loadable iff stored and not since removed or cleaned up; load returns the last value stored
   (every history, killed packs included) *)
Theorem C06_file_store_last_write : forall (E : venv) (compress_numpy : bool) (ops : list sop) (k : key),
  f_load (fst (run (fstep E) (f_init compress_numpy) ops)) k = last_write (rev ops) k /\
  (f_can_load (fst (run (fstep E) (f_init compress_numpy) ops)) k = true <-> last_write (rev ops) k <> None).
Proof. exact file_store_last_write. Qed.
Print Assumptions C06_file_store_last_write.

(* in every reachable state each operation changes what can be loaded exactly as [touch] says;
   in particular [touch SPack] and [touch SReopen] are the identity: packing or closing and
   reopening the store changes no answer *)
Theorem C06_file_step_effect : forall (E : venv) (s : fstore) (op : sop) (k : key), f_reach_k E s ->
  f_load (fst (fstep E s op)) k = touch op k (f_load s k).
Proof. exact file_step_effect. Qed.
Print Assumptions C06_file_step_effect.

Theorem C06_pack_and_reopen_change_nothing : forall (k : key) (old : option valid) (n : nat),
  touch SPack k old = old /\ touch SReopen k old = old /\ touch (SPackCrash n) k old = old.
Proof. exact (fun k old n => conj eq_refl (conj eq_refl eq_refl)). Qed.
Print Assumptions C06_pack_and_reopen_change_nothing.

(* list() enumerates exactly the live keys, without duplicates (packed keys + file keys) *)
Theorem C06_file_list_exact : forall (E : venv) (s : fstore), f_reach E s ->
  fst (fstep E s SList) = s /\
  exists l, snd (fstep E s SList) = RKeys l /\ NoDup l /\ forall k, In k l <-> f_can_load s k = true.
Proof. exact file_list_exact. Qed.
Print Assumptions C06_file_list_exact.

(* after a killed pack list() still names every live key and nothing else (a key in both places: twice) *)
Theorem C06_file_list_complete_after_killed_pack : forall (E : venv) (s : fstore), f_reach_k E s ->
  fst (fstep E s SList) = s /\
  exists l, snd (fstep E s SList) = RKeys l /\ forall k, In k l <-> f_can_load s k = true.
Proof. exact file_list_complete. Qed.
Print Assumptions C06_file_list_complete_after_killed_pack.

(* remove reports truthfully whether something was removed, and afterwards the key is gone - from the pack
   AND from the files, in every reachable state (killed packs included) *)
Theorem C06_file_remove_truthful : forall (E : venv) (s : fstore) (k : key), f_reach_k E s ->
  snd (fstep E s (SRemove k)) = RBool (f_can_load s k) /\
  f_can_load (fst (fstep E s (SRemove k))) k = false.
Proof. exact file_remove_truthful. Qed.
Print Assumptions C06_file_remove_truthful.

Theorem C06_file_remove_many_truthful : forall (E : venv) (s : fstore) (ks : list key), f_reach_k E s ->
  (exists l, snd (fstep E s (SRemoveMany ks)) = RKeys l /\ NoDup l /\
             forall k, In k l <-> In k ks /\ f_can_load s k = true) /\
  (forall k, In k ks -> f_can_load (fst (fstep E s (SRemoveMany ks))) k = false).
Proof. exact file_remove_many_truthful. Qed.
Print Assumptions C06_file_remove_many_truthful.

(* cleanup(active) leaves exactly the live keys that are active, wherever they are stored *)
Theorem C06_file_cleanup_exact : forall (E : venv) (s : fstore) (active : list key) (k : key), f_reach_k E s ->
  f_can_load (fst (fstep E s (SCleanup active))) k = kmem k active && f_can_load s k.
Proof. exact file_cleanup_exact. Qed.
Print Assumptions C06_file_cleanup_exact.

(* ---- in-memory store, with its backing file (reopen allowed) or without (no reopen) ----------- *)
Theorem C06_dict_store_refines_map : forall (backed : bool) (ops : list sop),
  backed = true \/ ~ In SReopen ops ->
  d_mem (fst (run dstep (d_init backed) ops)) = fst (run spec_step [] ops) /\
  all_agree res_agree ops (snd (run dstep (d_init backed) ops)) (snd (run spec_step [] ops)).
Proof. exact dict_store_refines. Qed.
Print Assumptions C06_dict_store_refines_map.

(* ---- redis: the same, except that load of a key that is not live answers None instead of raising *)
Theorem C06_redis_store_refines_map : forall (ops : list sop),
  fst (run rstep [] ops) = fst (run spec_step [] ops) /\
  all_agree res_agree_redis ops (snd (run rstep [] ops)) (snd (run spec_step [] ops)).
Proof. exact redis_store_refines. Qed.
Print Assumptions C06_redis_store_refines_map.

(* ---- framing: what is written decodes to what was stored, given the byte codecs ---------------- *)
Theorem C06_file_framing_roundtrip :
  forall (V A : Type) (inj : A -> V) (as_arr : V -> option A) (vNone : V) (is_none : V -> bool)
         (pickle : V -> bytes) (unpickle : bytes -> option V)
         (npsave : A -> bytes) (npload : bytes -> option A) (deflate inflate : bytes -> bytes),
    (forall (v : V) (a : A), as_arr v = Some a -> v = inj a) ->
    (forall v : V, is_none v = true -> v = vNone) ->
    (forall v : V, unpickle (pickle v) = Some v) ->
    (forall a : A, npload (npsave a) = Some a) ->
    (forall b : bytes, inflate (deflate b) = b) ->
    inflate [] = [] ->
    (forall b : bytes, npload (deflate b) = None) ->
    npload [] = None ->
    forall (compress_numpy : bool) (v : V),
      decode_file V A inj vNone unpickle npload inflate
        (encode_file V A as_arr is_none pickle npsave deflate compress_numpy v) = Some v.
Proof. exact decode_file_encode_file. Qed.
Print Assumptions C06_file_framing_roundtrip.

Theorem C06_stream_framing_roundtrip :
  forall (V A : Type) (inj : A -> V) (as_arr : V -> option A) (vNone : V) (is_none : V -> bool)
         (pickle : V -> bytes) (unpickle : bytes -> option V)
         (npsave : A -> bytes) (npload : bytes -> option A) (deflate inflate : bytes -> bytes),
    (forall (v : V) (a : A), as_arr v = Some a -> v = inj a) ->
    (forall v : V, is_none v = true -> v = vNone) ->
    (forall v : V, unpickle (pickle v) = Some v) ->
    (forall a : A, npload (npsave a) = Some a) ->
    (forall b : bytes, inflate (deflate b) = b) ->
    inflate [] = [] ->
    forall v : V,
      decode V A inj vNone unpickle npload inflate
        (encode V A as_arr is_none pickle npsave deflate v) = Some v.
Proof. exact decode_encode. Qed.
Print Assumptions C06_stream_framing_roundtrip.

Theorem C06_redis_framing_roundtrip :
  forall (V A : Type) (inj : A -> V) (as_arr : V -> option A) (vNone : V) (is_none : V -> bool)
         (pickle : V -> bytes) (unpickle : bytes -> option V)
         (npsave : A -> bytes) (npload : bytes -> option A) (deflate inflate b64e b64d : bytes -> bytes),
    (forall (v : V) (a : A), as_arr v = Some a -> v = inj a) ->
    (forall v : V, is_none v = true -> v = vNone) ->
    (forall v : V, unpickle (pickle v) = Some v) ->
    (forall a : A, npload (npsave a) = Some a) ->
    (forall b : bytes, inflate (deflate b) = b) ->
    inflate [] = [] ->
    (forall b : bytes, b64d (b64e b) = b) ->
    (forall b : bytes, b64e b = [] -> b = []) ->
    forall v : V,
      redis_dec V A inj vNone unpickle npload inflate b64d
        (Some (redis_enc V A as_arr is_none pickle npsave deflate b64e v)) = Some v.
Proof. exact redis_dec_enc. Qed.
Print Assumptions C06_redis_framing_roundtrip.

(* the state "key in the pack and a file" is reachable: dump 1, dump 2, `jug pack` killed after one unlink *)
Example C06_key_in_both_places_reachable :
  let E := {| isarr := fun _ => false; small_raw := fun _ => true; small_enc := fun _ => true |} in
  let s := fst (run (fstep E) (f_init false) [SDump 1%positive 5%Z; SDump 2%positive 6%Z; SPackCrash 1]) in
  f_reach_k E s /\ amem 2%positive (f_packed s) = true /\ amem 2%positive (f_files s) = true /\
  amem 1%positive (f_packed s) = true /\ amem 1%positive (f_files s) = false.
Proof. exact both_places_reachable. Qed.

(* ---- non-vacuity ----------------------------------------------------------------------------------- *)
(* (a) the codec hypotheses are satisfiable: a concrete toy codec meets all of them, and the round trip
       computes on None, a non-array and an array, raw and compressed, file and redis;
   (b) a concrete history exercising re-dump of a packed key, pack, reopen, remove and cleanup on the
       file-store model gives the answers of the map, and the packed/file split is what one expects *)
Example C06_nonvacuous :
  (forall c v,
     decode_file ToyCodec.pv (list N) ToyCodec.inj ToyCodec.PNone ToyCodec.unpickle ToyCodec.npload ToyCodec.inflate
       (encode_file ToyCodec.pv (list N) ToyCodec.as_arr ToyCodec.is_none ToyCodec.pickle ToyCodec.npsave
          ToyCodec.deflate c v) = Some v
     /\ redis_dec ToyCodec.pv (list N) ToyCodec.inj ToyCodec.PNone ToyCodec.unpickle ToyCodec.npload ToyCodec.inflate
          ToyCodec.b64d
          (Some (redis_enc ToyCodec.pv (list N) ToyCodec.as_arr ToyCodec.is_none ToyCodec.pickle ToyCodec.npsave
                   ToyCodec.deflate ToyCodec.b64e v)) = Some v)
  /\ encode_file ToyCodec.pv (list N) ToyCodec.as_arr ToyCodec.is_none ToyCodec.pickle ToyCodec.npsave
       ToyCodec.deflate false (ToyCodec.PArr [1;2;3]%N) = [147; 1; 2; 3]%N
  /\ encode_file ToyCodec.pv (list N) ToyCodec.as_arr ToyCodec.is_none ToyCodec.pickle ToyCodec.npsave
       ToyCodec.deflate true (ToyCodec.PArr [1;2;3]%N) = [120; 78; 147; 1; 2; 3]%N
  /\ encode_file ToyCodec.pv (list N) ToyCodec.as_arr ToyCodec.is_none ToyCodec.pickle ToyCodec.npsave
       ToyCodec.deflate false ToyCodec.PNone = []
  /\ (let E := {| isarr := fun v => Z.eqb v 7; small_raw := fun _ => true; small_enc := fun v => negb (Z.eqb v 9) |} in
      let k1 := 1%positive in let k2 := 2%positive in let k3 := 3%positive in
      let ops := [SDump k1 5%Z; SDump k2 7%Z; SDump k3 9%Z; SPack; SLoad k1; SDump k1 6%Z; SList; SPack; SReopen;
                  SLoad k1; SRemove k2; SRemove k2; SCleanup [k1]; SCanLoad k3; SLoad k3; SList] in
      model_run (CFile false) E ops =
        ([RUnit; RUnit; RUnit; RCount 2; RVal 5%Z; RUnit; RKeys [k1; k2; k3]; RCount 1; RUnit; RVal 6%Z;
          RBool true; RBool false; RCount 1; RBool false; RMissing; RKeys [k1]],
         Some ([k1], [], []))
      /\ spec_run ops =
        [RUnit; RUnit; RUnit; RUnit; RVal 5%Z; RUnit; RKeys [k1; k2; k3]; RUnit; RUnit; RVal 6%Z;
         RBool true; RBool false; RCount 1; RBool false; RMissing; RKeys [k1]]).
Proof.
  split; [exact ToyCodec.roundtrips|].
  repeat split; vm_compute; reflexivity.
Qed.
