(* C05 - a result is visible completely or not at all, under crashes and concurrent reads.
   Statements only; every proof is [exact <lemma>].

   fin      : which names are final (result files <jugdir>/hh/rest and packs/jugpack)
   complete : which byte strings are the complete encoding of a value
   A trace is a list of primitive file-system operations (Model/Fs.v); [write_protocol] is the
   decidable discipline the real file_store's traces are checked against on every run:
     - a final name only becomes bound by [Rename] from a non-final (temporary) name whose
       inode holds a complete encoding that was [Fsync]ed after its last write;
     - no create / open-for-writing / write / truncate through a final name or on an inode a
       final name refers to;
     - a final name is unlinked only by an operation entitled to remove it (flag).
   [run fin empty_fs p] is the state after the prefix p, i.e. the crash point / the instant a
   reader looks; [kill_view] is what survives a process kill (and what a concurrent reader's
   exists/open finds), [pl_image] ranges over every post-power-loss image. *)
From Coq Require Import List PArith Bool.
From JugV Require Import Model.Fs Proofs.FsFacts.
Import ListNotations.

(* at EVERY crash point of EVERY accepted trace, under BOTH crash relations, every final name
   is absent or holds a complete encoding - never a partial or garbage file *)
Theorem C05_crash_all_or_nothing : forall (fin : name -> bool) (complete : cid -> bool)
  (tr p q : list fsop) (n : name),
  write_protocol fin complete tr = true -> tr = p ++ q -> fin n = true ->
  ok_content complete (kill_view (run fin empty_fs p) n) = true /\
  (forall img, pl_image (run fin empty_fs p) img -> ok_content complete (img n) = true).
Proof. exact write_protocol_all_or_nothing. Qed.
Print Assumptions C05_crash_all_or_nothing.

(* a reader whose exists/open of a final name happened after p1 reads - at any later time,
   after p2 further writer operations, e.g. a rename over the name or its unlink - exactly the
   complete encoding the file had when it was opened *)
Theorem C05_reader_sees_complete : forall (fin : name -> bool) (complete : cid -> bool)
  (tr p1 p2 q : list fsop) (n : name) (i : inoid),
  write_protocol fin complete tr = true -> tr = p1 ++ p2 ++ q -> fin n = true ->
  vol (run fin empty_fs p1) n = Some i ->
  exists c, complete c = true /\
            i_data (inodes (run fin empty_fs p1) i) = Cid c /\
            i_data (inodes (run fin empty_fs (p1 ++ p2)) i) = Cid c.
Proof. exact wp_reader_sees_complete. Qed.
Print Assumptions C05_reader_sees_complete.

(* the content a final name holds is either the one it held before the write w began (history h)
   or the content of the temporary file at the moment it was renamed onto it *)
Theorem C05_value_is_old_or_the_one_written : forall (fin : name -> bool) (complete : cid -> bool)
  (h w : list fsop) (n : name) (i : inoid),
  write_protocol fin complete (h ++ w) = true -> fin n = true ->
  vol (run fin (run fin empty_fs h) w) n = Some i ->
  exists c, complete c = true /\ i_data (inodes (run fin (run fin empty_fs h) w) i) = Cid c /\
    ((vol (run fin empty_fs h) n = Some i /\ i_data (inodes (run fin empty_fs h) i) = Cid c) \/
     (exists p1 src p2, w = p1 ++ Rename src n :: p2 /\
                        vol (run fin (run fin empty_fs h) p1) src = Some i /\
                        i_data (inodes (run fin (run fin empty_fs h) p1) i) = Cid c)).
Proof. exact wp_provenance. Qed.
Print Assumptions C05_value_is_old_or_the_one_written.

(* every final name the (possibly interrupted) write w does not rename onto or unlink keeps its
   binding, its possible durable bindings only shrink, and its file is bit-identical; hence
   whatever else w leaves behind lives under non-final names (tempfiles/, locks/) *)
Theorem C05_other_results_untouched : forall (fin : name -> bool) (complete : cid -> bool)
  (h w : list fsop) (n : name),
  write_protocol fin complete (h ++ w) = true -> fin n = true ->
  forallb (fun op => negb (touches op n)) w = true ->
  vol (run fin (run fin empty_fs h) w) n = vol (run fin empty_fs h) n /\
  incl (dur (run fin (run fin empty_fs h) w) n) (dur (run fin empty_fs h) n) /\
  (forall i, vol (run fin empty_fs h) n = Some i ->
             inodes (run fin (run fin empty_fs h) w) i = inodes (run fin empty_fs h) i).
Proof. exact wp_untouched. Qed.
Print Assumptions C05_other_results_untouched.

(* a stored result never disappears - neither from the volatile view nor from any durable view -
   unless w contains an unlink of that very name (which the protocol accepts only when flagged) *)
Theorem C05_stored_results_survive : forall (fin : name -> bool) (complete : cid -> bool)
  (h w : list fsop) (n : name),
  write_protocol fin complete (h ++ w) = true -> fin n = true ->
  forallb (fun op => negb (unlinks op n)) w = true ->
  (vol (run fin empty_fs h) n <> None -> vol (run fin (run fin empty_fs h) w) n <> None) /\
  (~ In None (dur (run fin empty_fs h) n) -> ~ In None (dur (run fin (run fin empty_fs h) w) n)).
Proof. exact wp_survive. Qed.
Print Assumptions C05_stored_results_survive.

(* the only way a final name acquires a binding: Rename from a temporary name whose inode is
   complete and fsynced *)
Theorem C05_bound_only_by_rename_of_synced_temp : forall (fin : name -> bool) (complete : cid -> bool)
  (h : list fsop) (op : fsop) (q : list fsop) (n : name) (i : inoid),
  write_protocol fin complete (h ++ op :: q) = true -> fin n = true ->
  vol (run fin empty_fs h) n <> Some i -> vol (step fin (run fin empty_fs h) op) n = Some i ->
  exists src, op = Rename src n /\ fin src = false /\ vol (run fin empty_fs h) src = Some i /\
              synced_complete complete (inodes (run fin empty_fs h) i) = true.
Proof. exact wp_bound_only_by_rename. Qed.
Print Assumptions C05_bound_only_by_rename_of_synced_temp.

(* the executable all-prefix / all-outcome check that the examples below run by vm_compute is
   implied by acceptance (so it can only fail on a rejected trace) *)
Theorem C05_accepted_implies_all_prefixes_ok : forall (fin : name -> bool) (complete : cid -> bool)
  (tr : list fsop) (ns : list name),
  write_protocol fin complete tr = true -> forallb fin ns = true ->
  all_prefixes_ok fin complete empty_fs tr ns = true.
Proof. exact wp_all_prefixes_ok. Qed.
Print Assumptions C05_accepted_implies_all_prefixes_ok.

(* update_pack: [covered covers s pk n] (Model/Fs.v; evaluated by coqc on the real traces at every unlink
   that update_pack issues) says that in every view of the pack name pk - volatile and after a power loss -
   pk holds a pack containing the key of result file n with n's value.  From such a state on, whatever the
   writer does (the unlink of n included) short of replacing the pack or re-creating its directory, every
   process-kill view and every post-power-loss image still has that value in the pack: moving a result into
   the pack never loses it. *)
Theorem C05_packed_result_stays_available : forall (fin : name -> bool) (complete : cid -> bool)
  (covers : cid -> name -> bool) (h w : list fsop) (pk n : name),
  write_protocol fin complete (h ++ w) = true -> fin pk = true ->
  covered covers (run fin empty_fs h) pk n = true ->
  forallb (fun op => negb (touches op pk) && negb (makes_dir op (fst pk))) w = true ->
  (exists c, kill_view (run fin (run fin empty_fs h) w) pk = Some (Cid c) /\ covers c n = true) /\
  (forall img, pl_image (run fin (run fin empty_fs h) w) img ->
               exists c, img pk = Some (Cid c) /\ covers c n = true).
Proof. exact wp_packed_stays_available. Qed.
Print Assumptions C05_packed_result_stays_available.

(* redis: dump is one SET of the complete encoding - at every point of it the key holds its old
   value or the complete new one, and no other key changes *)
Theorem C05_redis_dump_atomic : forall (s : kv) (k : positive) (enc : cid) (p q : list rcmd),
  redis_dump k enc = p ++ q ->
  (rrun s p k = s k \/ rrun s p k = Some enc) /\ (forall j, j <> k -> rrun s p j = s j).
Proof. exact redis_dump_atomic. Qed.
Print Assumptions C05_redis_dump_atomic.

(* ---- non-vacuity ---------------------------------------------------------------------
   directories: 1 = tempfiles, 2 = locks, 3 = packs, 4 = <jugdir>/ab; 9 = <jugdir> itself.
   contents: 1 = empty, 2 = complete encoding of v, 3 = a partial prefix of it, 4 = complete
   encoding of v'.  The first trace is the trace the interposer records for a real
   file_store.dump followed by a re-dump of the same key. *)
Local Open Scope positive_scope.
Definition ex_fin (n : name) : bool := negb (Pos.eqb (fst n) 1) && negb (Pos.eqb (fst n) 2).
Definition ex_complete (c : cid) : bool := Pos.eqb c 2 || Pos.eqb c 4.
Definition ex_key : name := (4, 1)%positive.
Definition ex_dump : list fsop :=
  [Mkdir 9; Mkdir 1; Mkdir 4; Mkstemp (1,1) 1; WriteData 1 3; WriteData 1 2; Fsync 1; Close 1;
   FsyncDir 1; Rename (1,1) ex_key]%positive.
Definition ex_redump : list fsop :=
  [Mkstemp (1,2) 2; WriteData 2 4; Fsync 2; Close 2; FsyncDir 1; Rename (1,2) ex_key]%positive.
(* mutant A: rename before fsync *)
Definition ex_mut_rename_first : list fsop :=
  [Mkdir 9; Mkdir 1; Mkdir 4; Mkstemp (1,1) 1; WriteData 1 2; Close 1; Rename (1,1) ex_key; Fsync 1]%positive.
(* mutant B: write directly to the final name *)
Definition ex_mut_direct : list fsop :=
  [Mkdir 9; Mkdir 4; OpenTrunc ex_key 1; WriteData 1 3; WriteData 1 2; Fsync 1; Close 1]%positive.
(* mutant C: the fsync is dropped *)
Definition ex_mut_nofsync : list fsop :=
  [Mkdir 9; Mkdir 1; Mkdir 4; Mkstemp (1,1) 1; WriteData 1 2; Close 1; FsyncDir 1; Rename (1,1) ex_key]%positive.

Example C05_nonvacuous :
  write_protocol ex_fin ex_complete (ex_dump ++ ex_redump) = true /\
  kill_view (run ex_fin empty_fs ex_dump) ex_key = Some (Cid 2) /\
  kill_view (run ex_fin empty_fs (ex_dump ++ ex_redump)) ex_key = Some (Cid 4) /\
  (* after the first dump a power loss may have lost the rename (durability is not claimed) ... *)
  pl_outcomes (run ex_fin empty_fs ex_dump) ex_key = [None; Some (Cid 2); None] /\
  (* ... during the re-dump the key holds the old or the new complete value, in every view *)
  all_prefixes_ok ex_fin ex_complete empty_fs (ex_dump ++ ex_redump) [ex_key; (3,1)%positive] = true.
Proof. vm_compute. repeat split; reflexivity. Qed.

(* update_pack after ex_dump: the pack (content 5, it contains ex_key's value) is written through a temporary
   file and renamed to packs/jugpack = (3,1); with the fsync of packs/ the key is covered in every view and
   its file may be unlinked; without it (the code before the repair) a power loss may leave no pack at all *)
Definition ex_pack : name := (3, 1)%positive.
Definition ex_complete2 (c : cid) : bool := ex_complete c || Pos.eqb c 5.
Definition ex_covers (c : cid) (n : name) : bool := Pos.eqb c 5 && name_eqb n ex_key.
Definition ex_update_pack (sync : bool) : list fsop :=
  [Mkdir 3; Mkstemp (1,3) 3; WriteData 3 5; Fsync 3; FsyncDir 1; Rename (1,3) ex_pack]%positive
  ++ (if sync then [FsyncDir 3] else []).
Example C05_update_pack_nonvacuous :
  covered ex_covers (run ex_fin empty_fs (ex_dump ++ ex_update_pack true)) ex_pack ex_key = true /\
  write_protocol ex_fin ex_complete2 (ex_dump ++ ex_update_pack true ++ [Unlink ex_key true]) = true /\
  covered ex_covers (run ex_fin empty_fs (ex_dump ++ ex_update_pack false)) ex_pack ex_key = false /\
  In None (pl_outcomes (run ex_fin empty_fs (ex_dump ++ ex_update_pack false ++ [Unlink ex_key true])) ex_pack) /\
  In None (pl_outcomes (run ex_fin empty_fs (ex_dump ++ ex_update_pack false ++ [Unlink ex_key true])) ex_key).
Proof. vm_compute. repeat split; auto. Qed.

(* each mutant is rejected by write_protocol AND has a crash point with a post-crash view in which
   the final name holds something that is not a complete encoding *)
Example C05_rename_before_fsync_mutant_refuted :
  write_protocol ex_fin ex_complete ex_mut_rename_first = false /\
  exists p q o, ex_mut_rename_first = p ++ q /\
    In o (pl_outcomes (run ex_fin empty_fs p) ex_key) /\ ok_content ex_complete o = false.
Proof.
  split; [vm_compute; reflexivity|].
  exists (firstn 7%nat ex_mut_rename_first), (skipn 7%nat ex_mut_rename_first), (Some Garbage).
  vm_compute. split; [reflexivity|]. split; [auto|reflexivity].
Qed.

Example C05_direct_write_mutant_refuted :
  write_protocol ex_fin ex_complete ex_mut_direct = false /\
  exists p q, ex_mut_direct = p ++ q /\
    ok_content ex_complete (kill_view (run ex_fin empty_fs p) ex_key) = false.
Proof.
  split; [vm_compute; reflexivity|].
  exists (firstn 4%nat ex_mut_direct), (skipn 4%nat ex_mut_direct). vm_compute. split; reflexivity.
Qed.

Example C05_dropped_fsync_mutant_refuted :
  write_protocol ex_fin ex_complete ex_mut_nofsync = false /\
  exists o, In o (pl_outcomes (run ex_fin empty_fs ex_mut_nofsync) ex_key) /\ ok_content ex_complete o = false.
Proof.
  split; [vm_compute; reflexivity|].
  exists (Some Garbage). vm_compute. split; [auto|reflexivity].
Qed.
