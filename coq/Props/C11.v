(* C11 - a failing task stores nothing, blocks only its dependents, and is accounted for.
   Statements only; every proof is [exact <lemma>].  Vocabulary: see Props/C02.v and C01.v. *)
From Coq Require Import List Bool PArith Arith.
From JugV Require Import Model.LockPrims.
From JugV Require Import Model.MapReduce Model.Slice Model.Deps Model.Exec Model.ExecCase Model.ExecExample
  Proofs.ExecFacts Proofs.ExecProgFacts Proofs.ExecTheorems Proofs.ExecLockFacts.
Import ListNotations.

(* (a)+(b) after a task function raised: no result is ever stored for that task, nor for any task
   depending on it however indirectly, and the function of a dependent is never started - by any
   worker, in any continuation, later executes included *)
Theorem C11_failure_stores_nothing_and_blocks_dependents : forall (V : Type) (C : cfg V), framed C ->
  forall r0 tr s w t s1 tr' s', reach C r0 tr s ->
    step C s (ERaise w t) = Some s1 -> run C s1 tr' = Some s' ->
    results s' t = None /\
    (forall x, doomed C (results s1) x -> results s' x = None) /\
    (forall x d w', In d (c_deps C x) -> doomed C (results s1) d -> step C s' (EStart w' x) = None).
Proof. exact (@failure_stores_nothing_and_blocks_dependents). Qed.
Print Assumptions C11_failure_stores_nothing_and_blocks_dependents.

(* (c) with --keep-going (a raise is an admissible event only then), once every worker has left,
   every task that does not depend on a failed one has its result *)
Theorem C11_keep_going_completes_the_rest : forall (V : Type) (C : cfg V), framed C ->
  forall rank, ranked C rank -> closed C ->
  forall r0 tr s, reach C r0 tr s -> forallb (okev C) tr = true ->
  quiescent all_workers s -> (exists w c, w_pc (ws s w) = PDone c) ->
  forall t, In t (c_tasks C) -> (results s t <> None <-> ~ doomed C (results s) t).
Proof. exact (@complete_at_quiescence). Qed.
Print Assumptions C11_keep_going_completes_the_rest.

(* (d) the exit status of a worker that was not asked to stop is non-zero iff it saw a failure ... *)
Theorem C11_exit_status : forall (V : Type) (C : cfg V) (s s' : st V) w code,
  step C s (EExit w code) = Some s' -> w_intr (ws s w) = false -> (code = 0 <-> w_failed (ws s w) = false).
Proof. exact (@exit_code_reports_failure). Qed.
Print Assumptions C11_exit_status.

(* ... and "saw a failure" means exactly that a task function raised in this worker *)
Theorem C11_failure_flag : forall (V : Type) (C : cfg V) tr (s s' : st V) w, run C s tr = Some s' ->
  w_failed (ws s' w) = w_failed (ws s w) || existsb (raises_in w) tr.
Proof. exact (@failed_iff_raised). Qed.
Print Assumptions C11_failure_flag.

(* (e) the lock of the task that raised: released (a later run retries it) unless --keep-failed,
   in which case it is left marked failed ... *)
Theorem C11_lock_after_failure : forall (V : Type) (C : cfg V) (s s' : st V) w t e,
  w_pc (ws s w) = PRaised t -> step C s e = Some s' ->
    w_pc (ws s' w) = PRaised t \/ w_pc (ws s' w) = PDead \/
    (e = EUnlock w t /\ c_keep_failed C = false /\ locks s' t = LFree) \/
    (e = EFailMark w t /\ c_keep_failed C = true /\ locks s' t = LFailed).
Proof. exact (@raised_lock). Qed.
Print Assumptions C11_lock_after_failure.

(* ... and a lock marked failed stays failed and cannot be acquired by anybody until failed locks
   are cleaned up *)
Theorem C11_failed_lock_is_sticky : forall (V : Type) (C : cfg V)
  (s s' : st V) e t, Inv C s -> locks s t = LFailed -> step C s e = Some s' ->
    locks s' t = LFailed \/ e = EReleaseFailed \/ e = ERemoveLocks.
Proof. exact (@failed_sticky). Qed.
Print Assumptions C11_failed_lock_is_sticky.

Theorem C11_failed_lock_not_acquired : forall (V : Type) (C : cfg V) (s : st V) w t,
  locks s t = LFailed -> step C s (ELock w t true) = None.
Proof. exact (@failed_not_acquired). Qed.
Print Assumptions C11_failed_lock_not_acquired.

(* non-vacuity: f2 raises under --keep-going.  Without --keep-failed worker 0 retries it after worker 1
   (both exit 1, lock free); with --keep-failed worker 0 finds the lock failed (exits 0).  Either way
   t1 is stored, t2 and its dependent t3 are not, and f3 was never called *)
Example C11_nonvacuous :
  (exists s, run (prog_cfg (ex_prog_fail false)) (init (st_of [])) (ex_trace_fail false) = Some s /\
             forallb (okev (prog_cfg (ex_prog_fail false))) (ex_trace_fail false) = true /\
             map (results s) [1; 2; 3]%positive = [Some ex_v1; None; None] /\ execs s 3%positive = 0 /\
             locks s 2%positive = LFree /\ w_pc (ws s 0) = PDone 1 /\ w_pc (ws s 1) = PDone 1) /\
  (exists s, run (prog_cfg (ex_prog_fail true)) (init (st_of [])) (ex_trace_fail true) = Some s /\
             map (results s) [1; 2; 3]%positive = [Some ex_v1; None; None] /\ execs s 2%positive = 1 /\
             locks s 2%positive = LFailed /\ w_pc (ws s 0) = PDone 0 /\ w_pc (ws s 1) = PDone 1).
Proof. split; eexists; vm_compute; repeat split; reflexivity. Qed.

(* the failed marker IS the `fail` of the atomic lock specification that C04 proves of every backend (sticky until
   released): the lock calls of any run - fail() of a raising task with --keep-failed, the get() calls it makes answer
   False, `cleanup --failed-only` - replayed on [spec_op] get the observed answers and end in the protocol's lock table *)
Theorem C11_failed_marker_is_the_atomic_fail : forall (V : Type) (C : cfg V), framed C ->
  forall r0 tr s, reach C r0 tr s ->
  let (g, ok) := spec_calls (fun _ => GFree) (lock_calls tr) in
  ok = true /\ forall t, g t = abs_lock (locks s t).
Proof. exact (@uses_the_atomic_lock). Qed.
Print Assumptions C11_failed_marker_is_the_atomic_fail.

Example C11_atomic_fail_nonvacuous :
  existsb (fun c => match c with LCall 1 OFail 2%positive (OB true) => true | _ => false end) (lock_calls (ex_trace_fail true)) = true /\
  existsb (fun c => match c with LCall 0 OGet 2%positive (OB false) => true | _ => false end) (lock_calls (ex_trace_fail true)) = true /\
  snd (spec_calls (fun _ => GFree) (lock_calls (ex_trace_fail true))) = true /\
  fst (spec_calls (fun _ => GFree) (lock_calls (ex_trace_fail true))) 2%positive = GFailed.
Proof. vm_compute. repeat split; reflexivity. Qed.
