(* C03 - no task starts before all its dependencies are complete; it sees their results.
   Statements only; every proof is [exact <lemma>].  Vocabulary: see Props/C02.v and C01.v; further
   [anc C a t] = a is a dependency of t, directly or through other tasks; [occurs d a] = task d occurs
   syntactically in argument a - as the argument itself, inside a list/tuple/dict at any depth, as the
   base OR the index of a tasklet, as a block of a mapped sequence or of a slice of one, under
   CustomHash - but not under NoHash; [impl_deps]/[task_deps] = what the code's dependency walk
   (Task.dependencies + the __jug_dependencies__ hooks) yields; [resolve st a] = value(a) against store st;
   [task_run] = Task._execute: the function applied to the resolved arguments. *)
From Coq Require Import List Bool PArith.
From JugV Require Import Model.MapReduce Model.Slice Model.Deps Model.Exec Model.ExecCase Model.ExecExample
  Proofs.DepsFacts Proofs.ExecFacts Proofs.ExecProgFacts Proofs.ExecTheorems.
Import ListNotations.

(* (a) when the function of a task is started, every task it depends on - directly or indirectly -
   has a stored result: for every DAG, worker count and interleaving, workers joining mid-way *)
Theorem C03_dependencies_first : forall (V : Type) (C : cfg V), framed C ->
  forall r0 tr s w t s', reach C r0 tr s -> step C s (EStart w t) = Some s' ->
    (forall d, In d (c_deps C t) -> results s d <> None) /\ (forall a, anc C a t -> results s a <> None).
Proof. exact (@dependencies_first). Qed.
Print Assumptions C03_dependencies_first.

(* ... what it returns, and what is then stored, is the function applied to the stored results *)
Theorem C03_result_is_function_of_stored_results : forall (V : Type) (C : cfg V), framed C ->
  forall r0 tr s w t v s', reach C r0 tr s -> step C s (EDump w t v) = Some s' ->
    exists v', results s' t = Some v' /\ c_sem C t (results s') = Ret v' /\ c_sem C t (results s) = Ret v'.
Proof. exact (@returns_function_of_stored_results). Qed.
Print Assumptions C03_result_is_function_of_stored_results.

(* ... which, for a program, is literally: the arguments are value() of the argument expressions
   against the store (tasklet operations applied), and the function receives exactly those *)
Theorem C03_arguments_are_the_resolved_results : forall p t st v, c_sem (prog_cfg p) t st = Ret v ->
  exists x a k, find_task (p_tasks p) t = Some x /\ task_inputs st x = Ok (a, k) /\
                fsem (kind_of (p_kinds p) (t_fn x)) (t_fn x) a k = Some v.
Proof. exact program_call_is_resolution. Qed.
Print Assumptions C03_arguments_are_the_resolved_results.

(* (b) the code's dependency walk declares exactly the tasks occurring underneath the arguments:
   positional and keyword arguments, containers, tasklets of tasklets, task-valued indices, mapped
   sequences and their slices *)
Theorem C03_walk_complete : forall d t, task_occurs d t <-> In d (task_deps t).
Proof. exact task_occurs_deps. Qed.
Print Assumptions C03_walk_complete.

Theorem C03_walk_complete_per_argument : forall d a, occurs d a <-> In d (impl_deps a).
Proof. exact occurs_impl_deps. Qed.
Print Assumptions C03_walk_complete_per_argument.

(* ... and resolving the arguments reads the store at those tasks only, and never hits a missing
   result once they are all stored (the worker never dies in load()) *)
Theorem C03_resolution_reads_only_dependencies : forall kinds st st' t,
  (forall d, In d (task_deps t) -> st d = st' d) -> task_run kinds st t = task_run kinds st' t.
Proof. exact task_run_frame. Qed.
Print Assumptions C03_resolution_reads_only_dependencies.

Theorem C03_no_missing_result_once_dependencies_are_stored : forall kinds st t,
  (forall d, In d (task_deps t) -> st d <> None) -> task_run kinds st t <> FMissing.
Proof. exact task_run_defined. Qed.
Print Assumptions C03_no_missing_result_once_dependencies_are_stored.

(* the theorems of (a) apply to every generated program *)
Theorem C03_programs_qualify : forall p, framed (prog_cfg p).
Proof. exact programs_are_framed. Qed.
Print Assumptions C03_programs_qualify.

(* non-vacuity: in the run of Model/ExecExample.v worker 1 examines t2 = f2(t1[0]) while worker 0 is
   still inside f1: starting f2 is not enabled then; it is enabled - and is what worker 1 does - once t1
   is stored, and f2 receives the element 0 of t1's result *)
Example C03_nonvacuous :
  (exists s, run (prog_cfg ex_prog) (init (st_of [])) ex_prefix_running = Some s /\
             c_deps (prog_cfg ex_prog) 2%positive = [1%positive] /\ results s 1%positive = None /\
             step (prog_cfg ex_prog) s (EStart 1 2%positive) = None) /\
  (exists s s', run (prog_cfg ex_prog) (init (st_of [])) (firstn 16 ex_trace) = Some s /\
             step (prog_cfg ex_prog) s (EStart 1 2%positive) = Some s' /\
             c_sem (prog_cfg ex_prog) 2%positive (results s) = Ret ex_v2 /\
             ex_v2 = VApp 2 [VApp 1 [] []] []).
Proof.
  split.
  - eexists. split; [vm_compute; reflexivity|]. split; [reflexivity|]. split; reflexivity.
  - eexists. eexists. split; [vm_compute; reflexivity|]. split; [vm_compute; reflexivity|]. split; reflexivity.
Qed.
