(* C13 - after a hard crash, completed work survives and the computation can be finished.
   Statements only; every proof is [exact <lemma>].  Vocabulary: see Props/C02.v and C01.v.
   [ECrash w] = worker w is killed without warning at any point; [ERemoveLocks] = `jug cleanup --locks-only`.
   That a dump is atomic under a kill (before the rename = not stored, after = stored) is C05. *)
From Coq Require Import List Bool PArith Arith.
From JugV Require Import Model.MapReduce Model.Slice Model.Deps Model.Exec Model.ExecCase Model.ExecExample
  Proofs.ExecFacts Proofs.ExecProgFacts Proofs.ExecTheorems.
Import ListNotations.

(* a crash - possible in every state of a live worker - changes nothing but the crashed worker:
   every result, every lock (the only residue: the locks it held) and every other worker are as before *)
Theorem C13_crash_changes_only_the_crashed_worker : forall (V : Type) (C : cfg V) (s s' : st V) w,
  step C s (ECrash w) = Some s' ->
  results s' = results s /\ locks s' = locks s /\ w_pc (ws s' w) = PDead /\ (forall w', w' <> w -> ws s' w' = ws s w').
Proof. exact (@crash_effect). Qed.
Print Assumptions C13_crash_changes_only_the_crashed_worker.

(* the dead worker never acts again, so its locks stay where they are: survivors skip those tasks *)
Theorem C13_dead_worker_is_silent : forall (V : Type) (C : cfg V) (s s' : st V) e w,
  live (w_pc (ws s w)) = false -> step C s e = Some s' -> actor e <> Some w /\ ws s' w = ws s w.
Proof. exact (fun V C s s' e w Hl H => conj (dead_is_silent C s s' e w Hl H) (dead_stays C s s' e w Hl H)). Qed.
Print Assumptions C13_dead_worker_is_silent.

(* everything that was stored stays stored, unchanged, and is the sequential value - crashes in the
   trace or not (results are write-once; C01 (a) puts no restriction on the events) *)
Theorem C13_completed_work_survives : forall (V : Type) (C : cfg V), framed C ->
  forall r0 tr s tr' s' t, reach C r0 tr s -> results s t <> None -> run C s tr' = Some s' ->
    (forall w, step C s (EStart w t) = None) /\ execs s' t = execs s t /\ results s' t = results s t.
Proof. exact (@not_started_once_stored). Qed.
Print Assumptions C13_completed_work_survives.

(* stale locks can be removed as soon as every lock holder is dead; that frees every lock and
   touches no result and no worker *)
Theorem C13_stale_locks_can_be_removed : forall (V : Type) (C : cfg V) (s : st V), Inv C s ->
  (forall t w, locks s t = LHeld w -> live (w_pc (ws s w)) = false) ->
  exists s', step C s ERemoveLocks = Some s' /\ results s' = results s /\ (forall t, locks s' t = LFree) /\ ws s' = ws s.
Proof. exact (@remove_locks_effect). Qed.
Print Assumptions C13_stale_locks_can_be_removed.

(* any number of workers killed at once, in any order (a node, or the whole cluster, going down):
   no result and no lock changes, every killed worker is dead, every other worker is exactly as it was *)
Theorem C13_any_number_of_crashes : forall (V : Type) (C : cfg V) (tr : list (ev V)) (s s' : st V),
  forallb is_crash tr = true -> run C s tr = Some s' ->
  results s' = results s /\ locks s' = locks s /\
  (forall w, crashed_in tr w -> w_pc (ws s' w) = PDead) /\
  (forall w, ~ crashed_in tr w -> ws s' w = ws s w).
Proof. exact crash_storm_effect. Qed.
Print Assumptions C13_any_number_of_crashes.

(* ... and when every lock holder is among the killed (or dead already), `cleanup --locks-only` is
   possible right afterwards: it frees every lock, the store holds exactly the results it held before
   the first kill, and the state is again one that C13_fresh_execute_completes applies to *)
Theorem C13_crashes_then_cleanup : forall (V : Type) (C : cfg V), framed C ->
  forall r0 tr0 s tr s1, reach C r0 tr0 s ->
  forallb is_crash tr = true -> run C s tr = Some s1 ->
  (forall t w, locks s t = LHeld w -> crashed_in tr w \/ live (w_pc (ws s w)) = false) ->
  exists s2, step C s1 ERemoveLocks = Some s2 /\ reach C r0 (tr0 ++ tr ++ [ERemoveLocks]) s2 /\
             results s2 = results s /\ (forall t, locks s2 t = LFree) /\ ws s2 = ws s1.
Proof. exact crash_storm_then_cleanup. Qed.
Print Assumptions C13_crashes_then_cleanup.

(* recovery end to end: in any reachable state, everything that is not one of the new workers F is killed (or had
   left already), the operator removes the stale locks, the new workers run: the cleanup is enabled, the store still
   holds exactly the results it held, and at the new workers' quiescence every task that can have a result has one *)
Theorem C13_recovery_end_to_end : forall (V : Type) (C : cfg V), framed C ->
  forall rank, ranked C rank -> closed C ->
  forall r0 tr0 s tr s1 (F : wid -> bool), reach C r0 tr0 s ->
  forallb is_crash tr = true -> run C s tr = Some s1 ->
  (forall w, F w = false -> crashed_in tr w \/ live (w_pc (ws s w)) = false) ->
  (forall w, F w = true -> ws s w = fresh_w /\ ~ crashed_in tr w) ->
  (forall t w, locks s t = LHeld w -> F w = false) ->
  exists s2, step C s1 ERemoveLocks = Some s2 /\ results s2 = results s /\
    forall tr' s', forallb (okev C) tr' = true -> run C s2 tr' = Some s' ->
      quiescent F s' -> (exists w c, F w = true /\ w_pc (ws s' w) = PDone c) ->
      forall t, In t (c_tasks C) -> (results s' t <> None <-> ~ doomed C (results s') t).
Proof. exact recovery_end_to_end. Qed.
Print Assumptions C13_recovery_end_to_end.

(* after that a fresh execute (new workers F; everybody else dead or gone) completes the whole
   computation - and by C13_completed_work_survives without re-running anything that was complete *)
Theorem C13_fresh_execute_completes : forall (V : Type) (C : cfg V), framed C ->
  forall rank, ranked C rank -> closed C ->
  forall r0 tr s (F : wid -> bool) tr' s', reach C r0 tr s ->
    (forall t w, locks s t <> LHeld w) ->
    (forall w, F w = true -> ws s w = fresh_w) ->
    (forall w, F w = false -> live (w_pc (ws s w)) = false) ->
    forallb (okev C) tr' = true -> run C s tr' = Some s' ->
    quiescent F s' -> (exists w c, F w = true /\ w_pc (ws s' w) = PDone c) ->
    forall t, In t (c_tasks C) -> (results s' t <> None <-> ~ doomed C (results s') t).
Proof. exact (@later_execute_completes). Qed.
Print Assumptions C13_fresh_execute_completes.

(* non-vacuity: worker 0 is killed inside f1; worker 1 skips the locked task and leaves; the lock of t1
   is still held by the dead worker and a new worker cannot take it; after the stale locks are removed
   worker 2 completes everything *)
Example C13_nonvacuous :
  (exists s, run (prog_cfg ex_prog) (init (st_of [])) ex_trace_crash = Some s /\
             locks s 1%positive = LHeld 0 /\ w_pc (ws s 0) = PDead /\ w_pc (ws s 1) = PDone 0 /\
             step (prog_cfg ex_prog) s (ELock 2 1%positive true) = None) /\
  (exists s, run (prog_cfg ex_prog) (init (st_of [])) (ex_trace_crash ++ [ERemoveLocks] ++ ex_trace_finish 2) = Some s /\
             map (results s) [1; 2; 3]%positive = [Some ex_v1; Some ex_v2; Some ex_v3] /\
             map (execs s) [1; 2; 3]%positive = [2; 1; 1] /\ w_pc (ws s 2) = PDone 0).
Proof. split; eexists; vm_compute; repeat split; reflexivity. Qed.

(* non-vacuity of the two multi-crash statements: t1 is stored, worker 1 is inside f2 holding its lock and
   worker 0 is polling when both are killed; the result of t1 and the lock of t2 are as before, both are dead;
   the operator's cleanup then frees the lock and keeps the result *)
Example C13_nonvacuous_storm :
  exists s s1 s2, run (prog_cfg ex_prog) (init (st_of [])) (firstn 17 ex_trace) = Some s /\
    locks s 2%positive = LHeld 1 /\ results s 1%positive = Some ex_v1 /\
    run (prog_cfg ex_prog) s [ECrash 1; ECrash 0] = Some s1 /\
    locks s1 2%positive = LHeld 1 /\ results s1 1%positive = Some ex_v1 /\ results s1 2%positive = None /\
    w_pc (ws s1 0) = PDead /\ w_pc (ws s1 1) = PDead /\
    step (prog_cfg ex_prog) s1 ERemoveLocks = Some s2 /\
    map (locks s2) [1; 2; 3]%positive = [LFree; LFree; LFree] /\ results s2 1%positive = Some ex_v1.
Proof. do 3 eexists. vm_compute. repeat split; reflexivity. Qed.

(* non-vacuity of C13_recovery_end_to_end: in the state of C13_nonvacuous_storm with F = every worker from 2 on, the
   premises about workers and locks hold for ALL workers *)
Example C13_nonvacuous_recovery :
  exists s, run (prog_cfg ex_prog) (init (st_of [])) (firstn 17 ex_trace) = Some s /\
    let tr : list (ev val) := [ECrash 1; ECrash 0] in let F := fun w => Nat.leb 2 w in
    (forall w, F w = false -> crashed_in tr w \/ live (w_pc (ws s w)) = false) /\
    (forall w, F w = true -> ws s w = fresh_w /\ ~ crashed_in tr w) /\
    (forall t w, locks s t = LHeld w -> F w = false).
Proof.
  eexists. split; [vm_compute; reflexivity|]. cbv zeta. split; [|split].
  - intros [|[|w]] H; [left; right; left; reflexivity | left; left; reflexivity | discriminate H].
  - intros [|[|w]] H; [discriminate H | discriminate H |]. split; [reflexivity|].
    intros [X|[X|[]]]; discriminate X.
  - intros t w H. destruct w as [|[|w]]; [reflexivity | reflexivity | exfalso].
    revert H. vm_compute. destruct t as [t|t|]; try destruct t; try discriminate.
Qed.
