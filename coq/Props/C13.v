(* C13 - statements are being added as Proofs/ExecFacts.v grows *)
From Coq Require Import List.
From JugV Require Import Model.Deps Model.Exec Model.ExecCase.
Theorem C13_placeholder : True. Proof. exact I. Qed.
Print Assumptions C13_placeholder.
