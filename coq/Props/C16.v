(* C16 - tasklets and wrappers are transparent views that carry their dependencies.
   Statements only; every proof is [exact <lemma>].

   Vocabulary (Model/Deps.v): [arg] = what can stand in an argument position of a Task (plain value,
   task, list/tuple/dict of args, AGetitem base idx = base[idx] with base AND idx arbitrary args,
   AFun base f = Tasklet(base, f), AMapSeq / AMapSlice = jug.mapreduce block_access(_slice),
   ACustom = CustomHash, ANoHash* = NoHash, AOpaque declared v = an object value() hands over as it is;
   [declared] = the tasks inside it that Task.dependencies() yields all the same: those of an instance of a
   list/tuple/dict SUBCLASS (namedtuple, OrderedDict, defaultdict ...: isinstance in the walk, exact type
   test in value()); [] for a set/frozenset or any other object, which neither looks into).
   [st : tid -> option val] is the store (results by task hash) - the ONLY keys it has are task ids:
   a derived object has no entry of its own.  [resolve st a] = value(a): [Ok v], [Missing] (a result
   that is needed is not stored: Task.load's assertion) or [Raised] (an operation raised).
   [impl_deps a] = what Task.dependencies() of a consumer of [a] yields (the code's walk);
   [occurs t a] = t occurs syntactically in [a] outside NoHash and outside objects nobody looks into
   (for AOpaque: t is one of the declared inner tasks). *)
From Coq Require Import List Arith ZArith Bool PArith.
From JugV Require Import Model.MapReduce Model.Slice Model.Deps Proofs.DepsFacts Proofs.DepsInvalidateFacts.
From JugV Require Model.Dag Model.Invalidate.
Import ListNotations.

(* ---- transparency: value() of a derived object = the operation applied to the values ------------- *)

(* indexing / slicing, the index being any argument (a constant, a slice, a task, a tasklet ...) *)
Theorem C16_getitem_transparent : forall (st : tid -> option val) (base idx : arg),
  resolve st (AGetitem base idx) =
  rbind (resolve st base) (fun o => rbind (resolve st idx) (fun k => of_opt (val_getitem o k))).
Proof. exact resolve_getitem. Qed.
Print Assumptions C16_getitem_transparent.

Theorem C16_getitem_value : forall (st : tid -> option val) (base idx : arg) (o k : val),
  resolve st base = Ok o -> resolve st idx = Ok k ->
  resolve st (AGetitem base idx) = of_opt (val_getitem o k).
Proof. exact resolve_getitem_value. Qed.
Print Assumptions C16_getitem_value.

(* function wrapping: Tasklet(base, f) *)
Theorem C16_tasklet_fun_transparent : forall (st : tid -> option val) (base : arg) (f : tlfun),
  resolve st (AFun base f) = rbind (resolve st base) (fun o => of_opt (tl_apply f o)).
Proof. exact resolve_fun. Qed.
Print Assumptions C16_tasklet_fun_transparent.

(* any nesting: a chain of index / function operations over any base is the chain of the
   operations over the base's value, first failure first *)
Theorem C16_any_nesting : forall (st : tid -> option val) (ops : list tlop) (base : arg),
  resolve st (fold_left derive ops base) =
  fold_left (fun r op => rbind r (fun o => op_apply st o op)) ops (resolve st base).
Proof. exact resolve_derive_chain. Qed.
Print Assumptions C16_any_nesting.

(* iteratetask(base, n): the items are the first n elements of the value *)
Theorem C16_iteratetask : forall (st : tid -> option val) (base : arg) (o : val) (l : list val) (n : nat),
  resolve st base = Ok o -> seq_items o = Some l -> n <= length l ->
  map (resolve st) (iteratetask_args base n) = map Ok (firstn n l).
Proof. exact iteratetask_unpacks. Qed.
Print Assumptions C16_iteratetask.

(* return_tuple(n): the items are the components when the value has exactly n of them ... *)
Theorem C16_return_tuple : forall (st : tid -> option val) (base : arg) (o : val) (l : list val),
  resolve st base = Ok o -> seq_items o = Some l ->
  map (resolve st) (return_tuple_args base (length l)) = map Ok l.
Proof. exact return_tuple_unpacks. Qed.
Print Assumptions C16_return_tuple.

(* ... and every item raises when it has not *)
Theorem C16_return_tuple_checks_length : forall (st : tid -> option val) (base : arg) (o : val) (l : list val) (n i : nat),
  resolve st base = Ok o -> seq_items o = Some l -> length l <> n ->
  resolve st (AFun base (FGetCheck i n)) = Raised.
Proof. exact return_tuple_wrong_length. Qed.
Print Assumptions C16_return_tuple_checks_length.

(* CustomHash(x, h) resolves to the value of x; NoHash(v) to v; NoHash(task) to the task object itself *)
Theorem C16_customhash_transparent : forall (st : tid -> option val) (x : arg),
  resolve st (ACustom x) = resolve st x.
Proof. exact resolve_custom. Qed.
Print Assumptions C16_customhash_transparent.

Theorem C16_nohash_unchanged : forall (st : tid -> option val) (v : val) (t : tid),
  resolve st (ANoHashVal v) = Ok v /\ resolve st (ANoHashTask t) = Ok (VTaskRef t).
Proof. exact (fun st v t => conj (resolve_nohash_val st v) (resolve_nohash_task st t)). Qed.
Print Assumptions C16_nohash_unchanged.

(* containers of derived objects are resolved element-wise *)
Theorem C16_containers : forall (st : tid -> option val) (xs : list arg) (vs : list val),
  Forall2 (fun x v => resolve st x = Ok v) xs vs -> resolve st (AList xs) = Ok (VList vs).
Proof. exact resolve_list_values. Qed.
Print Assumptions C16_containers.

Theorem C16_dict_container : forall (st : tid -> option val) (kvs : list (key * arg)) (vs : list (key * val)),
  Forall2 (fun kx kv => fst kx = fst kv /\ resolve st (snd kx) = Ok (snd kv)) kvs vs ->
  resolve st (ADict kvs) = Ok (VDict vs).
Proof. exact resolve_dict_values. Qed.
Print Assumptions C16_dict_container.

(* ---- mapped sequences and their slices ------------------------------------------------------------ *)
(* [mapseq_wf st blocks bs len ys]: what jug.mapreduce.map(f, xs, map_step = bs) has built once its
   block tasks have run: 1 <= bs, len = len(ys), block i holds the i-th piece of break_up(ys, bs). *)

Theorem C16_mapseq_value : forall (st : tid -> option val) (blocks : list tid) (bs : nat) (len : Z) (ys : list val),
  mapseq_wf st blocks bs len ys -> resolve st (AMapSeq blocks bs len) = Ok (VList ys).
Proof. exact mapseq_value. Qed.
Print Assumptions C16_mapseq_value.

(* whatever the blocks hold: the value is their concatenation *)
Theorem C16_mapseq_concat : forall (st : tid -> option val) (blocks : list tid) (vals : list (list val)) (bs : nat) (len : Z),
  blocks_stored st blocks vals -> resolve st (AMapSeq blocks bs len) = Ok (VList (concat vals)).
Proof. exact mapseq_value_concat. Qed.
Print Assumptions C16_mapseq_concat.

(* m[sl] for every Python slice: the slice of the whole value *)
Theorem C16_mapslice_is_list_slice : forall (st : tid -> option val) (blocks : list tid) (bs : nat) (len : Z)
    (ys : list val) (sl : pyslice) (s e k : Z),
  mapseq_wf st blocks bs len ys -> py_indices sl len = Some (s, e, k) ->
  resolve st (AMapSlice blocks bs len {| r_start := s; r_stop := e; r_step := k |}) =
  of_opt (val_getitem (VList ys) (VSlice sl)).
Proof. exact mapslice_is_list_slice. Qed.
Print Assumptions C16_mapslice_is_list_slice.

(* a slice with any range at all: the whole value indexed (Python int indexing) at the range's positions *)
Theorem C16_mapslice_general : forall (st : tid -> option val) (blocks : list tid) (bs : nat) (len : Z)
    (ys : list val) (r : prange),
  mapseq_wf st blocks bs len ys ->
  resolve st (AMapSlice blocks bs len r) =
  rmap VList (rsequence (map (fun q => of_opt (py_list_get ys q)) (range_list r))).
Proof. exact mapslice_value_general. Qed.
Print Assumptions C16_mapslice_general.

(* a slice of a slice (to any depth, by iteration): Python's slice of the first slice's value *)
Theorem C16_mapslice_of_slice : forall (st : tid -> option val) (blocks : list tid) (bs : nat) (len : Z)
    (ys : list val) (r : prange) (sl2 : pyslice) (r' : prange) (vs : list val),
  mapseq_wf st blocks bs len ys -> r_step r <> 0%Z ->
  resolve st (AMapSlice blocks bs len r) = Ok (VList vs) ->
  range_slice r sl2 = Some r' ->
  resolve st (AMapSlice blocks bs len r') = of_opt (val_getitem (VList vs) (VSlice sl2)).
Proof. exact mapslice_of_slice. Qed.
Print Assumptions C16_mapslice_of_slice.

(* ---- derived objects carry their dependencies ------------------------------------------------------- *)

(* the code's walk declares exactly the tasks that occur underneath: through containers, tasklet
   bases AND indices, mapped-sequence blocks, slices of them, CustomHash - at any depth *)
Theorem C16_walk_complete : forall (t : tid) (a : arg), occurs t a <-> In t (impl_deps a).
Proof. exact occurs_impl_deps. Qed.
Print Assumptions C16_walk_complete.

(* resolution reads the store at declared dependencies only *)
Theorem C16_reads_only_dependencies : forall (st st' : tid -> option val) (a : arg),
  (forall d, In d (impl_deps a) -> st d = st' d) -> resolve st a = resolve st' a.
Proof. exact resolve_frame. Qed.
Print Assumptions C16_reads_only_dependencies.

(* a result found missing during resolution belongs to a declared dependency: a consumer whose
   declared dependencies are all stored (can_run) never dies on a missing result *)
Theorem C16_waits_for_underlying : forall (st : tid -> option val) (a : arg),
  resolve st a = Missing -> exists d, In d (impl_deps a) /\ st d = None.
Proof. exact resolve_missing_blames. Qed.
Print Assumptions C16_waits_for_underlying.

Theorem C16_consumer_defined : forall (kinds : positive -> fkind) (st : tid -> option val) (t : task),
  (forall d, In d (task_deps t) -> st d <> None) -> task_run kinds st t <> FMissing.
Proof. exact task_run_defined. Qed.
Print Assumptions C16_consumer_defined.

(* values (and exceptions of operations) survive every extension of the store *)
Theorem C16_monotone : forall (st st' : tid -> option val) (a : arg) (v : val),
  (forall d w, st d = Some w -> st' d = Some w) -> resolve st a = Ok v -> resolve st' a = Ok v.
Proof. exact resolve_monotone. Qed.
Print Assumptions C16_monotone.

Theorem C16_raised_monotone : forall (st st' : tid -> option val) (a : arg),
  (forall d w, st d = Some w -> st' d = Some w) -> resolve st a = Raised -> resolve st' a = Raised.
Proof. exact resolve_raised_monotone. Qed.
Print Assumptions C16_raised_monotone.

(* ---- ... and are invalidated with what is underneath (C09 applied to the walk) ----------------------- *)
(* [dag_node name t] = the graph node of the task object t: (hash, function name, task_deps t) *)
Theorem C16_consumer_depends_on_underlying : forall (d : Dag.dag) (name : positive) (t : task) (u : tid),
  In (dag_node name t) d -> task_occurs u t -> Dag.depends_on d (t_id t) u.
Proof. exact consumer_depends_on_underlying. Qed.
Print Assumptions C16_consumer_depends_on_underlying.

Theorem C16_invalidated_with_underlying_shell : forall (d : Dag.dag) (name : positive) (t : task) (u : tid),
  In (dag_node name t) d -> task_occurs u t -> In (t_id t) (Invalidate.shell_invalid d u).
Proof. exact consumer_invalidated_by_shell. Qed.
Print Assumptions C16_invalidated_with_underlying_shell.

Theorem C16_invalidated_with_underlying_cli : forall (d : Dag.dag) (m : Invalidate.matcher) (name : positive)
    (t : task) (nu : Dag.node) (st : Dag.store),
  Dag.wf_dag d -> In (dag_node name t) d -> In nu d -> m (Dag.n_name nu) = true ->
  task_occurs (Dag.n_tid nu) t ->
  In (t_id t) (Invalidate.cli_invalid d m) /\ Invalidate.cli_store d m st (t_id t) = false.
Proof. exact consumer_invalidated_by_cli. Qed.
Print Assumptions C16_invalidated_with_underlying_cli.

(* ---- opaque objects with declared inner tasks (container-subclass instances holding tasks) ------------- *)
(* the object reaches the function unchanged (inner tasks stay task objects), whatever the store holds ... *)
Theorem C16_opaque_unchanged : forall (st : tid -> option val) (declared : list tid) (v : val),
  resolve st (AOpaque declared v) = Ok v.
Proof. exact resolve_opaque. Qed.
Print Assumptions C16_opaque_unchanged.

(* ... its consumer nevertheless waits for the declared inner tasks ... *)
Theorem C16_opaque_declared_waits : forall (t : task) (declared : list tid) (v : val) (u : tid),
  In (AOpaque declared v) (t_args t) -> In u declared -> In u (task_deps t).
Proof. exact opaque_declared_waits. Qed.
Print Assumptions C16_opaque_declared_waits.

(* ... and is invalidated with each of them *)
Theorem C16_opaque_declared_invalidated : forall (d : Dag.dag) (name : positive) (t : task) (declared : list tid) (v : val) (u : tid),
  In (dag_node name t) d -> In (AOpaque declared v) (t_args t) -> In u declared ->
  Dag.depends_on d (t_id t) u /\ In (t_id t) (Invalidate.shell_invalid d u).
Proof. exact (fun d name t ts v u Hin Ha Hu => conj (opaque_declared_depends d name t ts v u Hin Ha Hu)
                                                     (opaque_declared_invalidated_by_shell d name t ts v u Hin Ha Hu)). Qed.
Print Assumptions C16_opaque_declared_invalidated.

(* ---- a consumer's value is a function of its own argument terms --------------------------------------------- *)
(* same function, same argument terms: same outcome in every store, whatever the identifiers ... *)
Theorem C16_consumer_depends_on_own_arguments : forall (kinds : positive -> fkind) (st : tid -> option val) (t1 t2 : task),
  t_fn t1 = t_fn t2 -> t_args t1 = t_args t2 -> t_kwargs t1 = t_kwargs t2 ->
  task_run kinds st t1 = task_run kinds st t2.
Proof. exact task_run_own_arguments. Qed.
Print Assumptions C16_consumer_depends_on_own_arguments.

(* ... and consumers (of a free function) can have the same result only if their own arguments resolve alike:
   consumers of views with different values must be different tasks with results of their own *)
Theorem C16_shared_result_needs_equal_inputs : forall (kinds : positive -> fkind) (st : tid -> option val) (t1 t2 : task) (v : val),
  t_fn t1 = t_fn t2 -> kinds (t_fn t1) = FkApp ->
  task_run kinds st t1 = FRet v -> task_run kinds st t2 = FRet v ->
  task_inputs st t1 = task_inputs st t2.
Proof. exact task_run_shared_result. Qed.
Print Assumptions C16_shared_result_needs_equal_inputs.

(* ---- non-vacuity: a concrete nested argument ---------------------------------------------------------- *)
(* tasks 1..3 hold  {0: [10, 20, 30], 7: 5},  (0, 2)  and  0 ;  blocks 4, 5, 6 hold the pieces of
   [100..106] for map_step 3.
   a1 = t1[t3][t2[1]]              (tasklet of tasklet, task-valued index over a dict result, tasklet-valued index)
   a2 = m[1:6:2][::-1]             (slice of a slice of a mapped sequence)
   a3 = {7: CustomHash([t3, NoHash(t1)]), 8: return_tuple(2) items of t2}  *)
Local Open Scope positive_scope.
Definition zi (z : Z) : val := VInt z.
Definition ex_store : tid -> option val := st_of
  [ (1, VDict [(KInt 0, VList [zi 10; zi 20; zi 30]); (KInt 7, zi 5)]);
    (2, VTuple [zi 0; zi 2]);
    (3, zi 0);
    (4, VList [zi 100; zi 101; zi 102]);
    (5, VList [zi 103; zi 104; zi 105]);
    (6, VList [zi 106]) ].
Definition ex_a1 : arg :=
  AGetitem (AGetitem (ATask 1) (ATask 3)) (AGetitem (ATask 2) (AVal (zi 1))).
Definition ex_a2 : arg :=   (* range(1,6,2) = 1,3,5 ; [::-1] -> range(5,-1,-2) *)
  AMapSlice [4; 5; 6] 3%nat 7%Z {| r_start := 5%Z; r_stop := (-1)%Z; r_step := (-2)%Z |}.
Definition ex_a3 : arg :=
  ADict [(KInt 7, ACustom (AList [ATask 3; ANoHashTask 1]));
         (KInt 8, ATuple (return_tuple_args (ATask 2) 2%nat))].
Definition ex_task : task := {| t_id := 9; t_fn := 1; t_args := [ex_a1; ex_a2]; t_kwargs := [(1, ex_a3)] |}.

Example C16_nonvacuous :
  resolve ex_store ex_a1 = Ok (zi 30) /\
  resolve ex_store ex_a2 = Ok (VList [zi 105; zi 103; zi 101]) /\
  resolve ex_store ex_a3 = Ok (VDict [(KInt 7, VList [zi 0; VTaskRef 1]); (KInt 8, VTuple [zi 0; zi 2])]) /\
  impl_deps ex_a1 = [1; 3; 2] /\ impl_deps ex_a2 = [4; 5; 6] /\ impl_deps ex_a3 = [3; 2; 2] /\
  mapseq_wf ex_store [4; 5; 6] 3%nat 7%Z (map zi [100; 101; 102; 103; 104; 105; 106]%Z) /\
  range_slice {| r_start := 1%Z; r_stop := 6%Z; r_step := 2%Z |} {| sl_start := None; sl_stop := None; sl_step := Some (-1)%Z |}
    = Some {| r_start := 5%Z; r_stop := (-1)%Z; r_step := (-2)%Z |} /\
  (* with task 3 (the task-valued index) missing, resolution reports a missing result *)
  resolve (fun t => if Pos.eqb t 3 then None else ex_store t) ex_a1 = Missing /\
  task_run (fun _ => FkApp) ex_store ex_task =
    FRet (VApp 1 [zi 30; VList [zi 105; zi 103; zi 101]]
              [(1, VDict [(KInt 7, VList [zi 0; VTaskRef 1]); (KInt 8, VTuple [zi 0; zi 2])])]).
Proof.
  split; [vm_compute; reflexivity|]. split; [vm_compute; reflexivity|]. split; [vm_compute; reflexivity|].
  split; [reflexivity|]. split; [reflexivity|]. split; [reflexivity|].
  split; [split; [repeat constructor | split; [reflexivity | repeat constructor]]|].
  split; [vm_compute; reflexivity|]. split; vm_compute; reflexivity.
Qed.

(* Pt(t1, t3) - a namedtuple holding two tasks - next to frozenset({t2}): the first declares its tasks, the
   second does not; both reach the function as they are, even in the empty store *)
Definition ex_nt : arg := AOpaque [1; 3] (VTuple [VTaskRef 1; VTaskRef 3]).
Definition ex_fs : arg := AOpaque [] (VAtom 5).
Definition ex_task2 : task := {| t_id := 8; t_fn := 2; t_args := [ex_nt; ex_fs]; t_kwargs := [] |}.
Example C16_opaque_nonvacuous :
  task_deps ex_task2 = [1; 3] /\
  task_run (fun _ => FkApp) (fun _ => None) ex_task2 = FRet (VApp 2 [VTuple [VTaskRef 1; VTaskRef 3]; VAtom 5] []) /\
  Dag.depends_on [(1, 1, []); (3, 1, []); dag_node 2 ex_task2] 8 3 /\
  In 8 (Invalidate.shell_invalid [(1, 1, []); (3, 1, []); dag_node 2 ex_task2] 3).
Proof.
  split; [reflexivity|]. split; [reflexivity|]. split.
  - apply (opaque_declared_depends _ 2 ex_task2 [1; 3] (VTuple [VTaskRef 1; VTaskRef 3]) 3); cbn; auto.
  - vm_compute. auto.
Qed.
