From Coq Require Import List.
From JugV Require Import Model.Deps.
Theorem C16_placeholder : True. Proof. exact I. Qed.
Print Assumptions C16_placeholder.
