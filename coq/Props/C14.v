(* C14 - nothing after a barrier runs before everything before it is complete.
   Statements only; every proof is [exact <lemma>].

   A jugfile is a staged program [jprog] (Model/Loader.v): task definitions, marker statements,
   barrier(), v = bvalue(a) followed by a continuation that may depend on v in any way, and
   compound tasks whose builders are again such programs (barriers inside builders included).
   [load st p] is jug.init against the store [st]: the events in program order, the tasks appended
   to alltasks, the markers that ran, and the __jug__hasbarrier__ flag.  Nothing is assumed about
   [st] (any subset of results, any values) or about [p] unless stated. *)
From Coq Require Import List PArith ZArith Bool.
From JugV Require Import Model.Loader Proofs.LoaderFacts Proofs.CompoundFacts Proofs.LoaderExtraFacts.
Import ListNotations.

(* ------------------------------------------------------------------ (a) what the loader lets through *)
(* a barrier() call returned ([EBar] in the event list): every task defined before it - at top
   level, inside the compound builder being run, anywhere - has a stored result *)
Theorem C14_barrier_passed_only_if_all_stored : forall (st : store) (p : jprog) (pre post : list ev),
  l_events (load st p) = pre ++ EBar :: post ->
  forall t, In (ETask t) pre -> stored st (tid_of t) = true.
Proof. exact barrier_passed_all_stored. Qed.
Print Assumptions C14_barrier_passed_only_if_all_stored.

(* a bvalue(a) call returned v: v is the stored value of a (never a partial or placeholder value) *)
Theorem C14_bvalue_returns_the_stored_value : forall (st : store) (p : jprog) (pre post : list ev) (a : arg) (v : val),
  l_events (load st p) = pre ++ EBV a v :: post -> resolve (lookup st) a = Some v.
Proof. exact bvalue_passed_value. Qed.
Print Assumptions C14_bvalue_returns_the_stored_value.

(* ... and the rest of the jugfile is the continuation applied to that value; otherwise loading
   stops right there *)
Theorem C14_bvalue_step : forall (st : store) (a : arg) (k : val -> jprog) (tr : list ev),
  load_from st (BValue a k) tr =
  match resolve (lookup st) a with
  | Some v => load_from st (k v) (EBV a v :: tr)
  | None => (EStop :: tr, None)
  end.
Proof. exact load_from_bvalue. Qed.
Print Assumptions C14_bvalue_step.

Theorem C14_barrier_step : forall (st : store) (k : jprog) (tr : list ev),
  load_from st (Barrier k) tr =
  if all_stored st (tasks_rev tr) then load_from st k (EBar :: tr) else (EStop :: tr, None).
Proof. exact load_from_barrier. Qed.
Print Assumptions C14_barrier_step.

(* a BarrierError ends the load (no statement after it runs: no task, no marker, nothing) and
   flags the namespace; and the namespace is flagged only then *)
Theorem C14_stop_is_last_and_flagged : forall (st : store) (p : jprog) (pre post : list ev),
  l_events (load st p) = pre ++ EStop :: post -> post = [] /\ l_hasbarrier (load st p) = true.
Proof. exact stop_is_last. Qed.
Print Assumptions C14_stop_is_last_and_flagged.

Theorem C14_flag_means_stopped : forall (st : store) (p : jprog),
  l_hasbarrier (load st p) = true -> exists pre, l_events (load st p) = pre ++ [EStop].
Proof. exact hasbarrier_stop. Qed.
Print Assumptions C14_flag_means_stopped.

(* ------------------------------------------------------------------ (b) the reload loop of `jug execute` *)
(* [seq_eval p = Some s]: the plain sequential evaluation of the jugfile (no store, barrier() does
   nothing, bvalue(a) = value of a, a compound = its builder) succeeds, i.e. every task reference
   is to a task in scope; [s] records it: [slog s] all (task, value) pairs computed, inner tasks
   of compounds included, [stop_env s] the tasks in scope at the end, [sbn s] the number of
   barrier()/bvalue() calls it went through (those inside builders included).
   [functional (slog s)]: one value per identifier.  [agrees st0 (slog s)]: the start store holds
   no value that contradicts the sequential one (the empty store, or anything earlier runs left).
   Then load-run-reload, repeated [sbn s + 1] times at most, ends with: no barrier closed, every
   loaded task stored, check = 0, the start store's bindings kept, every stored value of a task of
   the program equal to its sequential value, and every task in scope at the end stored with it.
   For any number of barrier phases: the bound is in terms of the program, the statement is for all. *)
Theorem C14_reload_loop : forall (p : jprog) (s : spine) (st0 : store),
  seq_eval p = Some s -> functional (slog s) -> agrees st0 (slog s) ->
  let st := fst (run_phases (sbn s + 1) st0 p) in
  l_hasbarrier (load st p) = false /\
  (forall t, In t (l_tasks (load st p)) -> stored st (tid_of t) = true) /\
  check st p = 0 /\
  extends st0 st /\
  agrees st (slog s) /\
  (forall t v, In (t, v) (stop_env s) -> lookup st t = Some v).
Proof. exact reload_loop_correct. Qed.
Print Assumptions C14_reload_loop.

(* the boolean test used on every generated case implies the hypothesis *)
Theorem C14_functionalb_sound : forall L, functionalb L = true -> functional L.
Proof. exact functionalb_sound. Qed.
Print Assumptions C14_functionalb_sound.

(* the same loop for a worker that cannot take the locks in [locks] - held by other workers, or marked failed;
   a task whose function raises under --keep-going is in the same position - : with no such task it is the
   loop above; otherwise those tasks get no result from this worker (a result they have is left alone) and
   nothing the start store holds is lost.  What is loaded in each phase is [load st p] as before: barriers
   and bvalue look at the store only. *)
Theorem C14_reload_loop_no_locks : forall (fuel : nat) (st : store) (p : jprog),
  run_phases_l [] fuel st p = run_phases fuel st p.
Proof. exact run_phases_l_nil. Qed.
Print Assumptions C14_reload_loop_no_locks.

Theorem C14_reload_loop_locked_tasks : forall (locks : list tid) (fuel : nat) (st : store) (p : jprog),
  (forall u, is_locked locks u = true -> lookup (fst (run_phases_l locks fuel st p)) u = lookup st u) /\
  extends st (fst (run_phases_l locks fuel st p)).
Proof. exact run_phases_l_locked. Qed.
Print Assumptions C14_reload_loop_locked_tasks.

(* results may also DISAPPEAR while the worker runs (another process runs jug invalidate / cleanup): [rms] = what is
   removed before each load.  Each phase is [load] of the store as it is at that moment - nothing seen in an earlier
   phase is remembered - so (a) applies to every phase: a barrier() is passed only if every task before it has a
   result THEN.  With nothing removed it is the loop above. *)
Theorem C14_reload_loop_shrinking_store : forall (rms : list (list tid)) (f : nat) (st : store) (p : jprog),
  run_phases_rm rms (S f) st p =
  let st0 := remove_keys (hd [] rms) st in
  let l := load st0 p in
  let '(st1, ex) := exec_all st0 (l_tasks l) in
  if l_hasbarrier l then let '(st2, exs) := run_phases_rm (tl rms) f st1 p in (st2, ex :: exs)
  else (st1, [ex]).
Proof. exact run_phases_rm_step. Qed.
Print Assumptions C14_reload_loop_shrinking_store.

Theorem C14_reload_loop_nothing_removed : forall (fuel : nat) (st : store) (p : jprog),
  run_phases_rm [] fuel st p = run_phases fuel st p.
Proof. exact run_phases_rm_nil. Qed.
Print Assumptions C14_reload_loop_nothing_removed.

Theorem C14_barrier_after_removal : forall (rms : list (list tid)) (st : store) (p : jprog) (pre post : list ev),
  l_events (load (remove_keys (hd [] rms) st) p) = pre ++ EBar :: post ->
  forall t, In (ETask t) pre -> stored (remove_keys (hd [] rms) st) (tid_of t) = true.
Proof. exact run_phases_rm_barrier. Qed.
Print Assumptions C14_barrier_after_removal.

(* ------------------------------------------------------------------ (b'') `jug sleep-until`
   [sleep_until fuel st incs p] (Model/Loader.v) is SleepUntilCommand.run: load; wait - one sleep per failed poll,
   during which the other workers add [incs]'s next element to the store - until every loaded task has a result;
   if the load stopped at a barrier()/bvalue() load again and wait again; otherwise exit.  The reload loop with
   "wait" for "execute".  Whatever the others write and in whatever order: it exits only when the jugfile, loaded
   against the store as it is at that moment, runs to its end with every task stored - `jug check` would say 0 -
   (tasks behind a barrier, compounds that collapsed in between included), and it loses nothing on the way. *)
Theorem C14_sleep_until_exits_only_when_complete :
  forall (fuel : nat) (st : store) (incs : list store) (p : jprog) (st' : store) (sleeps loads : nat),
  sleep_until fuel st incs p = Some (st', sleeps, loads) ->
  l_hasbarrier (load st' p) = false /\ check st' p = 0 /\ extends st st'.
Proof. exact sleep_until_complete. Qed.
Print Assumptions C14_sleep_until_exits_only_when_complete.

(* the fact behind it: a complete load stays complete when the store grows - expanded compounds collapse,
   barriers stay open, bvalue returns the same values *)
Theorem C14_complete_load_stays_complete : forall (p : jprog) (st st' : store),
  extends st st' -> l_hasbarrier (load st p) = false ->
  (forall t, In t (l_tasks (load st p)) -> stored st' (tid_of t) = true) ->
  l_hasbarrier (load st' p) = false /\ check st' p = 0.
Proof. exact load_grown. Qed.
Print Assumptions C14_complete_load_stays_complete.

Theorem C14_sleep_until_step : forall (f : nat) (st : store) (incs : list store) (p : jprog),
  sleep_until (S f) st incs p =
  let l := load st p in
  match wait_all (l_tasks l) st incs with
  | None => None
  | Some (st1, incs1, n) =>
      if l_hasbarrier l then
        match sleep_until f st1 incs1 p with
        | Some (s, n2, k) => Some (s, n + n2, S k)
        | None => None
        end
      else Some (st1, n, 1)
  end.
Proof. exact sleep_until_step. Qed.
Print Assumptions C14_sleep_until_step.

(* ------------------------------------------------------------------ (c) a closed barrier and `jug check` *)
(* [wf [] p]: Python scoping - an argument of a task, of bvalue or of a compound refers to a Task
   object created earlier and still visible (for every value a bvalue may return).
   If the load stopped at a barrier()/bvalue(), some loaded task has no result ... *)
Theorem C14_closed_barrier_incomplete_task : forall (st : store) (p : jprog),
  wf [] p -> l_hasbarrier (load st p) = true ->
  exists t, In t (l_tasks (load st p)) /\ stored st (tid_of t) = false.
Proof. exact stopped_unstored. Qed.
Print Assumptions C14_closed_barrier_incomplete_task.

(* ... hence `jug check` (0 iff every task in alltasks can be loaded; it does not read the flag)
   does not report completion, on any store *)
Theorem C14_check_nonzero_at_closed_barrier : forall (st : store) (p : jprog),
  wf [] p -> l_hasbarrier (load st p) = true -> check st p = 1.
Proof. exact check_closed_barrier. Qed.
Print Assumptions C14_check_nonzero_at_closed_barrier.

Theorem C14_check_zero_iff_all_loaded_stored : forall (st : store) (p : jprog),
  check st p = 0 <-> forall t, In t (l_tasks (load st p)) -> stored st (tid_of t) = true.
Proof. exact check_zero_iff. Qed.
Print Assumptions C14_check_zero_iff_all_loaded_stored.

(* ------------------------------------------------------------------ non-vacuity
   t1 = inc(1); t2 = dbl(t1); barrier(); <marker 1>; v = bvalue(t2);
   if v == 4: t3 = inc(t2); c = compound[10](t3){ t5 = dbl(t3); barrier(); <marker 2>; return (t5, t5) };
              t6 = sum2(c)
   else:      t4 = dbl(t2)
   Three barrier()/bvalue() calls on the sequential path; from the empty store the loop needs three
   loads ([1;2], then [3;5], then [10;6]); in between the loader is stopped and check is 1; the
   hypotheses of C14_reload_loop hold. *)
Local Open Scope positive_scope.
Definition VI (z : Z) : val := VInt z.
Definition ex_inc (vs : list val) : val := match vs with [VInt x] => VInt (x + 1)%Z | _ => VInt 0%Z end.
Definition ex_dbl (vs : list val) : val := match vs with [VInt x] => VInt (2 * x)%Z | _ => VInt 0%Z end.
Definition ex_sum2 (vs : list val) : val := match vs with [VTup [VInt x; VInt y]] => VInt (x + y)%Z | _ => VInt 0%Z end.
Definition ex_prog : jprog :=
  Def (mkTask 1 [AVal (VInt 1%Z)] ex_inc)
  (Def (mkTask 2 [ATask 1] ex_dbl)
  (Barrier (Mark 1
  (BValue (ATask 2) (fun v =>
     match v with
     | VInt 4%Z =>
        Def (mkTask 3 [ATask 2] ex_inc)
        (Compound 10 [ATask 3]
           (Def (mkTask 5 [ATask 3] ex_dbl)
              (Barrier (Mark 2 (Ret (ATup [ATask 5; ATask 5])))))
        (Def (mkTask 6 [ATask 10] ex_sum2) (Ret (ATask 6))))
     | _ => Def (mkTask 4 [ATask 2] ex_dbl) (Ret (ATask 4))
     end))))).

Example C14_nonvacuous :
  (match seq_eval ex_prog with
   | Some s => functionalb (slog s) && Nat.eqb (sbn s) 3%nat &&
               store_eqb (slog s) [(1, VInt 2%Z); (2, VInt 4%Z); (3, VInt 5%Z); (5, VInt 10%Z);
                                   (10, VTup [VInt 10%Z; VInt 10%Z]); (6, VInt 20%Z)]
   | None => false
   end = true) /\
  map tid_of (l_tasks (load [] ex_prog)) = [1; 2] /\
  l_marks (load [] ex_prog) = [] /\ l_hasbarrier (load [] ex_prog) = true /\ check [] ex_prog = 1%nat /\
  (let st := [(1, VInt 2%Z); (2, VInt 4%Z)] in
   map tid_of (l_tasks (load st ex_prog)) = [1; 2; 3; 5] /\ l_marks (load st ex_prog) = [1] /\
   l_hasbarrier (load st ex_prog) = true /\ check st ex_prog = 1%nat) /\
  snd (run_phases 4%nat [] ex_prog) = [[1; 2]; [3; 5]; [10; 6]] /\
  (let st := fst (run_phases 4%nat [] ex_prog) in
   map tid_of (l_tasks (load st ex_prog)) = [1; 2; 3; 10; 6] /\ l_marks (load st ex_prog) = [1] /\
   l_hasbarrier (load st ex_prog) = false /\ check st ex_prog = 0%nat /\
   lookup st 6 = Some (VInt 20%Z) /\ lookup st 10 = Some (VTup [VInt 10%Z; VInt 10%Z])).
Proof. vm_compute. repeat split; reflexivity. Qed.

(* sleep-until on ex_prog while another worker stores 1 | 2 | 3, 5 | 10 | 6 (one group per sleep): 5 sleeps, 3 loads,
   exit with everything stored; if the other worker stops after 10 it is still waiting (for 6, behind two barriers
   and a collapsed compound); results arriving out of order (6 first) change nothing *)
Definition ex_incs : list store :=
  [[(1, VInt 2%Z)]; [(2, VInt 4%Z)]; [(3, VInt 5%Z); (5, VInt 10%Z)]; [(10, VTup [VInt 10%Z; VInt 10%Z])]; [(6, VInt 20%Z)]].
Example C14_nonvacuous_sleep_until :
  (match sleep_until 6%nat [] ex_incs ex_prog with Some (s, n, k) => Some (map fst s, n, k) | None => None end
   = Some ([6; 10; 3; 5; 2; 1], 5%nat, 3%nat)) /\
  sleep_until 6%nat [] (firstn 4 ex_incs) ex_prog = None /\
  (match sleep_until 6%nat [(1, VInt 2%Z); (2, VInt 4%Z)]
         [[(6, VInt 20%Z)]; [(3, VInt 5%Z); (5, VInt 10%Z)]; [(10, VTup [VInt 10%Z; VInt 10%Z])]] ex_prog
   with Some (s, n, k) => Some (map fst s, n, k) | None => None end = Some ([10; 3; 5; 6; 1; 2], 3%nat, 2%nat)).
Proof. vm_compute. repeat split; reflexivity. Qed.

Example C14_nonvacuous_wf : wf [] ex_prog.
Proof.
  simpl. repeat split; try (intros x Hx; simpl in *; tauto).
  intros v. destruct v as [z|vs]; [|simpl; repeat split; intros x Hx; simpl in *; tauto].
  destruct z as [|q|q]; simpl; try (repeat split; intros x Hx; simpl in *; tauto).
  repeat (destruct q as [q|q|]; simpl; try (repeat split; intros x Hx; simpl in *; tauto)).
Qed.

(* ------------------------------------------------------------------ (a') barriers ARE extra dependencies
   [extras s [] []] gives every task of the recorded sequential path [s] of a jugfile its barrier / bvalue edges:
   the tasks defined before a barrier() in front of it and the tasks under the argument of a bvalue() in front
   of it.  On ANY store holding sequential values, loading the jugfile puts into alltasks EXACTLY the tasks all
   of whose extra dependencies are stored.  This is the reading used in (b) for many workers, where the edges
   are dependencies of the execution protocol.  (Jugfiles whose path has no CompoundTask: those are C18.) *)
Theorem C14_loading_is_waiting_for_barrier_edges : forall (p : jprog) (s : spine) (w : val) (st : store),
  unfold p [] = Some (s, w) -> compound_free s = true -> agrees st (slog s) ->
  forall t, In t (map tid_of (l_tasks (load st p))) <->
            exists ex, In (t, ex) (extras s [] []) /\ (forall u, In u ex -> stored st u = true).
Proof. exact load_is_waiting_for_the_extra_dependencies. Qed.
Print Assumptions C14_loading_is_waiting_for_barrier_edges.

Definition ex_bar_prog : jprog :=
  Def (mkTask 1 [AVal (VInt 1%Z)] ex_inc)
  (Def (mkTask 2 [ATask 1] ex_dbl)
  (Barrier
  (Def (mkTask 3 [ATask 2] ex_inc)
  (BValue (ATask 3) (fun v =>
     Def (mkTask 4 [AVal v] ex_dbl) (Ret (ATask 4))))))).
Example C14_barrier_edges_nonvacuous :
  match unfold ex_bar_prog [] with
  | Some (s, _) => compound_free s = true /\
                   extras s [] [] = [(1, []); (2, []); (3, [2; 1]); (4, [3; 2; 1])]%positive
  | None => False
  end /\
  map tid_of (l_tasks (load [] ex_bar_prog)) = [1; 2]%positive /\
  map tid_of (l_tasks (load [(1, VInt 2%Z); (2, VInt 4%Z)]%positive ex_bar_prog)) = [1; 2; 3]%positive /\
  map tid_of (l_tasks (load [(1, VInt 2%Z); (2, VInt 4%Z); (3, VInt 5%Z)]%positive ex_bar_prog)) = [1; 2; 3; 4]%positive.
Proof. vm_compute. repeat split; reflexivity. Qed.

(* ------------------------------------------------------------------ (b) for any number of WORKERS
   The theorems above are about one worker.  For many workers, barrier() and bvalue() are extra
   scheduling dependencies of the tasks defined after them ((a) above is what justifies this reading:
   the loader defines a task after a barrier only when everything in front of it is stored, and after
   bvalue(a) only with a stored), and the execution protocol of C01/C02 (Model/Exec.v) applies to the
   program with those edges added ([ExecCase.bprogram]: the full sequential unfolding of the jugfile
   with, for each task, the tasks it waits for through barriers).  The traces of several real workers
   running the real reload loop on such programs are validated against it in every run of this check. *)
From JugV Require Model.Deps Model.Exec Model.ExecCase Model.ExecExample Proofs.ExecFacts Proofs.ExecProgFacts Proofs.ExecTheorems.

(* no task behind a barrier is started, by any worker in any interleaving, before everything the
   barrier makes it wait for is stored *)
Theorem C14_many_workers_nothing_starts_before_the_barrier_opens :
  forall (bp : ExecCase.bprogram) r0 tr s w t s', ExecTheorems.reach (ExecCase.bprog_cfg bp) r0 tr s ->
  Exec.step (ExecCase.bprog_cfg bp) s (Exec.EStart w t) = Some s' ->
  forall d, In d (ExecCase.extra_of (ExecCase.bp_extra bp) t) ->
            In t (map Deps.t_id (ExecCase.p_tasks (ExecCase.bp_prog bp))) -> Exec.results s d <> None.
Proof. exact ExecTheorems.nothing_after_a_barrier_starts_early. Qed.
Print Assumptions C14_many_workers_nothing_starts_before_the_barrier_opens.

(* any number of workers, any number of barrier phases, any interleaving: every value ever stored is
   the sequential value (sequential evaluation ignores barriers) ... *)
Theorem C14_many_workers_values_are_sequential : forall (bp : ExecCase.bprogram), ExecCase.wf_bprog bp = true ->
  forall r0 tr s order, ExecTheorems.reach (ExecCase.bprog_cfg bp) r0 tr s -> ExecFacts.topo (ExecCase.bprog_cfg bp) [] order ->
  forall t v, In t order -> Exec.results s t = Some v -> Exec.seq_eval (ExecCase.bprog_cfg bp) order r0 t = Some v.
Proof. exact ExecTheorems.barrier_program_values_are_sequential. Qed.
Print Assumptions C14_many_workers_values_are_sequential.

(* ... and when every worker has left (no stop request, no crash) every task of every phase that neither
   raises nor waits - through arguments or barriers - for one that raises has its result *)
Theorem C14_many_workers_complete : forall (bp : ExecCase.bprogram), ExecCase.wf_bprog bp = true ->
  forall r0 tr s, ExecTheorems.reach (ExecCase.bprog_cfg bp) r0 tr s ->
  forallb (ExecFacts.okev (ExecCase.bprog_cfg bp)) tr = true ->
  ExecFacts.quiescent ExecTheorems.all_workers s -> (exists w c, Exec.w_pc (Exec.ws s w) = Exec.PDone c) ->
  forall t, In t (Exec.c_tasks (ExecCase.bprog_cfg bp)) ->
    (Exec.results s t <> None <-> ~ ExecFacts.doomed (ExecCase.bprog_cfg bp) (Exec.results s) t).
Proof. exact ExecTheorems.barrier_program_complete. Qed.
Print Assumptions C14_many_workers_complete.

(* non-vacuity: a = g1(); barrier(); b = g2() run by two workers.  At the start the function of b cannot
   be started (b waits for a through the barrier although it takes no argument); the two-worker trace is a
   run of the protocol, both workers leave, both tasks end stored with their sequential values *)
Example C14_many_workers_nonvacuous :
  ExecCase.wf_bprog ExecExample.ex_bprog = true /\
  (forall w, Exec.step (ExecCase.bprog_cfg ExecExample.ex_bprog)
               (Exec.set_w (Exec.init (Deps.st_of [])) w (Exec.act 1%nat Exec.fresh_w (Exec.PCleared 2%positive)))
               (Exec.EStart w 2%positive) = None) /\
  exists s, Exec.run (ExecCase.bprog_cfg ExecExample.ex_bprog) (Exec.init (Deps.st_of [])) ExecExample.ex_btrace = Some s /\
            map (Exec.results s) [1; 2]%positive = [Some ExecExample.ex_ba; Some ExecExample.ex_bb] /\
            Exec.w_pc (Exec.ws s 0%nat) = Exec.PDone 0%nat /\ Exec.w_pc (Exec.ws s 1%nat) = Exec.PDone 0%nat.
Proof.
  split; [reflexivity|]. split.
  - intros w. unfold Exec.step, Exec.step0, Exec.set_w, Exec.updw. simpl. rewrite PeanoNat.Nat.eqb_refl. reflexivity.
  - eexists. vm_compute. repeat split; reflexivity.
Qed.
