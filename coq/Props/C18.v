(* C18 - a compound task equals its expansion and collapses once computed.
   Statements only; every proof is [exact <lemma>].

   [Compound h cargs body k] (Model/Loader.v) is  c = CompoundTask(f, cargs...)  followed by [k]:
   [h] is the hash of Task(f, cargs...), [body] is what f(cargs...) does - any staged program:
   task definitions, nested compounds, barrier()/bvalue(), markers - ending in [Ret inner], where
   [inner] is a task, a tuple of tasks and constants (nested), or a constant; [k] refers to the
   compound as [ATask h].  [final h inner] is Task(compound_task_execute, inner, h) with hash h,
   [probe h cargs] is Task(f, cargs...) itself.  Covered: everything CompoundTask does at load and
   run time with one worker; values are integers and nested tuples.  Not covered: keyword arguments,
   lists/dicts as results, a builder that raises, several workers (C01/C02). *)
From Coq Require Import List PArith ZArith Bool.
From JugV Require Import Model.Loader Proofs.LoaderFacts Proofs.CompoundFacts.
Import ListNotations.

(* ------------------------------------------------------------------ before the collapse *)
(* no result under h: loading the compound is loading its builder's statements in place - the inner
   tasks are ordinary entries of alltasks, barriers inside the builder see and are seen by the tasks
   around it - followed by one more task, with hash h, whose argument is what the builder returned *)
Theorem C18_not_computed_is_expansion : forall (st : store) (h : tid) (ca : list arg) (body k : jprog) (tr : list ev),
  stored st h = false ->
  load_from st (Compound h ca body k) tr = load_from st (bindp body (fun r => Def (final h r) k)) tr.
Proof. exact compound_expanded. Qed.
Print Assumptions C18_not_computed_is_expansion.

(* that task computes the value of the builder's result (task, tuple, nested compound) and stores it
   under h; until the result's tasks are stored it cannot run *)
Theorem C18_final_task_stores_builders_result : forall (st : store) (h : tid) (inner : arg) (v : val),
  stored st h = false -> resolve (lookup st) inner = Some v ->
  exec_task st (final h inner) = ((h, v) :: st, [h]).
Proof. exact final_task_value. Qed.
Print Assumptions C18_final_task_stores_builders_result.

Theorem C18_final_task_waits_for_inner : forall (st : store) (h : tid) (inner : arg),
  resolve (lookup st) inner = None -> exec_task st (final h inner) = (st, []).
Proof. exact final_task_waits. Qed.
Print Assumptions C18_final_task_waits_for_inner.

(* end to end (hypotheses as in C14_reload_loop): after `jug execute`, whatever is stored under the
   hash of any compound of the program - nested ones included - is the value its builder's result
   has in the plain sequential evaluation ([comps s]: the compounds met, with the recorded run [sb]
   of their builders; [sres sb]: the value of what the builder returned); compounds in scope at the
   end of the jugfile are stored *)
Theorem C18_compound_value : forall (p : jprog) (s : spine) (st0 : store),
  seq_eval p = Some s -> functional (slog s) -> agrees st0 (slog s) ->
  let st := fst (run_phases (sbn s + 1) st0 p) in
  (forall h sb w, In (h, sb) (comps s) -> lookup st h = Some w -> w = sres sb) /\
  (forall h sb, In (h, sb) (comps s) -> In (h, sres sb) (stop_env s) -> lookup st h = Some (sres sb)).
Proof. exact compound_value. Qed.
Print Assumptions C18_compound_value.

(* ------------------------------------------------------------------ after the collapse *)
(* a result under h: loading defines ONE task for the compound and nothing of its builder *)
Theorem C18_computed_is_one_task : forall (st : store) (h : tid) (ca : list arg) (body k : jprog) (tr : list ev),
  stored st h = true ->
  load_from st (Compound h ca body k) tr = load_from st k (ETask (probe h ca) :: tr).
Proof. exact compound_collapsed. Qed.
Print Assumptions C18_computed_is_one_task.

(* executing it runs nothing; and `jug execute` on a store where every loaded task has a result
   loads once, executes nothing and leaves the store as it is *)
Theorem C18_collapsed_task_is_not_run : forall (st : store) (h : tid) (ca : list arg),
  stored st h = true -> exec_task st (probe h ca) = (st, []).
Proof. exact probe_not_run. Qed.
Print Assumptions C18_collapsed_task_is_not_run.

Theorem C18_execute_runs_nothing : forall (st : store) (p : jprog) (f : nat),
  l_hasbarrier (load st p) = false -> check st p = 0 -> run_phases (S f) st p = (st, [[]]).
Proof. exact execute_runs_nothing. Qed.
Print Assumptions C18_execute_runs_nothing.

(* `jug cleanup` (keep exactly the keys that are hashes of loaded tasks), for any program with Python
   scoping and any store: the jugfile loads as before, every loaded task keeps its result, every
   other key - the inner results of collapsed compounds among them - is gone, check is unchanged *)
Theorem C18_cleanup : forall (st : store) (p : jprog), wf [] p ->
  let st' := cleanup st p in
  load st' p = load st p /\
  (forall t, In t (l_tasks (load st p)) -> lookup st' (tid_of t) = lookup st (tid_of t)) /\
  (forall k v, lookup st' k = Some v -> lookup st k = Some v /\ exists t, In t (l_tasks (load st p)) /\ tid_of t = k) /\
  check st' p = check st p.
Proof. exact cleanup_facts. Qed.
Print Assumptions C18_cleanup.

(* in particular the collapsed compound: its one task is loaded, its key survives cleanup with the
   same value, and afterwards the jugfile still loads the same (collapsed) way *)
Theorem C18_collapsed_survives_cleanup : forall (st : store) (h : tid) (ca : list arg) (body k : jprog),
  stored st h = true ->
  let p := Compound h ca body k in
  wf [] p ->
  In (probe h ca) (l_tasks (load st p)) /\
  lookup (cleanup st p) h = lookup st h /\
  load (cleanup st p) p = load st p.
Proof. exact collapsed_survives_cleanup. Qed.
Print Assumptions C18_collapsed_survives_cleanup.

(* ------------------------------------------------------------------ the collapsed compound keeps its place in the DAG
   the one task loaded for a computed compound is Task(f, cargs...) itself: same hash, and the ARGUMENTS of the
   call - so its dependencies are the tasks under those arguments, exactly as for the expansion's entry point *)
Theorem C18_collapsed_compound_keeps_its_arguments : forall (st : store) (h : tid) (ca : list arg) (body k : jprog),
  stored st h = true ->
  In (probe h ca) (l_tasks (load st (Compound h ca body k))) /\
  tid_of (probe h ca) = h /\ targs (probe h ca) = ca /\ atids_list (targs (probe h ca)) = atids_list ca.
Proof. exact collapsed_keeps_arguments. Qed.
Print Assumptions C18_collapsed_compound_keeps_its_arguments.

(* hence `jug invalidate` ([invalidate sel st p]: the selected loaded tasks and every loaded task with one of them under
   its arguments lose their results) reaches it: for ANY program in which the collapsed compound is loaded after
   tasks [pre], if a task under its arguments is invalidated the compound's stored value is gone - a following
   execute expands it again (C18_not_computed_is_expansion) and recomputes it (C18_compound_value) *)
Theorem C18_invalidate_reaches_collapsed_compound :
  forall (sel : tid -> bool) (st : store) (p : jprog) (pre post : list task) (h : tid) (ca : list arg) (d : tid),
  l_tasks (load st p) = pre ++ probe h ca :: post ->
  In d (atids_list ca) -> In d (invalid_ids sel pre) ->
  lookup (invalidate sel st p) h = None.
Proof. exact invalidate_reaches_collapsed. Qed.
Print Assumptions C18_invalidate_reaches_collapsed_compound.

(* ------------------------------------------------------------------ locks play no part in it
   [run_phases_l locks] is the reload loop of a worker that cannot take the locks in [locks] (held by another
   worker, left behind by a worker killed between storing a result and releasing its lock, or marked failed).
   Every phase loads [load st p]: the loader - and with it the decision whether a compound is collapsed
   (C18_computed_is_one_task) or expanded (C18_not_computed_is_expansion) - has no lock parameter at all;
   locks only remove tasks from what is run.  [cleanup] has none either (--keep-locks or not). *)
Theorem C18_loading_ignores_locks : forall (locks : list tid) (f : nat) (st : store) (p : jprog),
  run_phases_l locks (S f) st p =
  let l := load st p in
  let '(st1, ex) := exec_all st (unlocked locks (l_tasks l)) in
  if l_hasbarrier l then let '(st2, exs) := run_phases_l locks f st1 p in (st2, ex :: exs)
  else (st1, [ex]).
Proof. exact run_phases_l_step. Qed.
Print Assumptions C18_loading_ignores_locks.

Theorem C18_no_locks_is_the_plain_loop : forall (fuel : nat) (st : store) (p : jprog),
  run_phases_l [] fuel st p = run_phases fuel st p.
Proof. exact run_phases_l_nil. Qed.
Print Assumptions C18_no_locks_is_the_plain_loop.

(* a task (inner task, compound, anything) whose lock someone else holds gets no result from this worker, and
   a result stored under its hash - the value of a collapsed compound with a stale lock - stays as it is *)
Theorem C18_locked_hash_is_left_alone : forall (locks : list tid) (fuel : nat) (st : store) (p : jprog) (u : tid),
  is_locked locks u = true -> lookup (fst (run_phases_l locks fuel st p)) u = lookup st u.
Proof. exact run_phases_l_locked_untouched. Qed.
Print Assumptions C18_locked_hash_is_left_alone.

(* ------------------------------------------------------------------ non-vacuity
   t1 = inc(1);  c = compound[10](t1){ t2 = dbl(t1);
                                        d = compound[11](t2){ t3 = inc(t2); barrier(); return (t3, t2) };
                                        return d };
   t4 = sum2(c)
   From the empty store: two loads; then the store holds 1,2,3,11,10,4; a reload defines 3 tasks
   (t1, the collapsed c, t4); cleanup leaves 1, 10, 4 and the value of c; execute runs nothing. *)
Local Open Scope positive_scope.
Definition ex_inc (vs : list val) : val := match vs with [VInt x] => VInt (x + 1)%Z | _ => VInt 0%Z end.
Definition ex_dbl (vs : list val) : val := match vs with [VInt x] => VInt (2 * x)%Z | _ => VInt 0%Z end.
Definition ex_sum2 (vs : list val) : val := match vs with [VTup [VInt x; VInt y]] => VInt (x + y)%Z | _ => VInt 0%Z end.
Definition ex_prog : jprog :=
  Def (mkTask 1 [AVal (VInt 1%Z)] ex_inc)
  (Compound 10 [ATask 1]
     (Def (mkTask 2 [ATask 1] ex_dbl)
     (Compound 11 [ATask 2]
        (Def (mkTask 3 [ATask 2] ex_inc) (Barrier (Ret (ATup [ATask 3; ATask 2]))))
     (Ret (ATask 11))))
  (Def (mkTask 4 [ATask 10] ex_sum2) (Ret (ATask 4)))).

Example C18_nonvacuous :
  map tid_of (l_tasks (load [] ex_prog)) = [1; 2; 3] /\ l_hasbarrier (load [] ex_prog) = true /\
  snd (run_phases 3%nat [] ex_prog) = [[1; 2; 3]; [11; 10; 4]] /\
  (let st := fst (run_phases 3%nat [] ex_prog) in
   lookup st 10 = Some (VTup [VInt 5%Z; VInt 4%Z]) /\ lookup st 11 = Some (VTup [VInt 5%Z; VInt 4%Z]) /\
   lookup st 4 = Some (VInt 9%Z) /\
   map tid_of (l_tasks (load st ex_prog)) = [1; 10; 4] /\ l_hasbarrier (load st ex_prog) = false /\
   run_phases 1%nat st ex_prog = (st, [[]]) /\
   store_eqb (cleanup st ex_prog) [(1, VInt 2%Z); (10, VTup [VInt 5%Z; VInt 4%Z]); (4, VInt 9%Z)] = true /\
   map tid_of (l_tasks (load (cleanup st ex_prog) ex_prog)) = [1; 10; 4] /\
   snd (run_phases 1%nat (cleanup st ex_prog) ex_prog) = [[]]) /\
  (match seq_eval ex_prog with
   | Some s => functionalb (slog s) && Nat.eqb (List.length (comps s)) 2%nat
   | None => false
   end = true).
Proof. vm_compute. repeat split; reflexivity. Qed.

(* after the run: invalidating t1 takes the collapsed compound 10 (built from t1) and t4 (built from 10) with it;
   the inner results 2, 3, 11 are not loaded any more, so they stay; a following execute expands 10 again (11 stays collapsed) and
   stores 1, 10 (through 11) and 4 again *)
Example C18_nonvacuous_invalidate :
  (let st := fst (run_phases 3%nat [] ex_prog) in
   map tid_of (l_tasks (load st ex_prog)) = [1; 10; 4] /\
   atids_list (targs (probe 10 [ATask 1])) = [1] /\
   invalid_ids (Pos.eqb 1) (l_tasks (load st ex_prog)) = [4; 10; 1] /\
   lookup (invalidate (Pos.eqb 1) st ex_prog) 10 = None /\
   stored (invalidate (Pos.eqb 1) st ex_prog) 11 = true /\
   snd (run_phases 3%nat (invalidate (Pos.eqb 1) st ex_prog) ex_prog) = [[1; 10; 4]] /\
   lookup (fst (run_phases 3%nat (invalidate (Pos.eqb 1) st ex_prog) ex_prog)) 10 = Some (VTup [VInt 5%Z; VInt 4%Z])).
Proof. vm_compute. repeat split; reflexivity. Qed.

(* with locks: a stale lock on the collapsed compound 10 changes nothing (3 tasks loaded, nothing run);
   while another worker holds t3, this worker runs t1, t2 and then waits at the builder's barrier *)
Example C18_nonvacuous_locks :
  (let st := fst (run_phases 3%nat [] ex_prog) in
   run_phases_l [10; 2] 2%nat st ex_prog = (st, [[]])) /\
  snd (run_phases_l [3] 3%nat [] ex_prog) = [[1; 2]; []; []] /\
  map tid_of (l_tasks (load (fst (run_phases_l [3] 3%nat [] ex_prog)) ex_prog)) = [1; 2; 3] /\
  snd (run_phases_l [10] 3%nat [] ex_prog) = [[1; 2; 3]; [11]].
Proof. vm_compute. repeat split; reflexivity. Qed.

Example C18_nonvacuous_wf : wf [] ex_prog.
Proof. simpl. repeat split; intros x Hx; simpl in *; tauto. Qed.
