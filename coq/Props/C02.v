(* C02 - a task is executed at most once and never by two workers at the same time.
   Statements only; every proof is [exact <lemma>].

   Vocabulary (Model/Exec.v, Proofs/ExecFacts.v, Proofs/ExecTheorems.v): [cfg] = the tasks of a jugfile,
   their direct dependencies and what calling each task's function on a store returns; [step]/[run] =
   the guarded transition system of any number of workers at the store / lock / function-call
   interface (the recorded traces of the real execution_loop are validated against it in every run
   of the check); [reach C r0 tr s] = s is reached from the initial results r0 by the events tr - of
   any workers, in any interleaving, joining and leaving at any time; [framed C] = calling a task
   function reads the store at the task's dependencies only; [running s w t] = worker w is inside
   the function of t (called, result not yet stored); [execs s t] = how often the function of t has
   been called; [quiet e] = e is not a raise, a stop request or a crash. *)
From Coq Require Import List Bool PArith.
From JugV Require Import Model.LockPrims.
From JugV Require Import Model.MapReduce Model.Slice Model.Deps Model.Exec Model.ExecCase Model.ExecExample
  Proofs.ExecFacts Proofs.ExecTheorems Proofs.ExecLockFacts.
Import ListNotations.

(* (a) two executions of the same task never overlap *)
Theorem C02_never_concurrently : forall (V : Type) (C : cfg V), framed C ->
  forall r0 tr s w w' t, reach C r0 tr s -> running s w t -> running s w' t -> w = w'.
Proof. exact (@never_concurrently). Qed.
Print Assumptions C02_never_concurrently.

(* (b) once a result is stored no worker can start the function again, whatever happens afterwards:
   the start event is not enabled, the call counter never moves, the result is never overwritten *)
Theorem C02_not_started_once_stored : forall (V : Type) (C : cfg V), framed C ->
  forall r0 tr s tr' s' t, reach C r0 tr s -> results s t <> None -> run C s tr' = Some s' ->
    (forall w, step C s (EStart w t) = None) /\ execs s' t = execs s t /\ results s' t = results s t.
Proof. exact (@not_started_once_stored). Qed.
Print Assumptions C02_not_started_once_stored.

(* (c) absent failures, stop requests and crashes every function is called at most once in total -
   not at all if its result was there from the start, exactly once if it ends up stored - however
   many workers run and however often execute is repeated (a repeated execute is more workers) *)
Theorem C02_exactly_once : forall (V : Type) (C : cfg V), framed C ->
  forall r0 tr s, reach C r0 tr s -> forallb quiet tr = true ->
  forall t, execs s t <= 1 /\ (r0 t <> None -> execs s t = 0) /\ (r0 t = None -> results s t <> None -> execs s t = 1).
Proof. exact (@called_exactly_once). Qed.
Print Assumptions C02_exactly_once.

(* "... until it is explicitly invalidated": removing a set of results closed under "depends on" (what
   `jug invalidate` removes: C09) leaves a sound store, and the execute that follows calls exactly the
   functions of the removed tasks - each once - and none of the kept ones, whose values stay *)
Theorem C02_rerun_only_after_invalidation : forall (V : Type) (C : cfg V), framed C ->
  forall (r : tid -> option V) (keep : tid -> bool) tr (s : st V), Sound C r ->
  (forall t d, keep t = true -> r t <> None -> In d (c_deps C t) -> keep d = true) ->
  forallb quiet tr = true -> run C (init (fun t => if keep t then r t else None)) tr = Some s ->
  forall t, (keep t = true -> r t <> None -> execs s t = 0 /\ results s t = r t) /\
            (keep t = false -> results s t <> None -> execs s t = 1).
Proof. exact (@execute_after_removal). Qed.
Print Assumptions C02_rerun_only_after_invalidation.

(* the lock discipline behind (a) and (b), as an invariant of every reachable state *)
Theorem C02_lock_discipline : forall (V : Type) (C : cfg V), framed C ->
  forall r0 tr s, reach C r0 tr s -> Inv C s.
Proof. exact (@reach_Inv). Qed.
Print Assumptions C02_lock_discipline.

(* what the protocol asks of the locks is exactly the atomic specification that C04 proves of every lock
   backend (Model/LockPrims.v [spec_op]: get on a free name wins, get on a held or failed name answers
   False, release frees, fail on a held name marks it): the lock calls of any run ([lock_calls tr]; the two
   operator commands that edit locks wholesale included), replayed on that specification from "all free",
   get exactly the answers the run observed ([ok]) and end in the lock table of the protocol's state *)
Theorem C02_uses_only_the_atomic_lock : forall (V : Type) (C : cfg V), framed C ->
  forall r0 tr s, reach C r0 tr s ->
  let (g, ok) := spec_calls (fun _ => GFree) (lock_calls tr) in
  ok = true /\ forall t, g t = abs_lock (locks s t).
Proof. exact (@uses_the_atomic_lock). Qed.
Print Assumptions C02_uses_only_the_atomic_lock.

(* the theorems apply to every generated program *)
Theorem C02_programs_qualify : forall p, framed (prog_cfg p).
Proof. exact programs_are_framed. Qed.
Print Assumptions C02_programs_qualify.

(* non-vacuity: a three-task program run by two workers racing for the first task; the trace is a
   run of the protocol, in its middle worker 0 is inside f1 while worker 1 has lost the lock, at the
   end every function has been called exactly once *)
Example C02_nonvacuous :
  (exists s, run (prog_cfg ex_prog) (init (st_of [])) ex_prefix_running = Some s /\
             w_pc (ws s 0) = PRunning 1%positive /\ w_pc (ws s 1) = PIdle /\ locks s 1%positive = LHeld 0) /\
  (exists s, run (prog_cfg ex_prog) (init (st_of [])) ex_trace = Some s /\ forallb quiet ex_trace = true /\
             map (execs s) [1; 2; 3]%positive = [1; 1; 1] /\
             map (results s) [1; 2; 3]%positive = [Some ex_v1; Some ex_v2; Some ex_v3]).
Proof. split; eexists; vm_compute; repeat split; reflexivity. Qed.

(* ... and the lock calls of that run: 9 of them, one get refused (worker 1 lost the race for task 1) *)
Example C02_atomic_lock_nonvacuous :
  length (lock_calls ex_trace) = 9 /\
  existsb (fun c => match c with LCall _ OGet _ (OB false) => true | _ => false end) (lock_calls ex_trace) = true /\
  snd (spec_calls (fun _ => GFree) (lock_calls ex_trace)) = true.
Proof. vm_compute. repeat split; reflexivity. Qed.
