(* C15 - status and check tell the truth about every task.
   Statements only; every proof is [exact <lemma>].

   Vocabulary (Model/Dag.v, Model/Status.v): [d : dag] the task objects of the loaded jugfile in
   creation order (hash, function name, hashes of the direct dependencies); [st : tid -> bool] is
   can_load, ANY store state (dependency-closed or not); [lk : tid -> Free | Held | Failed] ANY
   lock state.  [classify] = one iteration of the loop of _status_nocache; [status_events] = the
   counter increments of one uncached `jug status`; [count nm c] / [total c] = a cell / the Total
   row of the printed table; [cached_run d None h] = what successive `jug status --cache` calls
   print along the history h of (store, locks) states, starting without a cache file
   (load_jugfile, update_status, the sqlite table); [check] = the loop of `jug check`. *)
From Coq Require Import List PArith Bool Arith.
From JugV Require Import Model.Dag Model.Status Proofs.DagFacts Proofs.StatusFacts.
Import ListNotations.

(* (b) the column a task is counted in is the one the property names: complete iff its result is
       stored; otherwise waiting iff some direct dependency has no stored result; otherwise
       failed / active / ready as its lock is failed / held / free *)
Theorem C15_classification_is_spec : forall (st : store) (lk : locks) (n : node) (c : cat),
  classify st lk n = c <->
  match c with
  | Complete => st (n_tid n) = true
  | Waiting => st (n_tid n) = false /\ exists x, In x (n_deps n) /\ st x = false
  | CFailed => st (n_tid n) = false /\ (forall x, In x (n_deps n) -> st x = true) /\ lk (n_tid n) = Failed
  | Active => st (n_tid n) = false /\ (forall x, In x (n_deps n) -> st x = true) /\ lk (n_tid n) = Held
  | Ready => st (n_tid n) = false /\ (forall x, In x (n_deps n) -> st x = true) /\ lk (n_tid n) = Free
  end.
Proof. exact classify_spec. Qed.
Print Assumptions C15_classification_is_spec.

(* (a) the specification puts every task into exactly one column ... *)
Theorem C15_exactly_one_category : forall (st : store) (lk : locks) (n : node),
  (exists c, spec_cat st lk n c) /\ (forall c1 c2, spec_cat st lk n c1 -> spec_cat st lk n c2 -> c1 = c2).
Proof. exact (fun st lk n => conj (spec_cat_total st lk n) (spec_cat_unique st lk n)). Qed.
Print Assumptions C15_exactly_one_category.

(* ... a cell counts the tasks of that name in that column; per name the five cells sum to the
   number of tasks of that name; the Total row sums to the number of tasks and is the column sum *)
Theorem C15_counts : forall (d : dag) (st : store) (lk : locks),
  let ev := status_events d st lk in
  (forall nm c, count nm c ev = length (filter (fun n => Pos.eqb (n_name n) nm && cat_eqb (classify st lk n) c) d)) /\
  (forall c, total c ev = length (filter (fun n => cat_eqb (classify st lk n) c) d)) /\
  (forall nm, count nm Complete ev + count nm Waiting ev + count nm CFailed ev + count nm Active ev +
              count nm Ready ev = tasks_named nm d) /\
  total Complete ev + total Waiting ev + total CFailed ev + total Active ev + total Ready ev = length d /\
  (forall ks c, NoDup ks -> (forall n, In n d -> In (n_name n) ks) ->
                total c ev = list_sum (map (fun nm => count nm c ev) ks)).
Proof.
  exact (fun d st lk => conj (count_events d st lk) (conj (total_events d st lk) (counts_partition d st lk))).
Qed.
Print Assumptions C15_counts.

(* (c) for every jugfile whose tasks are created in dependency order and EVERY history of store and
       lock states in which results are only added between calls (locks arbitrary), every
       `jug status --cache` call prints exactly the counter increments of the uncached command on
       the state of that moment - hence the same table.
       The creation-order hypothesis is the code's own documented precondition: load_jugfile looks
       every dependency up among the EARLIER tasks and otherwise stops with "Could not build
       dependency graph! ... A common error is to build a Task with a mutable argument and
       subsequently modifying." *)
Theorem C15_cached_eq_uncached : forall (d : dag), ordered_dag d ->
  forall h : list (store * locks), monotone (fun _ => false) h ->
  cached_run d None h = map (fun sl => Some (status_events d (fst sl) (snd sl))) h.
Proof. exact cached_eq_uncached. Qed.
Print Assumptions C15_cached_eq_uncached.

(* the precondition is exact: the cache can be built iff every dependency was created before its
   consumer; otherwise the cached command refuses (exit 1, no table, no cache file content) ... *)
Theorem C15_cache_needs_creation_order : forall (d : dag),
  (exists db, load_jugfile d = Some db) <-> ordered_dag d.
Proof. exact load_jugfile_iff_ordered. Qed.
Print Assumptions C15_cache_needs_creation_order.

(* ... which does happen for well-formed (acyclic) jugfiles: a container filled after the task that
   received it was created.  The uncached command and check handle those (theorems (a), (b), (d)
   make no assumption on the order); the tie compares the refusal with the real command. *)
Theorem C15_cached_rejects_late_dependencies : exists d : dag, wf_dag d /\
  forall st lk, cached_run d None [(st, lk)] = [None] /\ length (status_events d st lk) = length d.
Proof. exact cached_rejects_late. Qed.
Print Assumptions C15_cached_rejects_late_dependencies.

(* which store the cached command reads: [cached_call_dirs d file jf arg] reads the store the tasks use
   ([jf]) when it builds the cache and the store --jugdir names ([arg]) afterwards (update mode does
   not load the jugfile).  When the jugfile does not select its store the two coincide and this is
   the [cached_call] of (c) ... *)
Theorem C15_cached_same_store : forall (d : dag) (file : option cache_db) (x : store * locks),
  cached_call_dirs d file x x = cached_call d file (fst x) (snd x).
Proof. exact cached_dirs_same. Qed.
Print Assumptions C15_cached_same_store.

(* ... and when it does (jug.set_jugdir in the jugfile, --jugdir / the default naming another
   location) (c) is FALSE of the faithful model and of the code: KNOWN FINDING D27 (classifier
   cache_ignores_jugfile_store).  u = a(1); v = b(u); nothing stored at the first call, both results
   stored at the second: the cached command still prints ready / waiting, the plain one complete. *)
Theorem C15_cached_refuted_jugfile_store : exists (d : dag) (s1 s2 sa : store) (lk : locks),
  ordered_dag d /\ monotone (fun _ => false) [(s1, lk); (s2, lk)] /\
  exists ev1 db1 ev2 db2,
    cached_call_dirs d None (s1, lk) (sa, lk) = Some (ev1, db1) /\ ev1 = status_events d s1 lk /\
    cached_call_dirs d (Some db1) (s2, lk) (sa, lk) = Some (ev2, db2) /\
    map snd ev2 = [Ready; Waiting] /\ map snd (status_events d s2 lk) = [Complete; Complete].
Proof. exact cached_ignores_jugfile_store. Qed.
Print Assumptions C15_cached_refuted_jugfile_store.

(* (d) `jug check` exits 0 iff every task is complete, 1 otherwise - on every store state *)
Theorem C15_check : forall (d : dag) (st : store),
  (check d st = 0 <-> forall t, In t (tids d) -> st t = true) /\
  (check d st = 0 \/ check d st = 1) /\
  (forall lk, check d st = 0 <-> forall n, In n d -> classify st lk n = Complete).
Proof.
  exact (fun d st => conj (proj1 (check_spec d st)) (conj (proj2 (check_spec d st)) (fun lk => check_all_complete d st lk))).
Qed.
Print Assumptions C15_check.

(* non-vacuity: 1 = a(), 2 = f(1), 3 = f(1) again (hash 2), 4 = g(2), 5 = g(1), 6 = h(5), 7 = h(4).
   Names a = 10, f = 11, g = 12, h = 13.  History: (i) only 1 stored, lock on 2 failed, lock on 5
   held; (ii) 2 stored as well, the failed lock gone, lock on 4 held; (iii) everything stored.
   The cached run prints the uncached tables; check is 1, 1, 0. *)
Example C15_nonvacuous :
  let d : dag := [(1, 10, []); (2, 11, [1]); (2, 11, [1]); (4, 12, [2]); (5, 12, [1]); (6, 13, [5]); (7, 13, [4])]%positive in
  let s1 := st_of [1]%positive in
  let s2 := st_of [1; 2]%positive in
  let s3 := st_of [1; 2; 4; 5; 6; 7]%positive in
  let l1 := lk_of [(2, Failed); (5, Held)]%positive in
  let l2 := lk_of [(5, Held); (4, Held)]%positive in
  let l3 := lk_of [] in
  ordered_dagb d = true /\
  map snd (status_events d s1 l1) = [Complete; CFailed; CFailed; Waiting; Active; Waiting; Waiting] /\
  map snd (status_events d s2 l2) = [Complete; Complete; Complete; Active; Active; Waiting; Waiting] /\
  cached_run d None [(s1, l1); (s2, l2); (s3, l3)] =
    [Some (status_events d s1 l1); Some (status_events d s2 l2); Some (status_events d s3 l3)] /\
  count 11%positive CFailed (status_events d s1 l1) = 2 /\ total Waiting (status_events d s1 l1) = 3 /\
  status_exit (status_events d s2 l2) = 3 /\
  check d s1 = 1 /\ check d s2 = 1 /\ check d s3 = 0 /\
  (* the cache after the second call remembers `complete` for 1, 2, 2 and keeps index dependencies *)
  option_map (fun r => map (fun e => (ce_status e, ce_deps e)) (snd r))
             (match cached_call d None s1 l1 with
              | Some (_, db) => cached_call d (Some db) s2 l2 | None => None end) =
    Some [(Some Complete, []); (Some Complete, [0]); (Some Complete, [0]); (Some Active, [2]);
          (Some Active, [0]); (Some Waiting, [4]); (Some Waiting, [3])].
Proof. vm_compute. repeat split; reflexivity. Qed.

(* ---- what the columns MEAN for the workers --------------------------------------------------------------
   The classification above, read off ANY reachable state [s] of the N-worker execution protocol
   (Model/Exec.v: [st_view s] = which results are stored, [lk_view s] = the lock table), says what workers can
   and cannot do in that state ([truth], Proofs/ExecStatusFacts.v):  complete - the function can never be started
   again;  waiting - a direct dependency has no result and no worker can start the function now;  failed - no
   worker can acquire the lock;  active - some worker holds the lock, being between get() and release() on
   this task or having died there;  ready - any idle worker can, right now, take the lock, find the result missing
   under the lock and call the function. *)
From JugV Require Import Model.MapReduce Model.Slice Model.Deps Model.Exec Model.ExecCase Model.ExecExample
  Proofs.ExecFacts Proofs.ExecTheorems Proofs.ExecStatusFacts.

Theorem C15_columns_say_what_workers_can_do : forall (V : Type) (C : cfg V), framed C ->
  forall r0 tr s, reach C r0 tr s ->
  forall t nm, truth C s t (classify (st_view s) (lk_view s) (node_of C t nm)).
Proof. exact (@status_tells_the_truth). Qed.
Print Assumptions C15_columns_say_what_workers_can_do.

(* non-vacuity: the three-task chain of Model/ExecExample.v while worker 0 is inside f1 (worker 1 lost the
   lock): t1 is active, t2 and t3 wait; before anything happened t1 is ready; at the end all are complete *)
Example C15_columns_nonvacuous :
  (exists s, run (prog_cfg ex_prog) (init (Deps.st_of [])) ex_prefix_running = Some s /\
     map (fun t => classify (st_view s) (lk_view s) (node_of (prog_cfg ex_prog) t 1%positive)) [1; 2; 3]%positive
       = [Active; Waiting; Waiting]) /\
  map (fun t => classify (st_view (init (Deps.st_of []))) (lk_view (@init val (Deps.st_of [])))
                  (node_of (prog_cfg ex_prog) t 1%positive)) [1; 2; 3]%positive = [Ready; Waiting; Waiting] /\
  (exists s, run (prog_cfg ex_prog) (init (Deps.st_of [])) ex_trace = Some s /\
     map (fun t => classify (st_view s) (lk_view s) (node_of (prog_cfg ex_prog) t 1%positive)) [1; 2; 3]%positive
       = [Complete; Complete; Complete]).
Proof. split; [|split]; [eexists; vm_compute; split; reflexivity | vm_compute; reflexivity | eexists; vm_compute; split; reflexivity]. Qed.
