(* C20 - every command resolves options and the store location the same way.
   Statements only; every proof is [exact <lemma>].
   [table] is Gen/OptionTable.v, regenerated from /repo's source on every run: the obligations
   about it (Proofs/OptionsGen.v) change when the source does. *)
From Coq Require Import List ZArith Bool String.
From JugV Require Import Model.Options Gen.OptionTable Proofs.OptionsFacts Proofs.OptionsGen.
Import ListNotations.
Local Open Scope string_scope.

(* General, for EVERY option table T, every command line c, every configuration file cfg
   (i.e. every assignment of the three layers) and every option name k: if explicit values are
   never None, booleans of the configuration file go through the tested helper ([table_ok]) and
   the arguments stored under k leave None in the namespace when absent, then what the code
   computes (chained lookup: non-None namespace entries, then the coerced configuration file, then
   defaults, then subcommand defaults) is
        command line ?? coerce(default, configuration file) ?? default. *)
Theorem C20_resolution_general : forall (T : option_table) (c : cmdline) (cfg : config)
    (ns ini : layer) (k : string),
  table_ok T = true ->
  namespace T c = Some ns ->
  read_config T cfg [] = Some ini ->
  absent_none_for T (c_sub c) k = true ->
  impl_resolve T ns ini k = spec_resolve T c cfg k.
Proof. exact resolve_correct. Qed.
Print Assumptions C20_resolution_general.

(* ... and the configuration file is rejected exactly when some value cannot be converted *)
Theorem C20_config_rejected_iff : forall (T : option_table) (cfg : config),
  table_ok T = true ->
  (read_config T cfg [] = None <-> cfg_unconvertible T cfg = true).
Proof. exact read_config_fails_iff. Qed.
Print Assumptions C20_config_rejected_iff.

(* The side conditions hold for the table of the current source (finite domain: the generated
   list of add_argument entries; decided by vm_compute). *)
Theorem C20_generated_table_side_conditions :
  table_ok table = true /\ absent_none_except "user_args" table = true /\ positional_shape_all table = true.
Proof. exact (conj gen_table_ok (conj gen_absent_none gen_positional_shape)). Qed.
Print Assumptions C20_generated_table_side_conditions.

(* Hence, for the current source: every option of every subcommand, every layer assignment.
   ("user_args" is the positional remainder, not an option: its absent value is [].) *)
Theorem C20_resolution : forall (c : cmdline) (cfg : config) (ns ini : layer) (k : string),
  k <> "user_args" ->
  namespace table c = Some ns ->
  read_config table cfg [] = Some ini ->
  impl_resolve table ns ini k = spec_resolve table c cfg k.
Proof. exact gen_resolve_correct. Qed.
Print Assumptions C20_resolution.

(* The whole of options.parse for the current source: errors, every attribute, the expanded jugdir
   (template % {jugfile stem, date} - a function of the resolved template, the resolved jugfile and
   the date only) and sys.argv = resolved jugfile :: the extra positional words. *)
Theorem C20_parse_is_spec : forall (c : cmdline) (cfg : config) (date : string) (keys : list string),
  ~ In "user_args" keys ->
  run table c cfg date keys = spec_run table c cfg date keys.
Proof. exact gen_run_is_spec. Qed.
Print Assumptions C20_parse_is_spec.

Theorem C20_jugfile_is_first_positional : forall (c : cmdline),
  explicit table c <> None -> cmd_given table c "jugfile" = option_map VStr (hd_error (c_pos c)).
Proof. exact gen_jugfile_given. Qed.
Print Assumptions C20_jugfile_is_first_positional.

(* Store location: two commands (any subcommands, any other options, any extra arguments) that name
   the same --jugdir and the same jugfile - or neither - address the same store, whatever the
   configuration file says. *)
Theorem C20_store_location_independent_of_subcommand : forall (c1 c2 : cmdline) (cfg : config) (date : string),
  explicit table c1 <> None -> explicit table c2 <> None ->
  cmd_given table c1 "jugdir" = cmd_given table c2 "jugdir" ->
  cmd_given table c1 "jugfile" = cmd_given table c2 "jugfile" ->
  store_location table c1 cfg date = store_location table c2 cfg date.
Proof. exact gen_store_location. Qed.
Print Assumptions C20_store_location_independent_of_subcommand.

Theorem C20_default_template : forall stem date : string,
  expand "%(jugfile)s.jugdata" stem date = FmtOk (stem ++ ".jugdata").
Proof. exact expand_default_template. Qed.
Print Assumptions C20_default_template.

(* non-vacuity: a command line, a configuration file and defaults that all speak; every layer wins
   somewhere; 'off' is false; every subcommand of the generated table accepts the same --jugdir /
   jugfile and lands on the same store *)
Definition ex_cfg : config :=
  [("main", "pdb", "on"); ("main", "jugdir", "%(date)s/%(jugfile)s.store"); ("status", "cache", "off");
   ("execute", "wait-cycle-time", "23"); ("execute", "keep-going", "yes")].
Definition ex_cmd (sub : string) : cmdline :=
  {| c_sub := sub;
     c_opts := map (fun e => (hd "" (a_flags e), "x"))
                   (filter (fun e => (a_required e && negb (is_positional e))%bool) (applicable table sub));
     c_pos := ["proj.py"; "extra"; "--more"] |}.

Example C20_nonvacuous :
  run table {| c_sub := "execute"; c_opts := [("--nr-wait-cycles", " 1_0 "); ("--short", "")]; c_pos := ["proj.py"; "a"] |}
      ex_cfg "2026-09-27"
      ["pdb"; "short"; "debug"; "status_cache"; "execute_wait_cycle_time"; "execute_nr_wait_cycles";
       "execute_keep_going"; "jugdir"; "nosuch"]
  = OOk [Some (VBool true); Some (VBool true); Some (VBool false); Some (VBool false); Some (VInt 23);
         Some (VInt 10); Some (VBool true); Some (VStr "2026-09-27/proj.store"); None]
        ["proj.py"; "a"]
  /\ forallb (fun sub => match store_location table (ex_cmd sub) ex_cfg "2026-09-27" with
                         | Some (d, BFile p) => (String.eqb d "2026-09-27/proj.store" && String.eqb p d)%bool
                         | _ => false end) (t_subcommands table) = true
  /\ Nat.leb 2 (List.length (t_subcommands table)) = true.
Proof. vm_compute. repeat split; reflexivity. Qed.
