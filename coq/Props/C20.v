(* C20 - every command resolves options and the store location the same way.
   Statements only; every proof is [exact <lemma>].
   [table] is Gen/OptionTable.v, regenerated from /repo's source on every run: the obligations
   about it (Proofs/OptionsGen.v) change when the source does. *)
From Coq Require Import List ZArith Bool String.
From JugV Require Import Model.Options Gen.OptionTable Proofs.OptionsFacts Proofs.OptionsGen.
Import ListNotations.
Local Open Scope string_scope.

(* General, for EVERY option table T, every command line c, every configuration file cfg
   (i.e. every assignment of the three layers) and every option name k: if explicit values are
   never None, booleans of the configuration file go through the tested helper ([table_ok]) and
   the arguments stored under k leave None in the namespace when absent, then what the code
   computes (chained lookup: non-None namespace entries, then the coerced configuration file, then
   defaults, then subcommand defaults) is
        command line ?? coerce(default, configuration file) ?? default. *)
Theorem C20_resolution_general : forall (T : option_table) (c : cmdline) (cfg : config)
    (ns ini : layer) (k : string),
  table_ok T = true ->
  namespace T c = Some ns ->
  read_config T cfg [] = Some ini ->
  absent_none_for T (c_sub c) k = true ->
  impl_resolve T ns ini k = spec_resolve T c cfg k.
Proof. exact resolve_correct. Qed.
Print Assumptions C20_resolution_general.

(* ... and the configuration file is rejected exactly when some value cannot be converted *)
Theorem C20_config_rejected_iff : forall (T : option_table) (cfg : config),
  table_ok T = true ->
  (read_config T cfg [] = None <-> cfg_unconvertible T cfg = true).
Proof. exact read_config_fails_iff. Qed.
Print Assumptions C20_config_rejected_iff.

(* The side conditions hold for the table of the current source (finite domain: the generated
   list of add_argument entries; decided by vm_compute). *)
Theorem C20_generated_table_side_conditions :
  table_ok table = true /\ absent_none_except "user_args" table = true /\ positional_shape_all table = true.
Proof. exact (conj gen_table_ok (conj gen_absent_none gen_positional_shape)). Qed.
Print Assumptions C20_generated_table_side_conditions.

(* Hence, for the current source: every option of every subcommand, every layer assignment.
   ("user_args" is the positional remainder, not an option: its absent value is [].) *)
Theorem C20_resolution : forall (c : cmdline) (cfg : config) (ns ini : layer) (k : string),
  k <> "user_args" ->
  namespace table c = Some ns ->
  read_config table cfg [] = Some ini ->
  impl_resolve table ns ini k = spec_resolve table c cfg k.
Proof. exact gen_resolve_correct. Qed.
Print Assumptions C20_resolution.

(* The whole of options.parse for the current source: errors, every attribute, the expanded jugdir
   (template % {jugfile stem, date} - a function of the resolved template, the resolved jugfile and
   the date only) and sys.argv = resolved jugfile :: the extra positional words. *)
Theorem C20_parse_is_spec : forall (c : cmdline) (cfg : config) (date : string) (keys : list string),
  ~ In "user_args" keys ->
  run table c cfg date keys = spec_run table c cfg date keys.
Proof. exact gen_run_is_spec. Qed.
Print Assumptions C20_parse_is_spec.

Theorem C20_jugfile_is_first_positional : forall (c : cmdline),
  explicit table c <> None -> cmd_given table c "jugfile" = option_map VStr (hd_error (c_pos c)).
Proof. exact gen_jugfile_given. Qed.
Print Assumptions C20_jugfile_is_first_positional.

(* Store location: two commands (any subcommands, any other options, any extra arguments) that name
   the same --jugdir and the same jugfile - or neither - address the same store, whatever the
   configuration file says. *)
Theorem C20_store_location_independent_of_subcommand : forall (c1 c2 : cmdline) (cfg : config) (date : string),
  explicit table c1 <> None -> explicit table c2 <> None ->
  cmd_given table c1 "jugdir" = cmd_given table c2 "jugdir" ->
  cmd_given table c1 "jugfile" = cmd_given table c2 "jugfile" ->
  store_location table c1 cfg date = store_location table c2 cfg date.
Proof. exact gen_store_location. Qed.
Print Assumptions C20_store_location_independent_of_subcommand.

Theorem C20_default_template : forall stem date : string,
  expand "%(jugfile)s.jugdata" stem date = FmtOk (stem ++ ".jugdata").
Proof. exact expand_default_template. Qed.
Print Assumptions C20_default_template.

(* non-vacuity: a command line, a configuration file and defaults that all speak; every layer wins
   somewhere; 'off' is false; every subcommand of the generated table accepts the same --jugdir /
   jugfile and lands on the same store *)
Definition ex_cfg : config :=
  [("main", "pdb", "on"); ("main", "jugdir", "%(date)s/%(jugfile)s.store"); ("status", "cache", "off");
   ("execute", "wait-cycle-time", "23"); ("execute", "keep-going", "yes")].
Definition ex_cmd (sub : string) : cmdline :=
  {| c_sub := sub;
     c_opts := map (fun e => (hd "" (a_flags e), "x"))
                   (filter (fun e => (a_required e && negb (is_positional e))%bool) (applicable table sub));
     c_pos := ["proj.py"; "extra"; "--more"] |}.

Example C20_nonvacuous :
  run table {| c_sub := "execute"; c_opts := [("--nr-wait-cycles", " 1_0 "); ("--short", "")]; c_pos := ["proj.py"; "a"] |}
      ex_cfg "2026-09-27"
      ["pdb"; "short"; "debug"; "status_cache"; "execute_wait_cycle_time"; "execute_nr_wait_cycles";
       "execute_keep_going"; "jugdir"; "nosuch"]
  = OOk [Some (VBool true); Some (VBool true); Some (VBool false); Some (VBool false); Some (VInt 23);
         Some (VInt 10); Some (VBool true); Some (VStr "2026-09-27/proj.store"); None]
        ["proj.py"; "a"]
  /\ forallb (fun sub => match store_location table (ex_cmd sub) ex_cfg "2026-09-27" with
                         | Some (d, BFile p) => (String.eqb d "2026-09-27/proj.store" && String.eqb p d)%bool
                         | _ => false end) (t_subcommands table) = true
  /\ Nat.leb 2 (List.length (t_subcommands table)) = true.
Proof. vm_compute. repeat split; reflexivity. Qed.

(* ------------------------------------------------------------------ which file is "the configuration file"
   options.parse(args) as the [jug] command calls it (no explicit options file): the configuration is
   DISCOVERED - the first existing one of the candidate paths of the source ([rc_candidates],
   generated), only that one. *)

(* General (every option table, every command line, every list of candidates): once a candidate
   exists, NOTHING that comes after it - whether further candidates exist, what they contain - has any
   influence on the outcome: no option value, no error, not sys.argv. *)
Theorem C20_lower_priority_rc_file_never_matters : forall (T : option_table) (c : cmdline)
    (higher : list candidate) (x : candidate) (lower lower' : list candidate) (date : string) (keys : list string),
  (forall y, In y higher -> y = CAbsent) -> x <> CAbsent ->
  run_discovered T c (higher ++ x :: lower)%list date keys = run_discovered T c (higher ++ x :: lower')%list date keys.
Proof. exact run_discovered_ignores_lower. Qed.
Print Assumptions C20_lower_priority_rc_file_never_matters.

(* ... the outcome is that of parsing with exactly the first existing file; with no candidate at all,
   that of an empty configuration *)
Theorem C20_discovered_file_is_first_existing : forall (T : option_table) (c : cmdline)
    (higher : list candidate) (cfg : config) (lower : list candidate) (date : string) (keys : list string),
  (forall y, In y higher -> y = CAbsent) ->
  run_discovered T c (higher ++ CFile cfg :: lower)%list date keys = run T c cfg date keys.
Proof. exact run_discovered_first_file. Qed.
Print Assumptions C20_discovered_file_is_first_existing.

Theorem C20_no_rc_file_is_empty_configuration : forall (T : option_table) (c : cmdline)
    (cands : list candidate) (date : string) (keys : list string),
  (forall y, In y cands -> y = CAbsent) -> run_discovered T c cands date keys = run T c [] date keys.
Proof. exact run_discovered_nothing. Qed.
Print Assumptions C20_no_rc_file_is_empty_configuration.

(* The candidate paths of the current source are the documented ones in the documented order. *)
Theorem C20_generated_rc_candidates :
  rc_candidates = ["~/.config/jug/jugrc"; "~/.config/jugrc"; "~/.jug/configrc"].
Proof. exact gen_rc_candidates. Qed.
Print Assumptions C20_generated_rc_candidates.

(* For the current source, in terms of home directories: two homes that agree on the candidate paths
   up to and including the first one that exists give every command the same outcome, whatever lies
   at the lower-priority paths (a stale ~/.jug/configrc next to ~/.config/jug/jugrc is never read). *)
Theorem C20_lower_priority_rc_file_ignored : forall (c : cmdline) (higher : list string) (p : string)
    (lower : list string) (h h' : home) (date : string) (keys : list string),
  rc_candidates = (higher ++ p :: lower)%list ->
  (forall q, In q higher -> home_at h q = CAbsent) ->
  home_at h p <> CAbsent ->
  (forall q, In q (higher ++ [p])%list -> home_at h' q = home_at h q) ->
  run_home table c rc_candidates h date keys = run_home table c rc_candidates h' date keys.
Proof. exact gen_lower_rc_file_ignored. Qed.
Print Assumptions C20_lower_priority_rc_file_ignored.

(* ... and the whole of options.parse(args) in a home directory is the specification (command line ??
   coerce(default, configuration file) ?? default, jugdir template, sys.argv) applied to the contents of
   the first existing candidate. *)
Theorem C20_parse_in_home_is_spec : forall (c : cmdline) (h : home) (date : string) (keys : list string),
  ~ In "user_args" keys ->
  run_home table c rc_candidates h date keys
  = spec_run table c (discovered_config (candidates_in spec_rc_candidates h)) date keys.
Proof. exact gen_run_home_is_spec. Qed.
Print Assumptions C20_parse_in_home_is_spec.

(* non-vacuity: a current rc file and a stale legacy one with overlapping and disjoint settings: only
   the current one speaks (its jugdir and nr-wait-cycles; will_cite / keep-going / jugfile of the stale
   file are NOT applied; its unconvertible value does not matter); alone, the legacy file is read; an
   unopenable first candidate means no configuration; the command line still wins *)
Definition ex_current : config := [("main", "jugdir", "current.%(jugfile)s.store"); ("execute", "nr-wait-cycles", "5")].
Definition ex_stale : config :=
  [("main", "jugdir", "old_store"); ("main", "jugfile", "old.py"); ("main", "will-cite", "true");
   ("execute", "nr-wait-cycles", "99"); ("execute", "keep-going", "true"); ("execute", "wait-cycle-time", "abc")].
Definition ex_keys : list string := ["jugdir"; "jugfile"; "will_cite"; "execute_nr_wait_cycles"; "execute_keep_going"].
Definition ex_exec (opts : list (string * string)) : cmdline := {| c_sub := "execute"; c_opts := opts; c_pos := [] |}.

Example C20_discovery_nonvacuous :
  run_home table (ex_exec []) rc_candidates
           [("~/.jug/configrc", CFile ex_stale); ("~/.config/jug/jugrc", CFile ex_current)] "2026-09-27" ex_keys
  = OOk [Some (VStr "current.jugfile.store"); Some (VStr "jugfile.py"); Some (VBool false); Some (VInt 5); Some (VBool false)]
        ["jugfile.py"]
  /\ run_home table (ex_exec []) rc_candidates
           [("~/.jug/configrc", CFile [("main", "jugdir", "old_store"); ("main", "will-cite", "true")])] "2026-09-27" ex_keys
  = OOk [Some (VStr "old_store"); Some (VStr "jugfile.py"); Some (VBool true); Some (VInt 150); Some (VBool false)]
        ["jugfile.py"]
  /\ run_home table (ex_exec []) rc_candidates [("~/.jug/configrc", CFile ex_stale)] "2026-09-27" ex_keys = OCoerceError
  /\ run_home table (ex_exec []) rc_candidates
           [("~/.config/jugrc", CUnreadable); ("~/.jug/configrc", CFile ex_stale)] "2026-09-27" ex_keys
  = OOk [Some (VStr "jugfile.jugdata"); Some (VStr "jugfile.py"); Some (VBool false); Some (VInt 150); Some (VBool false)]
        ["jugfile.py"]
  /\ run_home table (ex_exec [("--jugdir", "cli"); ("--nr-wait-cycles", "0")]) rc_candidates
           [("~/.jug/configrc", CFile ex_stale); ("~/.config/jug/jugrc", CFile ex_current)] "2026-09-27" ex_keys
  = OOk [Some (VStr "cli"); Some (VStr "jugfile.py"); Some (VBool false); Some (VInt 0); Some (VBool false)]
        ["jugfile.py"].
Proof. vm_compute. repeat split; reflexivity. Qed.
