(* C10 - `jug cleanup` deletes exactly the unneeded results; the lock-only variants touch only locks.
   Statements only; every proof is [exact <lemma>].

   [cleanup_cmd B m active st] is CleanupCommand.run on backend B (file store with or without a
   pack / dict store / redis store) in mode m, where [active] are the hashes of the tasks the
   loaded jugfile defines and [st] is ANY store content: results of active tasks, results of
   other or older jugfiles, packed and unpacked (or both), held and failed locks on any key,
   stray temporary files, unrelated keys.  Nothing is assumed about [st] or [active]. *)
From Coq Require Import List PArith Bool.
From JugV Require Import Model.Cleanup Proofs.CleanupFacts.
Import ListNotations.

(* in every mode and on every backend, the stored result of a task the jugfile defines stays *)
Theorem C10_needed_results_survive : forall (m : mode) (active : list key) (k : key),
  In k active ->
  (forall st, In k (file_results st) -> In k (file_results (cleanup_cmd file_backend m active st))) /\
  (forall st, In k (kv_results st) -> In k (kv_results (cleanup_cmd dict_backend m active st))) /\
  (forall st, In k (kv_results st) -> In k (kv_results (cleanup_cmd redis_backend m active st))).
Proof. exact needed_results_survive. Qed.
Print Assumptions C10_needed_results_survive.

(* default and --keep-locks: no result the jugfile does not define is left, on any backend *)
Theorem C10_unneeded_results_go : forall (active : list key) (k : key), ~ In k active ->
  forall keep : bool,
  let m := if keep then KeepLocks else Default in
  (forall st, ~ In k (file_results (cleanup_cmd file_backend m active st))) /\
  (forall st, ~ In k (kv_results (cleanup_cmd dict_backend m active st))) /\
  (forall st, ~ In k (kv_results (cleanup_cmd redis_backend m active st))).
Proof. exact unneeded_results_go. Qed.
Print Assumptions C10_unneeded_results_go.

(* ---------------------------------------------------------------- file store (packed or not) *)
(* default: results' = results /\ active (file_results = keys in the pack ++ result files);
   no lock is left.  (The model also says that stray temp files are deleted in this mode and the
   next; that is not part of C10 and is neither stated nor compared by the tie.) *)
Theorem C10_file_default : forall (active : list key) (st : fstore),
  let st' := cleanup_cmd file_backend Default active st in
  (forall k, In k (file_results st') <-> In k (file_results st) /\ In k active) /\
  fs_locks st' = [] /\ file_locks st' = [].
Proof. exact file_default. Qed.
Print Assumptions C10_file_default.

(* --keep-locks: same results as default; every lock file, held or failed, is untouched *)
Theorem C10_file_keep_locks : forall (active : list key) (st : fstore),
  let st' := cleanup_cmd file_backend KeepLocks active st in
  (forall k, In k (file_results st') <-> In k (file_results st) /\ In k active) /\
  fs_locks st' = fs_locks st.
Proof. exact file_keep_locks. Qed.
Print Assumptions C10_file_keep_locks.

(* --locks-only: all locks go; result files, the pack file and temp files are untouched *)
Theorem C10_file_locks_only : forall (active : list key) (st : fstore),
  let st' := cleanup_cmd file_backend LocksOnly active st in
  fs_files st' = fs_files st /\ fs_pack st' = fs_pack st /\ fs_temps st' = fs_temps st /\
  fs_locks st' = [] /\ file_locks st' = [].
Proof. exact file_locks_only. Qed.
Print Assumptions C10_file_locks_only.

(* --failed-only: exactly the locks marked failed go, the others keep their state;
   result files, the pack file and temp files are untouched *)
Theorem C10_file_failed_only : forall (active : list key) (st : fstore),
  let st' := cleanup_cmd file_backend FailedOnly active st in
  fs_files st' = fs_files st /\ fs_pack st' = fs_pack st /\ fs_temps st' = fs_temps st /\
  (forall k f, In (k, f) (fs_locks st') <-> In (k, f) (fs_locks st) /\ file_failed st k = false) /\
  (forall k, In k (file_locks st') <-> In k (file_locks st) /\ file_failed st k = false) /\
  (forall k, file_failed st' k = false).
Proof. exact file_failed_only. Qed.
Print Assumptions C10_file_failed_only.

(* ---------------------------------------------------------------- dict store *)
Theorem C10_dict_default : forall (active : list key) (st : kvstore),
  let st' := cleanup_cmd dict_backend Default active st in
  (forall k, In k (kv_results st') <-> In k (kv_results st) /\ In k active) /\
  lock_entries kvlk st' = [] /\ kv_locks st' = [].
Proof. exact dict_default. Qed.
Print Assumptions C10_dict_default.

Theorem C10_dict_keep_locks : forall (active : list key) (st : kvstore),
  let st' := cleanup_cmd dict_backend KeepLocks active st in
  (forall k, In k (kv_results st') <-> In k (kv_results st) /\ In k active) /\
  lock_entries kvlk st' = lock_entries kvlk st.
Proof. exact dict_keep_locks. Qed.
Print Assumptions C10_dict_keep_locks.

(* ---------------------------------------------------------------- redis store *)
Theorem C10_redis_default : forall (active : list key) (st : kvstore),
  let st' := cleanup_cmd redis_backend Default active st in
  (forall k, In k (kv_results st') <-> In k (kv_results st) /\ In k active) /\
  lock_entries kvlk st' = [] /\ kv_locks st' = [].
Proof. exact redis_default. Qed.
Print Assumptions C10_redis_default.

Theorem C10_redis_keep_locks : forall (active : list key) (st : kvstore),
  let st' := cleanup_cmd redis_backend KeepLocks active st in
  (forall k, In k (kv_results st') <-> In k (kv_results st) /\ In k active) /\
  lock_entries kvlk st' = lock_entries kvlk st.
Proof. exact redis_keep_locks. Qed.
Print Assumptions C10_redis_keep_locks.

(* ---------------------------------------------------------------- dict and redis, lock-only modes
   (the command does not call store.cleanup there, so the two backends behave identically) *)
Theorem C10_kv_locks_only : forall (active : list key) (st : kvstore),
  (cleanup_cmd dict_backend LocksOnly active st = cleanup_cmd redis_backend LocksOnly active st) /\
  let st' := cleanup_cmd dict_backend LocksOnly active st in
  kv_results st' = kv_results st /\ kv_others st' = kv_others st /\
  lock_entries kvlk st' = [] /\ kv_locks st' = [].
Proof. exact kv_locks_only. Qed.
Print Assumptions C10_kv_locks_only.

Theorem C10_kv_failed_only : forall (active : list key) (st : kvstore),
  (cleanup_cmd dict_backend FailedOnly active st = cleanup_cmd redis_backend FailedOnly active st) /\
  let st' := cleanup_cmd dict_backend FailedOnly active st in
  kv_results st' = kv_results st /\ kv_others st' = kv_others st /\
  (forall k f, In (k, f) (lock_entries kvlk st') <-> In (k, f) (lock_entries kvlk st) /\ kv_failed st k = false) /\
  (forall k, In k (kv_locks st') <-> In k (kv_locks st) /\ kv_failed st k = false) /\
  (forall k, kv_failed st' k = false).
Proof. exact kv_failed_only. Qed.
Print Assumptions C10_kv_failed_only.

(* non-vacuity: a packed file store holding an active result only inside the pack (1), an active
   unpacked one (2), an active one stored both ways (3), foreign results packed (7) and
   unpacked (8), a held lock on an active key (2), a failed lock on a foreign key (8), a failed
   lock on a key without result (9), two stray temp files - and what each mode leaves *)
Example C10_nonvacuous :
  let st := mk_fstore [2; 3; 8]%positive (Some [1; 3; 7]%positive)
                      [(2, false); (8, true); (9, true)]%positive 2 in
  let active := [1; 2; 3; 4]%positive in
  cleanup_cmd file_backend Default active st = mk_fstore [2; 3]%positive (Some [1; 3]%positive) [] 0 /\
  cleanup_cmd file_backend KeepLocks active st =
    mk_fstore [2; 3]%positive (Some [1; 3]%positive) [(2, false); (8, true); (9, true)]%positive 0 /\
  cleanup_cmd file_backend LocksOnly active st = mk_fstore [2; 3; 8]%positive (Some [1; 3; 7]%positive) [] 2 /\
  cleanup_cmd file_backend FailedOnly active st =
    mk_fstore [2; 3; 8]%positive (Some [1; 3; 7]%positive) [(2, false)]%positive 2 /\
  (let kst := [KRes 1; KRes 7; KLock 2 false; KLock 7 true; KOther 5]%positive in
   cleanup_cmd dict_backend Default active kst = [KRes 1]%positive /\
   cleanup_cmd dict_backend KeepLocks active kst = [KRes 1; KLock 2 false; KLock 7 true]%positive /\
   cleanup_cmd redis_backend Default active kst = [KRes 1; KOther 5]%positive /\
   cleanup_cmd redis_backend KeepLocks active kst = [KRes 1; KLock 2 false; KLock 7 true; KOther 5]%positive /\
   cleanup_cmd redis_backend LocksOnly active kst = [KRes 1; KRes 7; KOther 5]%positive /\
   cleanup_cmd dict_backend FailedOnly active kst = [KRes 1; KRes 7; KLock 2 false; KOther 5]%positive).
Proof. vm_compute. repeat split; reflexivity. Qed.
