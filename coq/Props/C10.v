(* C10 - `jug cleanup` deletes exactly the unneeded results; the lock-only variants touch only locks.
   Statements only; every proof is [exact <lemma>].

   [cleanup_cmd B m active st] is CleanupCommand.run on backend B (file store with or without a
   pack / dict store / redis store) in mode m, where [active] are the hashes of the tasks the
   loaded jugfile defines and [st] is ANY store content: results of active tasks, results of
   other or older jugfiles, packed and unpacked (or both), held and failed locks on any key,
   stray temporary files, unrelated keys.  Nothing is assumed about [st] or [active]. *)
From Coq Require Import List PArith Bool.
From JugV Require Import Model.Cleanup Proofs.CleanupFacts.
Import ListNotations.

(* in every mode and on every backend, the stored result of a task the jugfile defines stays *)
Theorem C10_needed_results_survive : forall (m : mode) (active : list key) (k : key),
  In k active ->
  (forall st, In k (file_results st) -> In k (file_results (cleanup_cmd file_backend m active st))) /\
  (forall st, In k (kv_results st) -> In k (kv_results (cleanup_cmd dict_backend m active st))) /\
  (forall st, In k (kv_results st) -> In k (kv_results (cleanup_cmd redis_backend m active st))).
Proof. exact needed_results_survive. Qed.
Print Assumptions C10_needed_results_survive.

(* default and --keep-locks: no result the jugfile does not define is left, on any backend *)
Theorem C10_unneeded_results_go : forall (active : list key) (k : key), ~ In k active ->
  forall keep : bool,
  let m := if keep then KeepLocks else Default in
  (forall st, ~ In k (file_results (cleanup_cmd file_backend m active st))) /\
  (forall st, ~ In k (kv_results (cleanup_cmd dict_backend m active st))) /\
  (forall st, ~ In k (kv_results (cleanup_cmd redis_backend m active st))).
Proof. exact unneeded_results_go. Qed.
Print Assumptions C10_unneeded_results_go.

(* ---------------------------------------------------------------- file store (packed or not) *)
(* default: results' = results /\ active (file_results = keys in the pack ++ result files);
   no lock is left.  (The model also says that stray temp files are deleted in this mode and the
   next; that is not part of C10 and is neither stated nor compared by the tie.) *)
Theorem C10_file_default : forall (active : list key) (st : fstore),
  let st' := cleanup_cmd file_backend Default active st in
  (forall k, In k (file_results st') <-> In k (file_results st) /\ In k active) /\
  fs_locks st' = [] /\ file_locks st' = [].
Proof. exact file_default. Qed.
Print Assumptions C10_file_default.

(* --keep-locks: same results as default; every lock file, held or failed, is untouched *)
Theorem C10_file_keep_locks : forall (active : list key) (st : fstore),
  let st' := cleanup_cmd file_backend KeepLocks active st in
  (forall k, In k (file_results st') <-> In k (file_results st) /\ In k active) /\
  fs_locks st' = fs_locks st.
Proof. exact file_keep_locks. Qed.
Print Assumptions C10_file_keep_locks.

(* --locks-only: all locks go; result files, the pack file and temp files are untouched *)
Theorem C10_file_locks_only : forall (active : list key) (st : fstore),
  let st' := cleanup_cmd file_backend LocksOnly active st in
  fs_files st' = fs_files st /\ fs_pack st' = fs_pack st /\ fs_temps st' = fs_temps st /\
  fs_locks st' = [] /\ file_locks st' = [].
Proof. exact file_locks_only. Qed.
Print Assumptions C10_file_locks_only.

(* --failed-only: exactly the locks marked failed go, the others keep their state;
   result files, the pack file and temp files are untouched *)
Theorem C10_file_failed_only : forall (active : list key) (st : fstore),
  let st' := cleanup_cmd file_backend FailedOnly active st in
  fs_files st' = fs_files st /\ fs_pack st' = fs_pack st /\ fs_temps st' = fs_temps st /\
  (forall k f, In (k, f) (fs_locks st') <-> In (k, f) (fs_locks st) /\ file_failed st k = false) /\
  (forall k, In k (file_locks st') <-> In k (file_locks st) /\ file_failed st k = false) /\
  (forall k, file_failed st' k = false).
Proof. exact file_failed_only. Qed.
Print Assumptions C10_file_failed_only.

(* ---------------------------------------------------------------- dict store *)
Theorem C10_dict_default : forall (active : list key) (st : kvstore),
  let st' := cleanup_cmd dict_backend Default active st in
  (forall k, In k (kv_results st') <-> In k (kv_results st) /\ In k active) /\
  lock_entries kvlk st' = [] /\ kv_locks st' = [].
Proof. exact dict_default. Qed.
Print Assumptions C10_dict_default.

Theorem C10_dict_keep_locks : forall (active : list key) (st : kvstore),
  let st' := cleanup_cmd dict_backend KeepLocks active st in
  (forall k, In k (kv_results st') <-> In k (kv_results st) /\ In k active) /\
  lock_entries kvlk st' = lock_entries kvlk st.
Proof. exact dict_keep_locks. Qed.
Print Assumptions C10_dict_keep_locks.

(* ---------------------------------------------------------------- redis store *)
Theorem C10_redis_default : forall (active : list key) (st : kvstore),
  let st' := cleanup_cmd redis_backend Default active st in
  (forall k, In k (kv_results st') <-> In k (kv_results st) /\ In k active) /\
  lock_entries kvlk st' = [] /\ kv_locks st' = [].
Proof. exact redis_default. Qed.
Print Assumptions C10_redis_default.

Theorem C10_redis_keep_locks : forall (active : list key) (st : kvstore),
  let st' := cleanup_cmd redis_backend KeepLocks active st in
  (forall k, In k (kv_results st') <-> In k (kv_results st) /\ In k active) /\
  lock_entries kvlk st' = lock_entries kvlk st.
Proof. exact redis_keep_locks. Qed.
Print Assumptions C10_redis_keep_locks.

(* ---------------------------------------------------------------- dict and redis, lock-only modes
   (the command does not call store.cleanup there, so the two backends behave identically) *)
Theorem C10_kv_locks_only : forall (active : list key) (st : kvstore),
  (cleanup_cmd dict_backend LocksOnly active st = cleanup_cmd redis_backend LocksOnly active st) /\
  let st' := cleanup_cmd dict_backend LocksOnly active st in
  kv_results st' = kv_results st /\ kv_others st' = kv_others st /\
  lock_entries kvlk st' = [] /\ kv_locks st' = [].
Proof. exact kv_locks_only. Qed.
Print Assumptions C10_kv_locks_only.

Theorem C10_kv_failed_only : forall (active : list key) (st : kvstore),
  (cleanup_cmd dict_backend FailedOnly active st = cleanup_cmd redis_backend FailedOnly active st) /\
  let st' := cleanup_cmd dict_backend FailedOnly active st in
  kv_results st' = kv_results st /\ kv_others st' = kv_others st /\
  (forall k f, In (k, f) (lock_entries kvlk st') <-> In (k, f) (lock_entries kvlk st) /\ kv_failed st k = false) /\
  (forall k, In k (kv_locks st') <-> In k (kv_locks st) /\ kv_failed st k = false) /\
  (forall k, kv_failed st' k = false).
Proof. exact kv_failed_only. Qed.
Print Assumptions C10_kv_failed_only.

(* non-vacuity: a packed file store holding an active result only inside the pack (1), an active
   unpacked one (2), an active one stored both ways (3), foreign results packed (7) and
   unpacked (8), a held lock on an active key (2), a failed lock on a foreign key (8), a failed
   lock on a key without result (9), two stray temp files - and what each mode leaves *)
Example C10_nonvacuous :
  let st := mk_fstore [2; 3; 8]%positive (Some [1; 3; 7]%positive)
                      [(2, false); (8, true); (9, true)]%positive 2 in
  let active := [1; 2; 3; 4]%positive in
  cleanup_cmd file_backend Default active st = mk_fstore [2; 3]%positive (Some [1; 3]%positive) [] 0 /\
  cleanup_cmd file_backend KeepLocks active st =
    mk_fstore [2; 3]%positive (Some [1; 3]%positive) [(2, false); (8, true); (9, true)]%positive 0 /\
  cleanup_cmd file_backend LocksOnly active st = mk_fstore [2; 3; 8]%positive (Some [1; 3; 7]%positive) [] 2 /\
  cleanup_cmd file_backend FailedOnly active st =
    mk_fstore [2; 3; 8]%positive (Some [1; 3; 7]%positive) [(2, false)]%positive 2 /\
  (let kst := [KRes 1; KRes 7; KLock 2 false; KLock 7 true; KOther 5]%positive in
   cleanup_cmd dict_backend Default active kst = [KRes 1]%positive /\
   cleanup_cmd dict_backend KeepLocks active kst = [KRes 1; KLock 2 false; KLock 7 true]%positive /\
   cleanup_cmd redis_backend Default active kst = [KRes 1; KOther 5]%positive /\
   cleanup_cmd redis_backend KeepLocks active kst = [KRes 1; KLock 2 false; KLock 7 true; KOther 5]%positive /\
   cleanup_cmd redis_backend LocksOnly active kst = [KRes 1; KRes 7; KOther 5]%positive /\
   cleanup_cmd dict_backend FailedOnly active kst = [KRes 1; KRes 7; KLock 2 false; KOther 5]%positive).
Proof. vm_compute. repeat split; reflexivity. Qed.

(* ---- the operator commands of the execution protocol ARE `jug cleanup` ------------------------------------------
   Model/Exec.v (C01-C03, C11-C13) has two events that edit lock state wholesale: [ERemoveLocks] (recovery after a
   crash) and [EReleaseFailed] (retry after --keep-failed).  Whenever a store of any backend REPRESENTS a protocol
   state (same results, same locked names, same failed names), `cleanup --locks-only` / `--failed-only` on it yields
   a store representing the state after the event; and any cleanup mode, given the tasks of the jugfile, leaves
   exactly the results the protocol state has. *)
From JugV Require Import Model.MapReduce Model.Slice Model.Deps Model.Exec Model.ExecCase Model.ExecExample
  Proofs.ExecFacts Proofs.ExecCleanupFacts.

Theorem C10_locks_only_is_the_protocols_lock_removal : forall (V : Type) (C : cfg V) (s s' : st V) active,
  step0 C s ERemoveLocks = Some s' ->
  (forall x, represents file_backend s x -> represents file_backend s' (cleanup_cmd file_backend LocksOnly active x)) /\
  (forall x, represents dict_backend s x -> represents dict_backend s' (cleanup_cmd dict_backend LocksOnly active x)) /\
  (forall x, represents redis_backend s x -> represents redis_backend s' (cleanup_cmd redis_backend LocksOnly active x)).
Proof. exact (@locks_only_is_remove_locks). Qed.
Print Assumptions C10_locks_only_is_the_protocols_lock_removal.

Theorem C10_failed_only_is_the_protocols_release : forall (V : Type) (C : cfg V) (s s' : st V) active,
  step0 C s EReleaseFailed = Some s' ->
  (forall x, represents file_backend s x -> represents file_backend s' (cleanup_cmd file_backend FailedOnly active x)) /\
  (forall x, represents dict_backend s x -> represents dict_backend s' (cleanup_cmd dict_backend FailedOnly active x)) /\
  (forall x, represents redis_backend s x -> represents redis_backend s' (cleanup_cmd redis_backend FailedOnly active x)).
Proof. exact (@failed_only_is_release_failed). Qed.
Print Assumptions C10_failed_only_is_the_protocols_release.

Theorem C10_cleanup_keeps_what_workers_stored : forall (V : Type) (s : st V) (m : mode) active,
  (forall k, results s k <> None -> In k active) ->
  (forall x, represents file_backend s x -> forall k, In k (b_results file_backend (cleanup_cmd file_backend m active x)) <-> results s k <> None) /\
  (forall x, represents dict_backend s x -> forall k, In k (b_results dict_backend (cleanup_cmd dict_backend m active x)) <-> results s k <> None) /\
  (forall x, represents redis_backend s x -> forall k, In k (b_results redis_backend (cleanup_cmd redis_backend m active x)) <-> results s k <> None).
Proof. exact (@cleanup_keeps_what_the_protocol_stored). Qed.
Print Assumptions C10_cleanup_keeps_what_workers_stored.

(* non-vacuity: the crash example of Model/ExecExample.v (worker 0 killed inside f1, holding its lock): the dict
   store [lock:1 ; some other key] represents the state; [ERemoveLocks] is enabled (the holder is dead);
   `cleanup --locks-only` leaves [the other key], which represents the state after the event *)
Example C10_protocol_nonvacuous : exists s s',
  run (prog_cfg ex_prog) (init (Deps.st_of [])) ex_trace_crash = Some s /\
  represents dict_backend s [KLock 1%positive false; KOther 7%positive] /\
  step0 (prog_cfg ex_prog) s ERemoveLocks = Some s' /\
  cleanup_cmd dict_backend LocksOnly [1; 2; 3]%positive [KLock 1%positive false; KOther 7%positive] = [KOther 7%positive] /\
  represents dict_backend s' [KOther 7%positive].
Proof.
  eexists. eexists. split; [vm_compute; reflexivity|].
  split; [|split; [vm_compute; reflexivity|split; [vm_compute; reflexivity|]]].
  - unfold represents; simpl; split; [|split]; intros k; destruct k; simpl; intuition (try congruence; try discriminate).
  - unfold represents; simpl; split; [|split]; intros k; intuition (try congruence; try discriminate).
Qed.
