(* C08 - different task invocations never share an identifier.
   The full statement is FALSE of the faithful model (and of the code): C08_refuted (known finding
   D1: hash_update writes no length/terminator after a container marker).  Proved around it:
   - [dstream] (= [stream] plus one length chunk after every container marker) is an injective
     prefix code on the task-invocation universe [wfb] (no CustomHash/NoHash; a pickle is never a
     container-marker byte string; the ndarray branch taken agrees with the dtype; objects hashed
     through __jug_hash__ feed an optional non-label marker and then labelled fields);
   - the real [stream] is exactly that code with the length chunks erased;
   - hence real identifiers can collide ONLY by disagreeing on container extents ([lens]);
   - the same at the level of digests under A1 (the hash is injective) and A2 (the byte rendering
     of a chunk sequence is uniquely decodable), both explicit premises.
   [pv_equiv] = equal up to the memory layout of arrays (which the hash ignores by design, C07). *)
From Coq Require Import List PArith Bool Permutation Sorted.
From JugV Require Import Model.Hash Proofs.HashFacts Proofs.HashInjFacts.
Import ListNotations.

(* f([1], 2) and f([1, 2]) feed the same chunks to the hash, for every hash function *)
Theorem C08_refuted :
  exists v v' : pv,
    stream v = stream v' /\
    (forall (D : Type) (leD : D -> D -> bool) (H : list (atom D) -> D), fl D leD H v = fl D leD H v') /\
    (forall (D : Type) (leD : D -> D -> bool) (H : list (atom D) -> D), ~ pv_perm D leD H v v') /\
    dstream v <> dstream v'.
Proof. exact collision_witness. Qed.
Print Assumptions C08_refuted.

(* the same with keyword arguments: g(a={'b':1}, c=2) vs g(a={'b':1,'c':2}) when the key digests
   sort in that order *)
Theorem C08_refuted_kwargs :
  exists v v' : pv, stream v = stream v' /\ v <> v' /\ dstream v <> dstream v'.
Proof. exact collision_witness_kwargs. Qed.
Print Assumptions C08_refuted_kwargs.

(* With a length chunk after each container marker the chunk sequence is a prefix code: equal
   codes (even followed by arbitrary further chunks) come from the same invocation. *)
Theorem C08_dstream_prefix_free :
  forall (isobj : positive -> bool) (v v' : pv) (r r' : list tok),
    wfb isobj v = true -> wfb isobj v' = true ->
    dstream v ++ r = dstream v' ++ r' -> pv_equiv v v' /\ r = r'.
Proof. exact dstream_prefix_free. Qed.
Print Assumptions C08_dstream_prefix_free.

Theorem C08_dstream_injective :
  forall (isobj : positive -> bool) (v v' : pv),
    wfb isobj v = true -> wfb isobj v' = true -> dstream v = dstream v' -> pv_equiv v v'.
Proof. exact dstream_injective. Qed.
Print Assumptions C08_dstream_injective.

(* ... and conversely equivalent invocations have the same chunks, delimited or not, and the
   same extents: on the universe, [dstream v = dstream v'] IS "the same invocation" *)
Theorem C08_equiv_same_stream :
  forall (delim : bool) (v v' : pv),
    pv_equiv v v' -> stream_elem delim v = stream_elem delim v' /\ lensd delim v = lensd delim v'.
Proof. exact pv_equiv_stream. Qed.
Print Assumptions C08_equiv_same_stream.

(* The chunk sequence the code really feeds is the delimited one with the length chunks erased
   ([erase]: one pass over the chunks, dropping the chunk after a list/tuple/set/frozenset/dict
   marker and the 4th chunk after b'np.ndarray' when the dtype has objects). *)
Theorem C08_stream_erases :
  forall (isobj : positive -> bool) (v : pv),
    wfb isobj v = true -> stream v = erase isobj (dstream v).
Proof. exact stream_erases. Qed.
Print Assumptions C08_stream_erases.

(* Identifiers can only collide by disagreeing on container extents. *)
Theorem C08_partial :
  forall (isobj : positive -> bool) (v v' : pv),
    wfb isobj v = true -> wfb isobj v' = true ->
    stream v = stream v' -> lens v = lens v' -> pv_equiv v v'.
Proof. exact stream_lens_injective. Qed.
Print Assumptions C08_partial.

(* The same for digests.  Hb stands for SHA-1 on byte strings, render for the bytes of one chunk.
   A1: Hb is injective.  A2: the concatenation of rendered chunks is uniquely decodable.
   [atoms D H ts] replaces every nested digest token by the digest H computes. *)
Theorem C08_delimited_identifier_injective :
  forall (D B : Type) (render : atom D -> list B) (Hb : list B -> D),
    (forall x y : list B, Hb x = Hb y -> x = y) ->
    (forall l l' : list (atom D), flat_map render l = flat_map render l' -> l = l') ->
  forall (isobj : positive -> bool) (v v' : pv),
    wfb isobj v = true -> wfb isobj v' = true ->
    atoms D (fun l => Hb (flat_map render l)) (dstream v) =
    atoms D (fun l => Hb (flat_map render l)) (dstream v') ->
    pv_equiv v v'.
Proof. exact dident_injective. Qed.
Print Assumptions C08_delimited_identifier_injective.

(* The identifiers the code really computes ([fl]: items.sort() of set and dict items by digest
   included), for values whose set/dict children are listed in ascending digest order - every
   Python value has such a listing, and it is how the check lists them. *)
Theorem C08_partial_identifiers :
  forall (D B : Type) (render : atom D -> list B) (Hb : list B -> D),
    (forall x y : list B, Hb x = Hb y -> x = y) ->
    (forall l l' : list (atom D), flat_map render l = flat_map render l' -> l = l') ->
  forall (isobj : positive -> bool) (leD : D -> D -> bool),
    (forall a b, leD a b = true \/ leD b a = true) ->
    (forall a b, leD a b = true -> leD b a = true -> a = b) ->
    (forall a b c, leD a b = true -> leD b c = true -> leD a c = true) ->
  forall v v' : pv,
    wfb isobj v = true -> wfb isobj v' = true ->
    hsorted D leD (fun l => Hb (flat_map render l)) v ->
    hsorted D leD (fun l => Hb (flat_map render l)) v' ->
    fl D leD (fun l => Hb (flat_map render l)) v = fl D leD (fun l => Hb (flat_map render l)) v' ->
    lens v = lens v' -> pv_equiv v v'.
Proof. exact ident_partial. Qed.
Print Assumptions C08_partial_identifiers.

(* non-vacuity: A1, A2 and the order hypotheses are jointly satisfiable (digest = the byte string
   itself, length-prefixed rendering, lexicographic order); f([1, <array>], {'a'}, <object array>,
   k={'b': f()[0]}) with two different array layouts is a pair of different values of the universe
   with equal streams and extents; and the refuting pair f([1],2) / f([1,2]) lies in the universe
   and disagrees on the extents. *)
Example C08_nonvacuous :
  (exists (D B : Type) (render : atom D -> list B) (Hb : list B -> D) (leD : D -> D -> bool),
     (forall x y, Hb x = Hb y -> x = y) /\
     (forall l l' : list (atom D), flat_map render l = flat_map render l' -> l = l') /\
     (forall a b, leD a b = true \/ leD b a = true) /\
     (forall a b, leD a b = true -> leD b a = true -> a = b) /\
     (forall a b c, leD a b = true -> leD b c = true -> leD a c = true) /\
     hsorted D leD (fun l => Hb (flat_map render l)) (exv 0) /\ hsorted D leD (fun l => Hb (flat_map render l)) (exv 1)) /\
  wfb isobj0 (exv 0) = true /\ wfb isobj0 (exv 1) = true /\ exv 0 <> exv 1 /\
  dstream (exv 0) = dstream (exv 1) /\ stream (exv 0) = stream (exv 1) /\ lens (exv 0) = lens (exv 1) /\
  lens (exv 0) = [3; 2; 1; 2; 0; 1; 1; 0; 0; 2]%nat /\
  wfb isobj0 w1 = true /\ wfb isobj0 w2 = true /\ lens w1 <> lens w2.
Proof. exact hypotheses_satisfiable. Qed.
Print Assumptions C08_nonvacuous.
