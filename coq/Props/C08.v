(* C08 - different task invocations never share an identifier.
   The full statement is FALSE of the faithful model (and of the code): C08_refuted.
   What is proved around it: see DESIGN.md (C08) - the collisions the checker tolerates as the
   recorded known finding are exactly those that a length chunk after each container marker
   ([dstream]) separates. *)
From Coq Require Import List PArith Bool Permutation.
From JugV Require Import Model.Hash Proofs.HashFacts Proofs.HashInjFacts.
Import ListNotations.

(* f([1], 2) and f([1, 2]) feed the same chunks to the hash, for every hash function *)
Theorem C08_refuted :
  exists v v' : pv,
    stream v = stream v' /\
    (forall (D : Type) (leD : D -> D -> bool) (H : list (atom D) -> D), fl D leD H v = fl D leD H v') /\
    (forall (D : Type) (leD : D -> D -> bool) (H : list (atom D) -> D), ~ pv_perm D leD H v v') /\
    dstream v <> dstream v'.
Proof. exact collision_witness. Qed.
Print Assumptions C08_refuted.

(* the same with keyword arguments: g(a={'b':1}, c=2) vs g(a={'b':1,'c':2}) when the key digests
   sort in that order *)
Theorem C08_refuted_kwargs :
  exists v v' : pv, stream v = stream v' /\ v <> v' /\ dstream v <> dstream v'.
Proof. exact collision_witness_kwargs. Qed.
Print Assumptions C08_refuted_kwargs.
