(* C04 - locks are mutually exclusive on every backend; failed locks stay failed.
   Statements only; every proof is [exact <lemma>] (Proofs/LockFacts.v), except the side conditions
   on the constants of the source, which are computed here for the generated Gen/LockConsts.v.

   Model (Model/LockPrims.v): each lock class is a PROGRAM over atomic store primitives
     file / keep-alive file lock : exists, open(O_CREAT|O_EXCL), unlink, utime, stat
     redis lock (after the SETNX fix) : SETNX, GET, SET, DEL       ([BRedisOld] = the original GETSET program)
     dict lock : one whole method (single process)
   [init hists] = any number of clients (client c runs the operation list [nth c hists []]), every
   operation on any name; a schedule [s : list cid] interleaves the clients one PRIMITIVE at a time;
   [trace_of P b hists s] is the list of primitives executed, each with its response and, when the
   operation returned after it, the operation's result [e_ret].
   [wf_run] = well-formed use of the API: release() / fail() are begun only by the client whose get()
   returned True and who has not released since, or on a lock whose fail() returned True (what
   execution_loop and cleanup --failed-only do).  [status_after tr n] is the status of lock n computed
   from those observable facts only.
   All theorems: for all constants with [params_ok], every repaired backend, all histories of all
   clients, all well-formed schedules. *)
From Coq Require Import List ZArith Bool Arith Lia.
From JugV Require Import Model.LockPrims Proofs.LockFacts.
From JugV Require Gen.LockConsts Gen.KeepaliveParams.
From JugV Require Model.Keepalive Proofs.KeepaliveFacts.
Import ListNotations.

(* ------------------------------------------------------------------------------------------
   Side conditions for the constants in the source today (regenerated on every run): with the
   markers of redis_store / dict_store, _FAILED_TIMESTAMP and the keep-alive expiry, every backend
   satisfies [params_ok] at every time now >= failed time stamp + expiry (1801 s after the epoch):
   a fresh lock does not read as failed, a failed one does, the dict markers differ from "missing". *)
Theorem C04_side_conditions_hold_for_the_source_constants : forall (now : Z) (b : backend),
  (KeepaliveParams.ka_failed_mtime + KeepaliveParams.ka_expiry <= now)%Z ->
  params_ok (LockConsts.lock_params now) b = true.
Proof.
  intros now b H.
  unfold params_ok, LockConsts.lock_params.
  destruct b; cbn [isfailedv lockedv failedv p_now p_expiry p_failed p_L p_F p_d0 p_dL p_dF];
    unfold KeepaliveParams.ka_failed_mtime, KeepaliveParams.ka_expiry in *; try reflexivity.
  - (* file: a fresh lock file (mtime now) is not at the failed time stamp *)
    assert (E : (now =? 1)%Z = false) by (apply Z.eqb_neq; lia). rewrite E. reflexivity.
  - (* keep-alive: a fresh lock file is not expired, one at the failed time stamp is *)
    assert (E1 : (now <=? now - 1800)%Z = false) by (apply Z.leb_gt; lia).
    assert (E2 : (1 <=? now - 1800)%Z = true) by (apply Z.leb_le; lia).
    rewrite E1, E2. reflexivity.
Qed.
Print Assumptions C04_side_conditions_hold_for_the_source_constants.

(* file_based_lock.is_failed compares st_mtime with _FAILED_TIMESTAMP[0] while fail() sets the mtime
   to _FAILED_TIMESTAMP[1]: the two components must agree *)
Theorem C04_failed_timestamp_components_agree :
  KeepaliveParams.ka_failed_atime = KeepaliveParams.ka_failed_mtime.
Proof. reflexivity. Qed.
Print Assumptions C04_failed_timestamp_components_agree.

(* ------------------------------------------------------------------------------------------
   T1 exclusion: once a get() of client c on n has returned True, every get() on n by ANY client
   that returns before c begins release() or fail() on n returns False. *)
Theorem C04_exclusion : forall (P : params) (b : backend) (hists : list (list (lockop * name))) (s : list cid),
  params_ok P b = true -> repaired b = true -> wf_run P b (init hists) s = true ->
  forall tr1 e1 tr2 e2 tr3 n c r,
    trace_of P b hists s = tr1 ++ e1 :: tr2 ++ e2 :: tr3 ->
    e_op e1 = OGet -> e_n e1 = n -> e_c e1 = c -> e_ret e1 = Some (OB true) ->
    (forall x, In x tr2 -> ~ (e_c x = c /\ e_n x = n /\ (e_op x = ORelease \/ e_op x = OFail))) ->
    e_op e2 = OGet -> e_n e2 = n -> e_ret e2 = Some r -> r = OB false.
Proof. exact run_exclusion. Qed.
Print Assumptions C04_exclusion.

(* T2 of the clients racing for a free lock exactly one wins: if n is free after tr1 and nobody
   begins release()/fail() on n in the rest tr2 of the run, then at most one get() on n returns True
   in tr2, and exactly one does as soon as any get() on n returns at all ... *)
Theorem C04_race_exactly_one_winner : forall (P : params) (b : backend) (hists : list (list (lockop * name))) (s : list cid),
  params_ok P b = true -> repaired b = true -> wf_run P b (init hists) s = true ->
  forall tr1 tr2 n,
    trace_of P b hists s = tr1 ++ tr2 -> status_after tr1 n = GFree ->
    (forall x, In x tr2 -> e_n x = n -> e_op x <> ORelease /\ e_op x <> OFail) ->
    length (filter (get_won n) tr2) <= 1 /\
    (existsb (get_returned n) tr2 = true -> length (filter (get_won n) tr2) = 1).
Proof. exact run_one_winner. Qed.
Print Assumptions C04_race_exactly_one_winner.

(* ... and the winner is the first get() on n to return *)
Theorem C04_first_get_on_a_free_lock_wins : forall (P : params) (b : backend) (hists : list (list (lockop * name))) (s : list cid),
  params_ok P b = true -> repaired b = true -> wf_run P b (init hists) s = true ->
  forall tr1 tr2 e tr3 n r,
    trace_of P b hists s = tr1 ++ tr2 ++ e :: tr3 -> status_after tr1 n = GFree ->
    (forall x, In x tr2 -> e_n x = n -> e_op x = OGet -> e_ret x = None) ->
    e_op e = OGet -> e_n e = n -> e_ret e = Some r -> r = OB true.
Proof. exact run_free_get_wins. Qed.
Print Assumptions C04_first_get_on_a_free_lock_wins.

(* T3 failed is sticky: after a fail() on n has returned True and until somebody begins a release()
   on n, every operation on n that returns sees it: get() False, is_locked() True, is_failed() True,
   fail() True - whatever primitives of whatever other operations are interleaved ... *)
Theorem C04_failed_is_sticky : forall (P : params) (b : backend) (hists : list (list (lockop * name))) (s : list cid),
  params_ok P b = true -> repaired b = true -> wf_run P b (init hists) s = true ->
  forall tr1 e1 tr2 e2 tr3 n r,
    trace_of P b hists s = tr1 ++ e1 :: tr2 ++ e2 :: tr3 ->
    e_op e1 = OFail -> e_n e1 = n -> e_ret e1 = Some (OB true) ->
    (forall x, In x tr2 -> ~ (e_n x = n /\ e_op x = ORelease)) ->
    e_n e2 = n -> e_ret e2 = Some r ->
    (e_op e2 = OGet -> r = OB false) /\ (e_op e2 = OIsLocked -> r = OB true) /\
    (e_op e2 = OIsFailed -> r = OB true) /\ (e_op e2 = OFail -> r = OB true).
Proof. exact run_failed_sticky. Qed.
Print Assumptions C04_failed_is_sticky.

(* ... and at EVERY primitive boundary of the run (after every prefix s1 of the schedule) the store
   holds exactly the observable status of every lock: nothing for a free lock, the locked marker
   for a held one, the failed marker for a failed one.  In particular the failed marker is never
   absent or overwritten, not even between two primitives of one operation. *)
Theorem C04_store_holds_the_status_at_every_primitive : forall (P : params) (b : backend) (hists : list (list (lockop * name))) (s : list cid),
  params_ok P b = true -> repaired b = true -> wf_run P b (init hists) s = true ->
  forall s1 s2 n, s = s1 ++ s2 ->
    sh (cfg_after P b hists s1) n = repr P b (status_after (trace_of P b hists s1) n).
Proof. exact run_store_status. Qed.
Print Assumptions C04_store_holds_the_status_at_every_primitive.

(* T4 other names: a primitive of an operation on name [e_n e] changes neither the stored value nor
   the status of any other name (and a primitive after which the operation has not yet returned
   changes nothing at all) ... *)
Theorem C04_other_names_untouched : forall (P : params) (b : backend) (hists : list (list (lockop * name))) (s : list cid),
  params_ok P b = true -> repaired b = true -> wf_run P b (init hists) s = true ->
  forall s1 c s2 e, s = s1 ++ c :: s2 ->
    let k := cfg_after P b hists s1 in
    let k' := fst (sched_step P b k c) in
    snd (sched_step P b k c) = Some e ->
    (e_ret e = None -> forall m, sh k' m = sh k m) /\
    (forall m, m <> e_n e ->
       sh k' m = sh k m /\
       status_after (trace_of P b hists s1 ++ [e]) m = status_after (trace_of P b hists s1) m).
Proof. exact run_step_frame. Qed.
Print Assumptions C04_other_names_untouched.

(* ... and the results of the operations on one name n are explained by a single atomic lock that
   starts free, fed with the sub-trace of n alone: no other name enters *)
Theorem C04_each_name_is_an_independent_lock : forall (P : params) (b : backend) (hists : list (list (lockop * name))) (s : list cid),
  params_ok P b = true -> repaired b = true -> wf_run P b (init hists) s = true ->
  forall n, spec_accepts1 GFree (filter (ev_on n) (trace_of P b hists s)) = true.
Proof. exact run_per_name. Qed.
Print Assumptions C04_each_name_is_an_independent_lock.

(* T5 after a release() on n the next get() on n to return returns True *)
Theorem C04_reacquire_after_release : forall (P : params) (b : backend) (hists : list (list (lockop * name))) (s : list cid),
  params_ok P b = true -> repaired b = true -> wf_run P b (init hists) s = true ->
  forall tr1 e1 tr2 e2 tr3 n r,
    trace_of P b hists s = tr1 ++ e1 :: tr2 ++ e2 :: tr3 ->
    e_op e1 = ORelease -> e_n e1 = n ->
    (forall x, In x tr2 -> e_n x = n -> e_op x = OGet -> e_ret x = None) ->
    e_op e2 = OGet -> e_n e2 = n -> e_ret e2 = Some r -> r = OB true.
Proof. exact run_reacquire. Qed.
Print Assumptions C04_reacquire_after_release.

(* T6 linearizability: taking every operation as ONE atomic step of the lock specification [spec_op]
   at the primitive after which it returned (a point between its first primitive and its return),
   in trace order, explains every returned value; the specification's final state is the observable
   status, and the final store holds its representation.  (With the first half of
   C04_other_names_untouched: an operation's only effect happens at that one primitive.)
   This is what entitles the execution model to treat lock operations as atomic. *)
Theorem C04_linearizable_at_one_primitive : forall (P : params) (b : backend) (hists : list (list (lockop * name))) (s : list cid),
  params_ok P b = true -> repaired b = true -> wf_run P b (init hists) s = true ->
  spec_accepts all_free (trace_of P b hists s) = true /\
  (forall n, spec_final all_free (trace_of P b hists s) n = status_after (trace_of P b hists s) n) /\
  (forall n, sh (cfg_after P b hists s) n = repr P b (spec_final all_free (trace_of P b hists s) n)).
Proof. exact run_linearizable. Qed.
Print Assumptions C04_linearizable_at_one_primitive.

(* ------------------------------------------------------------------------------------------
   T7 time.  Histories may contain [OTick d] ("d seconds pass"; the harness lets a clock client issue
   them, so the schedule puts them between any two primitives of the other clients).  All theorems
   above therefore hold across any amount of time: e.g. C04_exclusion with ticks in tr2 says that a
   held lock is still refused to everybody else after 10 years, C04_failed_is_sticky that a failed
   marker does not wear off.  The reason, stated on its own: on EVERY backend and for any constants a
   time step issues the primitive [PTick d] (the identity on the store: no lock of the file, redis and
   dict backends carries an expiry), returns, and changes neither the stored value nor the observable
   status of any lock.  (The keep-alive backend is modelled here on a frozen clock; how its locks age
   is C19, Model/Keepalive.v.) *)
Theorem C04_time_does_not_unlock : forall (P : params) (b : backend) (hists : list (list (lockop * name)))
                                          (s1 : list cid) (c : cid) (e : event) (d : Z),
  let k := cfg_after P b hists s1 in
  let k' := fst (sched_step P b k c) in
  snd (sched_step P b k c) = Some e -> e_op e = OTick d ->
  e_prim e = PTick d /\ e_ret e = Some OU /\
  (forall m, sh k' m = sh k m) /\
  (forall m, status_after (trace_of P b hists s1 ++ [e]) m = status_after (trace_of P b hists s1) m).
Proof. exact run_time_passes. Qed.
Print Assumptions C04_time_does_not_unlock.

(* non-vacuity: clients 0 and 1 race for lock 0, client 0 wins; the clock client 2 lets 10 years pass between the
   two primitives of client 1's get() (file backends) / before it (redis, dict); client 1 is refused,
   is_locked() is True; client 0 marks it failed; 10 more years; still failed.  Well-formed on every
   repaired backend. *)
Example C04_nonvacuous_time_passes :
  let P := LockConsts.lock_params 1000000 in
  let ten_years := 315360000%Z in
  let hists := [[(OGet, 0); (OFail, 0)]; [(OGet, 0); (OIsLocked, 0); (OIsFailed, 0)]; [(OTick ten_years, 0); (OTick ten_years, 0)]] in
  let rets b s := map (fun e => (e_c e, e_ret e)) (trace_of P b hists s) in
  let s2 := [0; 1; 0; 2; 1; 1; 0; 2; 1; 1] in     (* two primitives per get() / is_failed() *)
  let s1 := [0; 2; 1; 1; 0; 2; 1] in              (* one primitive per operation *)
  (forall b, repaired b = true -> wf_run P b (init hists) s2 = true /\ wf_run P b (init hists) s1 = true) /\
  rets BFile s2 = [(0, None); (1, None); (0, Some (OB true)); (2, Some OU); (1, Some (OB false)); (1, Some (OB true));
                   (0, Some (OB true)); (2, Some OU); (1, None); (1, Some (OB true))] /\
  rets BRedis s1 = [(0, Some (OB true)); (2, Some OU); (1, Some (OB false)); (1, Some (OB true)); (0, None); (2, Some OU); (1, Some (OB false))] /\
  rets BDict s1 = [(0, Some (OB true)); (2, Some OU); (1, Some (OB false)); (1, Some (OB true)); (0, Some (OB true)); (2, Some OU);
                   (1, Some (OB true))].
Proof.
  cbv zeta. split; [intros [] H; try discriminate H; vm_compute; split; reflexivity|].
  vm_compute. repeat split; reflexivity.
Qed.

(* ------------------------------------------------------------------------------------------
   T8 persistence.  Histories may contain [OReopen]: the store is closed and opened again (dict_store
   with a backing file: close() then a new dict_store(FILE); file stores: a new store object on the
   same directory; redis: a new connection) and every client goes on with fresh handles.  All theorems
   above hold across any number of reopens: a lock acquired through a handle of the closed store is
   still held (C04_exclusion with reopens in tr2: nobody else gets it - the crash residue that
   remove_locks clears), a failed marker is still there (C04_failed_is_sticky).  The reason, on its
   own: on EVERY backend a reopen issues [PReopen] (the identity on the lock state), returns, and
   changes neither the stored value nor the observable status of any lock. *)
Theorem C04_reopen_keeps_lock_state : forall (P : params) (b : backend) (hists : list (list (lockop * name)))
                                             (s1 : list cid) (c : cid) (e : event),
  let k := cfg_after P b hists s1 in
  let k' := fst (sched_step P b k c) in
  snd (sched_step P b k c) = Some e -> e_op e = OReopen ->
  e_prim e = PReopen /\ e_ret e = Some OU /\
  (forall m, sh k' m = sh k m) /\
  (forall m, status_after (trace_of P b hists s1 ++ [e]) m = status_after (trace_of P b hists s1) m).
Proof. exact run_reopen. Qed.
Print Assumptions C04_reopen_keeps_lock_state.

(* non-vacuity: client 0 acquires lock 0 and marks it failed, acquires lock 1; the store is reopened
   (environment client 2); client 1 is refused both, sees lock 0 failed and lock 1 locked, not failed;
   reopened again; client 3 (cleanup --failed-only) releases lock 0 and acquires it.  (Steps of a client
   that has finished are no-ops, so one schedule serves the backends with one and with two primitives
   per operation.) *)
Example C04_nonvacuous_reopen :
  let P := LockConsts.lock_params 1000000 in
  let hists := [[(OGet, 0); (OFail, 0); (OGet, 1)];
                [(OGet, 0); (OGet, 1); (OIsFailed, 0); (OIsLocked, 1); (OIsFailed, 1)];
                [(OReopen, 0); (OReopen, 0)];
                [(ORelease, 0); (OGet, 0)]] in
  let s := repeat 0 8 ++ [2] ++ repeat 1 12 ++ [2] ++ repeat 3 6 in
  let rets b := map (fun e => (e_c e, e_ret e)) (filter (fun e => is_some (e_ret e)) (trace_of P b hists s)) in
  (forall b, repaired b = true -> wf_run P b (init hists) s = true /\
     rets b = [(0, Some (OB true)); (0, Some (OB true)); (0, Some (OB true)); (2, Some OU);
               (1, Some (OB false)); (1, Some (OB false)); (1, Some (OB true)); (1, Some (OB true)); (1, Some (OB false));
               (2, Some OU); (3, Some OU); (3, Some (OB true))]).
Proof.
  cbv zeta. intros [] H; try discriminate H; vm_compute; split; reflexivity.
Qed.

(* ------------------------------------------------------------------------------------------
   T3 on the keep-alive backend, with the holder's helper process as a concurrent actor.
   The programs above run with the helper stopped (a refresh of a held lock writes the mtime it
   already has on the frozen clock).  While a helper runs, the one operation it can interfere with
   is the holder's fail(), whose primitives are  stop_monitor() ; os.utime(lock, failed stamp)
   (Model/Keepalive.v: events EFailStop, EFailMark; EWake = one loop body of the helper, which
   refreshes the mtime every p_rounds-th time).  For ALL events between the two primitives and ALL
   events afterwards, from any state with a live holder: the helper never refreshes after the first
   primitive, and once fail() returned True (OMarked true) the lock keeps the failed stamp until it
   is removed: is_locked() / is_failed() answer True and get() is refused at every
   t >= failed stamp + expiry. *)
Theorem C04_keepalive_failed_is_sticky_against_the_helper :
  forall (p : Keepalive.params) (w : Keepalive.world) (t1 : Z)
         (mid : list (Z * Keepalive.event)) (t2 : Z) (post : list (Z * Keepalive.event)),
    Keepalive.w_alive w = true ->
    let w1 := Keepalive.exec p w ((t1, Keepalive.EFailStop) :: mid) in
    let w2 := fst (Keepalive.step p w1 (t2, Keepalive.EFailMark)) in
    (forall t, ~ In (Keepalive.ORefresh t)
                    (Keepalive.outs p (fst (Keepalive.step p w (t1, Keepalive.EFailStop)))
                                    (mid ++ (t2, Keepalive.EFailMark) :: post))) /\
    (snd (Keepalive.step p w1 (t2, Keepalive.EFailMark)) = [Keepalive.OMarked t2 true] ->
     forall post1 post2, post = post1 ++ post2 ->
       Forall (fun te => KeepaliveFacts.keeps_lock (snd te)) post1 ->
       Keepalive.w_lock (Keepalive.exec p w2 post1) = Some (Keepalive.p_failed_ts p) /\
       forall t, (Keepalive.p_failed_ts p + Keepalive.p_expiry p <= t)%Z ->
         snd (Keepalive.step p (Keepalive.exec p w2 post1) (t, Keepalive.EQuery)) =
           [Keepalive.OLocked t true; Keepalive.OFailed t true] /\
         snd (Keepalive.step p (Keepalive.exec p w2 post1) (t, Keepalive.EGet)) = [Keepalive.OGet t false]).
Proof. exact KeepaliveFacts.fail_in_order_sticky. Qed.
Print Assumptions C04_keepalive_failed_is_sticky_against_the_helper.

(* the opposite order (stamp first, helper stopped afterwards) does not have the property: with the
   constants of the source, the helper's 60th wake-up between the two primitives overwrites the
   stamp; fail() returned True and is_failed() answers False *)
Example C04_keepalive_mark_before_stop_refuted_failed_not_sticky :
  let t0 := 1000000%Z in
  let evs := Keepalive.expand t0
               [Keepalive.CWakes 59 5; Keepalive.CEv (t0 + 300) Keepalive.EFailMark; Keepalive.CWakes 1 5;
                Keepalive.CEv (t0 + 300) Keepalive.EFailStop; Keepalive.CEv (t0 + 301) Keepalive.EQuery] in
  Keepalive.valid KeepaliveParams.ka_params 0 (Keepalive.init KeepaliveParams.ka_params t0 0) evs = true /\
  Keepalive.outs KeepaliveParams.ka_params (Keepalive.init KeepaliveParams.ka_params t0 0) evs =
    [Keepalive.OMarked (t0 + 300) true; Keepalive.ORefresh (t0 + 300); Keepalive.OExit (t0 + 300) Keepalive.CKilled;
     Keepalive.OLocked (t0 + 301) true; Keepalive.OFailed (t0 + 301) false].
Proof. vm_compute. split; reflexivity. Qed.

(* ------------------------------------------------------------------------------------------
   Non-vacuity: three clients, two names, the constants of the source at time 1000000; clients 0 and
   1 race for lock 0 (on the file backends both pass the exists() test before either creates the
   file), client 0 marks it failed, client 1 sees that, releases it and acquires it; client 2 uses
   lock 1 meanwhile.  The run is well-formed on every backend; the results of the operations that
   returned, in trace order, and the final store are as listed. *)
Example C04_nonvacuous :
  let P := LockConsts.lock_params 1000000 in
  let hists := [[(OGet, 0); (OFail, 0)];
                [(OGet, 0); (OIsFailed, 0); (ORelease, 0); (OGet, 0)];
                [(OGet, 1); (OIsLocked, 0); (ORelease, 1)]] in
  let s := [0; 1; 0; 1; 2; 0; 0; 2; 1; 1; 1; 2; 1; 1; 2; 1; 1] in
  let rets b := map (fun e => (e_c e, e_ret e)) (trace_of P b hists s) in
  let final b := map (sh (cfg_after P b hists s)) [0; 1] in
  (forall b, repaired b = true -> params_ok P b = true /\ wf_run P b (init hists) s = true) /\
  rets BFile = [(0, None); (1, None); (0, Some (OB true)); (1, Some (OB false)); (2, None); (0, Some (OB true));
                (2, Some (OB true)); (1, None); (1, Some (OB true)); (1, Some OU); (2, Some (OB false)); (1, None);
                (1, Some (OB true)); (2, Some OU)] /\
  rets BKeep = rets BFile /\
  rets BRedis = [(0, Some (OB true)); (1, Some (OB false)); (0, None); (1, Some (OB false)); (2, Some (OB true));
                 (0, Some (OB true)); (2, Some (OB true)); (1, Some OU); (1, Some (OB true)); (2, Some OU)] /\
  rets BDict = [(0, Some (OB true)); (1, Some (OB false)); (0, Some (OB true)); (1, Some (OB true)); (2, Some (OB true));
                (2, Some (OB true)); (1, Some OU); (1, Some (OB true)); (2, Some OU)] /\
  final BFile = [Some 1000000%Z; None] /\ final BKeep = [Some 1000000%Z; None] /\
  final BRedis = [Some 76%Z; None] /\ final BDict = [Some 1%Z; None].
Proof.
  cbv zeta. split; [intros [] H; try discriminate H; vm_compute; split; reflexivity|].
  vm_compute. repeat split; reflexivity.
Qed.

(* ------------------------------------------------------------------------------------------
   The ORIGINAL redis program (get = GETSET L; if the old value was F: SET F) does not have these
   properties (defect D14).  Both runs below are well-formed.
   (1) failed is not sticky: client 0 acquires lock 0 and marks it failed; client 1's get() has
   executed its GETSET but not yet the restoring SET; client 0 asks is_failed() and is told False. *)
Example C04_original_redis_getset_refuted_failed_not_sticky :
  let P := LockConsts.lock_params 1000000 in
  exists hists s tr1 e1 tr2 e2 tr3,
    wf_run P BRedisOld (init hists) s = true /\
    trace_of P BRedisOld hists s = tr1 ++ e1 :: tr2 ++ e2 :: tr3 /\
    e_op e1 = OFail /\ e_n e1 = 0 /\ e_ret e1 = Some (OB true) /\
    (forall x, In x tr2 -> ~ (e_n x = 0 /\ e_op x = ORelease)) /\
    e_n e2 = 0 /\ e_op e2 = OIsFailed /\ e_ret e2 = Some (OB false) /\
    spec_accepts all_free (trace_of P BRedisOld hists s) = false.
Proof.
  cbv zeta.
  pose (hists := [[(OGet, 0); (OFail, 0); (OIsFailed, 0)]; [(OGet, 0)]]).
  pose (s := [0; 0; 0; 1; 0]).
  pose (tr := trace_of (LockConsts.lock_params 1000000) BRedisOld hists s).
  pose (d := mkEvent 0 OGet 0 0 (PUnknown 0) RE None).
  exists hists, s, (firstn 2 tr), (nth 2 tr d), [nth 3 tr d], (nth 4 tr d), [].
  vm_compute. repeat split; try reflexivity.
  intros x [Hx | []] [_ H]. subst x. discriminate H.
Qed.

(* (2) a live holder's lock gets marked failed: client 0 acquires lock 0 and marks it failed; client
   1's get() executes GETSET (the marker is now L); client 2 (cleanup --failed-only) releases the
   failed lock; client 3 acquires the free lock; client 1's restoring SET writes F over client 3's
   lock: client 3 holds the lock, nobody called fail() since, and is_failed() says True (the next
   cleanup --failed-only removes the lock of a running task). *)
Example C04_original_redis_getset_refuted_live_lock_marked_failed :
  let P := LockConsts.lock_params 1000000 in
  exists hists s tr1 e,
    wf_run P BRedisOld (init hists) s = true /\
    trace_of P BRedisOld hists s = tr1 ++ [e] /\
    status_after tr1 0 = GHeld 3 /\
    sh (cfg_after P BRedisOld hists s) 0 = Some (p_F P) /\
    e_c e = 3 /\ e_n e = 0 /\ e_op e = OIsFailed /\ e_ret e = Some (OB true).
Proof.
  cbv zeta.
  pose (hists := [[(OGet, 0); (OFail, 0)]; [(OGet, 0)]; [(ORelease, 0)]; [(OGet, 0); (OIsFailed, 0)]]).
  pose (s := [0; 0; 0; 1; 2; 3; 1; 3]).
  pose (tr := trace_of (LockConsts.lock_params 1000000) BRedisOld hists s).
  pose (d := mkEvent 0 OGet 0 0 (PUnknown 0) RE None).
  exists hists, s, (firstn 7 tr), (nth 7 tr d).
  vm_compute. repeat split; reflexivity.
Qed.
