(* C01 - distributed execution computes what plain sequential Python would compute.
   Statements only; every proof is [exact <lemma>].  Vocabulary: see Props/C02.v; further
   [seq_eval C order r0] = call the task functions one after the other in the order the jugfile
   defines them, no workers, no locks; [topo C [] order] = every task comes after its dependencies;
   [Sound C r0] = every result present at the start is the function applied to the stored dependencies;
   [doomed C r t] = t raises or depends, however indirectly, on a task that raises;
   [okev C e] = e is neither a stop request nor a crash (a raise only under --keep-going);
   [quiescent all_workers s] = every worker has left (or never did anything); [ranked]/[closed] =
   the dependency relation is acyclic and stays inside the task set. *)
From Coq Require Import List Bool PArith.
From JugV Require Import Model.MapReduce Model.Slice Model.Deps Model.Exec Model.ExecCase Model.ExecExample
  Model.Store Proofs.ExecFacts Proofs.ExecProgFacts Proofs.ExecTheorems Proofs.ExecStoreFacts.
Import ListNotations.

(* (a) every value any worker ever stores IS the value of sequential evaluation - for every number
   of workers and every interleaving, also mid-way, also with failures, stop requests and crashes *)
Theorem C01_values_are_sequential : forall (V : Type) (C : cfg V), framed C ->
  forall rank, ranked C rank ->
  forall r0 tr s order, reach C r0 tr s -> topo C [] order ->
  forall t v, In t order -> results s t = Some v -> seq_eval C order r0 t = Some v.
Proof. exact (@values_are_sequential). Qed.
Print Assumptions C01_values_are_sequential.

(* (b) when execute has finished - every worker has left - without stop request or crash, exactly
   the tasks that neither raise nor depend on one that raises have a result: in a run without
   failures that is every task *)
Theorem C01_complete_when_finished : forall (V : Type) (C : cfg V), framed C ->
  forall rank, ranked C rank -> closed C ->
  forall r0 tr s, reach C r0 tr s -> forallb (okev C) tr = true ->
  quiescent all_workers s -> (exists w c, w_pc (ws s w) = PDone c) ->
  forall t, In t (c_tasks C) -> (results s t <> None <-> ~ doomed C (results s) t).
Proof. exact (@complete_at_quiescence). Qed.
Print Assumptions C01_complete_when_finished.

(* (c) running execute again executes nothing and changes no value: for a stored task the start
   event is not enabled, its call counter and its value stay what they are, whatever any workers do *)
Theorem C01_second_execute_does_nothing : forall (V : Type) (C : cfg V), framed C ->
  forall r0 tr s tr' s' t, reach C r0 tr s -> results s t <> None -> Exec.run C s tr' = Some s' ->
    (forall w, Exec.step C s (EStart w t) = None) /\ execs s' t = execs s t /\ results s' t = results s t.
Proof. exact (@not_started_once_stored). Qed.
Print Assumptions C01_second_execute_does_nothing.

(* (d) the hypotheses hold for every generated program whose tasks refer to earlier tasks only; the
   store backends and aggressive unloading are not parameters of the protocol at all: they are
   covered by the traces, which are recorded on every backend in both unloading modes *)
Theorem C01_programs_qualify : forall p, wf_prog p = true ->
  framed (prog_cfg p) /\ ranked (prog_cfg p) (prog_rank p) /\ closed (prog_cfg p).
Proof. exact (fun p H => conj (programs_are_framed p) (conj (programs_are_ranked p H) (programs_are_closed p H))). Qed.
Print Assumptions C01_programs_qualify.

(* (d), formally: the dump / load / can_load calls of ANY run of the protocol (values interned as
   integers), replayed on the bookkeeping model of each backend (Model/Store.v, proved to refine a finite
   map in C06) - file store with or without compress_numpy, results packed or not, dict store with or
   without its backing file, redis store - leave every task loadable with exactly the value the
   protocol's abstract store holds: the protocol theorems hold on every backend *)
Theorem C01_every_backend_carries_the_results : forall (C : cfg valid),
  (forall a b, c_eqb C a b = true -> a = b) ->
  forall tr s, Exec.run C (init (fun _ => None)) tr = Some s ->
  forall t : tid,
    and (forall Ev compress, f_load (fst (Store.run (fstep Ev) (f_init compress) (store_ops tr))) t = results s t)
   (and (forall backed, aget t (d_mem (fst (Store.run dstep (d_init backed) (store_ops tr)))) = results s t)
        (aget t (fst (Store.run rstep [] (store_ops tr))) = results s t)).
Proof. exact backends_carry_the_results. Qed.
Print Assumptions C01_every_backend_carries_the_results.

(* non-vacuity: the two-worker run of Model/ExecExample.v is a run of the protocol without failures,
   both workers have left, every task is stored with the value sequential evaluation gives *)
Example C01_nonvacuous :
  wf_prog ex_prog = true /\ topo (prog_cfg ex_prog) [] [1; 2; 3]%positive /\
  exists s, Exec.run (prog_cfg ex_prog) (init (st_of [])) ex_trace = Some s /\
            forallb (okev (prog_cfg ex_prog)) ex_trace = true /\
            w_pc (ws s 0) = PDone 0 /\ w_pc (ws s 1) = PDone 0 /\
            map (results s) [1; 2; 3]%positive = [Some ex_v1; Some ex_v2; Some ex_v3] /\
            map (prog_seq ex_prog []) [1; 2; 3]%positive = [Some ex_v1; Some ex_v2; Some ex_v3].
Proof.
  split; [reflexivity|]. split.
  - simpl. repeat split; intros x Hx; vm_compute in Hx;
      repeat (destruct Hx as [Hx | Hx]; [subst; simpl; auto 6|]); try contradiction.
  - eexists. vm_compute. repeat split; reflexivity.
Qed.
