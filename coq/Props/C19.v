(* C19 - keep-alive locks: live holders are never reported failed, dead ones are, the monitor ends.
   Statements only.  Parametric theorems are [exact <lemma>]; the instances for the constants that
   are in the source today ([ka_params], regenerated into Gen/KeepaliveParams.v on every run)
   discharge the side conditions with [C19_side_conditions_hold_for_the_source_constants].

   Model: Model/Keepalive.v.  A run is a list of time-stamped events (monitor wake-ups, the holder's
   death / release() / fail(), removal of the lock file by somebody else, and other clients'
   is_failed() / cleanup --failed-only / get()).  [valid p drift w evs] says: time stamps do not
   decrease and a running monitor completes every round within period + drift seconds (the first
   one within period + drift + startup).  drift and startup are the environment's bounds on
   scheduling delay per round and on the start-up delay of the monitor process. *)
From Coq Require Import List ZArith Bool Lia.
From JugV Require Import Model.Keepalive Gen.KeepaliveParams Proofs.KeepaliveFacts.
Import ListNotations.
Local Open Scope Z_scope.

(* ------------------------------------------------------------------------------------------
   Side conditions, for the numbers in the source, for every admissible environment:
   drift >= 0, startup >= 0, startup + 60 * drift < 1500   (e.g. drift <= 20 s and startup <= 299 s).
   With sleep(5), counter_start = 60, expiry = 30*60 this is  60*(5+drift)+startup < 1800.
   If the source constants change so that this fails, this file no longer compiles. *)
Theorem C19_side_conditions_hold_for_the_source_constants : forall drift startup : Z,
  0 <= drift -> 0 <= startup -> startup + 60 * drift < 1500 ->
  0 <= p_period ka_params + drift /\
  1 <= p_rounds ka_params /\
  p_rounds ka_params * (p_period ka_params + drift) + startup < p_expiry ka_params.
Proof.
  intros drift startup Hd Hs Hadm.
  change (0 <= ka_period + drift /\ 1 <= ka_rounds /\ ka_rounds * (ka_period + drift) + startup < ka_expiry).
  unfold ka_period, ka_rounds, ka_expiry. lia.
Qed.
Print Assumptions C19_side_conditions_hold_for_the_source_constants.

(* ------------------------------------------------------------------------------------------
   (a) live holder: never reported failed, for every run (any duration), any other clients'
   queries / get() attempts / cleanup --failed-only runs, as long as nobody removes the file. *)
Theorem C19_live_lock_never_reported_failed_parametric : forall (p : params) (drift startup t0 : Z),
  0 <= p_period p + drift -> 0 <= startup -> 1 <= p_rounds p -> p_failed_ts p <= t0 ->
  p_rounds p * (p_period p + drift) + startup < p_expiry p ->
  forall (evs : list (Z * event)) (t : Z) (e : event),
    Forall (fun te => not_unlink (snd te)) evs ->
    valid p drift (init p t0 startup) (evs ++ [(t, e)]) = true ->
    let w := exec p (init p t0 startup) evs in
    w_alive w = true -> w_held w = true ->
    (exists m, w_lock w = Some m) /\ lock_failed p (w_lock w) t = false.
Proof. exact alive_never_failed. Qed.
Print Assumptions C19_live_lock_never_reported_failed_parametric.

Theorem C19_live_lock_never_reported_failed : forall drift startup t0 : Z,
  0 <= drift -> 0 <= startup -> startup + 60 * drift < 1500 -> p_failed_ts ka_params <= t0 ->
  forall (evs : list (Z * event)) (t : Z) (e : event),
    Forall (fun te => not_unlink (snd te)) evs ->
    valid ka_params drift (init ka_params t0 startup) (evs ++ [(t, e)]) = true ->
    let w := exec ka_params (init ka_params t0 startup) evs in
    w_alive w = true -> w_held w = true ->
    (exists m, w_lock w = Some m) /\ lock_failed ka_params (w_lock w) t = false.
Proof.
  intros drift startup t0 Hd Hs Hadm Ht0.
  destruct (C19_side_conditions_hold_for_the_source_constants drift startup Hd Hs Hadm) as (H1 & H2 & H3).
  exact (alive_never_failed ka_params drift startup t0 H1 Hs H2 Ht0 H3).
Qed.
Print Assumptions C19_live_lock_never_reported_failed.

(* ... in terms of what other clients observe: is_failed() is False, cleanup --failed-only leaves
   the lock alone, get() is refused *)
Theorem C19_live_lock_as_seen_by_other_clients : forall drift startup t0 : Z,
  0 <= drift -> 0 <= startup -> startup + 60 * drift < 1500 -> p_failed_ts ka_params <= t0 ->
  forall (evs : list (Z * event)) (t : Z),
    Forall (fun te => not_unlink (snd te)) evs ->
    let w := exec ka_params (init ka_params t0 startup) evs in
    w_alive w = true -> w_held w = true ->
    (valid ka_params drift (init ka_params t0 startup) (evs ++ [(t, EQuery)]) = true ->
       snd (step ka_params w (t, EQuery)) = [OLocked t true; OFailed t false]) /\
    (valid ka_params drift (init ka_params t0 startup) (evs ++ [(t, ECleanup)]) = true ->
       snd (step ka_params w (t, ECleanup)) = [OCleaned t false] /\
       w_lock (fst (step ka_params w (t, ECleanup))) = w_lock w) /\
    (valid ka_params drift (init ka_params t0 startup) (evs ++ [(t, EGet)]) = true ->
       snd (step ka_params w (t, EGet)) = [OGet t false]).
Proof.
  intros drift startup t0 Hd Hs Hadm Ht0.
  destruct (C19_side_conditions_hold_for_the_source_constants drift startup Hd Hs Hadm) as (H1 & H2 & H3).
  exact (alive_query_and_cleanup ka_params drift startup t0 H1 Hs H2 Ht0 H3).
Qed.
Print Assumptions C19_live_lock_as_seen_by_other_clients.

(* ------------------------------------------------------------------------------------------
   (b) holder died at td without releasing: no refresh after the death (a fortiori none after
   td + period + drift); unless another client re-acquired it the lock is absent or reported
   failed at every t >= td + expiry (a fortiori at every t >= td + (period + drift) + expiry). *)
Theorem C19_dead_lock_not_refreshed_and_reported_parametric : forall (p : params) (drift startup t0 : Z),
  0 <= startup -> 1 <= p_rounds p -> p_failed_ts p <= t0 ->
  forall (pre : list (Z * event)) (td : Z) (post : list (Z * event)),
    valid p drift (init p t0 startup) (pre ++ (td, EDie) :: post) = true ->
    (forall t, ~ In (ORefresh t) (outs p (exec p (init p t0 startup) (pre ++ [(td, EDie)])) post)) /\
    (Forall (fun te => not_get (snd te)) post ->
     forall t, td + p_expiry p <= t ->
       let w := exec p (init p t0 startup) (pre ++ (td, EDie) :: post) in
       w_lock w = None \/ lock_failed p (w_lock w) t = true).
Proof. exact dead_lock_reported. Qed.
Print Assumptions C19_dead_lock_not_refreshed_and_reported_parametric.

(* positive form: the holder died holding the lock and nobody touches the file afterwards: the file
   is there and is_failed() answers True at every t >= td + expiry *)
Theorem C19_dead_lock_reported_failed : forall drift startup t0 : Z,
  0 <= drift -> 0 <= startup -> startup + 60 * drift < 1500 -> p_failed_ts ka_params <= t0 ->
  forall (pre : list (Z * event)) (td : Z) (post : list (Z * event)),
    Forall (fun te => not_unlink (snd te)) pre ->
    valid ka_params drift (init ka_params t0 startup) (pre ++ (td, EDie) :: post) = true ->
    w_alive (exec ka_params (init ka_params t0 startup) pre) = true ->
    w_held (exec ka_params (init ka_params t0 startup) pre) = true ->
    Forall (fun te => quiet (snd te)) post ->
    forall t, td + p_expiry ka_params <= t ->
      lock_failed ka_params (w_lock (exec ka_params (init ka_params t0 startup) (pre ++ (td, EDie) :: post))) t = true.
Proof.
  intros drift startup t0 Hd Hs Hadm Ht0.
  destruct (C19_side_conditions_hold_for_the_source_constants drift startup Hd Hs Hadm) as (H1 & H2 & H3).
  exact (dead_held_lock_reported_failed ka_params drift startup t0 H1 Hs H2 Ht0 H3).
Qed.
Print Assumptions C19_dead_lock_reported_failed.

(* ------------------------------------------------------------------------------------------
   (c) the monitor ends: at once when the holder releases or fails the lock (it is killed), ... *)
Theorem C19_monitor_killed_on_release_or_fail : forall (p : params) (w : world) (t : Z) (e : event),
  e = ERelease \/ e = EFail -> w_alive w = true ->
  w_mon (fst (step p w (t, e))) = MDone /\
  w_held (fst (step p w (t, e))) = false /\
  (forall c lw slack, w_mon w = MRun c lw slack -> snd (step p w (t, e)) = [OExit t CKilled]).
Proof. exact kill_ends_monitor. Qed.
Print Assumptions C19_monitor_killed_on_release_or_fail.

Theorem C19_monitor_never_restarts : forall (p : params) (evs : list (Z * event)) (w : world),
  w_mon w = MDone -> w_mon (exec p w evs) = MDone.
Proof. exact done_stays_done. Qed.
Print Assumptions C19_monitor_never_restarts.

(* ... within one round of the holder's death (a running monitor is never observed at any
   admissible time later than td + period + drift + startup), ... *)
Theorem C19_monitor_ends_after_worker_death : forall (p : params) (drift startup t0 : Z),
  0 <= startup -> 1 <= p_rounds p -> p_failed_ts p <= t0 ->
  forall (pre : list (Z * event)) (td : Z) (post : list (Z * event)) (t : Z) (e : event),
    valid p drift (init p t0 startup) (pre ++ (td, EDie) :: post ++ [(t, e)]) = true ->
    td + (p_period p + drift) + startup < t ->
    w_mon (exec p (init p t0 startup) (pre ++ (td, EDie) :: post)) = MDone.
Proof. exact dead_monitor_ends. Qed.
Print Assumptions C19_monitor_ends_after_worker_death.

(* ... and within one refresh interval of the removal of the lock file by somebody else *)
Theorem C19_monitor_ends_after_lock_removal : forall (p : params) (drift startup t0 : Z),
  0 <= p_period p + drift -> 0 <= startup -> 1 <= p_rounds p -> p_failed_ts p <= t0 ->
  forall (pre : list (Z * event)) (tu : Z) (post : list (Z * event)) (t : Z) (e : event),
    valid p drift (init p t0 startup) (pre ++ (tu, EUnlink) :: post ++ [(t, e)]) = true ->
    Forall (fun te => not_get (snd te)) post ->
    tu + p_rounds p * (p_period p + drift) + startup < t ->
    w_mon (exec p (init p t0 startup) (pre ++ (tu, EUnlink) :: post)) = MDone.
Proof. exact unlinked_monitor_ends. Qed.
Print Assumptions C19_monitor_ends_after_lock_removal.

(* ------------------------------------------------------------------------------------------
   (d) cleanup --failed-only removes a lock that is reported failed; get() succeeds iff the file
   is absent; so after the holder's death, cleanup at tc >= td + expiry, the task can be locked
   (hence run) again. *)
Theorem C19_get_succeeds_iff_lock_file_absent : forall (p : params) (w : world) (t : Z),
  (snd (step p w (t, EGet)) = [OGet t true] <-> w_lock w = None) /\
  (snd (step p w (t, EGet)) = [OGet t true] -> w_lock (fst (step p w (t, EGet))) = Some t).
Proof. exact get_succeeds_iff_absent. Qed.
Print Assumptions C19_get_succeeds_iff_lock_file_absent.

Theorem C19_cleanup_failed_only_then_get : forall (p : params) (w : world) (tc tg : Z),
  lock_failed p (w_lock w) tc = true ->
  let w1 := fst (step p w (tc, ECleanup)) in
  snd (step p w (tc, ECleanup)) = [OCleaned tc true] /\ w_lock w1 = None /\
  snd (step p w1 (tg, EGet)) = [OGet tg true].
Proof. exact cleanup_failed_then_get. Qed.
Print Assumptions C19_cleanup_failed_only_then_get.

Theorem C19_dead_worker_task_can_run_again : forall (p : params) (drift startup t0 : Z),
  0 <= startup -> 1 <= p_rounds p -> p_failed_ts p <= t0 ->
  forall (pre : list (Z * event)) (td : Z) (mid : list (Z * event)) (tc tg : Z),
    valid p drift (init p t0 startup) (pre ++ (td, EDie) :: mid) = true ->
    Forall (fun te => not_get (snd te)) mid ->
    td + p_expiry p <= tc ->
    let w := exec p (init p t0 startup) (pre ++ (td, EDie) :: mid) in
    exists b, outs p w [(tc, ECleanup); (tg, EGet)] = [OCleaned tc b; OGet tg true] /\
              (b = false -> w_lock w = None).
Proof. exact dead_worker_task_can_run_again. Qed.
Print Assumptions C19_dead_worker_task_can_run_again.

(* a lock marked by fail() is reported failed at every t >= failed stamp + expiry *)
Theorem C19_failed_mark_reported : forall (p : params) (w : world) (tf t m : Z),
  w_alive w = true -> w_lock w = Some m -> p_failed_ts p + p_expiry p <= t ->
  lock_failed p (w_lock (fst (step p w (tf, EFail)))) t = true.
Proof. exact failed_mark_reported. Qed.
Print Assumptions C19_failed_mark_reported.

(* ------------------------------------------------------------------------------------------
   (e) fail() at the granularity of its primitives, the helper being a concurrent process.
   The source does  stop_monitor() ; os.utime(lock, failed stamp)  - events EFailStop, EFailMark.
   EFail (used above) is exactly the two with nothing in between ... *)
Theorem C19_fail_is_stop_then_mark : forall (p : params) (w : world) (t : Z),
  w_alive w = true ->
  exec p w [(t, EFailStop); (t, EFailMark)] = fst (step p w (t, EFail)) /\
  outs p w [(t, EFailStop); (t, EFailMark)] =
    snd (step p w (t, EFail)) ++ [OMarked t (match w_lock w with Some _ => true | None => false end)].
Proof. exact fail_is_stop_then_mark. Qed.
Print Assumptions C19_fail_is_stop_then_mark.

(* ... and in that order fail() is safe against the helper, for ALL events [mid] that fall between
   the two primitives (wake-ups of the helper included) and ALL events [post] afterwards, from any
   state with a live holder, without any assumption on timing:
   (i) the helper never refreshes the lock after the first primitive;
   (ii) if the stamp was written (fail() returns True) then until somebody removes the lock file
   (release(), rm, cleanup) it keeps the failed stamp: is_locked() / is_failed() answer True and
   get() is refused at every t >= failed stamp + expiry. *)
Theorem C19_fail_in_source_order_is_sticky_against_the_helper :
  forall (p : params) (w : world) (t1 : Z) (mid : list (Z * event)) (t2 : Z) (post : list (Z * event)),
    w_alive w = true ->
    let w1 := exec p w ((t1, EFailStop) :: mid) in
    let w2 := fst (step p w1 (t2, EFailMark)) in
    (forall t, ~ In (ORefresh t) (outs p (fst (step p w (t1, EFailStop))) (mid ++ (t2, EFailMark) :: post))) /\
    (snd (step p w1 (t2, EFailMark)) = [OMarked t2 true] ->
     forall post1 post2, post = post1 ++ post2 ->
       Forall (fun te => keeps_lock (snd te)) post1 ->
       w_lock (exec p w2 post1) = Some (p_failed_ts p) /\
       forall t, p_failed_ts p + p_expiry p <= t ->
         snd (step p (exec p w2 post1) (t, EQuery)) = [OLocked t true; OFailed t true] /\
         snd (step p (exec p w2 post1) (t, EGet)) = [OGet t false]).
Proof. exact fail_in_order_sticky. Qed.
Print Assumptions C19_fail_in_source_order_is_sticky_against_the_helper.

(* The opposite order (failed stamp first, helper stopped afterwards) is refuted: an admissible run
   with the source constants in which the helper's 60th wake-up falls between the two primitives;
   fail() returns True (OMarked true), the helper's refresh overwrites the stamp, and the lock is
   an ordinary non-failed lock for everybody (until it expires 30 minutes later). *)
Example C19_fail_mark_before_stop_refuted :
  let t0 := 1000000 in
  let evs := expand t0 [CWakes 59 5; CEv (t0 + 300) EFailMark; CWakes 1 5; CEv (t0 + 300) EFailStop;
                        CEv (t0 + 300) EQuery; CEv (t0 + 2099) EQuery] in
  valid ka_params 0 (init ka_params t0 0) evs = true /\
  outs ka_params (init ka_params t0 0) evs =
    [OMarked (t0 + 300) true; ORefresh (t0 + 300); OExit (t0 + 300) CKilled;
     OLocked (t0 + 300) true; OFailed (t0 + 300) false; OLocked (t0 + 2099) true; OFailed (t0 + 2099) false].
Proof. vm_compute. split; reflexivity. Qed.

(* the same run with the primitives in the order of the source: no refresh, failed from then on *)
Example C19_fail_in_source_order_same_run :
  let t0 := 1000000 in
  let evs := expand t0 [CWakes 59 5; CEv (t0 + 300) EFailStop; CWakes 1 5; CEv (t0 + 300) EFailMark;
                        CEv (t0 + 300) EQuery; CEv (t0 + 2099) EQuery] in
  valid ka_params 0 (init ka_params t0 0) evs = true /\
  outs ka_params (init ka_params t0 0) evs =
    [OExit (t0 + 300) CKilled; OMarked (t0 + 300) true;
     OLocked (t0 + 300) true; OFailed (t0 + 300) true; OLocked (t0 + 2099) true; OFailed (t0 + 2099) true].
Proof. vm_compute. split; reflexivity. Qed.

(* ------------------------------------------------------------------------------------------
   (f) the start of the helper.  [init] (all theorems above) lets the helper's utime() address THE
   lock file.  start_monitor() passes self.fullname unchanged and does not change the working
   directory: the helper then resolves the path to the file the holder created, for every working
   directory of the holder and every jugdir, relative or absolute ... *)
Theorem C19_helper_is_started_on_the_lock_file : forall (wcwd : list Z) (fullname : path),
  helper_target wcwd (start_monitor_launch fullname) = lock_file wcwd fullname.
Proof. exact start_monitor_addresses_the_lock. Qed.
Print Assumptions C19_helper_is_started_on_the_lock_file.

(* ... and passing the path unchanged is right iff it is absolute or the helper's working directory
   is the holder's *)
Theorem C19_unchanged_path_argument_needs_same_cwd_or_absolute_path :
  forall (wcwd : list Z) (c : option path) (fullname : path),
    helper_target wcwd {| l_cwd := c; l_arg := fullname |} = lock_file wcwd fullname <->
    (fst fullname = true \/ helper_cwd wcwd {| l_cwd := c; l_arg := fullname |} = wcwd).
Proof. exact unchanged_argument_iff. Qed.
Print Assumptions C19_unchanged_path_argument_needs_same_cwd_or_absolute_path.

(* e.g. Popen(..., cwd='/') with jug's default relative jugdir: holder in /10/11, jugdir 20
   (lock file /10/11/20/30/40): the helper addresses /20/30/40 *)
Example C19_helper_started_in_another_directory_refuted :
  let l := {| l_cwd := Some (true, []); l_arg := (false, [20; 30; 40]) |} in
  helper_target [10; 11] l = [20; 30; 40] /\ lock_file [10; 11] (false, [20; 30; 40]) = [10; 11; 20; 30; 40] /\
  launch_check [10; 11] (false, [20; 30; 40]) l [20; 30; 40] [10; 11; 20; 30; 40] = false /\
  launch_check [10; 11] (false, [20; 30; 40]) (start_monitor_launch (false, [20; 30; 40]))
               [10; 11; 20; 30; 40] [10; 11; 20; 30; 40] = true.
Proof. vm_compute. repeat split; reflexivity. Qed.

(* a helper that addresses another file ends at its first refresh (ENOENT reads as "lock removed");
   from then on the run is that of a lock without helper: a live holder's lock is reported failed
   one expiry after it was acquired *)
Example C19_without_helper_a_live_lock_is_reported_failed :
  let t0 := 1000000 in
  let w := {| w_now := t0; w_lock := Some t0; w_alive := true; w_held := true; w_mon := MDone |} in
  outs ka_params w [(t0 + 1799, EQuery); (t0 + 1800, EQuery); (t0 + 1800, ECleanup); (t0 + 1801, EGet)] =
    [OLocked (t0 + 1799) true; OFailed (t0 + 1799) false; OLocked (t0 + 1800) true; OFailed (t0 + 1800) true;
     OCleaned (t0 + 1800) true; OGet (t0 + 1801) true].
Proof. vm_compute. reflexivity. Qed.

(* ------------------------------------------------------------------------------------------
   Non-vacuity: a concrete admissible run with the source constants (drift 2 s, start-up 3 s):
   lock acquired at 1000000; 130 rounds of 7 s (refreshes at +423 and +843); a query; the holder
   dies at +915; the monitor's next wake-up ends it; queries just before and at (last refresh) +
   expiry and at td + expiry; cleanup --failed-only; get(). *)
Example C19_nonvacuous_run :
  let t0 := 1000000 in
  let evs := expand (t0 + 3)
               [CWakes 130 7; CEv (t0 + 914) EQuery; CEv (t0 + 915) EDie; CWakes 3 7;
                CEv (t0 + 843 + 1799) EQuery; CEv (t0 + 843 + 1800) EQuery; CEv (t0 + 915 + 1800) EQuery;
                CEv (t0 + 2800) ECleanup; CEv (t0 + 2801) EGet] in
  valid ka_params 2 (init ka_params t0 3) evs = true /\
  outs ka_params (init ka_params t0 3) evs =
    [ORefresh (t0 + 423); ORefresh (t0 + 843); OLocked (t0 + 914) true; OFailed (t0 + 914) false;
     OExit (t0 + 920) CParent;
     OLocked (t0 + 2642) true; OFailed (t0 + 2642) false; OLocked (t0 + 2643) true; OFailed (t0 + 2643) true;
     OLocked (t0 + 2715) true; OFailed (t0 + 2715) true; OCleaned (t0 + 2800) true; OGet (t0 + 2801) true].
Proof. vm_compute. split; reflexivity. Qed.

(* The admissibility bound is tight for the source constants: with drift = 25 s (60*25 = 1500)
   there is an admissible run in which a live holder's lock is reported failed. *)
Example C19_bound_is_tight :
  let t0 := 1000000 in
  let evs := expand t0 [CWakes 59 30; CEv (t0 + 1800) EQuery] in
  valid ka_params 25 (init ka_params t0 0) evs = true /\
  w_alive (exec ka_params (init ka_params t0 0) evs) = true /\
  w_held (exec ka_params (init ka_params t0 0) evs) = true /\
  outs ka_params (init ka_params t0 0) evs = [OLocked (t0 + 1800) true; OFailed (t0 + 1800) true].
Proof. vm_compute. repeat split; reflexivity. Qed.
