(* C07 - a task's identifier is a deterministic function of its name and argument values.
   Statements only; every proof is [exact <lemma>].
   H stands for SHA-1 (any function), leD for the order Python's sort uses on digests. *)
From Coq Require Import List PArith Bool Permutation Sorted.
From JugV Require Import Model.Hash Proofs.HashFacts.
Import ListNotations.

(* The chunk sequence fed to the hash - hence the identifier H(...) for ANY hash function H - is
   the same for all iteration orders of every set, frozenset and dict (keys with distinct digests)
   at any depth, and for every memory layout of every array.  Object identity, addresses and the
   string-hash seed are not inputs of [fl] at all. *)
Theorem C07_identifier_independent_of_order_and_layout :
  forall (D : Type) (leD : D -> D -> bool),
    (forall a b, leD a b = true \/ leD b a = true) ->
    (forall a b, leD a b = true -> leD b a = true -> a = b) ->
    (forall a b c, leD a b = true -> leD b c = true -> leD a c = true) ->
  forall (H : list (atom D) -> D) (v v' : pv),
    pv_perm D leD H v v' -> fl D leD H v = fl D leD H v'.
Proof. exact fl_perm_invariant. Qed.
Print Assumptions C07_identifier_independent_of_order_and_layout.

(* The executable stream of Model/Hash.v (children in the order given) IS that chunk sequence
   whenever set/dict children are listed in ascending digest order - which is how the
   correspondence check lists them, using the real digests. *)
Theorem C07_executable_stream_is_the_hashed_sequence :
  forall (D : Type) (leD : D -> D -> bool),
    (forall a b, leD a b = true \/ leD b a = true) ->
    (forall a b, leD a b = true -> leD b a = true -> a = b) ->
    (forall a b c, leD a b = true -> leD b c = true -> leD a c = true) ->
  forall (H : list (atom D) -> D) (e : pv),
    hsorted D leD H e -> atoms D H (stream e) = fl D leD H e.
Proof. exact stream_is_fl. Qed.
Print Assumptions C07_executable_stream_is_the_hashed_sequence.

(* non-vacuity: a digest type, order and hash meeting the hypotheses exist, and a task whose
   set-valued argument is listed in two different orders and whose array argument has two
   different layouts is related by pv_perm *)
Example C07_nonvacuous :
  let H := fun l : list (atom nat) => length l in
  pv_perm nat Nat.leb H
    (mkTask 5000 [PSet KSet [Leaf 1001; Leaf 5001; Leaf 5002]; PArr 5003 5004 5005 0] [])
    (mkTask 5000 [PSet KSet [Leaf 5002; Leaf 1001; Leaf 5001]; PArr 5003 5004 5005 1] []).
Proof.
  intro H. unfold mkTask. apply PP_hashed.
  constructor; [split; [reflexivity | apply PP_refl]|].
  constructor; [split; [reflexivity|] | constructor; [split; [reflexivity | apply PP_refl] | constructor]].
  cbn [snd]. apply PP_seq. constructor; [|constructor; [apply PP_arr | constructor]].
  apply (PP_set _ _ _ _ _ [Leaf 1001; Leaf 5001; Leaf 5002]).
  - constructor; [apply PP_refl|]. constructor; [apply PP_refl|]. constructor; [apply PP_refl | constructor].
  - apply Permutation_sym. apply (Permutation_cons_app [Leaf 1001; Leaf 5001] []). reflexivity.
Qed.
