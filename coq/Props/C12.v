(* C12 - a worker asked to stop exits without leaving locks or partial results.
   Statements only; every proof is [exact <lemma>].  Vocabulary: see Props/C02.v and C01.v.
   [EInterrupt w] = SystemExit / KeyboardInterrupt is raised in worker w: SIGTERM, Ctrl-C, or an exit
   condition (task-count limit, time limit, stop file: these call exit(0) after a task was stored). *)
From Coq Require Import List Bool PArith Arith.
From JugV Require Import Model.MapReduce Model.Slice Model.Deps Model.Exec Model.ExecCase Model.ExecExample
  Proofs.ExecFacts Proofs.ExecProgFacts Proofs.ExecTheorems.
Import ListNotations.

(* a stop request can arrive at any moment: while choosing or waiting, holding a lock, inside a task
   function, between the function and the dump, after the dump; it changes no result and no lock *)
Theorem C12_stop_can_arrive_anywhere : forall (V : Type) (C : cfg V) (s : st V) w,
  (w_pc (ws s w) = PIdle \/ exists t, w_pc (ws s w) = PLocked t \/ w_pc (ws s w) = PCleared t \/ w_pc (ws s w) = PSkip t \/
                                 w_pc (ws s w) = PRunning t \/ (exists v, w_pc (ws s w) = PRan t v) \/ w_pc (ws s w) = PStored t) ->
  exists s', step C s (EInterrupt w) = Some s' /\ w_intr (ws s' w) = true /\ results s' = results s /\ locks s' = locks s.
Proof. exact (@interrupt_enabled). Qed.
Print Assumptions C12_stop_can_arrive_anywhere.

(* from then on the worker never stores a result, starts a function or takes a lock again (so the
   interrupted task gets no result from it) ... *)
Theorem C12_stopped_worker_stores_nothing : forall (V : Type) (C : cfg V), framed C ->
  forall r0 tr s w tr' s', reach C r0 tr s -> w_intr (ws s w) = true -> run C s tr' = Some s' ->
    w_intr (ws s' w) = true /\
    (forall t v, ~ In (EDump w t v) tr') /\ (forall t, ~ In (EStart w t) tr') /\ (forall t, ~ In (ELock w t true) tr').
Proof. exact (@stopped_worker_is_harmless). Qed.
Print Assumptions C12_stopped_worker_stores_nothing.

(* ... all it can still do to shared state is release the lock it holds *)
Theorem C12_stopped_worker_only_unlocks : forall (V : Type) (C : cfg V)
  (s s' : st V) e w, Inv C s -> w_intr (ws s w) = true -> step C s e = Some s' -> actor e = Some w ->
    results s' = results s /\
    (locks s' = locks s \/ exists t, e = EUnlock w t /\ w_pc (ws s w) = PUnwind t /\ w_pc (ws s' w) = PExiting).
Proof. exact (@interrupted_is_harmless). Qed.
Print Assumptions C12_stopped_worker_only_unlocks.

(* a worker that has left - for whatever reason - holds no lock *)
Theorem C12_no_lock_left : forall (V : Type) (C : cfg V), framed C ->
  forall r0 tr s w c t, reach C r0 tr s -> w_pc (ws s w) = PDone c -> locks s t <> LHeld w.
Proof. exact (@left_workers_hold_no_lock). Qed.
Print Assumptions C12_no_lock_left.

(* the exit itself is never blocked: wherever the request arrives, the worker's OWN next events - the request,
   the release of the lock it holds (if any), leaving execution_loop with any exit status - are enabled one after
   the other whatever the other workers do or do not do; at the end the worker has left, no result has changed,
   exactly the lock it held is free and every other lock and every other worker is as before *)
Theorem C12_stop_leads_to_exit : forall (V : Type) (C : cfg V) (s : st V) w code,
  (w_pc (ws s w) = PIdle \/ exists t, w_pc (ws s w) = PLocked t \/ w_pc (ws s w) = PCleared t \/ w_pc (ws s w) = PSkip t \/
                                 w_pc (ws s w) = PRunning t \/ (exists v, w_pc (ws s w) = PRan t v) \/ w_pc (ws s w) = PStored t) ->
  exists s', run C s (EInterrupt w :: (match holding (w_pc (ws s w)) with Some t => [EUnlock w t] | None => [] end) ++ [EExit w code]) = Some s' /\
    w_pc (ws s' w) = PDone code /\ results s' = results s /\
    (forall t, locks s' t = match holding (w_pc (ws s w)) with
                            | Some t' => if Pos.eqb t t' then LFree else locks s t
                            | None => locks s t end) /\
    (forall w', w' <> w -> ws s' w' = ws s w').
Proof. exact stop_request_leads_to_exit. Qed.
Print Assumptions C12_stop_leads_to_exit.

(* whatever was stored is still the sequential value (C01 (a) holds with stop requests in the trace),
   and any later workers complete the computation: once nobody holds a lock, new workers F that run
   without being stopped themselves end with every non-failing task stored *)
Theorem C12_later_workers_finish : forall (V : Type) (C : cfg V), framed C ->
  forall rank, ranked C rank -> closed C ->
  forall r0 tr s (F : wid -> bool) tr' s', reach C r0 tr s ->
    (forall t w, locks s t <> LHeld w) ->
    (forall w, F w = true -> ws s w = fresh_w) ->
    (forall w, F w = false -> live (w_pc (ws s w)) = false) ->
    forallb (okev C) tr' = true -> run C s tr' = Some s' ->
    quiescent F s' -> (exists w c, F w = true /\ w_pc (ws s' w) = PDone c) ->
    forall t, In t (c_tasks C) -> (results s' t <> None <-> ~ doomed C (results s') t).
Proof. exact (@later_execute_completes). Qed.
Print Assumptions C12_later_workers_finish.

(* non-vacuity: worker 0 is stopped inside f1 (exit status 143), releases its lock and leaves without a
   result for t1; worker 1, which had lost the lock, leaves; afterwards no lock is held and worker 2
   completes everything with the sequential values *)
Example C12_nonvacuous :
  (exists s, run (prog_cfg ex_prog) (init (st_of [])) ex_trace_stop = Some s /\
             map (results s) [1; 2; 3]%positive = [None; None; None] /\ map (locks s) [1; 2; 3]%positive = [LFree; LFree; LFree] /\
             w_pc (ws s 0) = PDone 143 /\ w_pc (ws s 1) = PDone 0 /\ ws s 2 = fresh_w) /\
  (exists s, run (prog_cfg ex_prog) (init (st_of [])) (ex_trace_stop ++ ex_trace_finish 2) = Some s /\
             forallb (okev (prog_cfg ex_prog)) (ex_trace_finish 2) = true /\
             map (results s) [1; 2; 3]%positive = [Some ex_v1; Some ex_v2; Some ex_v3] /\ w_pc (ws s 2) = PDone 0).
Proof. split; eexists; vm_compute; repeat split; reflexivity. Qed.

(* non-vacuity of C12_stop_leads_to_exit: after the first five events of ex_trace_stop worker 0 is inside f1
   holding the lock of t1, and the three events of the theorem are the ones ex_trace_stop continues with *)
Example C12_nonvacuous_exit :
  exists s, run (prog_cfg ex_prog) (init (st_of [])) (firstn 5 ex_trace_stop) = Some s /\
    w_pc (ws s 0) = PRunning 1%positive /\ locks s 1%positive = LHeld 0 /\
    firstn 3 (skipn 5 ex_trace_stop) =
      EInterrupt 0 :: (match holding (w_pc (ws s 0)) with Some t => [EUnlock 0 t] | None => [] end) ++ [EExit 0 143].
Proof. eexists. vm_compute. repeat split; reflexivity. Qed.
