(* GENERATED from /repo by harness/translate.py on every run. Do not edit. *)
(* Lock markers, extracted from
     jug/backends/redis_store.py   _LOCKED = b'L' ; _FAILED = b'F'   (one byte: its code)
     jug/backends/dict_store.py    _NOT_LOCKED, _LOCKED, _FAILED = 0, 1, 2
   The failed time stamp of the file locks and the expiry of the keep-alive lock are those of
   Gen/KeepaliveParams.v.  [now] is the value of time() during the run = mtime of a fresh lock file. *)
From Coq Require Import ZArith.
From JugV Require Model.LockPrims Gen.KeepaliveParams.
Local Open Scope Z_scope.

Definition redis_LOCKED : Z := (76).
Definition redis_FAILED : Z := (70).
Definition dict_NOT_LOCKED : Z := (0).
Definition dict_LOCKED : Z := (1).
Definition dict_FAILED : Z := (2).

Definition lock_params (now : Z) : LockPrims.params :=
  LockPrims.mkParams now KeepaliveParams.ka_expiry KeepaliveParams.ka_failed_mtime
                     redis_LOCKED redis_FAILED dict_NOT_LOCKED dict_LOCKED dict_FAILED.
