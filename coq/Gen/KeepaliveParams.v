(* GENERATED from /repo by harness/translate.py on every run. Do not edit. *)
(* Constants of the keep-alive lock, extracted from
     jug/backends/file_keepalive_monitor.py   main():  sleep(5) ; counter = counter_start = 60
     jug/backends/file_store.py               file_keepalive_based_lock.is_failed:  st_mtime <= time() - 1800
                                              file_based_lock._FAILED_TIMESTAMP = (1, 1)
   Shapes the model was transcribed from (compared leniently, see harness/translate_c19.py; behaviour is tied by C19's runs):
     loop order  sleep ; parent_gone_or_changed -> break ; counter -= 1 ; if counter <= 0: reset, utime(lock, None),
     OSError -> break ;  parent_gone_or_changed = (getppid() != pid or == 1) or kill(pid, 0) raises OSError ;
     is_failed = is_locked() and st_mtime <= time() - expiry ;  file_based_lock.fail() = os.utime(fullname, _FAILED_TIMESTAMP) ;
     file_keepalive_based_lock:  fail() = stop_monitor() ; super().fail()   release() = stop_monitor() ; super().release()
     get() = super().get(), then start_monitor() if acquired ;  stop_monitor() = monitor.kill() unless None ;
     start_monitor() = Popen([sys.executable, "-m", "jug.backends.file_keepalive_monitor", self.fullname]) (no cwd, no env). *)
From Coq Require Import ZArith.
From JugV Require Import Model.Keepalive.
Local Open Scope Z_scope.

Definition ka_period : Z := (5).
Definition ka_rounds : Z := (60).
Definition ka_expiry : Z := (1800).
Definition ka_failed_atime : Z := (1).
Definition ka_failed_mtime : Z := (1).

Definition ka_params : params :=
  {| p_period := ka_period; p_rounds := ka_rounds; p_expiry := ka_expiry; p_failed_ts := ka_failed_mtime |}.
