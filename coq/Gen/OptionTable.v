(* GENERATED from /repo by harness/translate.py on every run. Do not edit. *)
(* option table of jug/options.py and jug/subcommands/*.py (harness/translate_c20.py) *)
From Coq Require Import List ZArith Bool String.
From JugV Require Import Model.Options.
Import ListNotations.
Local Open Scope string_scope.

Definition table : option_table := {|
  t_subcommands := ["check"; "cleanup"; "count"; "demo"; "execute"; "graph"; "invalidate"; "pack"; "shell"; "sleep-until"; "status"; "test-jug"; "webstatus"];
  t_subdest := "subcommand";
  t_top := [
    {| a_sub := ""; a_flags := ["--version"]; a_dest := "version"; a_action := AVersion; a_nargs := NOne; a_default := None; a_type := TStr; a_required := false; a_mutex := None |}
  ];
  t_specific := [
    {| a_sub := "cleanup"; a_flags := ["--locks-only"]; a_dest := "cleanup_locks_only"; a_action := (AStoreConst (VBool true)); a_nargs := NOne; a_default := None; a_type := TStr; a_required := false; a_mutex := (Some 0%nat) |};
    {| a_sub := "cleanup"; a_flags := ["--failed-only"]; a_dest := "cleanup_failed_only"; a_action := (AStoreConst (VBool true)); a_nargs := NOne; a_default := None; a_type := TStr; a_required := false; a_mutex := (Some 0%nat) |};
    {| a_sub := "cleanup"; a_flags := ["--keep-locks"]; a_dest := "cleanup_keep_locks"; a_action := (AStoreConst (VBool true)); a_nargs := NOne; a_default := None; a_type := TStr; a_required := false; a_mutex := (Some 0%nat) |};
    {| a_sub := "execute"; a_flags := ["--wait-cycle-time"]; a_dest := "execute_wait_cycle_time"; a_action := AStore; a_nargs := NOne; a_default := None; a_type := TInt; a_required := false; a_mutex := None |};
    {| a_sub := "execute"; a_flags := ["--nr-wait-cycles"]; a_dest := "execute_nr_wait_cycles"; a_action := AStore; a_nargs := NOne; a_default := None; a_type := TInt; a_required := false; a_mutex := None |};
    {| a_sub := "execute"; a_flags := ["--target"]; a_dest := "execute_target"; a_action := AStore; a_nargs := NOne; a_default := None; a_type := TStr; a_required := false; a_mutex := None |};
    {| a_sub := "execute"; a_flags := ["--keep-going"]; a_dest := "execute_keep_going"; a_action := (AStoreConst (VBool true)); a_nargs := NOne; a_default := None; a_type := TStr; a_required := false; a_mutex := None |};
    {| a_sub := "execute"; a_flags := ["--keep-failed"]; a_dest := "execute_keep_failed"; a_action := (AStoreConst (VBool true)); a_nargs := NOne; a_default := None; a_type := TStr; a_required := false; a_mutex := None |};
    {| a_sub := "execute"; a_flags := ["--no-check-environment"]; a_dest := "execute_no_check_environment"; a_action := (AStoreConst (VBool true)); a_nargs := NOne; a_default := None; a_type := TStr; a_required := false; a_mutex := None |};
    {| a_sub := "graph"; a_flags := ["--no-status"]; a_dest := "graph_no_status"; a_action := (AStoreConst (VBool true)); a_nargs := NOne; a_default := None; a_type := TStr; a_required := false; a_mutex := None |};
    {| a_sub := "graph"; a_flags := ["--file-format"]; a_dest := "graph_format"; a_action := (AStoreConst (VStr "png")); a_nargs := NOne; a_default := None; a_type := TStr; a_required := false; a_mutex := None |};
    {| a_sub := "invalidate"; a_flags := ["--target"; "--invalid"]; a_dest := "invalid_name"; a_action := AStore; a_nargs := NOne; a_default := None; a_type := TStr; a_required := true; a_mutex := None |};
    {| a_sub := "status"; a_flags := ["--cache"]; a_dest := "status_cache"; a_action := (AStoreConst (VBool true)); a_nargs := NOne; a_default := None; a_type := TStr; a_required := false; a_mutex := None |};
    {| a_sub := "status"; a_flags := ["--cache-file"]; a_dest := "status_cache_file"; a_action := AStore; a_nargs := NOne; a_default := None; a_type := TStr; a_required := false; a_mutex := None |};
    {| a_sub := "status"; a_flags := ["--clear"]; a_dest := "status_cache_clear"; a_action := (AStoreConst (VBool true)); a_nargs := NOne; a_default := None; a_type := TStr; a_required := false; a_mutex := None |};
    {| a_sub := "webstatus"; a_flags := ["--port"]; a_dest := "webstatus_port"; a_action := AStore; a_nargs := NOne; a_default := None; a_type := TStr; a_required := false; a_mutex := None |};
    {| a_sub := "webstatus"; a_flags := ["--ip"]; a_dest := "webstatus_ip"; a_action := AStore; a_nargs := NOne; a_default := None; a_type := TStr; a_required := false; a_mutex := None |}
  ];
  t_common := [
    {| a_sub := ""; a_flags := []; a_dest := "jugfile"; a_action := AStore; a_nargs := NOpt; a_default := None; a_type := TStr; a_required := false; a_mutex := None |};
    {| a_sub := ""; a_flags := ["--aggressive-unload"]; a_dest := "aggressive_unload"; a_action := (AStoreConst (VBool true)); a_nargs := NOne; a_default := None; a_type := TStr; a_required := false; a_mutex := None |};
    {| a_sub := ""; a_flags := ["--jugdir"]; a_dest := "jugdir"; a_action := AStore; a_nargs := NOne; a_default := None; a_type := TStr; a_required := false; a_mutex := None |};
    {| a_sub := ""; a_flags := ["--verbose"]; a_dest := "verbose"; a_action := AStore; a_nargs := NOne; a_default := None; a_type := TStr; a_required := false; a_mutex := None |};
    {| a_sub := ""; a_flags := ["--short"]; a_dest := "short"; a_action := (AStoreConst (VBool true)); a_nargs := NOne; a_default := None; a_type := TStr; a_required := false; a_mutex := None |};
    {| a_sub := ""; a_flags := ["--pdb"]; a_dest := "pdb"; a_action := (AStoreConst (VBool true)); a_nargs := NOne; a_default := None; a_type := TStr; a_required := false; a_mutex := None |};
    {| a_sub := ""; a_flags := ["--debug"]; a_dest := "debug"; a_action := (AStoreConst (VBool true)); a_nargs := NOne; a_default := None; a_type := TStr; a_required := false; a_mutex := None |};
    {| a_sub := ""; a_flags := ["--will-cite"]; a_dest := "will_cite"; a_action := (AStoreConst (VBool true)); a_nargs := NOne; a_default := None; a_type := TStr; a_required := false; a_mutex := None |};
    {| a_sub := ""; a_flags := []; a_dest := "user_args"; a_action := AStore; a_nargs := NStar; a_default := (Some (VList [])); a_type := TStr; a_required := false; a_mutex := None |}
  ];
  t_main_defaults := [
    ("jugdir", (VStr "%(jugfile)s.jugdata"));
    ("jugfile", (VStr "jugfile.py"));
    ("subcommand", VNone);
    ("aggressive_unload", (VBool false));
    ("invalid_name", VNone);
    ("argv", VNone);
    ("print_out", (VOther "print"));
    ("short", (VBool false));
    ("pdb", (VBool false));
    ("verbose", (VStr "quiet"));
    ("debug", (VBool false));
    ("will_cite", (VBool false))
  ];
  t_sub_defaults := [
    ("cleanup_keep_locks", (VBool false));
    ("cleanup_failed_only", (VBool false));
    ("cleanup_locks_only", (VBool false));
    ("execute_keep_going", (VBool false));
    ("execute_keep_failed", (VBool false));
    ("execute_target", VNone);
    ("execute_wait_cycle_time", (VInt (12)%Z));
    ("execute_nr_wait_cycles", (VInt (150)%Z));
    ("execute_no_check_environment", (VBool false));
    ("graph_no_status", (VBool false));
    ("graph_format", (VStr "png"));
    ("status_cache", (VBool false));
    ("status_cache_clear", (VBool false));
    ("status_cache_file", (VStr ".jugstatus.sqlite3"));
    ("webstatus_port", (VStr "8080"));
    ("webstatus_ip", (VStr "localhost"))
  ];
  t_coerce := CoerceBoolHelper;
  t_false_strings := [""; "0"; "false"; "off"]
|}.

(* read_configuration_file(None): the first of these that exists is read, only that one *)
Definition rc_candidates : list string := ["~/.config/jug/jugrc"; "~/.config/jugrc"; "~/.jug/configrc"].
