(* Model of jug/hash.py + Task/Tasklet/_getitem/mapreduce/CustomHash/NoHash __jug_hash__:
   the exact sequence of sha1.update() chunks.  Executable definitions only.

   Byte strings are interned by the harness: a chunk is [TB id].  Reserved ids:
     1 "<class 'list'>"  2 "<class 'tuple'>"  3 b'set'  4 b'frozenset'  5 b'dict'  6 b'np.ndarray'
     7 b'Tasklet'  8 b'nohash'   11.. pickles of the label strings 'hash1','name','args','kwargs',
     'base','f'   17 pickle('jug.task._getitem')  18 pickle('<lambda>')   1000+i pickle(i).
   SHA-1 is never computed in Coq: a nested digest is the token [TDigest sub] (the raw hexdigest
   of a hash object that was fed [sub]) or [TPDigest sub] (pickle.dumps of that hexdigest). *)
From Coq Require Import List PArith NArith Bool.
Import ListNotations.

Inductive seqkind := KList | KTuple.
Inductive setkind := KSet | KFrozen.

(* The argument universe.  Sets and dicts carry their children IN THE ORDER IN WHICH THEY ARE FED
   TO THE HASH; arrays carry a layout tag that the hash must ignore. *)
Inductive pv : Type :=
| Leaf (l : positive)                                  (* anything pickled whole *)
| RawB (l : positive)                                  (* object whose __jug_hash__ is the fixed byte string l *)
| PSeq (k : seqkind) (xs : list pv)
| PSet (k : setkind) (xs : list pv)
| PDict (kvs : list (pv * pv))
| PArr (dtype shape cbytes : positive) (lay : nat)     (* non-object ndarray: C-order bytes *)
| PObjArr (dtype shape : positive) (xs : list pv) (lay : nat)
| PHashed (mark : option positive) (fields : list (positive * pv)).
                                                       (* object whose __jug_hash__ = sha1(mark? ++ labelled fields) *)

Inductive tok : Type :=
| TB (id : positive)
| TDigest (sub : list tok)
| TPDigest (sub : list tok).

Definition M_list : positive := 1.   Definition M_tuple : positive := 2.
Definition M_set : positive := 3.    Definition M_frozenset : positive := 4.
Definition M_dict : positive := 5.   Definition M_ndarray : positive := 6.
Definition M_tasklet : positive := 7. Definition B_nohash : positive := 8.
Definition L_hash1 : positive := 11. Definition L_name : positive := 12.
Definition L_args : positive := 13.  Definition L_kwargs : positive := 14.
Definition L_base : positive := 15.  Definition L_f : positive := 16.
Definition S_getitem : positive := 17. Definition S_lambda : positive := 18.
Definition int_id (i : nat) : positive := Pos.of_nat (1000 + i).

Definition seq_mark (k : seqkind) := match k with KList => M_list | KTuple => M_tuple end.
Definition set_mark (k : setkind) := match k with KSet => M_set | KFrozen => M_frozenset end.

Fixpoint enumT (i : nat) (ls : list (list tok)) : list tok :=
  match ls with [] => [] | a :: t => TB (int_id i) :: a ++ enumT (S i) t end.
Fixpoint enumTD (i : nat) (ls : list (list tok)) : list tok :=
  match ls with [] => [] | a :: t => TB (int_id i) :: TPDigest a :: enumTD (S i) t end.
Definition itemsT (l : list (list tok * list tok)) : list tok :=
  flat_map (fun p => TPDigest (fst p) :: snd p) l.
Definition opt_mark (m : option positive) : list tok := match m with Some b => [TB b] | None => [] end.

Section Stream.
  (* [delim = true] additionally emits a length chunk after every container marker: the
     delimited scheme of C08 (not what the code does; used to characterise the known collisions) *)
  Variable delim : bool.

  Definition len_tok (n : nat) : list tok := if delim then [TB (int_id n)] else [].

  (* hash_update(M, [(label, e)]) after the label: what is fed for element e.
     list/tuple: marker, then enumerate(e): pickle(i), element.
     set/frozenset: marker, then enumerate(sorted digests): pickle(i), pickle(hash_one(el)).
     dict: marker, then items sorted by hash_one(key): pickle(hash_one(key)), value.
     Children of sets and dicts are emitted in the order given (see Proofs/HashFacts.v for the sort). *)
  Fixpoint stream_elem (e : pv) : list tok :=
    match e with
    | Leaf l => [TB l]
    | RawB l => [TB l]
    | PSeq k xs => TB (seq_mark k) :: len_tok (length xs) ++ enumT 0 (map stream_elem xs)
    | PSet k xs => TB (set_mark k) :: len_tok (length xs) ++
                   enumTD 0 (map (fun x => TB L_hash1 :: stream_elem x) xs)
    | PDict kvs => TB M_dict :: len_tok (length kvs) ++
                   itemsT (map (fun kv => (TB L_hash1 :: stream_elem (fst kv), stream_elem (snd kv))) kvs)
    | PArr d s c _ => [TB M_ndarray; TB d; TB s; TB c]
    | PObjArr d s xs _ => TB M_ndarray :: TB d :: TB s :: len_tok (length xs) ++ enumT 0 (map stream_elem xs)
    | PHashed m fields =>
        [TDigest (opt_mark m ++ flat_map (fun f => TB (fst f) :: stream_elem (snd f)) fields)]
    end.

  (* hash_one(e): what the hash object is fed *)
  Definition hash_one_stream (e : pv) : list tok := TB L_hash1 :: stream_elem e.
End Stream.

Definition stream := stream_elem false.
Definition dstream := stream_elem true.

(* ---- how jug's objects are built from the universe ---------------------------------------- *)
(* Task(f, *args, **kwargs): sha1 over ('name', name), ('args', args tuple), ('kwargs', kwargs dict) *)
Definition mkTask (name : positive) (args : list pv) (kwargs : list (positive * pv)) : pv :=
  PHashed None [(L_name, Leaf name); (L_args, PSeq KTuple args);
                (L_kwargs, PDict (map (fun kv => (Leaf (fst kv), snd kv)) kwargs))].
(* Tasklet(base, f): sha1 over b'Tasklet', ('base', base), ('f', f) *)
Definition mkTasklet (base f : pv) : pv := PHashed (Some M_tasklet) [(L_base, base); (L_f, f)].
(* hash_one(x) used as an object's __jug_hash__ *)
Definition mkHashOne (x : pv) : pv := PHashed None [(L_hash1, x)].
(* _getitem(idx).__jug_hash__ = hash_one(('jug.task._getitem', idx)) *)
Definition mkGetitem (idx : pv) : pv := mkHashOne (PSeq KTuple [Leaf S_getitem; idx]).

(* ---- executable equality on tokens (for the case files) ------------------------------------ *)
Fixpoint tok_eqb (a b : tok) : bool :=
  match a, b with
  | TB x, TB y => Pos.eqb x y
  | TDigest s, TDigest s' | TPDigest s, TPDigest s' =>
      (fix leqb (l l' : list tok) : bool :=
         match l, l' with
         | [], [] => true
         | x :: t, y :: t' => tok_eqb x y && leqb t t'
         | _, _ => false
         end) s s'
  | _, _ => false
  end.

Fixpoint toks_eqb (l l' : list tok) : bool :=
  match l, l' with
  | [], [] => true
  | x :: t, y :: t' => tok_eqb x y && toks_eqb t t'
  | _, _ => false
  end.

(* ---- C08: the universe of the injectivity theorems, container extents, erasure ------------- *)
(* container markers: the byte strings after which hash_update recurses *)
Definition cmark (l : positive) : bool := (l <=? 6)%positive.
(* labels of the fields of an object hashed through __jug_hash__ *)
Definition is_label (l : positive) : bool := (11 <=? l)%positive && (l <=? 16)%positive.
Definition mark_ok (m : option positive) : bool :=
  match m with None => true | Some b => negb (is_label b) && negb (cmark b) end.

Section Universe.
  (* which dtype ids denote dtypes with dtype.hasobject (those arrays are hashed element-wise) *)
  Variable isobj : positive -> bool.

  (* The task-invocation universe: no CustomHash/NoHash (RawB) anywhere; a pickle is never one of
     the container-marker byte strings; the array branch taken agrees with the dtype; objects
     hashed through __jug_hash__ feed an optional non-label marker and then labelled fields. *)
  Fixpoint wfb (v : pv) : bool :=
    match v with
    | Leaf l => negb (cmark l)
    | RawB _ => false
    | PSeq _ xs => forallb wfb xs
    | PSet _ xs => forallb wfb xs
    | PDict kvs => forallb (fun kv => wfb (fst kv) && wfb (snd kv)) kvs
    | PArr d _ _ _ => negb (isobj d)
    | PObjArr d _ xs _ => isobj d && forallb wfb xs
    | PHashed m fs => mark_ok m && forallb (fun f => is_label (fst f) && wfb (snd f)) fs
    end.

  (* [erase] removes the length chunk after every container marker (a one-pass scan of the chunk
     sequence; the 4th chunk after b'np.ndarray' is a length only for object dtypes) *)
  Section EraseList.
    Variable et : tok -> tok.
    Fixpoint erase_list (ts : list tok) : list tok :=
      match ts with
      | [] => []
      | TB m :: rest =>
          if cmark m then
            if (m =? M_ndarray)%positive then
              match rest with
              | TB d :: TB s :: x :: rest' =>
                  TB m :: TB d :: TB s :: (if isobj d then erase_list rest' else et x :: erase_list rest')
              | _ => TB m :: rest
              end
            else
              match rest with
              | _ :: rest' => TB m :: erase_list rest'
              | [] => [TB m]
              end
          else TB m :: erase_list rest
      | t :: rest => et t :: erase_list rest
      end.
  End EraseList.

  Fixpoint erase_tok (t : tok) : tok :=
    match t with
    | TB x => TB x
    | TDigest sub => TDigest (erase_list erase_tok sub)
    | TPDigest sub => TPDigest (erase_list erase_tok sub)
    end.
  Definition erase : list tok -> list tok := erase_list erase_tok.
End Universe.

(* container extents in the order in which the markers are fed to the hash *)
Section Lens.
  Variable delim : bool.
  Definition len_l (n : nat) : list nat := if delim then [] else [n].
  Fixpoint lensd (v : pv) : list nat :=
    match v with
    | Leaf _ | RawB _ | PArr _ _ _ _ => []
    | PSeq _ xs | PSet _ xs | PObjArr _ _ xs _ => len_l (length xs) ++ flat_map lensd xs
    | PDict kvs => len_l (length kvs) ++ flat_map (fun kv => lensd (fst kv) ++ lensd (snd kv)) kvs
    | PHashed _ fs => flat_map (fun f => lensd (snd f)) fs
    end.
End Lens.
Definition lens := lensd false.

