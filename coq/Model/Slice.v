(* Python slice / range semantics in Z, and the index arithmetic of
   jug.mapreduce.block_access / block_access_slice.  Executable definitions only. *)
From Coq Require Import List Arith ZArith Bool.
From JugV Require Import Model.MapReduce.
Import ListNotations.
Local Open Scope Z_scope.

(* a Python slice object: None or an integer in each position *)
Record pyslice := { sl_start : option Z; sl_stop : option Z; sl_step : option Z }.

(* slice.indices(len)  (CPython _PySlice_GetLongIndices); None = ValueError (step 0) *)
Definition py_indices (sl : pyslice) (len : Z) : option (Z * Z * Z) :=
  let st := match sl_step sl with None => 1 | Some s => s end in
  if st =? 0 then None else
  let lower := if st <? 0 then -1 else 0 in
  let upper := if st <? 0 then len - 1 else len in
  let clamp v := if v <? 0 then Z.max (v + len) lower else Z.min v upper in
  let s := match sl_start sl with None => if st <? 0 then upper else lower | Some v => clamp v end in
  let e := match sl_stop sl with None => if st <? 0 then lower else upper | Some v => clamp v end in
  Some (s, e, st).

(* a Python range object *)
Record prange := { r_start : Z; r_stop : Z; r_step : Z }.

Definition range_len (r : prange) : Z :=
  if 0 <? r_step r then
    (if r_start r <? r_stop r then (r_stop r - r_start r - 1) / r_step r + 1 else 0)
  else if r_step r <? 0 then
    (if r_stop r <? r_start r then (r_start r - r_stop r - 1) / (- r_step r) + 1 else 0)
  else 0.

(* range[i] for an int i: None = IndexError *)
Definition range_get (r : prange) (i : Z) : option Z :=
  let n := range_len r in
  let i' := if i <? 0 then i + n else i in
  if (0 <=? i') && (i' <? n) then Some (r_start r + i' * r_step r) else None.

(* range[slice]: None = ValueError *)
Definition range_slice (r : prange) (sl : pyslice) : option prange :=
  match py_indices sl (range_len r) with
  | Some (s, e, k) => Some {| r_start := r_start r + s * r_step r;
                              r_stop := r_start r + e * r_step r;
                              r_step := r_step r * k |}
  | None => None
  end.

(* list(range) *)
Definition range_list (r : prange) : list Z :=
  map (fun i => r_start r + Z.of_nat i * r_step r) (seq 0 (Z.to_nat (range_len r))).

Section Lists.
  Context {A : Type}.

  Definition znth_error (l : list A) (p : Z) : option A :=
    if p <? 0 then None else nth_error l (Z.to_nat p).

  (* Python's  l[sl]  on a list:  [l[i] for i in range(s,e,k)] with (s,e,k) = sl.indices(len(l)) ; None = ValueError *)
  Definition py_list_slice (l : list A) (sl : pyslice) : option (list (option A)) :=
    match py_indices sl (Z.of_nat (length l)) with
    | Some (s, e, k) => Some (map (znth_error l) (range_list {| r_start := s; r_stop := e; r_step := k |}))
    | None => None
    end.

  (* Python's l[i] for an int *)
  Definition py_list_get (l : list A) (i : Z) : option A :=
    let n := Z.of_nat (length l) in
    let i' := if i <? 0 then i + n else i in
    if (0 <=? i') && (i' <? n) then znth_error l i' else None.
End Lists.

(* ---- block_access(blocks, block_size, len) ---------------------------------------------- *)
Section BlockAccess.
  Context {Y : Type}.

  Record baccess := { ba_blocks : list (list Y); ba_bs : nat; ba_len : Z }.

  (* block_access.__getitem__(int): negative indices count from the end; None = IndexError *)
  Definition ba_get (b : baccess) (p : Z) : option Y :=
    let p' := if p <? 0 then p + ba_len b else p in
    if (0 <=? p') && (p' <? ba_len b) then block_get (ba_blocks b) (ba_bs b) (Z.to_nat p') else None.

  (* block_access_slice(base, (start, stop, stride)) *)
  Record bslice := { bs_base : baccess; bs_range : prange }.

  (* block_access.__getitem__(slice) *)
  Definition ba_slice (b : baccess) (sl : pyslice) : option bslice :=
    match py_indices sl (ba_len b) with
    | Some (s, e, k) => Some {| bs_base := b; bs_range := {| r_start := s; r_stop := e; r_step := k |} |}
    | None => None
    end.

  Definition bslice_len (s : bslice) : Z := range_len (bs_range s).

  (* block_access_slice.__getitem__(int) : self.base[self._range()[p]] *)
  Definition bslice_get (s : bslice) (p : Z) : option Y :=
    match range_get (bs_range s) p with
    | Some q => ba_get (bs_base s) q
    | None => None
    end.

  (* block_access_slice.__getitem__(slice) *)
  Definition bslice_slice (s : bslice) (sl : pyslice) : option bslice :=
    match range_slice (bs_range s) sl with
    | Some r => Some {| bs_base := bs_base s; bs_range := r |}
    | None => None
    end.

  (* block_access_slice.__jug_value__ : [value(self[i]) for i in range(len(self))] *)
  Definition bslice_value (s : bslice) : list (option Y) :=
    map (fun i => bslice_get s (Z.of_nat i)) (seq 0 (Z.to_nat (bslice_len s))).

  (* the mapped sequence for mapped values ys and map_step bs (map_step <> 1) *)
  Definition mk_baccess (ys : list Y) (bs : nat) : baccess :=
    {| ba_blocks := map_blocks ys bs; ba_bs := bs; ba_len := Z.of_nat (length ys) |}.
End BlockAccess.
